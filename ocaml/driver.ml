(* Generic correspondence driver: reads harness records, runs the extracted model (Model.run) and the
   extracted property oracle (Model.oracle) on each, prints one verdict line per record:
     <lineno> <ok|diff|none|ipanic> <oracle: 1 holds | 0 fails | 2 n/a> [model output when it differs]
   Z stays the extracted inductive type; numbers travel as signed hex. *)
open Model

let rec pos_of_bits (bits : bool list) (acc : positive) : positive =
  match bits with
  | [] -> acc
  | b :: tl -> pos_of_bits tl (if b then XI acc else XO acc)

let z_of_hex (s : string) : z =
  let neg = String.length s > 0 && s.[0] = '-' in
  let s = if neg then String.sub s 1 (String.length s - 1) else s in
  let bits = ref [] in
  String.iter (fun c ->
    let d = match c with
      | '0'..'9' -> Char.code c - 48
      | 'a'..'f' -> Char.code c - 87
      | 'A'..'F' -> Char.code c - 55
      | _ -> failwith ("bad hex digit in " ^ s) in
    bits := !bits @ [d land 8 <> 0; d land 4 <> 0; d land 2 <> 0; d land 1 <> 0]) s;
  let rec strip = function false :: tl -> strip tl | l -> l in
  match strip !bits with
  | [] -> Z0
  | _ :: tl -> let p = pos_of_bits tl XH in if neg then Zneg p else Zpos p

let hex_of_pos (p : positive) : string =
  (* collect bits LSB first *)
  let rec bits p acc = match p with
    | XH -> true :: acc
    | XO q -> bits q (false :: acc)
    | XI q -> bits q (true :: acc) in
  (* bits returns MSB first after accumulation reversed: we accumulate LSB->MSB by consing, so acc is MSB first *)
  let rec collect p acc = match p with
    | XH -> true :: acc
    | XO q -> collect q (false :: acc)
    | XI q -> collect q (true :: acc) in
  ignore bits;
  let msb_first = collect p [] in
  let n = List.length msb_first in
  let pad = (4 - n mod 4) mod 4 in
  let l = (List.init pad (fun _ -> false)) @ msb_first in
  let buf = Buffer.create 16 in
  let rec go = function
    | a :: b :: c :: d :: tl ->
      let v = (if a then 8 else 0) + (if b then 4 else 0) + (if c then 2 else 0) + (if d then 1 else 0) in
      Buffer.add_char buf "0123456789abcdef".[v]; go tl
    | _ -> () in
  go l;
  let r = Buffer.contents buf in
  let i = ref 0 in
  while !i < String.length r - 1 && r.[!i] = '0' do incr i done;
  String.sub r !i (String.length r - !i)

let hex_of_z = function
  | Z0 -> "0"
  | Zpos p -> hex_of_pos p
  | Zneg p -> "-" ^ hex_of_pos p

let words s = List.filter (fun x -> x <> "") (String.split_on_char ' ' (String.trim s))
let vec_of s = List.map z_of_hex (words s)
let vecs_of s = if String.trim s = "" then [] else List.map vec_of (String.split_on_char ';' s)
let str_vec v = String.concat " " (List.map hex_of_z v)
let str_vecs vs = String.concat ";" (List.map str_vec vs)

let () =
  let ic = if Array.length Sys.argv > 1 then open_in Sys.argv.(1) else stdin in
  let n = ref 0 in
  (try
    while true do
      let line = input_line ic in
      incr n;
      match String.split_on_char '#' line with
      | [code; ps; vs; outs] ->
        let code = z_of_hex (Printf.sprintf "%x" (int_of_string (String.trim code))) in
        let ps = vec_of ps and vs = vecs_of vs in
        let ipanic = String.length outs >= 5 && String.sub outs 0 5 = "PANIC" in
        let m = run code ps vs in
        let iouts = if ipanic then [] else vecs_of outs in
        let orc = if ipanic then 2 else (match oracle code ps vs iouts with Z0 -> 0 | Zpos XH -> 1 | _ -> 2) in
        (match m with
         | None -> Printf.printf "%d %s %d\n" !n (if ipanic then "ok" else "none") orc
         | Some mo ->
           if ipanic then Printf.printf "%d ipanic %d %s\n" !n orc (str_vecs mo)
           else if mo = iouts then Printf.printf "%d ok %d\n" !n orc
           else Printf.printf "%d diff %d %s\n" !n orc (str_vecs mo))
      | _ -> Printf.printf "%d malformed 2\n" !n
    done
  with End_of_file -> ());
  flush stdout
