//! NTT120 scalar layer ops (opcodes 71xx) for the C07 harness: the REAL functions of
//! poulpy_cpu_ref::reference::ntt120::{arithmetic, mat_vec} (generic in the prime set) and the `Ntt*` trait
//! implementations of NTT120Ref / NTT120Avx (Primes30 only).
//!
//! header: be pset (padded with zeros; every other argument travels in the vectors, e.g. the mask of 7102 is vs[1][0])
//!                              be: 3 = reference functions `*_ref::<P>`, 4 = NTT120Avx through the traits,
//!                                  5 = NTT120Ref through the traits;   pset: 29 | 30 | 31 (traits: 30 only)
//! u64 / u32 values travel as non-negative numbers, i128 outputs as they are.
//!
//! Domains.  The reference functions accept every u64 / u32.  The AVX kernels document narrower input ranges
//! (c_from_b / b_to_znx128: x < Q[k] << 33; add/sub/negate: x < 2 * (Q[k] << 33)); AVX records are generated
//! inside those ranges.  bbc/bbb/baa: ell < 10 000 (documented), a few records sit at ell = 9 999 with all-ones inputs.
use poulpy_cpu_avx::NTT120Avx;
use poulpy_cpu_ref::NTT120Ref;
use poulpy_cpu_ref::reference::ntt120::{
    NttAdd, NttCFromB, NttFromZnx64, NttMulBbb, NttMulBbc, NttMulBbc1ColX2, NttMulBbc2ColsX2, NttNegate, NttSub, NttToZnx128,
    arithmetic::{
        add_bbb_ref, add_ccc_ref, b_from_znx64_masked_ref, b_from_znx64_ref, b_to_znx128_ref, c_from_b_ref, c_from_znx64_ref,
    },
    mat_vec::{
        BaaMeta, BbbMeta, BbcMeta, vec_mat1col_product_baa_ref, vec_mat1col_product_bbb_ref, vec_mat1col_product_bbc_ref,
        vec_mat1col_product_x2_bbc_ref, vec_mat2cols_product_x2_bbc_ref,
    },
    primes::{PrimeSet, Primes29, Primes30, Primes31},
    types::Q_SHIFTED,
};
use poulpy_verif_harness::rec::*;

fn to_u64(v: &[i128]) -> Vec<u64> { v.iter().map(|x| *x as u64).collect() }
fn to_u32(v: &[i128]) -> Vec<u32> { v.iter().map(|x| *x as u32).collect() }
fn from_u64(v: &[u64]) -> Vec<i128> { v.iter().map(|x| *x as i128).collect() }
fn from_u32(v: &[u32]) -> Vec<i128> { v.iter().map(|x| *x as i128).collect() }
/// the u32 view of a q120b slice (little endian: low word first), as `bytemuck::cast_slice` gives it
fn u32_view(v: &[u64]) -> Vec<u32> { v.iter().flat_map(|x| [*x as u32, (*x >> 32) as u32]).collect() }

fn ref_op<P: PrimeSet>(r: &Rec) -> Vec<Vec<i128>> {
    let e: Vec<i128> = vec![];
    let x = r.vs.first().unwrap_or(&e);
    let y = r.vs.get(1).unwrap_or(&e);
    match r.code {
        7100 => {
            let (baa, bbb, bbc) = (BaaMeta::<P>::new(), BbbMeta::<P>::new(), BbcMeta::<P>::new());
            let mut a = vec![baa.h as i128]; a.extend(from_u64(&baa.h_pow_red));
            let mut b = vec![bbb.h as i128, bbb.s1h_pow_red as i128];
            for t in [&bbb.s2l_pow_red, &bbb.s2h_pow_red, &bbb.s3l_pow_red, &bbb.s3h_pow_red, &bbb.s4l_pow_red, &bbb.s4h_pow_red] { b.extend(from_u64(t)); }
            let mut c = vec![bbc.h as i128]; c.extend(from_u64(&bbc.s2l_pow_red)); c.extend(from_u64(&bbc.s2h_pow_red));
            vec![a, b, c, from_u64(&Q_SHIFTED)]
        }
        7101 => { let xi = v64(x); let mut res = vec![0u64; 4 * xi.len()]; b_from_znx64_ref::<P>(xi.len(), &mut res, &xi); vec![from_u64(&res)] }
        7102 => { let xi = v64(x); let mut res = vec![0u64; 4 * xi.len()]; b_from_znx64_masked_ref::<P>(xi.len(), &mut res, &xi, y[0] as i64); vec![from_u64(&res)] }
        7103 => { let xi = v64(x); let mut res = vec![0u32; 8 * xi.len()]; c_from_znx64_ref::<P>(xi.len(), &mut res, &xi); vec![from_u32(&res)] }
        7104 => { let xu = to_u64(x); let nn = xu.len() / 4; let mut res = vec![0u32; 8 * nn]; c_from_b_ref::<P>(nn, &mut res, &xu); vec![from_u32(&res)] }
        7105 => { let xu = to_u64(x); let nn = xu.len() / 4; let mut res = vec![0i128; nn]; b_to_znx128_ref::<P>(nn, &mut res, &xu); vec![res] }
        7106 => { let (xu, yu) = (to_u64(x), to_u64(y)); let nn = xu.len() / 4; let mut res = vec![0u64; 4 * nn]; add_bbb_ref::<P>(nn, &mut res, &xu, &yu); vec![from_u64(&res)] }
        7107 => { let (xu, yu) = (to_u32(x), to_u32(y)); let nn = xu.len() / 8; let mut res = vec![0u32; 8 * nn]; add_ccc_ref::<P>(nn, &mut res, &xu, &yu); vec![from_u32(&res)] }
        7110 => { let (xu, yu) = (to_u32(x), to_u32(y)); let ell = xu.len() / 8; let mut res = vec![0u64; 4];
                  vec_mat1col_product_bbc_ref::<P>(&BbcMeta::<P>::new(), ell, &mut res, &xu, &yu); vec![from_u64(&res)] }
        7111 => { let (xu, yu) = (to_u32(x), to_u32(y)); let ell = xu.len() / 16; let mut res = vec![0u64; 8];
                  vec_mat1col_product_x2_bbc_ref::<P>(&BbcMeta::<P>::new(), ell, &mut res, &xu, &yu); vec![from_u64(&res)] }
        7112 => { let (xu, yu) = (to_u32(x), to_u32(y)); let ell = xu.len() / 16; let mut res = vec![0u64; 16];
                  vec_mat2cols_product_x2_bbc_ref::<P>(&BbcMeta::<P>::new(), ell, &mut res, &xu, &yu); vec![from_u64(&res)] }
        7113 => { let (xu, yu) = (to_u64(x), to_u64(y)); let ell = xu.len() / 4; let mut res = vec![0u64; 4];
                  vec_mat1col_product_bbb_ref::<P>(&BbbMeta::<P>::new(), ell, &mut res, &xu, &yu); vec![from_u64(&res)] }
        7114 => { let (xu, yu) = (to_u32(x), to_u32(y)); let ell = xu.len() / 4; let mut res = vec![0u64; 4];
                  vec_mat1col_product_baa_ref::<P>(&BaaMeta::<P>::new(), ell, &mut res, &xu, &yu); vec![from_u64(&res)] }
        7115 => { let xi = v64(x); let mut b = vec![0u64; 4 * xi.len()]; b_from_znx64_ref::<P>(xi.len(), &mut b, &xi);
                  let mut res = vec![0i128; xi.len()]; b_to_znx128_ref::<P>(xi.len(), &mut res, &b); vec![res] }
        7116 => {
            let (ai, bi) = (v64(x), v64(y));
            let meta = BbcMeta::<P>::new();
            let mut out = Vec::new();
            for (a, b) in ai.iter().zip(bi.iter()) {
                let mut ab = vec![0u64; 4]; b_from_znx64_ref::<P>(1, &mut ab, &[*a]);
                let mut bc = vec![0u32; 8]; c_from_znx64_ref::<P>(1, &mut bc, &[*b]);
                let mut prod = vec![0u64; 4]; vec_mat1col_product_bbc_ref::<P>(&meta, 1, &mut prod, &u32_view(&ab), &bc);
                let mut res = vec![0i128; 1]; b_to_znx128_ref::<P>(1, &mut res, &prod);
                out.push(res[0]);
            }
            vec![out]
        }
        _ => panic!("c07_ntt: op {} has no reference-function form", r.code),
    }
}

fn trait_op<B>(r: &Rec) -> Vec<Vec<i128>>
where
    B: NttFromZnx64 + NttToZnx128 + NttAdd + NttSub + NttNegate + NttCFromB + NttMulBbc + NttMulBbc1ColX2 + NttMulBbc2ColsX2 + NttMulBbb,
{
    let e: Vec<i128> = vec![];
    let x = r.vs.first().unwrap_or(&e);
    let y = r.vs.get(1).unwrap_or(&e);
    match r.code {
        7101 => { let xi = v64(x); let mut res = vec![0u64; 4 * xi.len()]; B::ntt_from_znx64(&mut res, &xi); vec![from_u64(&res)] }
        7102 => { let xi = v64(x); let mut res = vec![0u64; 4 * xi.len()]; B::ntt_from_znx64_masked(&mut res, &xi, y[0] as i64); vec![from_u64(&res)] }
        7104 => { let xu = to_u64(x); let nn = xu.len() / 4; let mut res = vec![0u32; 8 * nn]; B::ntt_c_from_b(nn, &mut res, &xu); vec![from_u32(&res)] }
        7105 => { let xu = to_u64(x); let nn = xu.len() / 4; let mut res = vec![0i128; nn]; B::ntt_to_znx128(&mut res, nn, &xu); vec![res] }
        7106 => { let (xu, yu) = (to_u64(x), to_u64(y)); let mut res = vec![0u64; xu.len()]; B::ntt_add(&mut res, &xu, &yu); vec![from_u64(&res)] }
        7108 => { let (xu, yu) = (to_u64(x), to_u64(y)); let mut res = vec![0u64; xu.len()]; B::ntt_sub(&mut res, &xu, &yu); vec![from_u64(&res)] }
        7109 => { let xu = to_u64(x); let mut res = vec![0u64; xu.len()]; B::ntt_negate(&mut res, &xu); vec![from_u64(&res)] }
        7110 => { let (xu, yu) = (to_u32(x), to_u32(y)); let ell = xu.len() / 8; let mut res = vec![0u64; 4];
                  B::ntt_mul_bbc(&BbcMeta::<Primes30>::new(), ell, &mut res, &xu, &yu); vec![from_u64(&res)] }
        7111 => { let (xu, yu) = (to_u32(x), to_u32(y)); let ell = xu.len() / 16; let mut res = vec![0u64; 8];
                  B::ntt_mul_bbc_1col_x2(&BbcMeta::<Primes30>::new(), ell, &mut res, &xu, &yu); vec![from_u64(&res)] }
        7112 => { let (xu, yu) = (to_u32(x), to_u32(y)); let ell = xu.len() / 16; let mut res = vec![0u64; 16];
                  B::ntt_mul_bbc_2cols_x2(&BbcMeta::<Primes30>::new(), ell, &mut res, &xu, &yu); vec![from_u64(&res)] }
        7113 => { let (xu, yu) = (to_u64(x), to_u64(y)); let ell = xu.len() / 4; let mut res = vec![0u64; 4];
                  B::ntt_mul_bbb(&BbbMeta::<Primes30>::new(), ell, &mut res, &xu, &yu); vec![from_u64(&res)] }
        7115 => { let xi = v64(x); let mut b = vec![0u64; 4 * xi.len()]; B::ntt_from_znx64(&mut b, &xi);
                  let mut res = vec![0i128; xi.len()]; B::ntt_to_znx128(&mut res, xi.len(), &b); vec![res] }
        7116 => {
            let (ai, bi) = (v64(x), v64(y));
            let meta = BbcMeta::<Primes30>::new();
            let mut out = Vec::new();
            for (a, b) in ai.iter().zip(bi.iter()) {
                let mut ab = vec![0u64; 4]; B::ntt_from_znx64(&mut ab, &[*a]);
                let mut bc = vec![0u32; 8]; c_from_znx64_ref::<Primes30>(1, &mut bc, &[*b]);
                let mut prod = vec![0u64; 4]; B::ntt_mul_bbc(&meta, 1, &mut prod, &u32_view(&ab), &bc);
                let mut res = vec![0i128; 1]; B::ntt_to_znx128(&mut res, 1, &prod);
                out.push(res[0]);
            }
            vec![out]
        }
        _ => panic!("c07_ntt: op {} has no trait form", r.code),
    }
}

pub fn op(r: &Rec) -> Vec<Vec<i128>> {
    let (be, pset) = (r.ps[0], r.ps[1]);
    match (be, pset) {
        (3, 29) => ref_op::<Primes29>(r),
        (3, 30) => ref_op::<Primes30>(r),
        (3, 31) => ref_op::<Primes31>(r),
        (4, 30) => trait_op::<NTT120Avx>(r),
        (5, 30) => trait_op::<NTT120Ref>(r),
        _ => panic!("c07_ntt: bad (be, pset) = ({}, {})", be, pset),
    }
}

// ------------------------------------------------------------------------------------------------------------
// generators
fn q_of(pset: i128) -> [u64; 4] {
    match pset { 29 => Primes29::Q.map(|q| q as u64), 31 => Primes31::Q.map(|q| q as u64), _ => Primes30::Q.map(|q| q as u64) }
}

/// i64 values: boundary dictionary (i64::MIN/MAX, 0, +-1, +-2^k, +-2^k +- 1) and random
fn i64s(rng: &mut Rng, n: usize, bits: u32) -> Vec<i128> { (0..n).map(|_| rng.val64(bits) as i128).collect() }

/// a u64 residue for prime q: boundary values around multiples of q, q << 33, powers of two; `lim` = exclusive upper bound
fn u64_val(rng: &mut Rng, q: u64, lim: u128) -> i128 {
    let qs = (q as u128) << 33;
    let v: u128 = match rng.below(10) {
        0 => rng.pick(&[0u128, 1, (q - 1) as u128, q as u128, (q + 1) as u128, (1 << 32) - 1, 1 << 32, (1 << 32) + 1]),
        1 => rng.pick(&[qs - 1, qs, qs + 1, 2 * qs - 1, 2 * qs, 2 * qs + 1, u64::MAX as u128, (1u128 << 63) - 1, 1u128 << 63, (1u128 << 63) + q as u128]),
        2 => { let k = rng.below(64) as u32; let p = 1u128 << k; rng.pick(&[p, p - 1, p + 1]) }
        3 => (rng.below(1 << 20) as u128) * q as u128 + rng.pick(&[0u128, 1, (q - 1) as u128]),
        4 => rng.below(q) as u128,
        _ => rng.next() as u128,
    };
    (if v < lim { v } else { v % lim }) as i128
}
fn q120b(rng: &mut Rng, pset: i128, n: usize, dom: u32) -> Vec<i128> {
    // dom: 0 = any u64, 1 = below Q << 33, 2 = below 2 * (Q << 33), 3 = below 2^63
    let q = q_of(pset);
    (0..4 * n).map(|i| { let qk = q[i % 4]; let qs = (qk as u128) << 33;
        let lim = match dom { 1 => qs, 2 => (2 * qs).min(1u128 << 64), 3 => 1u128 << 63, _ => 1u128 << 64 }; u64_val(rng, qk, lim) }).collect()
}
fn u32s(rng: &mut Rng, n: usize, class: u64) -> Vec<i128> {
    (0..n).map(|_| (match class { 0 => u32::MAX as u64, 1 => 0, 2 => rng.pick(&[0u64, 1, u32::MAX as u64, 1 << 31, (1 << 31) - 1, 1 << 16]), _ => rng.next() & 0xFFFF_FFFF }) as i128).collect()
}
/// a well-formed q120c vector (r, r * 2^32 mod q) produced by the real conversion of random q120b values
fn q120c(rng: &mut Rng, pset: i128, n: usize) -> Vec<i128> {
    let b = to_u64(&q120b(rng, pset, n, 0));
    let mut c = vec![0u32; 8 * n];
    match pset { 29 => c_from_b_ref::<Primes29>(n, &mut c, &b), 31 => c_from_b_ref::<Primes31>(n, &mut c, &b), _ => c_from_b_ref::<Primes30>(n, &mut c, &b) }
    from_u32(&c)
}

/// the dispatcher in bin/c07.rs reads an 11-word header before looking at the opcode: pad with zeros
fn pad(mut ps: Vec<i128>) -> Vec<i128> { while ps.len() < 11 { ps.push(0); } ps }

pub fn generate(tier: &str, rng: &mut Rng, out: &mut Vec<Rec>) {
    let reps = if tier == "thorough" { 4000 } else { 420 };
    let period = if tier == "thorough" { 25 } else { 1000 }; // records at the documented accumulation limit ell = 9 999
    for pset in [29i128, 30, 31] { out.push(Rec::new(7100, pad(vec![3, pset]), vec![])); }
    let codes = [7101i64, 7102, 7103, 7104, 7105, 7106, 7107, 7108, 7109, 7110, 7111, 7112, 7113, 7114, 7115, 7116];
    for it in 0..reps {
        let code = codes[it % codes.len()];
        let has_trait = !matches!(code, 7103 | 7107 | 7114);
        let ref_only_fn = matches!(code, 7108 | 7109); // exist only as trait implementations
        let be: i128 = if ref_only_fn { rng.pick(&[4, 5]) } else if has_trait { rng.pick(&[3, 3, 4, 4, 5]) } else { 3 };
        let pset: i128 = if be == 3 { rng.pick(&[29, 30, 30, 31]) } else { 30 };
        let avx = be == 4;
        let n = rng.range(1, 12) as usize;
        let ps = vec![be, pset];
        let mut vs: Vec<Vec<i128>> = vec![];
        match code {
            7101 | 7103 | 7115 => vs.push(i64s(rng, n, 40)),
            7102 => { let rv = rng.i64(); let mask = rng.pick(&[-1i64, 0, 1, (1 << 17) - 1, i64::MAX, i64::MIN, -(1 << 20), rv]) as i128; vs.push(i64s(rng, n, 40)); vs.push(vec![mask]); }
            7104 | 7105 => vs.push(q120b(rng, pset, n, if avx { 1 } else { 0 })),
            // add_bbb_ref::<Primes31>: Q << 33 is close to 2^64, the documented `fits in 64 bits` does not hold (finding, see
            // theorem add_bbb_primes31_refuted); the stream stays where the u64 sum cannot wrap
            7106 | 7108 => { let d = if avx { 2 } else if pset == 31 { 3 } else { 0 }; vs.push(q120b(rng, pset, n, d)); vs.push(q120b(rng, pset, n, d)); }
            7109 => vs.push(q120b(rng, pset, n, if avx { 2 } else { 0 })),
            7107 => { let a = q120c(rng, pset, n); let b = q120c(rng, pset, n); vs.push(a); vs.push(b); }
            7110..=7112 => {
                let big = it % (codes.len() * period) < codes.len();
                // (the x2 forms share the accumulator code; their records stay shorter to spare the extracted model's stack)
                let ell = if big { if code == 7110 { 9_999 } else { 2_000 } } else { rng.pick(&[0usize, 1, 2, 3, 7, 16, 33]) };
                let (xw, yw) = match code { 7110 => (8, 8), 7111 => (16, 16), _ => (16, 32) };
                let class = if big { 0 } else { rng.below(6) };
                vs.push(u32s(rng, xw * ell, class));
                if !big && rng.below(2) == 0 { vs.push(q120c(rng, pset, yw / 8 * ell)); } else { vs.push(u32s(rng, yw * ell, class)); }
            }
            7113 => {
                let big = it % (codes.len() * period) < codes.len();
                let ell = if big { 9_999 } else { rng.pick(&[0usize, 1, 2, 3, 7, 16, 33]) };
                if big { vs.push(vec![u64::MAX as i128; 4 * ell]); vs.push(vec![u64::MAX as i128; 4 * ell]); }
                else { vs.push(q120b(rng, pset, ell, 0)); vs.push(q120b(rng, pset, ell, 0)); }
            }
            7114 => {
                let big = it % (codes.len() * period) < codes.len();
                let ell = if big { 9_999 } else { rng.pick(&[0usize, 1, 2, 3, 7, 16, 33]) };
                let class = if big { 0 } else { rng.below(6) };
                vs.push(u32s(rng, 4 * ell, class)); vs.push(u32s(rng, 4 * ell, class));
            }
            _ => { // 7116: |a * b| < Q / 2
                let bits = match pset { 29 => 57, 31 => 61, _ => 59 };
                let f = |rng: &mut Rng| -> i128 { let m = 1i64 << bits; let v: i64 = match rng.below(5) { 0 => rng.pick(&[m, -m, m - 1, 1 - m, 0, 1, -1]), 1 => rng.range(-9, 9), _ => rng.range(-m, m) }; v as i128 };
                vs.push((0..n).map(|_| f(rng)).collect()); vs.push((0..n).map(|_| f(rng)).collect());
            }
        }
        out.push(Rec::new(code, pad(ps), vs));
    }
}
