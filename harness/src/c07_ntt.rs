//! NTT120 scalar layer ops (opcodes 71xx) for the C07 harness. Stub: filled in by the NTT120 development.
use poulpy_verif_harness::rec::*;

pub fn op(r: &Rec) -> Vec<Vec<i128>> { panic!("c07_ntt: unknown op {}", r.code) }
pub fn generate(_tier: &str, _rng: &mut Rng, _out: &mut Vec<Rec>) {}
