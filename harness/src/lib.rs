//! poulpy verification harness: shared record format, PRNG, backend selector and the generic main.
//! Each property has its own binary (src/bin/cXX.rs) so that one property's harness never blocks another's build.
pub mod be;
pub mod hal;
pub mod rec;

use rec::{Out, Rec};
use std::io::{BufRead, Write};

/// generic entry point:
///   <bin> gen  <tier> <seed> <out_file>     generate inputs, run the implementation, write records
///   <bin> exec <in_file> <out_file>         re-run the implementation on the inputs of recorded lines
pub fn run_main(generate: fn(&str, u64) -> Vec<Rec>, exec: fn(&Rec) -> Out) {
    std::panic::set_hook(Box::new(|_| {}));
    let args: Vec<String> = std::env::args().collect();
    let mode = args.get(1).map(|s| s.as_str()).unwrap_or("");
    match mode {
        "gen" => {
            let tier = &args[2];
            let seed: u64 = args[3].parse().unwrap();
            let mut f = std::io::BufWriter::new(std::fs::File::create(&args[4]).unwrap());
            let recs = generate(tier, seed);
            for r in &recs {
                let o = exec(r);
                writeln!(f, "{}", r.line(&o)).unwrap();
            }
            eprintln!("harness: {} records", recs.len());
        }
        "list" => {
            // inputs only (no execution): lets the checker find the record on which the implementation dies with a signal
            let tier = &args[2];
            let seed: u64 = args[3].parse().unwrap();
            let mut f = std::io::BufWriter::new(std::fs::File::create(&args[4]).unwrap());
            for r in &generate(tier, seed) {
                writeln!(f, "{}", r.line(&Ok(vec![]))).unwrap();
            }
        }
        "exec" => {
            let inp = std::io::BufReader::new(std::fs::File::open(&args[2]).unwrap());
            let mut f = std::io::BufWriter::new(std::fs::File::create(&args[3]).unwrap());
            for line in inp.lines() {
                let line = line.unwrap();
                if let Some(r) = Rec::parse(&line) {
                    let o = exec(&r);
                    writeln!(f, "{}", r.line(&o)).unwrap();
                }
            }
        }
        _ => {
            eprintln!("usage: <bin> gen <tier> <seed> <out> | list <tier> <seed> <out> | exec <in> <out>");
            std::process::exit(2);
        }
    }
}
