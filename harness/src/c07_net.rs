//! NTT120 butterfly networks (opcodes 72xx): the REAL `NttTable::new` / `NttTableInv::new` / `ntt_ref` / `intt_ref` of
//! poulpy_cpu_ref::reference::ntt120::ntt (all `pub`, generic in the prime set), and the product pipeline
//! b_from_znx64 -> ntt -> c_from_b -> bbc product -> intt -> b_to_znx128 on the real reference functions.
//!
//! header: be(=3) pset logn dir, padded with zeros to 11 words (the C07 dispatcher reads 11 header words)
//!   7201  vs[0] = 4n u64 (q120b, any u64)          -> [data after ntt_ref]
//!   7202  vs[0] = 4n u64                           -> [data after intt_ref]
//!   7203  dir = 0 (NttTable) | 1 (NttTableInv)     -> [powomega ; per level q2bs[0..3] bs half_bs mask reduce ;
//!                                                      modulo_red_cst[0..3] mask h ; n input_bit_size output_bit_size]
//!   7204  vs[0], vs[1] = n i64 coefficients each   -> [i128 coefficients of the negacyclic product]
use poulpy_cpu_ref::reference::ntt120::{
    arithmetic::{b_from_znx64_ref, b_to_znx128_ref, c_from_b_ref},
    mat_vec::{BbcMeta, vec_mat1col_product_bbc_ref},
    ntt::{NttReducMeta, NttStepMeta, NttTable, NttTableInv, intt_ref, ntt_ref},
    primes::{PrimeSet, Primes29, Primes30, Primes31},
};
use poulpy_verif_harness::rec::*;

fn to_u64(v: &[i128]) -> Vec<u64> { v.iter().map(|x| *x as u64).collect() }
fn from_u64(v: &[u64]) -> Vec<i128> { v.iter().map(|x| *x as i128).collect() }
fn u32_view(v: &[u64]) -> Vec<u32> { v.iter().flat_map(|x| [*x as u32, (*x >> 32) as u32]).collect() }

fn dump(n: usize, powomega: &[u64], levels: &[NttStepMeta], red: &NttReducMeta, ibs: u64, obs: u64) -> Vec<Vec<i128>> {
    let mut lv = Vec::new();
    for l in levels {
        lv.extend(from_u64(&l.q2bs));
        lv.extend([l.bs as i128, l.half_bs as i128, l.mask as i128, l.reduce as i128]);
    }
    let mut rd = from_u64(&red.modulo_red_cst);
    rd.extend([red.mask as i128, red.h as i128]);
    vec![from_u64(powomega), lv, rd, vec![n as i128, ibs as i128, obs as i128]]
}

fn net_op<P: PrimeSet>(r: &Rec) -> Vec<Vec<i128>> {
    let e: Vec<i128> = vec![];
    let n = 1usize << (r.ps[2] as u32);
    let x = r.vs.first().unwrap_or(&e);
    let y = r.vs.get(1).unwrap_or(&e);
    match r.code {
        7201 => { let t = NttTable::<P>::new(n); let mut d = to_u64(x); ntt_ref::<P>(&t, &mut d); vec![from_u64(&d)] }
        7202 => { let t = NttTableInv::<P>::new(n); let mut d = to_u64(x); intt_ref::<P>(&t, &mut d); vec![from_u64(&d)] }
        7203 => {
            if r.ps[3] == 0 { let t = NttTable::<P>::new(n); dump(t.n, &t.powomega, &t.level_metadata, &t.reduc_metadata, t.input_bit_size, t.output_bit_size) }
            else { let t = NttTableInv::<P>::new(n); dump(t.n, &t.powomega, &t.level_metadata, &t.reduc_metadata, t.input_bit_size, t.output_bit_size) }
        }
        7204 => {
            let (a, b) = (v64(x), v64(y));
            let (fwd, inv, meta) = (NttTable::<P>::new(n), NttTableInv::<P>::new(n), BbcMeta::<P>::new());
            let (mut da, mut db) = (vec![0u64; 4 * n], vec![0u64; 4 * n]);
            b_from_znx64_ref::<P>(n, &mut da, &a);
            b_from_znx64_ref::<P>(n, &mut db, &b);
            ntt_ref::<P>(&fwd, &mut da);
            ntt_ref::<P>(&fwd, &mut db);
            let mut dbc = vec![0u32; 8 * n];
            c_from_b_ref::<P>(n, &mut dbc, &db);
            let mut prod = vec![0u64; 4 * n];
            for i in 0..n {
                vec_mat1col_product_bbc_ref::<P>(&meta, 1, &mut prod[4 * i..4 * i + 4], &u32_view(&da[4 * i..4 * i + 4]), &dbc[8 * i..8 * i + 8]);
            }
            intt_ref::<P>(&inv, &mut prod);
            let mut res = vec![0i128; n];
            b_to_znx128_ref::<P>(n, &mut res, &prod);
            vec![res]
        }
        _ => panic!("c07_net: unknown op {}", r.code),
    }
}

pub fn op(r: &Rec) -> Vec<Vec<i128>> {
    match r.ps[1] {
        29 => net_op::<Primes29>(r),
        30 => net_op::<Primes30>(r),
        31 => net_op::<Primes31>(r),
        p => panic!("c07_net: bad pset {}", p),
    }
}

// ------------------------------------------------------------------------------------------------------------
fn q_of(pset: i128) -> [u64; 4] {
    match pset { 29 => Primes29::Q.map(|q| q as u64), 31 => Primes31::Q.map(|q| q as u64), _ => Primes30::Q.map(|q| q as u64) }
}
fn pad(mut ps: Vec<i128>) -> Vec<i128> { while ps.len() < 11 { ps.push(0); } ps }

/// one u64 residue for prime q
fn one(rng: &mut Rng, q: u64) -> u64 {
    match rng.below(8) {
        0 => rng.pick(&[0u64, 1, q - 1, q, q + 1, u64::MAX, u64::MAX - 1, 1 << 63, (1 << 63) - 1, (q << 33) - 1, q << 33, (q << 32) + 1]),
        1 => { let k = rng.below(64) as u32; let p = 1u64 << k; rng.pick(&[p, p.wrapping_sub(1), p + 1]) }
        2 => rng.below(q),
        3 => u64::MAX - rng.below(1 << 20),
        _ => rng.next(),
    }
}
/// 4n u64 of a value class
fn data(rng: &mut Rng, pset: i128, n: usize, class: u64) -> Vec<i128> {
    let q = q_of(pset);
    let s = rng.below(n.trailing_zeros() as u64 + 1) as usize; // stride bit of the 0 / MAX patterns
    (0..4 * n).map(|j| { let (i, k) = (j / 4, j % 4);
        (match class {
            0 => u64::MAX,
            1 => 0,
            2 => if (i >> s) & 1 == 1 { u64::MAX } else { 0 },          // a-lanes 0, b-lanes MAX at some level: stresses a + q2bs - b
            3 => if (i >> s) & 1 == 0 { u64::MAX } else { 0 },
            4 => if i % (1 << s) == 0 { u64::MAX } else { 0 },          // block heads extreme
            5 => one(rng, q[k]),
            6 => rng.below(q[k]),
            _ => rng.next(),
        }) as i128 }).collect()
}

pub fn generate(tier: &str, rng: &mut Rng, out: &mut Vec<Rec>) {
    let thorough = tier == "thorough";
    // tables: every prime set and both directions up to 2^8 (quick) / 2^12 (thorough); Primes30 up to 2^11 in quick
    for pset in [29i128, 30, 31] {
        let top = if thorough { 12 } else if pset == 30 { 11 } else { 8 };
        for logn in 0..=top { for dir in [0i128, 1] { out.push(Rec::new(7203, pad(vec![3, pset, logn, dir]), vec![])); } }
    }
    // networks: every log n <= 12; all value classes x all prime sets at small sizes, fewer at large sizes
    // (the extracted model needs about 7 s for one n = 4096 record)
    let reps = if thorough { 5 } else { 1 };
    for rep in 0..reps {
        for logn in 0..=12u32 {
            let n = 1usize << logn;
            for code in [7201i64, 7202] {
                let cases: Vec<(u64, i128)> = if logn <= 5 {
                    (0..8u64).flat_map(|c| [29i128, 30, 31].map(|p| (c, p))).collect()
                } else if logn <= 8 {
                    [0u64, 2, 5, 7].iter().enumerate().map(|(j, c)| (*c, [29i128, 30, 31][(j + logn as usize + rep) % 3])).collect()
                } else if logn == 9 {
                    vec![(rng.pick(&[0, 2, 3]), 30), (7, rng.pick(&[29, 31]))]
                } else {
                    vec![(rng.pick(&[0, 2, 3, 5, 7]), if code == 7201 && logn == 12 { 30 } else { rng.pick(&[29, 30, 30, 31]) })]
                };
                for (class, pset) in cases {
                    out.push(Rec::new(code, pad(vec![3, pset, logn as i128]), vec![data(rng, pset, n, class)]));
                }
            }
        }
    }
    // pipeline: |a|,|b| < 2^bits with n * 2^(2 bits) * 2 < Q
    for it in 0..(if thorough { 90 } else { 18 }) {
        let logn = (it % 9) as u32 + if thorough && it % 4 == 3 { 2 } else { 0 }; // 0..8 (10 in thorough)
        let n = 1usize << logn;
        let pset: i128 = rng.pick(&[29, 30, 30, 31]);
        let total = match pset { 29 => 115u32, 31 => 123, _ => 119 };
        let bits = ((total - 2 - logn) / 2).min(62);
        let class = rng.below(4);
        let f = |rng: &mut Rng| -> Vec<i128> { (0..n).map(|i| { let mx = (1i64 << bits) - 1;
            (match class { 0 => mx, 1 => if i % 2 == 0 { mx } else { -mx }, 2 => rng.range(-9, 9), _ => rng.range(-mx, mx) }) as i128 }).collect() };
        let (a, b) = (f(rng), f(rng));
        out.push(Rec::new(7204, pad(vec![3, pset, logn as i128]), vec![a, b]));
    }
}
