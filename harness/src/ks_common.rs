//! Shared by the C03 (key-switching family) and C04 (external products, cmux, GGSW expansion) harnesses.
//!
//! Record layout (both properties):
//!   ps[0] be  ps[1] n  ps[2] nobs
//!   ps[3..6]   input  GLWE: base2k, size, rank
//!   ps[6..9]   output GLWE: base2k, size, rank
//!   ps[9..16]  key: base2k, size, rank_in (GGSW: rank+1 input columns are implied), rank_out, dsize, dnum, k (noise position)
//!   ps[16]     noise bound B (|e| <= B at 2^-k)   ps[17] seed   ps[18..] op specific
//!   vs[0] secret in (n*rank_in)   vs[1] secret out (n*rank_out)   vs[2..] op specific inputs
//! `nobs` = number of TRAILING vectors of `vs` that are observations of the implementation (output ciphertexts, flags):
//! operations whose output limbs the model does not reproduce (level L2 only) carry their outputs there and have the constant
//! output `1`; `exec` strips them and recomputes them, so a replay re-runs the implementation.
//! Level-L1 records (glwe_keyswitch, glwe_external_product, cmux) have nobs = 0 and the output ciphertext as output.
//!
//! Secrets are private fields of `GLWESecret`; their coefficients are read through the public API by decrypting the
//! ciphertext (0, .., 2^-4 at column i+1, ..): its phase is s_i * 2^-4.
#![allow(dead_code, unused_macros, unused_imports)]
pub use poulpy_core::api::*;
pub use poulpy_core::layouts::*;
pub use poulpy_core::{EncryptionLayout, DEFAULT_SIGMA_XE};
pub use poulpy_hal::api::*;
pub use poulpy_hal::layouts::*;
pub use poulpy_hal::source::Source;
pub use poulpy_verif_harness::hal::*;
pub use poulpy_verif_harness::rec::*;
pub use std::collections::HashMap;

pub const HDR: usize = 18;
pub const BOUND_XE: i128 = 20; // DEFAULT_BOUND_XE = 6 * 3.2 = 19.2 : |e| <= 19

pub fn src(seed: u64) -> Source {
    let mut s = [0u8; 32];
    s[..8].copy_from_slice(&seed.to_le_bytes());
    s[8..16].copy_from_slice(&(seed.wrapping_mul(0x9E37_79B9_7F4A_7C15)).to_le_bytes());
    Source::new(s)
}

pub fn us(x: i128) -> usize { x as usize }

#[derive(Clone, Copy, Debug)]
pub struct Hdr {
    pub be: i128, pub n: usize, pub nobs: usize,
    pub in_b: usize, pub in_size: usize, pub in_rank: usize,
    pub out_b: usize, pub out_size: usize, pub out_rank: usize,
    pub key_b: usize, pub key_size: usize, pub key_rin: usize, pub key_rout: usize, pub dsize: usize, pub dnum: usize, pub key_k: usize,
    pub bound: i128, pub seed: u64,
}
impl Hdr {
    pub fn parse(p: &[i128]) -> Hdr {
        Hdr { be: p[0], n: us(p[1]), nobs: us(p[2]), in_b: us(p[3]), in_size: us(p[4]), in_rank: us(p[5]),
              out_b: us(p[6]), out_size: us(p[7]), out_rank: us(p[8]),
              key_b: us(p[9]), key_size: us(p[10]), key_rin: us(p[11]), key_rout: us(p[12]), dsize: us(p[13]), dnum: us(p[14]), key_k: us(p[15]),
              bound: p[16], seed: p[17] as u64 }
    }
    pub fn ps(&self, extra: &[i128]) -> Vec<i128> {
        let mut v = vec![self.be, self.n as i128, self.nobs as i128, self.in_b as i128, self.in_size as i128, self.in_rank as i128,
             self.out_b as i128, self.out_size as i128, self.out_rank as i128,
             self.key_b as i128, self.key_size as i128, self.key_rin as i128, self.key_rout as i128, self.dsize as i128, self.dnum as i128, self.key_k as i128,
             self.bound, self.seed as i128];
        v.extend_from_slice(extra);
        v
    }
    pub fn glwe_in(&self) -> GLWELayout { glwe_layout(self.n, self.in_b, self.in_size, self.in_rank) }
    pub fn glwe_out(&self) -> GLWELayout { glwe_layout(self.n, self.out_b, self.out_size, self.out_rank) }
    pub fn gglwe(&self) -> GGLWELayout {
        GGLWELayout { n: Degree(self.n as u32), base2k: Base2K(self.key_b as u32), k: TorusPrecision((self.key_size * self.key_b) as u32),
                      rank_in: Rank(self.key_rin as u32), rank_out: Rank(self.key_rout as u32), dnum: Dnum(self.dnum as u32), dsize: Dsize(self.dsize as u32) }
    }
    pub fn ggsw(&self) -> GGSWLayout {
        GGSWLayout { n: Degree(self.n as u32), base2k: Base2K(self.key_b as u32), k: TorusPrecision((self.key_size * self.key_b) as u32),
                     rank: Rank(self.key_rout as u32), dnum: Dnum(self.dnum as u32), dsize: Dsize(self.dsize as u32) }
    }
    pub fn noise(&self) -> NoiseInfos { NoiseInfos::new(self.key_k, DEFAULT_SIGMA_XE, 6.0 * DEFAULT_SIGMA_XE).unwrap() }
}

pub fn glwe_layout(n: usize, b: usize, size: usize, rank: usize) -> GLWELayout {
    GLWELayout { n: Degree(n as u32), base2k: Base2K(b as u32), k: TorusPrecision((size * b) as u32), rank: Rank(rank as u32) }
}

/// GLWE from flat words (n * (rank+1) * size, limb-major)
pub fn glwe_from(n: usize, b: usize, size: usize, rank: usize, flat: &[i128]) -> GLWE<Vec<u8>> {
    let mut ct = GLWE::alloc_from_infos(&glwe_layout(n, b, size, rank));
    assert_eq!(flat.len(), n * (rank + 1) * size, "glwe_from: bad length");
    let bytes = words_to_bytes(&v64(flat));
    let d: &mut Vec<u8> = &mut ct.data_mut().data;
    d[..bytes.len()].copy_from_slice(&bytes);
    ct
}
pub fn glwe_dump<D: DataRef>(ct: &GLWE<D>) -> Vec<i128> {
    let v = ct.data();
    let mut out = Vec::with_capacity(v.n() * v.cols() * v.size());
    for j in 0..v.size() { for c in 0..v.cols() { out.extend(v.at(c, j).iter().map(|x| *x as i128)); } }
    out
}
/// matrix of GLWE (GGLWE / GGSW / keys) in the order the model's `pmat_of_flat` expects:
/// for q = row*cols_in + ci, for c = limb*cols_out + co : n coefficients
pub fn mat_dump<'a, F: Fn(usize, usize) -> GLWE<&'a [u8]>>(at: F, rows: usize, cols_in: usize) -> Vec<i128> {
    let mut out = Vec::new();
    for row in 0..rows { for ci in 0..cols_in {
        let g = at(row, ci);
        out.extend(glwe_dump(&g));
    } }
    out
}

/// normalised digits of `size` limbs in classes: uniform, extreme (all digits at -2^(b-1)), extreme positive, alternating, sparse
pub fn digits(rng: &mut Rng, cnt: usize, b: usize, class: u64) -> Vec<i128> {
    let h = 1i64 << (b - 1);
    (0..cnt).map(|i| (match class {
        0 | 1 => rng.range(-h, h - 1),
        2 => -h,
        3 => h - 1,
        4 => if i % 2 == 0 { -h } else { h - 1 },
        _ => if rng.below(6) == 0 { rng.range(-h, h - 1) } else { 0 },
    }) as i128).collect()
}

/// transcription of poulpy-core/src/noise/mod.rs::var_noise_gglwe_product_v2 (pub(crate) there)
#[allow(clippy::too_many_arguments)]
pub fn var_noise_gglwe_product_v2(n: f64, k_ksk: usize, dnum: usize, dsize: usize, base2k: usize, var_xs: f64, var_msg: f64,
                                  var_a_err: f64, var_gct_err_lhs: f64, var_gct_err_rhs: f64, rank_in: f64) -> f64 {
    let base = ((dsize * base2k) as f64).exp2();
    let var_base = base * base / 12f64;
    let scale = (k_ksk as f64).exp2();
    let mut noise = (dnum as f64) * n * var_base * (var_gct_err_lhs + var_xs * var_gct_err_rhs);
    noise += var_msg * var_a_err * var_base * n;
    noise *= rank_in;
    noise /= scale * scale;
    noise
}
/// transcription of noise_ggsw_product (returns log2 of the standard deviation)
#[allow(clippy::too_many_arguments)]
pub fn noise_ggsw_product(n: f64, base2k: usize, var_xs: f64, var_msg: f64, var_a0_err: f64, var_a1_err: f64, var_gct_err_lhs: f64,
                          var_gct_err_rhs: f64, rank: f64, k_in: usize, k_ggsw: usize) -> f64 {
    let a_logq = k_in.min(k_ggsw);
    let a_cols = a_logq.div_ceil(base2k);
    let b_scale = (k_ggsw as f64).exp2();
    let a_scale = ((k_ggsw - a_logq) as f64).exp2();
    let base = (base2k as f64).exp2();
    let var_base = base * base / 12f64;
    let mut noise = (rank + 1.0) * (a_cols as f64) * n * var_base * (var_gct_err_lhs + var_xs * var_gct_err_rhs);
    noise += var_msg * var_a0_err * a_scale * a_scale * n;
    noise += var_msg * var_a1_err * a_scale * a_scale * n * var_xs * rank;
    noise = noise.sqrt();
    noise /= b_scale;
    noise.log2().min(-1.0)
}

/// what one execution yields: the input vectors of the record (secrets and key dumps are functions of the header and
/// are always recomputed; free inputs are taken from the record when present, else generated from the seed), and
/// either (observations, outputs) or the panic message of the operation under test
pub type Ran = (Vec<Vec<i128>>, Result<(Vec<Vec<i128>>, Vec<Vec<i128>>), String>);

/// run the operation under test, turning a panic into a value
pub fn try_op<F: FnOnce() -> (Vec<Vec<i128>>, Vec<Vec<i128>>)>(f: F) -> Result<(Vec<Vec<i128>>, Vec<Vec<i128>>), String> {
    std::panic::catch_unwind(std::panic::AssertUnwindSafe(f)).map_err(panic_class)
}

/// generic entry point with the observation convention described at the top of this file
pub fn ks_main(generate: fn(&str, u64) -> Vec<Rec>, exec: fn(&Rec) -> Ran) {
    use std::io::{BufRead, Write};
    if std::env::var("KS_TRACE").is_ok() {
        std::panic::set_hook(Box::new(|i| { eprintln!("  panic at {:?}: {}", i.location().map(|l| format!("{}:{}", l.file(), l.line())), i) }));
    } else {
        std::panic::set_hook(Box::new(|_| {}));
    }
    let args: Vec<String> = std::env::args().collect();
    let emit = |f: &mut dyn Write, r: &Rec| {
        let mut r = r.clone();
        let nobs = us(r.ps[2]);
        let keep = r.vs.len() - nobs.min(r.vs.len());
        r.vs.truncate(keep);
        r.ps[2] = 0;
        let r0 = r.clone();
        let ran = std::panic::catch_unwind(move || exec(&r0));
        let out: Out = match ran {
            Ok((vs, Ok((obs, out)))) => { r.vs = vs; r.ps[2] = obs.len() as i128; r.vs.extend(obs); Ok(out) }
            Ok((vs, Err(m))) => { r.vs = vs; Err(m) }
            Err(p) => Err(format!("SETUP {}", panic_class(p))),
        };
        writeln!(f, "{}", r.line(&out)).unwrap();
    };
    match args.get(1).map(|s| s.as_str()).unwrap_or("") {
        "gen" => {
            let seed: u64 = args[3].parse().unwrap();
            let mut f = std::io::BufWriter::new(std::fs::File::create(&args[4]).unwrap());
            let recs = generate(&args[2], seed);
            for r in &recs { emit(&mut f, r); }
            eprintln!("harness: {} records", recs.len());
        }
        "exec" => {
            let inp = std::io::BufReader::new(std::fs::File::open(&args[2]).unwrap());
            let mut f = std::io::BufWriter::new(std::fs::File::create(&args[3]).unwrap());
            for line in inp.lines() {
                if let Some(r) = Rec::parse(&line.unwrap()) { emit(&mut f, &r); }
            }
        }
        _ => { eprintln!("usage: <bin> gen <tier> <seed> <out> | exec <in> <out>"); std::process::exit(2); }
    }
}

/// Cross-backend identity inside the common magnitude domain: when every radix of the record is small enough for the
/// FFT64 family to be exact (<= 17 bits), the record is re-run on the three other backends with the same inputs and
/// the outputs (output vectors and every observation except the trailing flag vector) must be identical.
/// The verdict (1 identical, 0 different, 2 not applicable) is appended to the flag vector (last observation).
pub fn exec_xbe(r: &Rec, run: fn(&Rec) -> Ran, has_flags: fn(i64) -> bool) -> Ran {
    let (vs, res) = run(r);
    let res = match res {
        Ok((mut obs, out)) if has_flags(r.code) && !obs.is_empty() => {
            let small = [3usize, 6, 9].iter().all(|i| r.ps[*i] <= 17) && r.ps[HDR..].len() < 40
                && (!(matches!(r.code, 3061..=3066) || (4021..5000).contains(&r.code)) || r.ps.get(HDR + 7).is_none_or(|b| *b <= 17));
            let mut verdict = 2i128;
            if small {
                verdict = 1;
                for be in 1..=4i128 {
                    if be == r.ps[0] { continue; }
                    let mut r2 = r.clone();
                    r2.ps[0] = be;
                    r2.vs = vs.clone();
                    match run(&r2) {
                        (_, Ok((obs2, out2))) => {
                            let k = obs.len() - 1;
                            if out2 != out || obs2.len() != obs.len() || obs2[..k] != obs[..k] { verdict = 0; }
                        }
                        _ => verdict = 0,
                    }
                }
            }
            obs.last_mut().unwrap().insert(1, verdict);
            Ok((obs, out))
        }
        other => other,
    };
    (vs, res)
}

/// free input `i` of the record when present and non-empty, else generated
pub fn input_or<F: FnOnce() -> Vec<i128>>(r: &Rec, i: usize, f: F) -> Vec<i128> {
    match r.vs.get(i) { Some(v) if !v.is_empty() => v.clone(), _ => f() }
}

/// helper items that need the concrete backend type `$T` (expanded inside `with_be!`)
#[macro_export]
macro_rules! ks_helpers {
    ($T:ident) => {
        type M = Module<$T>;
        type SkP = GLWESecretPrepared<DeviceBuf<$T>, $T>;

        fn scratch(bytes: usize, fill: i64) -> ScratchOwned<$T> { scratch_filled::<$T>(bytes + 64, fill) }
        /// set-up operations (not under test) get a generous scratch: their tmp_bytes formulas are C12's business
        fn setup(bytes: usize) -> ScratchOwned<$T> { scratch_filled::<$T>(bytes + (1 << 18), 0) }

        /// ternary / binary secret of the given rank
        fn sk_new(n: usize, rank: usize, seed: u64, kind: u64) -> GLWESecret<Vec<u8>> {
            let mut sk = GLWESecret::alloc(Degree(n as u32), Rank(rank as u32));
            match kind { 0 => sk.fill_ternary_prob(0.5, &mut src(seed)), 1 => sk.fill_binary_prob(0.5, &mut src(seed)),
                         2 => sk.fill_ternary_hw((n / 2).max(1), &mut src(seed)), _ => sk.fill_zero() }
            sk
        }
        fn sk_prep(m: &M, sk: &GLWESecret<Vec<u8>>) -> SkP {
            let mut p = m.glwe_secret_prepared_alloc(sk.rank());
            m.glwe_secret_prepare(&mut p, sk);
            p
        }
        /// coefficients of the secret, read through decryption: phase of (0, .., 2^-4 e_i, ..) = s_i 2^-4
        fn sk_coeffs(m: &M, sk: &GLWESecret<Vec<u8>>) -> Vec<i128> {
            let n = m.n();
            let rank = sk.rank().0 as usize;
            let skp = sk_prep(m, sk);
            let lay = glwe_layout(n, 4, 1, rank);
            let mut out = Vec::new();
            let mut sc = setup(m.glwe_decrypt_tmp_bytes(&lay));
            for i in 0..rank {
                let mut ct = GLWE::alloc_from_infos(&lay);
                ct.data_mut().at_mut(i + 1, 0)[0] = 1;
                let mut pt = GLWEPlaintext::alloc_from_infos(&lay);
                m.glwe_decrypt(&ct, &mut pt, &skp, sc.borrow());
                out.extend(pt.data().at(0, 0).iter().map(|x| *x as i128));
            }
            out
        }
        /// GLWE switching key sk_in -> sk_out with the header's shape; returns (standard form, prepared)
        fn ksk_new(m: &M, h: &Hdr, sk_in: &GLWESecret<Vec<u8>>, sk_out: &GLWESecret<Vec<u8>>, seed: u64)
            -> (GLWESwitchingKey<Vec<u8>>, GLWESwitchingKeyPrepared<DeviceBuf<$T>, $T>) {
            let lay = h.gglwe();
            let mut k = GLWESwitchingKey::alloc_from_infos(&lay);
            let mut sc = setup(m.glwe_switching_key_encrypt_sk_tmp_bytes(&lay).max(m.gglwe_prepare_tmp_bytes(&lay)));
            m.glwe_switching_key_encrypt_sk(&mut k, sk_in, sk_out, &h.noise(), &mut src(seed ^ 0x51), &mut src(seed ^ 0x52), sc.borrow());
            let mut kp = m.glwe_switching_key_prepared_alloc_from_infos(&k);
            m.glwe_switching_key_prepare(&mut kp, &k, sc.borrow());
            (k, kp)
        }
        /// automorphism key for the Galois element p
        fn atk_new(m: &M, h: &Hdr, sk: &GLWESecret<Vec<u8>>, p: i64, seed: u64)
            -> (GLWEAutomorphismKey<Vec<u8>>, GLWEAutomorphismKeyPrepared<DeviceBuf<$T>, $T>) {
            let lay = h.gglwe();
            let mut k = GLWEAutomorphismKey::alloc_from_infos(&lay);
            let mut sc = setup(m.glwe_automorphism_key_encrypt_sk_tmp_bytes(&lay).max(m.gglwe_prepare_tmp_bytes(&lay)));
            m.glwe_automorphism_key_encrypt_sk(&mut k, p, sk, &h.noise(), &mut src(seed ^ 0x53), &mut src(seed ^ 0x54), sc.borrow());
            let mut kp = m.glwe_automorphism_key_prepared_alloc_from_infos(&k);
            m.glwe_automorphism_key_prepare(&mut kp, &k, sc.borrow());
            (k, kp)
        }
        /// GGSW encrypting the polynomial m2 under sk
        fn ggsw_new(m: &M, lay: &GGSWLayout, k_noise: usize, sk: &GLWESecret<Vec<u8>>, m2: &[i128], seed: u64)
            -> (GGSW<Vec<u8>>, GGSWPrepared<DeviceBuf<$T>, $T>) {
            let n = m.n();
            let mut g = GGSW::alloc_from_infos(lay);
            let pt = mk_scalar_znx(n, 1, &v64(m2));
            let skp = sk_prep(m, sk);
            let noise = NoiseInfos::new(k_noise, DEFAULT_SIGMA_XE, 6.0 * DEFAULT_SIGMA_XE).unwrap();
            let mut sc = setup(m.ggsw_encrypt_sk_tmp_bytes(lay).max(m.ggsw_prepare_tmp_bytes(lay)));
            m.ggsw_encrypt_sk(&mut g, &pt, &skp, &noise, &mut src(seed ^ 0x55), &mut src(seed ^ 0x56), sc.borrow());
            let mut gp = m.ggsw_prepared_alloc_from_infos(&g);
            m.ggsw_prepare(&mut gp, &g, sc.borrow());
            (g, gp)
        }
        /// GGLWE -> GGSW (tensor) key under sk
        fn tsk_new(m: &M, lay: &GGLWEToGGSWKeyLayout, k_noise: usize, sk: &GLWESecret<Vec<u8>>, seed: u64)
            -> (GGLWEToGGSWKey<Vec<u8>>, GGLWEToGGSWKeyPrepared<DeviceBuf<$T>, $T>) {
            let mut k = GGLWEToGGSWKey::alloc_from_infos(lay);
            let noise = NoiseInfos::new(k_noise, DEFAULT_SIGMA_XE, 6.0 * DEFAULT_SIGMA_XE).unwrap();
            let mut sc = setup(GGLWEToGGSWKeyEncryptSk::gglwe_to_ggsw_key_encrypt_sk_tmp_bytes(m, lay).max(m.gglwe_prepare_tmp_bytes(lay)));
            GGLWEToGGSWKeyEncryptSk::gglwe_to_ggsw_key_encrypt_sk(m, &mut k, sk, &noise, &mut src(seed ^ 0x57), &mut src(seed ^ 0x58), sc.borrow());
            let mut kp = m.gglwe_to_ggsw_key_prepared_alloc_from_infos(&k);
            m.gglwe_to_ggsw_key_prepare(&mut kp, &k, sc.borrow());
            (k, kp)
        }
        /// LWE secret (ternary) and its coefficients
        fn lwe_sk_new(n_lwe: usize, seed: u64) -> LWESecret<Vec<u8>> {
            let mut sk = LWESecret::alloc(Degree(n_lwe as u32));
            sk.fill_ternary_prob(0.5, &mut src(seed));
            sk
        }
        fn lwe_sk_coeffs(sk: &LWESecret<Vec<u8>>) -> Vec<i128> { sk.raw().iter().map(|x| *x as i128).collect() }
        /// LWE from flat words ((n_lwe+1) * size, limb-major)
        fn lwe_from(n_lwe: usize, b: usize, size: usize, flat: &[i128]) -> LWE<Vec<u8>> {
            let mut ct = LWE::alloc(Degree(n_lwe as u32), Base2K(b as u32), TorusPrecision((size * b) as u32));
            assert_eq!(flat.len(), (n_lwe + 1) * size, "lwe_from: bad length");
            let bytes = words_to_bytes(&v64(flat));
            let d: &mut Vec<u8> = &mut ct.data_mut().data;
            d[..bytes.len()].copy_from_slice(&bytes);
            ct
        }
        fn lwe_dump(ct: &LWE<Vec<u8>>) -> Vec<i128> {
            let v = ct.data();
            let mut out = Vec::new();
            for j in 0..v.size() { out.extend(v.at(0, j).iter().map(|x| *x as i128)); }
            out
        }
        /// the automorphism keys of the trace / packing family
        fn atk_map(m: &M, h: &Hdr, sk: &GLWESecret<Vec<u8>>, seed: u64) -> HashMap<i64, GLWEAutomorphismKeyPrepared<DeviceBuf<$T>, $T>> {
            let mut keys = HashMap::new();
            for (j, g) in m.glwe_trace_galois_elements().into_iter().enumerate() {
                let (_k, kp) = atk_new(m, h, sk, g, seed.wrapping_add(1000 + j as u64));
                keys.insert(g, kp);
            }
            keys
        }
        /// run the operation under test twice with two different garbage fills of the scratch space;
        /// returns the first result and whether the second is identical
        fn twice<F: FnMut(i64) -> Vec<Vec<i128>>>(mut f: F) -> (Vec<Vec<i128>>, i128) {
            let a = f(0x4330_0000_0000_0001i64);
            let b = f(-0x0123_4567_89ab_cdefi64);
            let same = (a == b) as i128;
            (a, same)
        }
        /// write flat words into a GLWE view (cell of a GGLWE / GGSW)
        fn glwe_fill(g: &mut GLWE<&mut [u8]>, flat: &[i128]) {
            let (n, cols, size) = { let v = g.data(); (v.n(), v.cols(), v.size()) };
            assert_eq!(flat.len(), n * cols * size);
            for j in 0..size { for c in 0..cols {
                let o = n * (j * cols + c);
                let dst = g.data_mut().at_mut(c, j);
                for (d, s) in dst.iter_mut().zip(flat[o..o + n].iter()) { *d = *s as i64; }
            } }
        }
        /// fresh encryption of a uniformly random plaintext (noise at 2^-k)
        fn glwe_fresh(m: &M, lay: &GLWELayout, k_noise: usize, sk: &GLWESecret<Vec<u8>>, seed: u64) -> (GLWE<Vec<u8>>, GLWEPlaintext<Vec<u8>>) {
            let mut ct = GLWE::alloc_from_infos(lay);
            let mut pt = GLWEPlaintext::alloc_from_infos(lay);
            m.vec_znx_fill_uniform(lay.base2k.0 as usize, pt.data_mut(), 0, &mut src(seed ^ 0x61));
            let skp = sk_prep(m, sk);
            let noise = NoiseInfos::new(k_noise, DEFAULT_SIGMA_XE, 6.0 * DEFAULT_SIGMA_XE).unwrap();
            let mut sc = setup(m.glwe_encrypt_sk_tmp_bytes(lay));
            m.glwe_encrypt_sk(&mut ct, &pt, &skp, &noise, &mut src(seed ^ 0x62), &mut src(seed ^ 0x63), sc.borrow());
            (ct, pt)
        }
    };
}

/// m2 classes: 0 zero, 1 one, 2 minus one, 3 X^k, 4 small dense, 5 -X^k
pub fn m2_poly(g: &mut Rng, n: usize, class: u64) -> Vec<i128> {
    let mut p = vec![0i128; n];
    match class {
        0 => {}
        1 => p[0] = 1,
        2 => p[0] = -1,
        3 => p[g.below(n as u64) as usize] = 1,
        5 => p[g.below(n as u64) as usize] = -1,
        _ => for c in p.iter_mut() { *c = g.range(-2, 2) as i128; },
    }
    p
}

/// The GGSW family built on the GGLWE->GGSW (tensor) key generated through the public API (shared by C03 and C04; `code` is the
/// C04 numbering): 4021 ggsw_from_gglwe, 4022 ggsw_expand_row, 4023 rows of the tensor key itself, 4030/4031 ggsw_keyswitch(_assign),
/// 4032/4033 ggsw_automorphism(_assign).  Header key = tensor key; x4 = dsize of the GGSW, x5 = its dnum, x6 = its noise position,
/// x7.. = second key (b, size, dsize, dnum, k), x0 = Galois element.  Observations: every cell of the result, [flags].
pub fn run_ggsw_family(r: &Rec, code: i64) -> Ran {
    use poulpy_verif_harness::with_be;
    let h = Hdr::parse(&r.ps);
    let x = |i: usize| r.ps.get(HDR + i).copied().unwrap_or(0);
    with_be!(h.be, BE, {
        ks_helpers!(BE);
        let m: M = M::new(h.n as u64);
        let n = h.n;
        let rank = h.key_rout;
        let (kind, mclass) = (x(1) as u64, x(3) as u64);
        let mut g = Rng::new(h.seed ^ 0xC4C4);
        let sk = sk_new(n, rank, h.seed ^ 1, kind);
        let s = sk_coeffs(&m, &sk);
        let ggsw_dump = |gg: &GGSW<Vec<u8>>, dnum: usize| mat_dump(|r_, c| gg.at(r_, c), dnum, rank + 1);
        if code == 4023 {
            // rows of the tensor key: key i (i < rank), row r, input column j encrypts s_i * s_j * 2^-((r+1) dsize b) under s
            let lt = GGLWEToGGSWKeyLayout { n: Degree(n as u32), base2k: Base2K(h.key_b as u32), k: TorusPrecision((h.key_size * h.key_b) as u32),
                                            rank: Rank(rank as u32), dnum: Dnum(h.dnum as u32), dsize: Dsize(h.dsize as u32) };
            let vs = vec![s.clone(), s.clone()];
            return (vs, try_op(|| {
                let (tk, _tkp) = tsk_new(&m, &lt, h.key_k, &sk, h.seed);
                let obs: Vec<Vec<i128>> = (0..rank).map(|i| mat_dump(|r_, c| tk.at(i).at(r_, c), h.dnum, rank)).collect();
                (obs, vec![vec![1]])
            }));
        }
                // the GGSW that is produced / transformed: radix in_b (source) -> out_b (result), dsize x4, dnum x5, noise position x6
                let (gd, gn_, gk) = (us(x(4)), us(x(5)), us(x(6)));
                let m2 = input_or(r, 4, || m2_poly(&mut g, n, mclass));
                let lt = GGLWEToGGSWKeyLayout { n: Degree(n as u32), base2k: Base2K(h.key_b as u32), k: TorusPrecision((h.key_size * h.key_b) as u32),
                                                rank: Rank(rank as u32), dnum: Dnum(h.dnum as u32), dsize: Dsize(h.dsize as u32) };
                let lsrc = GGSWLayout { n: Degree(n as u32), base2k: Base2K(h.in_b as u32), k: TorusPrecision((h.in_size * h.in_b) as u32), rank: Rank(rank as u32), dnum: Dnum(gn_ as u32), dsize: Dsize(gd as u32) };
                let lres = GGSWLayout { n: Degree(n as u32), base2k: Base2K(h.out_b as u32), k: TorusPrecision((h.out_size * h.out_b) as u32), rank: Rank(rank as u32), dnum: Dnum(gn_ as u32), dsize: Dsize(gd as u32) };
                
                // the secret under which the source is encrypted: a second secret for the GGSW key-switch
                let sk_src = if code == 4030 || code == 4031 { sk_new(n, rank, h.seed ^ 3, kind) } else { sk_new(n, rank, h.seed ^ 1, kind) };
                let s_src = sk_coeffs(&m, &sk_src);
                let (_tk, tkp) = tsk_new(&m, &lt, h.key_k, &sk, h.seed);
                let noise_src = NoiseInfos::new(gk, DEFAULT_SIGMA_XE, 6.0 * DEFAULT_SIGMA_XE).unwrap();
                // second key
                let mut h2 = h; h2.key_b = us(x(7)); h2.key_size = us(x(8)); h2.dsize = us(x(9)); h2.dnum = us(x(10)); h2.key_k = us(x(11)); h2.key_rin = rank; h2.key_rout = rank;
                let p = x(0) as i64;
                let vs = vec![s_src.clone(), s.clone(), vec![], vec![], m2.clone()];
                (vs, try_op(|| {
                    let (mut o, same) = twice(|fill| {
                        match code {
                            4021 => {
                                // GGLWE with one input column whose rows encrypt m2 * 2^-((row+1) dsize b)
                                let lg = GGLWELayout { n: Degree(n as u32), base2k: Base2K(h.in_b as u32), k: TorusPrecision((h.in_size * h.in_b) as u32),
                                                       rank_in: Rank(1), rank_out: Rank(rank as u32), dnum: Dnum(gn_ as u32), dsize: Dsize(gd as u32) };
                                let mut a = GGLWE::alloc_from_infos(&lg);
                                let pt = mk_scalar_znx(n, 1, &v64(&m2));
                                let skp = sk_prep(&m, &sk);
                                let mut sc0 = setup(m.gglwe_encrypt_sk_tmp_bytes(&lg));
                                m.gglwe_encrypt_sk(&mut a, &pt, &skp, &noise_src, &mut src(h.seed ^ 0x81), &mut src(h.seed ^ 0x82), sc0.borrow());
                                let mut res = GGSW::alloc_from_infos(&lres);
                                let mut sc = scratch(m.ggsw_from_gglwe_tmp_bytes(&lres, &lt), fill);
                                m.ggsw_from_gglwe(&mut res, &a, &tkp, sc.borrow());
                                vec![ggsw_dump(&res, gn_)]
                            }
                            4022 => {
                                let (mut gg, _gp) = ggsw_new(&m, &lres, gk, &sk, &m2, h.seed ^ 0x99);
                                for row in 0..gn_ { for c in 1..=rank { gg.at_mut(row, c).data_mut().data.iter_mut().for_each(|b| *b = 0x5a); } }
                                let mut sc = scratch(m.ggsw_expand_rows_tmp_bytes(&lres, &lt), fill);
                                m.ggsw_expand_row(&mut gg, &tkp, sc.borrow());
                                vec![ggsw_dump(&gg, gn_)]
                            }
                            4030 | 4031 => {
                                let (a, _ap) = ggsw_new(&m, &lsrc, gk, &sk_src, &m2, h.seed ^ 0x99);
                                let (_k, kp) = ksk_new(&m, &h2, &sk_src, &sk, h.seed ^ 0x77);
                                if code == 4030 {
                                    let mut res = GGSW::alloc_from_infos(&lres);
                                    let mut sc = scratch(m.ggsw_keyswitch_tmp_bytes(&lres, &lsrc, &kp, &lt), fill);
                                    m.ggsw_keyswitch(&mut res, &a, &kp, &tkp, sc.borrow());
                                    vec![ggsw_dump(&res, gn_)]
                                } else {
                                    let mut res = a.clone();
                                    let mut sc = scratch(m.ggsw_keyswitch_tmp_bytes(&lsrc, &lsrc, &kp, &lt), fill);
                                    m.ggsw_keyswitch_assign(&mut res, &kp, &tkp, sc.borrow());
                                    vec![ggsw_dump(&res, gn_)]
                                }
                            }
                            _ => {
                                let (a, _ap) = ggsw_new(&m, &lsrc, gk, &sk, &m2, h.seed ^ 0x99);
                                let (_k, kp) = atk_new(&m, &h2, &sk, p, h.seed ^ 0x77);
                                if code == 4032 {
                                    let mut res = GGSW::alloc_from_infos(&lres);
                                    let mut sc = scratch(m.ggsw_automorphism_tmp_bytes(&lres, &lsrc, &kp, &lt), fill);
                                    m.ggsw_automorphism(&mut res, &a, &kp, &tkp, sc.borrow());
                                    vec![ggsw_dump(&res, gn_)]
                                } else {
                                    let mut res = a.clone();
                                    let mut sc = scratch(m.ggsw_automorphism_tmp_bytes(&lsrc, &lsrc, &kp, &lt), fill);
                                    m.ggsw_automorphism_assign(&mut res, &kp, &tkp, sc.borrow());
                                    vec![ggsw_dump(&res, gn_)]
                                }
                            }
                        }
                    });
                    o.push(vec![same]);
                    (o, vec![vec![1]])
                }))
    })
}
