//! C09, big-accumulator family: the `vec_znx_big_*` ring operations of the HAL (opcodes 9101..9116) on flat buffers,
//! through the public API of Module<BE>, on the four backends.
//!
//! header (same convention as the small C09 records):
//!   be | rn rcols rsize rmax rcol | an acols asize amax acol | bn bcols bsize bmax bcol | dom p fill
//! vs = [prior content of the WHOLE destination (flat, every column, capacity rmax); a; b]
//! output = the whole destination afterwards, flat.
//! The destination is always a VecZnxBig; an operand is a VecZnxBig or a VecZnx depending on the opcode (`small_a`,
//! `small_b`).  Big words are i64 for be 1,2 (FFT64 family) and i128 for be 3,4 (NTT120 family); they are written into
//! / read from the raw bytes of the VecZnxBig.
//!
//! dom (ps[16]) = value domain of the record:
//!   0  common domain: every word |x| < 2^60, no result wraps at 64 bits -> the two families must agree (usable by C10)
//!   1  full i64 range with a boundary dictionary (i64::MIN, i64::MAX, ...): wraps at 64 bits on be 1,2, exact on be 3,4
//!   2  big words over the full i128 range with a boundary dictionary (be 3,4 only), small words as in 1
use poulpy_hal::api::*;
use poulpy_hal::layouts::{Backend, DataView, DataViewMut, VecZnxBig};
use poulpy_verif_harness::hal::*;
use poulpy_verif_harness::rec::*;
use poulpy_verif_harness::with_be;

pub const FIRST: i64 = 9101;
pub const LAST: i64 = 9116;

/// opcodes whose result legitimately depends on the prior content of the selected destination column
#[allow(dead_code)]
pub fn reads_dest(code: i64) -> bool {
    matches!(code, 9103 | 9105 | 9107 | 9108 | 9110 | 9112 | 9114 | 9116)
}
/// records on which the FFT64 and the NTT120 families must agree word for word
#[allow(dead_code)]
pub fn common_domain(r: &Rec) -> bool { r.ps[16] == 0 }

fn small_a(code: i64) -> bool { matches!(code, 9101 | 9105 | 9109 | 9110 | 9112) }
fn small_b(code: i64) -> bool { matches!(code, 9104 | 9111) }
/// 3 = (res, a, b), 2 = (res, a), 1 = (res)
fn arity(code: i64) -> usize {
    match code { 9102 | 9104 | 9106 | 9109 | 9111 => 3, 9114 | 9116 => 1, _ => 2 }
}

#[derive(Clone, Copy)]
struct Sh { n: usize, cols: usize, size: usize, max: usize, col: usize }
fn sh(p: &[i128], k: usize) -> Sh {
    let u = |i: usize| p[i] as usize;
    Sh { n: u(1 + 5 * k), cols: u(2 + 5 * k), size: u(3 + 5 * k), max: u(4 + 5 * k), col: u(5 + 5 * k) }
}

fn mk_big<BE: Backend>(s: Sh, flat: &[i128]) -> VecZnxBig<poulpy_hal::layouts::DeviceBuf<BE>, BE> {
    assert_eq!(flat.len(), s.n * s.cols * s.max);
    let word = std::mem::size_of::<<BE as Backend>::ScalarBig>();
    let mut v = VecZnxBig::<_, BE>::alloc(s.n, s.cols, s.max);
    {
        let d: &mut [u8] = v.data_mut().as_mut();
        assert!(d.len() >= flat.len() * word);
        for (i, x) in flat.iter().enumerate() {
            if word == 8 { d[i * 8..i * 8 + 8].copy_from_slice(&(*x as i64).to_le_bytes()); }
            else { d[i * 16..i * 16 + 16].copy_from_slice(&x.to_le_bytes()); }
        }
    }
    v.size = s.size;
    v
}

fn dump_big<BE: Backend>(v: &VecZnxBig<poulpy_hal::layouts::DeviceBuf<BE>, BE>, s: Sh) -> Vec<i128> {
    let word = std::mem::size_of::<<BE as Backend>::ScalarBig>();
    let words = s.n * s.cols * s.max;
    let b: &[u8] = v.data().as_ref();
    if word == 8 {
        b[..words * 8].chunks_exact(8).map(|c| i64::from_le_bytes(c.try_into().unwrap()) as i128).collect()
    } else {
        b[..words * 16].chunks_exact(16).map(|c| i128::from_le_bytes(c.try_into().unwrap())).collect()
    }
}

pub fn op(r: &Rec) -> Vec<Vec<i128>> {
    let p = &r.ps;
    let be = p[0];
    let (rs, sa, sb) = (sh(p, 0), sh(p, 1), sh(p, 2));
    let code = r.code;
    let (pk, fill) = (p[17] as i64, p[18] as i64);
    with_be!(be, BE, {
        // the ring degree of the module only matters for the automorphism scratch; element-wise records may use a
        // vector length that is not a power of two (SIMD chunk + tail), the module then has the next power of two
        let m = module::<BE>(rs.n.max(1).next_power_of_two());
        let mut sc = scratch_filled::<BE>(m.vec_znx_big_automorphism_assign_tmp_bytes() + 128, fill);
        let s = sc.borrow();
        let mut res = mk_big::<BE>(rs, &r.vs[0]);
        let ar = arity(code);
        let a_big = if ar >= 2 && !small_a(code) { Some(mk_big::<BE>(sa, &r.vs[1])) } else { None };
        let a_sml = if ar >= 2 && small_a(code) { Some(mk_vec_znx(sa.n, sa.cols, sa.max, sa.size, &v64(&r.vs[1]))) } else { None };
        let b_big = if ar >= 3 && !small_b(code) { Some(mk_big::<BE>(sb, &r.vs[2])) } else { None };
        let b_sml = if ar >= 3 && small_b(code) { Some(mk_vec_znx(sb.n, sb.cols, sb.max, sb.size, &v64(&r.vs[2]))) } else { None };
        match code {
            9101 => m.vec_znx_big_from_small(&mut res, rs.col, a_sml.as_ref().unwrap(), sa.col),
            9102 => m.vec_znx_big_add_into(&mut res, rs.col, a_big.as_ref().unwrap(), sa.col, b_big.as_ref().unwrap(), sb.col),
            9103 => m.vec_znx_big_add_assign(&mut res, rs.col, a_big.as_ref().unwrap(), sa.col),
            9104 => m.vec_znx_big_add_small_into(&mut res, rs.col, a_big.as_ref().unwrap(), sa.col, b_sml.as_ref().unwrap(), sb.col),
            9105 => m.vec_znx_big_add_small_assign(&mut res, rs.col, a_sml.as_ref().unwrap(), sa.col),
            9106 => m.vec_znx_big_sub(&mut res, rs.col, a_big.as_ref().unwrap(), sa.col, b_big.as_ref().unwrap(), sb.col),
            9107 => m.vec_znx_big_sub_assign(&mut res, rs.col, a_big.as_ref().unwrap(), sa.col),
            9108 => m.vec_znx_big_sub_negate_assign(&mut res, rs.col, a_big.as_ref().unwrap(), sa.col),
            9109 => m.vec_znx_big_sub_small_a(&mut res, rs.col, a_sml.as_ref().unwrap(), sa.col, b_big.as_ref().unwrap(), sb.col),
            9110 => m.vec_znx_big_sub_small_assign(&mut res, rs.col, a_sml.as_ref().unwrap(), sa.col),
            9111 => m.vec_znx_big_sub_small_b(&mut res, rs.col, a_big.as_ref().unwrap(), sa.col, b_sml.as_ref().unwrap(), sb.col),
            9112 => m.vec_znx_big_sub_small_negate_assign(&mut res, rs.col, a_sml.as_ref().unwrap(), sa.col),
            9113 => m.vec_znx_big_negate(&mut res, rs.col, a_big.as_ref().unwrap(), sa.col),
            9114 => m.vec_znx_big_negate_assign(&mut res, rs.col),
            9115 => m.vec_znx_big_automorphism(pk, &mut res, rs.col, a_big.as_ref().unwrap(), sa.col),
            9116 => m.vec_znx_big_automorphism_assign(pk, &mut res, rs.col, s),
            _ => panic!("c09_big: unknown op {}", code),
        }
        vec![dump_big::<BE>(&res, rs)]
    })
}

// ---------------------------------------------------------------- generation

const D64: [i64; 10] = [i64::MIN, i64::MAX, i64::MIN + 1, i64::MAX - 1, -1, 0, 1, 1 << 62, -(1 << 62), (1 << 62) - 1];

fn w_common(rng: &mut Rng) -> i128 {
    (match rng.below(4) {
        0 => rng.range(-4, 4),
        1 => { let m = (1i64 << 40) - 1; (rng.i64() & m) - (1i64 << 39) }
        2 => rng.pick(&[(1i64 << 60) - 1, -(1i64 << 60) + 1, 1 << 59, -(1 << 59), 0, 1, -1]),
        _ => { let m = (1i64 << 60) - 1; (rng.i64() & m) - (1i64 << 59) }
    }) as i128
}
fn w_i64(rng: &mut Rng) -> i128 {
    (if rng.below(2) == 0 { rng.pick(&D64) } else if rng.below(4) == 0 { rng.val64(50) } else { rng.i64() }) as i128
}
fn w_i128(rng: &mut Rng) -> i128 {
    let b63: i128 = 1i128 << 63;
    match rng.below(6) {
        0 | 1 => rng.pick(&[i128::MIN, i128::MAX, i128::MIN + 1, i128::MAX - 1, -1, 0, 1, b63, -b63, b63 - 1, -b63 - 1,
                            1i128 << 64, -(1i128 << 64), (1i128 << 64) - 1, 1i128 << 126, -(1i128 << 126), 1i128 << 120]),
        2 => w_i64(rng),
        3 => { let s = rng.below(127) as u32; let v = 1i128 << s; rng.pick(&[v, -v, v - 1, -v + 1, v + 1, -v - 1]) }
        _ => rng.i128(),
    }
}

/// words of one buffer: `big` = it is a VecZnxBig of backend family `be`.  In the extreme domains every other limb
/// (block of n words) additionally receives one planted boundary word (i64::MIN / i64::MAX, for i128 buffers also the
/// i128 extremes and +-2^63), so that every tail branch of the size rule meets a boundary digit.
fn words(rng: &mut Rng, n: usize, cnt: usize, dom: i128, big: bool, be: i128) -> Vec<i128> {
    let wide = dom == 2 && big && be >= 3;
    let mut v: Vec<i128> = (0..cnt).map(|_| match dom {
        0 => w_common(rng),
        _ if wide => w_i128(rng),
        _ => w_i64(rng),
    }).collect();
    if dom != 0 && n > 0 {
        for blk in 0..cnt / n {
            if rng.below(2) == 0 {
                let x: i128 = if wide && rng.below(2) == 0 {
                    rng.pick(&[i128::MIN, i128::MAX, 1i128 << 63, -(1i128 << 63) - 1])
                } else if rng.below(3) == 0 { i64::MAX as i128 } else { i64::MIN as i128 };
                v[blk * n + rng.below(n as u64) as usize] = x;
            }
        }
    }
    v
}

type Shape = (usize, usize, usize, usize, usize);

fn record(rng: &mut Rng, code: i64, be: i128, dom: i128, n: usize, sizes: (usize, usize, usize), tight: bool) -> Rec {
    let mk = |rng: &mut Rng, size: usize| -> Shape {
        let cols = rng.range(1, 3) as usize;
        let max = size + if tight { 0 } else { rng.below(2) as usize };
        (n, cols, size, max, rng.below(cols as u64) as usize)
    };
    let rs = mk(rng, sizes.0); let sa = mk(rng, sizes.1); let sb = mk(rng, sizes.2);
    let g = {
        let g = rng.range(-4 * n as i64, 4 * n as i64) | 1;
        if rng.below(16) == 0 { rng.i64() | 1 } else { g }
    };
    let fill = rng.pick(&[0i64, 5, -9, i64::MIN, 0x3c3c3c3c3c3c3c3c]);
    let vs = vec![
        words(rng, n, rs.0 * rs.1 * rs.3, dom, true, be),
        words(rng, n, sa.0 * sa.1 * sa.3, dom, !small_a(code), be),
        words(rng, n, sb.0 * sb.1 * sb.3, dom, !small_b(code), be),
    ];
    let mut ps = vec![be];
    for s in [rs, sa, sb] { ps.extend([s.0 as i128, s.1 as i128, s.2 as i128, s.3 as i128, s.4 as i128]); }
    ps.extend([dom, g as i128, fill as i128]);
    Rec::new(code, ps, vs)
}

fn is_auto(code: i64) -> bool { code == 9115 || code == 9116 }

pub fn generate(tier: &str, rng: &mut Rng, out: &mut Vec<Rec>) {
    let thorough = tier == "thorough";
    let push = |r: Rec, out: &mut Vec<Rec>| out.push(r);
    // 1. systematic: every opcode, every size tuple in 1..5 (every tail branch of the size rule), three value domains,
    //    backends alternating inside each family (all four on every tuple in the thorough tier), N in {1,2,4,8}
    let mut idx: usize = 0;
    for code in FIRST..=LAST {
        let ar = arity(code);
        for rsz in 1..=5usize {
            for asz in 1..=(if ar >= 2 { 5 } else { 1 }) {
                for bsz in 1..=(if ar >= 3 { 5 } else { 1 }) {
                    idx += 1;
                    let n = [1usize, 2, 4, 8][idx % 4];
                    let fams: &[(i128, i128)] = if thorough {
                        &[(1, 1), (2, 1), (3, 2), (4, 2), (3, 1), (4, 1), (1, 0), (2, 0), (3, 0), (4, 0)]
                    } else {
                        match idx % 2 { 0 => &[(1, 1), (4, 2), (3, 0)], _ => &[(2, 1), (3, 2), (2, 0)] }
                    };
                    for &(be, dom) in fams {
                        let tight = rng.below(2) == 0;
                        let r = record(rng, code, be, dom, n, (rsz, asz, bsz), tight);
                        push(r, out);
                    }
                }
            }
        }
    }
    // 2. random: larger and odd-shaped N (element-wise opcodes also on lengths that are not a power of two: SIMD body +
    //    tail), capacity above the active size, all backends, all domains
    let reps = if thorough { 6000 } else { 900 };
    for _ in 0..reps {
        let code = FIRST + rng.below((LAST - FIRST + 1) as u64) as i64;
        let be = rng.range(1, 4) as i128;
        let dom = match rng.below(3) { 0 => 0, 1 => 1, _ => if be >= 3 { 2 } else { 1 } };
        let n = if !is_auto(code) && rng.below(3) == 0 {
            rng.pick(&[3usize, 5, 6, 7, 9, 11, 12, 13])
        } else if thorough && rng.below(20) == 0 { 1usize << rng.range(5, 9) } else { 1usize << rng.range(0, 4) };
        let sizes = (rng.range(1, 5) as usize, rng.range(1, 5) as usize, rng.range(1, 5) as usize);
        let r = record(rng, code, be, dom, n, sizes, false);
        push(r, out);
    }
}
