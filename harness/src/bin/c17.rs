//! C17: safe API calls never access memory outside the buffers they were given.
//!
//! One record = one HISTORY applied to one operand (the subject) followed by one OBSERVED OPERATION.
//!
//!   ps = [be, opc, n, hist, subj, hp1, hp2 | r: cols size col | a: cols size col | b: cols size col | e0 e1 e2 e3 | seed]
//!   out[0] = [status, canaries_ok, hook_violations, digest_eq]
//!            status 0 = ran to completion, 1 = panicked (a defined rejection), 2 = read_from returned Err (nothing run),
//!                   3 = the object the history produced is ill-formed (Inv false): the operation is NOT run here
//!                       (it is run, inside large guard zones, by the `demo` mode and reported as a note)
//!   out[1] = header of the subject after the history, as the accessors report it: [n, cols, size, max_size, |data|, w]
//!
//! Every operand and the scratch window live inside ONE 64-byte aligned allocation; between and around them are guard
//! zones.  The whole allocation is first filled with garbage (two different fills), then the inputs are written.  After
//! the call every byte outside the operand regions and the scratch window must be what it was (canaries), and the bytes
//! of the selected output column must be the same for both fills (an out-of-bounds READ, or a read of a stale /
//! uninitialised byte, makes them differ).
//!
//! Accessor hook: `work/proposed_hooks/c17_bounds.diff` adds `poulpy_hal::verif` (compiled with `--cfg poulpy_verif`, which
//! `harness/.cargo/config.toml` already passes).  This file compiles with and without it: the calls to
//! `poulpy_hal::verif::{reset, violations}` are behind the cargo feature `c17hook` of the harness crate
//! (`[features] c17hook = []`, to be made a default feature once the hook is in /repo); without the feature the
//! violation count is reported as 0.
//!
//! Modes of the binary: `gen` / `exec` (run_main), `list <tier> <seed> <out> [hazard]` (inputs only),
//! `demo <in> <out>` (forces ill-formed subjects too).  Environment: C17_SEPARATE=1 puts every operand region and the
//! scratch window into its own exact-size heap allocation (sanitizer runs), C17_UNINIT=1 additionally leaves the
//! non-input bytes uninitialised (memcheck), C17_MIRI=1 allocates the arena without the library's aligned allocator.
//!
//! The scratch window is EXACTLY `tmp_bytes` bytes at a 64-byte aligned address; if the operation rejects it with the
//! scratch-size panic (property C12's domain) the window grows in steps of 64 bytes until the operation accepts it.
#![allow(clippy::too_many_arguments, clippy::type_complexity, dead_code)]
use poulpy_core::api::*;
use poulpy_core::layouts::*;
use poulpy_core::{EncryptionLayout, ScratchTakeCore};
use poulpy_hal::api::*;
use poulpy_hal::layouts::*;
use poulpy_hal::source::Source;
use poulpy_verif_harness::rec::*;
use poulpy_verif_harness::with_be;
use std::io::Cursor;

#[path = "../c17_layers.rs"]
mod layers;
use std::panic::{catch_unwind, AssertUnwindSafe};

const GUARD: usize = 4096;

pub const K_NONE: u8 = 255;
pub const K_Z: u8 = 0; // VecZnx
pub const K_B: u8 = 1; // VecZnxBig
pub const K_D: u8 = 2; // VecZnxDft
pub const K_S: u8 = 3; // ScalarZnx
pub const K_P: u8 = 4; // SvpPPol
pub const K_M: u8 = 5; // MatZnx
pub const K_V: u8 = 6; // VmpPMat
pub const K_L: u8 = 7; // CnvPVecL
pub const K_R: u8 = 8; // CnvPVecR
pub const K_C: u8 = 9; // &[i64] constant of cnv_by_const_apply (e1 words)

#[derive(Clone, Copy, Default, Debug, PartialEq)]
pub struct Hdr { n: usize, cols: usize, size: usize, max: usize, len: usize, w: usize }

impl Hdr {
    fn inv(&self) -> bool {
        let m = |a: usize, b: usize| a.checked_mul(b);
        let act = m(self.n, self.cols).and_then(|x| m(x, self.size)).and_then(|x| m(x, self.w));
        let cap = m(self.n, self.cols).and_then(|x| m(x, self.max)).and_then(|x| m(x, self.w));
        matches!((act, cap), (Some(a), Some(c)) if a <= self.len && self.size <= self.max && c <= self.len)
    }
}

/// (kinds of res, a, b; res is also an input; digest covers every column of res; uses scratch)
pub fn op_info(opc: i64) -> Option<([u8; 3], bool, bool, bool)> {
    let z = K_Z; let b = K_B; let d = K_D; let s = K_S; let p = K_P; let m = K_M; let v = K_V; let x = K_NONE;
    let (l, r, c) = (K_L, K_R, K_C);
    Some(match opc {
        1 => ([z, z, z], false, false, false),  // vec_znx_add_into
        2 => ([z, z, x], true, false, false),   // vec_znx_add_assign
        3 => ([z, z, z], false, false, false),  // vec_znx_sub
        4 => ([z, z, x], true, false, false),   // vec_znx_sub_assign
        5 => ([z, z, x], true, false, false),   // vec_znx_sub_negate_assign
        6 => ([z, z, x], false, false, false),  // vec_znx_negate
        7 => ([z, x, x], true, false, false),   // vec_znx_negate_assign
        8 => ([z, z, x], false, false, false),  // vec_znx_copy
        9 => ([z, x, x], false, false, false),  // vec_znx_zero
        10 => ([z, z, x], false, false, false), // vec_znx_rotate(e0)
        11 => ([z, x, x], true, false, true),   // vec_znx_rotate_assign(e0)
        12 => ([z, z, x], false, false, false), // vec_znx_mul_xp_minus_one(e0)
        13 => ([z, x, x], true, false, true),   // vec_znx_mul_xp_minus_one_assign(e0)
        14 => ([z, z, x], false, false, false), // vec_znx_automorphism(e0 odd)
        15 => ([z, x, x], true, false, true),   // vec_znx_automorphism_assign(e0 odd)
        16 => ([z, s, z], false, false, false), // vec_znx_add_scalar_into(limb e0)
        20 => ([z, z, x], false, false, true),  // vec_znx_normalize(res_b2k e0, a_b2k e1, off e2)
        21 => ([z, x, x], true, false, true),   // vec_znx_normalize_assign(b2k e0)
        22 => ([z, z, x], false, false, true),  // vec_znx_lsh(b2k e0, k e1)
        23 => ([z, x, x], true, false, true),   // vec_znx_lsh_assign
        24 => ([z, z, x], true, false, true),   // vec_znx_lsh_add_into
        25 => ([z, z, x], true, false, true),   // vec_znx_lsh_sub
        26 => ([z, z, x], false, false, true),  // vec_znx_rsh
        27 => ([z, x, x], true, false, true),   // vec_znx_rsh_assign
        28 => ([z, z, x], true, false, true),   // vec_znx_rsh_add_into
        29 => ([z, z, x], true, false, true),   // vec_znx_rsh_sub
        40 => ([b, b, b], false, false, false), // vec_znx_big_add_into
        41 => ([b, b, b], false, false, false), // vec_znx_big_sub
        42 => ([b, b, x], false, false, false), // vec_znx_big_negate
        43 => ([z, b, x], false, false, true),  // vec_znx_big_normalize(res_b2k e0, a_b2k e1, off e2)
        44 => ([b, b, x], false, false, false), // vec_znx_big_automorphism(e0 odd)
        45 => ([b, x, x], true, false, true),   // vec_znx_big_automorphism_assign(e0 odd)
        46 => ([b, z, x], false, false, false), // vec_znx_big_from_small
        47 => ([b, b, z], false, false, false), // vec_znx_big_add_small_into
        48 => ([b, b, x], true, false, false),  // vec_znx_big_add_assign
        50 => ([d, z, x], false, false, false), // vec_znx_dft_apply(step e0, offset e1)
        51 => ([b, d, x], false, false, true),  // vec_znx_idft_apply
        52 => ([b, d, x], false, false, false), // vec_znx_idft_apply_tmpa
        53 => ([d, d, d], false, false, false), // vec_znx_dft_add_into
        54 => ([d, d, d], false, false, false), // vec_znx_dft_sub
        55 => ([d, d, x], false, false, false), // vec_znx_dft_copy(step e0, offset e1)
        56 => ([d, x, x], false, false, false), // vec_znx_dft_zero
        57 => ([d, d, x], true, false, false),  // vec_znx_dft_add_assign
        58 => ([d, x, x], true, true, false),   // vec_znx_idft_apply_consume (res: dft in, big out, in place)
        60 => ([p, s, x], false, false, false), // svp_prepare
        61 => ([d, p, z], false, false, false), // svp_apply_dft
        62 => ([d, p, d], false, false, false), // svp_apply_dft_to_dft
        63 => ([d, p, x], true, false, false),  // svp_apply_dft_to_dft_assign
        70 => ([v, m, x], false, true, true),   // vmp_prepare             (rows e0)
        71 => ([d, d, v], false, true, true),   // vmp_apply_dft_to_dft    (rows e0, limb_offset e1)
        72 => ([d, z, v], false, true, true),   // vmp_apply_dft           (rows e0)
        // convolution layer: prepared operands are exact-size views, so a read past them lands in the guard zone
        80 => ([l, z, x], false, true, true),   // cnv_prepare_left
        81 => ([r, z, x], false, true, true),   // cnv_prepare_right
        82 => ([d, l, r], false, false, true),  // cnv_apply_dft(offset e0)
        83 => ([d, l, r], false, false, true),  // cnv_pairwise_apply_dft(offset e0, i = a.col, j = b.col)
        84 => ([b, z, c], false, false, true),  // cnv_by_const_apply(offset e0, constant of e1 words)
        85 => ([l, r, z], false, true, true),   // cnv_prepare_self (left and right destinations)
        // core level: every ciphertext / plaintext operand is CARVED out of its own scratch window (take_glwe ...)
        90 => ([z, z, x], false, true, true),   // glwe_encrypt_sk  (res: GLWE rank e2, a: plaintext)   base2k e0
        91 => ([z, z, x], false, true, true),   // glwe_decrypt     (res: plaintext, a: GLWE)
        92 => ([z, z, x], false, true, true),   // glwe_keyswitch   (res, a: GLWE; key size b.size, dsize e3)
        93 => ([z, z, x], false, true, true),   // glwe_external_product (res, a: GLWE; ggsw size b.size, dsize e3)
        // scheme layers (harness/src/c17_layers.rs): owned operands, scratch window inside the canary arena
        100..=102 | 110..=112 => ([z, x, x], false, true, true),
        _ => return None,
    })
}

pub fn w_of(kind: u8, be: i128) -> usize {
    let ntt = be >= 3;
    match kind { K_B => if ntt { 16 } else { 8 }, K_D | K_P | K_V | K_L | K_R => if ntt { 32 } else { 8 }, _ => 8 }
}

#[derive(Clone, Copy, Debug)]
pub struct Par {
    be: i128, opc: i64, n: usize, hist: i64, subj: usize, hp1: i64, hp2: i64,
    cols: [usize; 3], size: [usize; 3], col: [usize; 3], e: [i64; 4], seed: u64,
}
pub fn par(r: &Rec) -> Par {
    let p = &r.ps; let u = |i: usize| p[i] as usize;
    Par { be: p[0], opc: p[1] as i64, n: u(2), hist: p[3] as i64, subj: u(4), hp1: p[5] as i64, hp2: p[6] as i64,
          cols: [u(7), u(10), u(13)], size: [u(8), u(11), u(14)], col: [u(9), u(12), u(15)],
          e: [p[16] as i64, p[17] as i64, p[18] as i64, p[19] as i64], seed: p[20] as u64 }
}

/// what the history did to the subject, observed through the real API
#[derive(Clone, Debug)]
struct HistOut { hdr: Hdr, rejected: bool, bytes: Option<Vec<u8>>, mat: Option<(usize, usize)> }

fn hdr_of(v: &VecZnx<Vec<u8>>) -> Hdr { Hdr { n: v.n(), cols: v.cols(), size: v.size(), max: v.max_size(), len: v.data.len(), w: 8 } }

fn fill_words(buf: &mut [u8], g: &mut Rng, bits: u32) {
    for c in buf.chunks_exact_mut(8) {
        let m = (1i64 << bits) - 1;
        let v = (g.i64() & m) - (1i64 << (bits - 1));
        c.copy_from_slice(&v.to_le_bytes());
    }
}

/// histories that run on OWNED objects (alloc / set_size / reallocate_limbs / write_to / read_from); the resulting
/// header and bytes are then transplanted into the arena with exactly the same |data|
fn history_owned(q: &Par, kind: u8) -> Option<HistOut> {
    let s = q.subj; let (n, cols, size) = (q.n, q.cols[s], q.size[s]);
    if q.hist == 13 {
        // a self-consistent stream describing a LARGER object (one dimension bumped) is read into an owned receiver of the
        // nominal shape: read_from must return Err and leave the receiver as it was; the receiver (header as its accessors
        // report it AFTER the call, whatever it returned) is then used by the observed operation
        let mut g = Rng::new(q.seed ^ 0x13);
        let mut stream: Vec<u8> = Vec::new();
        return match kind {
            K_Z => {
                let (n2, c2, s2) = match q.hp1 { 0 => (2 * n, cols, size), 1 => (n, cols + 1, size), _ => (n, cols, size + 1) };
                let mut wr = VecZnx::alloc(n2, c2, s2); fill_words(&mut wr.data, &mut g, 20); wr.write_to(&mut stream).unwrap();
                let mut rc = VecZnx::alloc(n, cols, size); fill_words(&mut rc.data, &mut g, 20);
                let _ = rc.read_from(&mut Cursor::new(&stream));
                Some(HistOut { hdr: hdr_of(&rc), rejected: false, bytes: Some(rc.data.clone()), mat: None })
            }
            K_S => {
                let (n2, c2) = if q.hp1 == 0 { (2 * n, cols) } else { (n, cols + 1) };
                let mut wr = ScalarZnx::alloc(n2, c2); fill_words(&mut wr.data, &mut g, 20); wr.write_to(&mut stream).unwrap();
                let mut rc = ScalarZnx::alloc(n, cols); fill_words(&mut rc.data, &mut g, 20);
                let _ = rc.read_from(&mut Cursor::new(&stream));
                let h = Hdr { n: rc.n(), cols: rc.cols(), size: rc.size(), max: rc.size(), len: rc.data.len(), w: 8 };
                Some(HistOut { hdr: h, rejected: false, bytes: Some(rc.data.clone()), mat: None })
            }
            K_M => {
                // shapes of the vmp family: rows = e0, cols_in = a.cols, cols_out = r.cols, size = a.size (opc 70)
                let (rows, cin, cout, sz) = (q.e[0] as usize, q.cols[1], q.cols[0], q.size[1]);
                let (n2, s2, r2, ci2, co2) = match q.hp1 { 0 => (2 * n, sz, rows, cin, cout), 1 => (n, sz + 1, rows, cin, cout),
                    2 => (n, sz, rows + 1, cin, cout), 3 => (n, sz, rows, cin + 1, cout), _ => (n, sz, rows, cin, cout + 1) };
                let mut wr = MatZnx::alloc(n2, r2, ci2, co2, s2); { let d: &mut Vec<u8> = wr.data_mut(); fill_words(d, &mut g, 20); }
                wr.write_to(&mut stream).unwrap();
                let mut rc = MatZnx::alloc(n, rows, cin, cout, sz); { let d: &mut Vec<u8> = rc.data_mut(); fill_words(d, &mut g, 20); }
                let _ = rc.read_from(&mut Cursor::new(&stream));
                let h = Hdr { n: rc.n(), cols: rc.cols_in(), size: rc.size(), max: rc.size(), len: rc.data().len(), w: 8 };
                Some(HistOut { hdr: h, rejected: false, bytes: Some(rc.data().clone()), mat: Some((rc.rows(), rc.cols_out())) })
            }
            _ => None,
        };
    }
    if kind != K_Z { return None; }
    let mut g = Rng::new(q.seed ^ 0x51);
    match q.hist {
        2 => {
            let mut v = VecZnx::alloc(n, cols, q.hp2 as usize);
            fill_words(&mut v.data, &mut g, 20);
            v.reallocate_limbs(size);
            Some(HistOut { hdr: hdr_of(&v), rejected: false, bytes: Some(v.data.clone()), mat: None })
        }
        3 | 4 => {
            let mut wr = VecZnx::alloc(n, cols, size + q.hp1 as usize);
            fill_words(&mut wr.data, &mut g, 20);
            wr.set_size(size);
            let mut stream: Vec<u8> = Vec::new();
            wr.write_to(&mut stream).unwrap();
            let mut rc = VecZnx::alloc(n, cols, size + q.hp2 as usize);
            let res = rc.read_from(&mut Cursor::new(&stream));
            if res.is_err() { return Some(HistOut { hdr: hdr_of(&rc), rejected: true, bytes: None, mat: None }); }
            if q.hist == 4 { let m = rc.max_size(); rc.set_size(m); }
            Some(HistOut { hdr: hdr_of(&rc), rejected: false, bytes: Some(rc.data.clone()), mat: None })
        }
        5 | 6 => {
            let mut wr = VecZnx::alloc(n, cols, size);
            fill_words(&mut wr.data, &mut g, 20);
            let mut stream: Vec<u8> = Vec::new();
            wr.write_to(&mut stream).unwrap();
            let k = q.hp1 as usize;
            stream[8 * k..8 * k + 8].copy_from_slice(&(q.hp2 as u64).to_le_bytes());
            let mut rc = VecZnx::alloc(n, cols, size);
            let res = rc.read_from(&mut Cursor::new(&stream));
            if res.is_err() { return Some(HistOut { hdr: hdr_of(&rc), rejected: true, bytes: None, mat: None }); }
            if q.hist == 6 { let m = rc.max_size(); rc.set_size(m); }
            Some(HistOut { hdr: hdr_of(&rc), rejected: false, bytes: Some(rc.data.clone()), mat: None })
        }
        12 => {
            // set_size beyond the capacity: the assert in set_size must reject it (a panic here is the expected outcome)
            let mut v = VecZnx::alloc(n, cols, size);
            let m = v.max_size();
            v.set_size(m + 1);
            Some(HistOut { hdr: hdr_of(&v), rejected: false, bytes: Some(v.data.clone()), mat: None })
        }
        10 => {
            // header rewritten CONSISTENTLY (same product, max_size = size): read_from accepts it
            let (n2, c2, s2) = refactor(n, cols, size, q.hp1);
            let mut wr = VecZnx::alloc(n, cols, size);
            fill_words(&mut wr.data, &mut g, 20);
            let mut stream: Vec<u8> = Vec::new();
            wr.write_to(&mut stream).unwrap();
            for (k, v) in [(0usize, n2), (1, c2), (2, s2), (3, s2)] { stream[8 * k..8 * k + 8].copy_from_slice(&(v as u64).to_le_bytes()); }
            let mut rc = VecZnx::alloc(n, cols, size);
            let res = rc.read_from(&mut Cursor::new(&stream));
            if res.is_err() { return Some(HistOut { hdr: hdr_of(&rc), rejected: true, bytes: None, mat: None }); }
            Some(HistOut { hdr: hdr_of(&rc), rejected: false, bytes: Some(rc.data.clone()), mat: None })
        }
        _ => None,
    }
}

/// same number of words, other factorisation
pub fn refactor(n: usize, cols: usize, size: usize, how: i64) -> (usize, usize, usize) {
    match how {
        0 if n >= 2 => (n / 2, cols * 2, size),
        1 if cols % 2 == 0 => (n * 2, cols / 2, size),
        2 => (n, size, cols),
        3 => (n, cols * size, 1),
        4 => (n * cols, 1, size),
        _ => (n, cols, size),
    }
}

#[derive(Clone, Copy, Debug, Default)]
struct Opd { kind: u8, h: Hdr, col: usize, off: usize, rows: usize, cin: usize, cout: usize, win_off: usize, win_len: usize, carved: bool }

struct Plan { opd: [Opd; 3], rejected: bool, illformed: bool, total: usize, sc_off: usize, init: Option<Vec<u8>> }

fn r64(x: usize) -> usize { x.div_ceil(64) * 64 }

/// lay the operands out; the subject's header comes from its history
fn plan(q: &Par) -> Plan {
    let (kinds, _, _, _) = op_info(q.opc).expect("c17: unknown op");
    if q.opc >= 90 {
        let mut opd = [Opd { kind: K_NONE, ..Default::default() }; 3];
        for o in 0..2 { opd[o].h = Hdr { n: q.n, cols: q.cols[o], size: q.size[o], max: q.size[o], len: q.n * q.cols[o] * q.size[o] * 8, w: 8 }; }
        return Plan { opd, rejected: false, illformed: false, total: 0, sc_off: 0, init: None };
    }
    let mut opd = [Opd { kind: K_NONE, ..Default::default() }; 3];
    let mut off = GUARD;
    let mut rejected = false; let mut illformed = false; let mut init = None;
    for o in 0..3 {
        let kind = kinds[o]; if kind == K_NONE { continue; }
        let w = w_of(kind, q.be);
        let (mut cols, mut size) = (q.cols[o], q.size[o]);
        if kind == K_S || kind == K_P { size = 1; }
        let (mut rows, mut cin, mut cout) = (0, 0, 0);
        if kind == K_M || kind == K_V {
            // matrix shapes: rows = e0, cols_in = a.cols (vmp apply) / own cols (prepare), cols_out = r.cols
            rows = q.e[0] as usize;
            if q.opc == 70 { cin = q.cols[1]; cout = q.cols[0]; size = q.size[1]; } else { cin = q.cols[1]; cout = q.cols[0]; }
            cols = cin;
        }
        if kind == K_C { cols = 1; size = 1; }
        let words = if kind == K_M || kind == K_V { rows * cin * cout * size } else { cols * size };
        let hn = if kind == K_C { q.e[1].max(0) as usize } else { q.n };
        let mut h = Hdr { n: hn, cols, size, max: size, len: hn * words * w, w };
        let mut start_shift = 0usize; let mut carved = false;
        if o == q.subj {
            match q.hist {
                0 => {}
                1 => { h.max = size + q.hp1 as usize; h.len = q.n * cols * h.max * w; }
                2..=6 | 10 | 12 | 13 => {
                    let ho = history_owned(q, kind).expect("c17: history not available for this kind of subject");
                    h = ho.hdr; rejected = ho.rejected; init = ho.bytes;
                    if let Some((r_, co_)) = ho.mat { rows = r_; cout = co_; cin = h.cols; }
                }
                7 => { carved = true; start_shift = 8 * q.hp1 as usize; }
                8 => { start_shift = (if w == 16 { 16 } else { 8 }) * q.hp1 as usize; }
                9 => {
                    h.len = h.len.saturating_sub(8 * q.hp1 as usize);
                    if kind == K_Z || kind == K_S {
                        // VecZnx / ScalarZnx::from_data validate the buffer (repair 2067fe8): a short buffer must be
                        // rejected by a panic (which propagates as the outcome of this record)
                        let buf: Vec<u8> = poulpy_hal::alloc_aligned::<u8>(h.len.max(64));
                        if kind == K_Z { let v = VecZnx::from_data(&buf[..h.len], q.n, cols, size); h.len = v.data.len(); }
                        else { let v = ScalarZnx::from_data(&buf[..h.len], q.n, cols); h.len = v.data.len(); }
                    } else if kind == K_B || kind == K_D || kind == K_P {
                        // the real from_data of the big / prepared layouts on the short buffer: rejected by the asserts of
                        // repair 122d562 (the panic propagates as the outcome of this record)
                        let buf: Vec<u8> = poulpy_hal::alloc_aligned::<u8>(h.len.max(64));
                        let n = q.n;
                        h.len = with_be!(q.be, BE, {
                            match kind {
                                K_B => VecZnxBig::<&[u8], BE>::from_data(&buf[..h.len], n, cols, size).data.len(),
                                K_D => VecZnxDft::<&[u8], BE>::from_data(&buf[..h.len], n, cols, size).data.len(),
                                _ => SvpPPol::<&[u8], BE>::from_data(&buf[..h.len], n, cols).data.len(),
                            }
                        });
                    }
                }
                11 => { h.n = if q.hp1 == 0 { (q.n / 2).max(1) } else { q.n * 2 }; h.len = h.n * words * w; }
                _ => panic!("c17: unknown history"),
            }
            illformed = if kind == K_M || kind == K_V {
                // InvM: n * rows * cols_in * cols_out * size * w <= |data|
                let need = [rows, cin, cout, h.size, h.w].iter().try_fold(h.n, |a, b| a.checked_mul(*b));
                !matches!(need, Some(b) if b <= h.len)
            } else { !h.inv() };
        }
        if std::env::var("C17_SEPARATE").is_ok() { start_shift = 0; }   // own allocations start 64-aligned
        off = r64(off);
        if carved {
            let pad = (64 - start_shift % 64) % 64;
            let win_off = off + start_shift; let win_len = pad + h.len;
            opd[o] = Opd { kind, h, col: q.col[o], off: win_off + pad, rows, cin, cout, win_off, win_len, carved };
            off = win_off + win_len + GUARD;
        } else {
            opd[o] = Opd { kind, h, col: q.col[o], off: off + start_shift, rows, cin, cout, win_off: off + start_shift, win_len: h.len, carved };
            off = off + start_shift + h.len + GUARD;
        }
    }
    let sc_off = r64(off);
    Plan { opd, rejected, illformed, total: sc_off, sc_off, init }
}

struct Obs { status: i128, canary_ok: bool, viol: i128, digest: Vec<u8>, scratch_panic: bool, hdr: Option<Vec<i128>> }

#[cfg(feature = "c17hook")]
fn hook_reset() { poulpy_hal::verif::reset(); }
#[cfg(feature = "c17hook")]
fn hook_violations() -> i128 { poulpy_hal::verif::violations() as i128 }
#[cfg(not(feature = "c17hook"))]
fn hook_reset() {}
#[cfg(not(feature = "c17hook"))]
fn hook_violations() -> i128 { 0 }

fn garbage(buf: &mut [u8], g: &mut Rng) {
    for c in buf.chunks_mut(8) { let v = g.next().to_le_bytes(); let l = c.len(); c.copy_from_slice(&v[..l]); }
}

/// one run with one garbage fill; `slack` extra scratch bytes beyond tmp_bytes; `force` runs ill-formed subjects too
fn run_once(q: &Par, pl: &Plan, fill: u64, slack: usize, force: bool) -> Obs {
    if q.opc >= 90 { return run_core(q, fill, slack); }
    let q = *q;
    let (kinds, res_in, whole, _uses_sc) = op_info(q.opc).unwrap();
    with_be!(q.be, BE, {
        let module: Module<BE> = Module::<BE>::new(q.n as u64);
        let n = q.n;
        let o = pl.opd;
        // an ill-formed subject is USED only on request (hazard stream) and only when the overshoot stays inside the guards
        let overshoot: u128 = {
            let h = o[q.subj].h;
            ((h.n as u128) * (h.cols as u128) * (h.size as u128) * (h.w as u128)).saturating_sub(h.len as u128)
        };
        if pl.rejected || (pl.illformed && !(force && overshoot <= (GUARD / 2) as u128)) {
            return Obs { status: if pl.rejected { 2 } else { 3 }, canary_ok: true, viol: 0, digest: vec![], scratch_panic: false, hdr: None };
        }
        // ---- scratch need
        let rows = q.e[0].max(0) as usize;
        let need: usize = match q.opc {
            11 => module.vec_znx_rotate_assign_tmp_bytes(),
            13 => module.vec_znx_mul_xp_minus_one_assign_tmp_bytes(),
            15 => module.vec_znx_automorphism_assign_tmp_bytes(),
            20 | 21 => module.vec_znx_normalize_tmp_bytes(),
            22..=25 => module.vec_znx_lsh_tmp_bytes(),
            26..=29 => module.vec_znx_rsh_tmp_bytes(),
            43 => module.vec_znx_big_normalize_tmp_bytes(),
            45 => module.vec_znx_big_automorphism_assign_tmp_bytes(),
            51 => module.vec_znx_idft_apply_tmp_bytes(),
            80 => module.cnv_prepare_left_tmp_bytes(o[0].h.size, o[1].h.size),
            81 => module.cnv_prepare_right_tmp_bytes(o[0].h.size, o[1].h.size),
            82 => module.cnv_apply_dft_tmp_bytes(q.e[0] as usize, o[0].h.size, o[1].h.size, o[2].h.size),
            83 => module.cnv_pairwise_apply_dft_tmp_bytes(o[0].h.size, q.e[0] as usize, o[1].h.size, o[2].h.size),
            84 => module.cnv_by_const_apply_tmp_bytes(q.e[0] as usize, o[0].h.size, o[1].h.size, q.e[1] as usize),
            85 => module.cnv_prepare_self_tmp_bytes(o[0].h.size, o[2].h.size),
            70 => module.vmp_prepare_tmp_bytes(rows, o[0].cin, o[0].cout, o[0].h.size),
            71 => module.vmp_apply_dft_to_dft_tmp_bytes(o[0].h.size, o[1].h.size, rows, o[2].cin, o[2].cout, o[2].h.size),
            72 => module.vmp_apply_dft_tmp_bytes(o[0].h.size, o[1].h.size, rows, o[2].cin, o[2].cout, o[2].h.size),
            _ => 0,
        } + slack;
        let total = pl.sc_off + need + GUARD + 64;
        // under Miri (C17_MIRI=1) the library's own aligned allocator cannot be used: dropping its Vec<u8> is the
        // documented layout-mismatch UB and Miri stops at the first UB; the arena is then allocated (and leaked) here
        let miri = std::env::var("C17_MIRI").is_ok();
        let mut arena: Vec<u8> = if miri {
            let t = r64(total);
            unsafe { Vec::from_raw_parts(std::alloc::alloc_zeroed(std::alloc::Layout::from_size_align(t, 64).unwrap()), t, t) }
        } else { poulpy_hal::alloc_aligned::<u8>(total) };
        let total = arena.len();
        assert!(arena.as_ptr() as usize % 64 == 0);
        let mut g = Rng::new(fill);
        garbage(&mut arena, &mut g);
        let base: *mut u8 = arena.as_mut_ptr();
        // C17_SEPARATE=1 (sanitizer runs): every operand region and the scratch window is its own exact-size heap
        // allocation, so that AddressSanitizer's redzones sit right behind each of them; offsets are translated
        let separate = std::env::var("C17_SEPARATE").is_ok();
        let mut reg: Vec<(usize, usize, *mut u8)> = Vec::new();
        if separate {
            let mut rs: Vec<(usize, usize)> = (0..3).filter(|k| kinds[*k] != K_NONE).map(|k| (o[k].win_off, o[k].win_len)).collect();
            rs.push((pl.sc_off, need));
            for (lo, len) in rs {
                let lay = std::alloc::Layout::from_size_align(len.max(1), 64).unwrap();
                let p = unsafe { std::alloc::alloc(lay) };
                assert!(!p.is_null());
                // C17_UNINIT=1 (memcheck runs): non-input bytes stay UNINITIALISED instead of garbage-filled
                if std::env::var("C17_UNINIT").is_err() { unsafe { std::ptr::copy_nonoverlapping(base.add(lo), p, len); } }
                reg.push((lo, len, p));
            }
        }
        let reg_ref = &reg;
        let sl = move |off: usize, len: usize| -> &'static mut [u8] {
            if separate {
                for (lo, l, p) in reg_ref.iter() {
                    if off >= *lo && off <= *lo + *l { return unsafe { std::slice::from_raw_parts_mut(p.add(off - *lo), len) }; }
                }
                panic!("c17: offset outside every region");
            }
            assert!(off + len <= total);
            unsafe { std::slice::from_raw_parts_mut(base.add(off), len) }
        };
        // ---- inputs (independent of the fill)
        let mut gd = Rng::new(q.seed ^ 0xDA7A);
        let bits: u32 = if q.be <= 2 { 14 } else { 30 };
        for k in 0..3 {
            if kinds[k] == K_NONE { continue; }
            let is_input = k > 0 || res_in;
            let h = o[k].h;
            if k == q.subj && pl.init.is_some() {
                // transplanted object: its whole buffer as the history left it, then the ACTIVE part refreshed below
                let b = pl.init.as_ref().unwrap();
                sl(o[k].off, h.len).copy_from_slice(&b[..h.len]);
            }
            if !is_input { continue; }
            // active part (limbs [0,size) of every column) = a prefix of the buffer; never beyond the buffer
            let act_words = match kinds[k] { K_M | K_V => o[k].rows * o[k].cin * o[k].cout * h.size, _ => h.cols * h.size };
            let act_bytes = (h.n * act_words * h.w).min(h.len);
            let foreign_n = h.n != n;   // an operand of another ring degree: DFT-domain images cannot be produced, raw words are used
            match kinds[k] {
                _ if foreign_n && h.w != 16 => fill_words(sl(o[k].off, act_bytes / 8 * 8), &mut gd, bits),
                K_Z | K_S | K_M | K_C => fill_words(sl(o[k].off, act_bytes / 8 * 8), &mut gd, if q.opc >= 80 { 10 } else { bits }),
                K_L | K_R => {
                    // a genuinely prepared convolution operand (from bounded coefficients)
                    let mut z = VecZnx::alloc(n, h.cols, h.size);
                    fill_words(&mut z.data, &mut gd, 10);
                    let mut sc = ScratchOwned::<BE>::alloc(module.cnv_prepare_left_tmp_bytes(h.size, h.size).max(module.cnv_prepare_right_tmp_bytes(h.size, h.size)) + 4096);
                    let db: Vec<u8> = if kinds[k] == K_L {
                        let mut l = module.cnv_pvec_left_alloc(h.cols, h.size); module.cnv_prepare_left(&mut l, &z, -1, sc.borrow()); l.data().as_ref().to_vec()
                    } else {
                        let mut r = module.cnv_pvec_right_alloc(h.cols, h.size); module.cnv_prepare_right(&mut r, &z, -1, sc.borrow()); r.data().as_ref().to_vec()
                    };
                    let m = act_bytes.min(db.len());
                    sl(o[k].off, m).copy_from_slice(&db[..m]);
                }
                K_B => {
                    if h.w == 8 { fill_words(sl(o[k].off, act_bytes / 8 * 8), &mut gd, 40) }
                    else { for c in sl(o[k].off, act_bytes / 16 * 16).chunks_exact_mut(16) { let v = (gd.i64() >> 8) as i128; c.copy_from_slice(&v.to_le_bytes()); } }
                }
                K_D => {
                    // a genuine DFT image of bounded coefficients
                    let mut z = VecZnx::alloc(n, h.cols, h.size);
                    fill_words(&mut z.data, &mut gd, bits);
                    let mut d = module.vec_znx_dft_alloc(h.cols, h.size);
                    for c in 0..h.cols { module.vec_znx_dft_apply(1, 0, &mut d, c, &z, c); }
                    let db: &[u8] = d.data().as_ref();
                    let m = act_bytes.min(db.len());
                    sl(o[k].off, m).copy_from_slice(&db[..m]);
                }
                K_P => {
                    let mut z = ScalarZnx::alloc(n, h.cols);
                    fill_words(&mut z.data, &mut gd, 8);
                    let mut d = module.svp_ppol_alloc(h.cols);
                    for c in 0..h.cols { module.svp_prepare(&mut d, c, &z, c); }
                    let db: &[u8] = d.data().as_ref();
                    let m = act_bytes.min(db.len());
                    sl(o[k].off, m).copy_from_slice(&db[..m]);
                }
                K_V => {
                    let (r_, ci, co, sz) = (o[k].rows, o[k].cin, o[k].cout, h.size);
                    let mut mat = MatZnx::alloc(n, r_, ci, co, sz);
                    { let d: &mut Vec<u8> = mat.data_mut(); fill_words(d, &mut gd, 8); }
                    let mut pm = module.vmp_pmat_alloc(r_, ci, co, sz);
                    let mut sc = ScratchOwned::<BE>::alloc(module.vmp_prepare_tmp_bytes(r_, ci, co, sz) + 4096);
                    module.vmp_prepare(&mut pm, &mat, sc.borrow());
                    let db: &[u8] = pm.data().as_ref();
                    let m = act_bytes.min(db.len());
                    sl(o[k].off, m).copy_from_slice(&db[..m]);
                }
                _ => {}
            }
        }
        // ---- regions that may legitimately change; everything else is canary
        let mut regions: Vec<(usize, usize)> = (0..3).filter(|k| kinds[*k] != K_NONE).map(|k| (o[k].win_off, o[k].win_len)).collect();
        regions.push((pl.sc_off, need));
        let before: Vec<u8> = arena.clone();
        hook_reset();
        let mut carve_ok = true;
        let res = catch_unwind(AssertUnwindSafe(|| -> Vec<u8> {
            // ---- typed views
            macro_rules! vz { ($k:expr) => { VecZnx { data: sl(o[$k].off, o[$k].h.len), n: o[$k].h.n, cols: o[$k].h.cols, size: o[$k].h.size, max_size: o[$k].h.max } } }
            macro_rules! vb { ($k:expr) => { VecZnxBig::<&mut [u8], BE> { data: sl(o[$k].off, o[$k].h.len), n: o[$k].h.n, cols: o[$k].h.cols, size: o[$k].h.size, max_size: o[$k].h.max, _phantom: std::marker::PhantomData } } }
            macro_rules! vd { ($k:expr) => { VecZnxDft::<&mut [u8], BE> { data: sl(o[$k].off, o[$k].h.len), n: o[$k].h.n, cols: o[$k].h.cols, size: o[$k].h.size, max_size: o[$k].h.max, _phantom: std::marker::PhantomData } } }
            macro_rules! sz { ($k:expr) => { ScalarZnx { data: sl(o[$k].off, o[$k].h.len), n: o[$k].h.n, cols: o[$k].h.cols } } }
            macro_rules! sp { ($k:expr) => { SvpPPol::<&mut [u8], BE> { data: sl(o[$k].off, o[$k].h.len), n: o[$k].h.n, cols: o[$k].h.cols, _phantom: std::marker::PhantomData } } }
            macro_rules! cl { ($k:expr) => { CnvPVecL::<&mut [u8], BE>::from_data(sl(o[$k].off, o[$k].h.len), o[$k].h.n, o[$k].h.cols, o[$k].h.size) } }
            macro_rules! cr { ($k:expr) => { CnvPVecR::<&mut [u8], BE>::from_data(sl(o[$k].off, o[$k].h.len), o[$k].h.n, o[$k].h.cols, o[$k].h.size) } }
            macro_rules! mz { ($k:expr) => { MatZnx::from_data(sl(o[$k].off, o[$k].h.len), o[$k].h.n, o[$k].rows, o[$k].cin, o[$k].cout, o[$k].h.size) } }
            macro_rules! vm { ($k:expr) => { VmpPMat::<&mut [u8], BE>::from_data(sl(o[$k].off, o[$k].h.len), o[$k].h.n, o[$k].rows, o[$k].cin, o[$k].cout, o[$k].h.size) } }
            // ---- carving out of a scratch window: the object must be where the arena model says
            for k in 0..3 {
                if kinds[k] == K_NONE || !o[k].carved { continue; }
                let win: &mut Scratch<BE> = Scratch::<BE>::from_bytes(sl(o[k].win_off, o[k].win_len));
                let h = o[k].h;
                let (p, l, rp, rl): (usize, usize, usize, usize) = match kinds[k] {
                    K_Z => { let (v, r) = win.take_vec_znx(n, h.cols, h.size); (v.data.as_ptr() as usize, v.data.len(), r.data.as_ptr() as usize, r.data.len()) }
                    K_B => { let (v, r) = win.take_vec_znx_big(&module, h.cols, h.size); let v: VecZnxBig<&mut [u8], BE> = v; (v.data.as_ptr() as usize, v.data.len(), r.data.as_ptr() as usize, r.data.len()) }
                    K_D => { let (v, r) = win.take_vec_znx_dft(&module, h.cols, h.size); let v: VecZnxDft<&mut [u8], BE> = v; (v.data.as_ptr() as usize, v.data.len(), r.data.as_ptr() as usize, r.data.len()) }
                    K_S => { let (v, r) = win.take_scalar_znx(n, h.cols); (v.data.as_ptr() as usize, v.data.len(), r.data.as_ptr() as usize, r.data.len()) }
                    K_P => { let (v, r) = win.take_svp_ppol(&module, h.cols); let v: SvpPPol<&mut [u8], BE> = v; (v.data.as_ptr() as usize, v.data.len(), r.data.as_ptr() as usize, r.data.len()) }
                    K_L => { let (v, r) = win.take_cnv_pvec_left(&module, h.cols, h.size); let v: CnvPVecL<&mut [u8], BE> = v; (v.data().as_ptr() as usize, v.data().len(), r.data.as_ptr() as usize, r.data.len()) }
                    K_R => { let (v, r) = win.take_cnv_pvec_right(&module, h.cols, h.size); let v: CnvPVecR<&mut [u8], BE> = v; (v.data().as_ptr() as usize, v.data().len(), r.data.as_ptr() as usize, r.data.len()) }
                    K_M => { let (v, r) = win.take_mat_znx(n, o[k].rows, o[k].cin, o[k].cout, h.size); (v.data().as_ptr() as usize, v.data().len(), r.data.as_ptr() as usize, r.data.len()) }
                    _ => { let (v, r) = win.take_vmp_pmat(&module, o[k].rows, o[k].cin, o[k].cout, h.size); let v: VmpPMat<&mut [u8], BE> = v; (v.data().as_ptr() as usize, v.data().len(), r.data.as_ptr() as usize, r.data.len()) }
                };
                let (pw, po) = (sl(o[k].win_off, 0).as_ptr() as usize, sl(o[k].off, 0).as_ptr() as usize);
                if !(p % 64 == 0 && p == po && l == h.len && rp == p + l && rp + rl == pw + o[k].win_len) { carve_ok = false; }
            }
            let sc: &mut Scratch<BE> = Scratch::<BE>::from_bytes(sl(pl.sc_off, need));
            let (rc, ac, bc) = (o[0].col, o[1].col, o[2].col);
            let e = q.e;
            match q.opc {
                1 => module.vec_znx_add_into(&mut vz!(0), rc, &vz!(1), ac, &vz!(2), bc),
                2 => module.vec_znx_add_assign(&mut vz!(0), rc, &vz!(1), ac),
                3 => module.vec_znx_sub(&mut vz!(0), rc, &vz!(1), ac, &vz!(2), bc),
                4 => module.vec_znx_sub_assign(&mut vz!(0), rc, &vz!(1), ac),
                5 => module.vec_znx_sub_negate_assign(&mut vz!(0), rc, &vz!(1), ac),
                6 => module.vec_znx_negate(&mut vz!(0), rc, &vz!(1), ac),
                7 => module.vec_znx_negate_assign(&mut vz!(0), rc),
                8 => module.vec_znx_copy(&mut vz!(0), rc, &vz!(1), ac),
                9 => module.vec_znx_zero(&mut vz!(0), rc),
                10 => module.vec_znx_rotate(e[0], &mut vz!(0), rc, &vz!(1), ac),
                11 => module.vec_znx_rotate_assign(e[0], &mut vz!(0), rc, sc),
                12 => module.vec_znx_mul_xp_minus_one(e[0], &mut vz!(0), rc, &vz!(1), ac),
                13 => module.vec_znx_mul_xp_minus_one_assign(e[0], &mut vz!(0), rc, sc),
                14 => module.vec_znx_automorphism(e[0], &mut vz!(0), rc, &vz!(1), ac),
                15 => module.vec_znx_automorphism_assign(e[0], &mut vz!(0), rc, sc),
                16 => module.vec_znx_add_scalar_into(&mut vz!(0), rc, &sz!(1), ac, &vz!(2), bc, e[0] as usize),
                20 => module.vec_znx_normalize(&mut vz!(0), e[0] as usize, e[2], rc, &vz!(1), e[1] as usize, ac, sc),
                21 => module.vec_znx_normalize_assign(e[0] as usize, &mut vz!(0), rc, sc),
                22 => module.vec_znx_lsh(e[0] as usize, e[1] as usize, &mut vz!(0), rc, &vz!(1), ac, sc),
                23 => module.vec_znx_lsh_assign(e[0] as usize, e[1] as usize, &mut vz!(0), rc, sc),
                24 => module.vec_znx_lsh_add_into(e[0] as usize, e[1] as usize, &mut vz!(0), rc, &vz!(1), ac, sc),
                25 => module.vec_znx_lsh_sub(e[0] as usize, e[1] as usize, &mut vz!(0), rc, &vz!(1), ac, sc),
                26 => module.vec_znx_rsh(e[0] as usize, e[1] as usize, &mut vz!(0), rc, &vz!(1), ac, sc),
                27 => module.vec_znx_rsh_assign(e[0] as usize, e[1] as usize, &mut vz!(0), rc, sc),
                28 => module.vec_znx_rsh_add_into(e[0] as usize, e[1] as usize, &mut vz!(0), rc, &vz!(1), ac, sc),
                29 => module.vec_znx_rsh_sub(e[0] as usize, e[1] as usize, &mut vz!(0), rc, &vz!(1), ac, sc),
                40 => module.vec_znx_big_add_into(&mut vb!(0), rc, &vb!(1), ac, &vb!(2), bc),
                41 => module.vec_znx_big_sub(&mut vb!(0), rc, &vb!(1), ac, &vb!(2), bc),
                42 => module.vec_znx_big_negate(&mut vb!(0), rc, &vb!(1), ac),
                43 => module.vec_znx_big_normalize(&mut vz!(0), e[0] as usize, e[2], rc, &vb!(1), e[1] as usize, ac, sc),
                44 => module.vec_znx_big_automorphism(e[0], &mut vb!(0), rc, &vb!(1), ac),
                45 => module.vec_znx_big_automorphism_assign(e[0], &mut vb!(0), rc, sc),
                46 => module.vec_znx_big_from_small(&mut vb!(0), rc, &vz!(1), ac),
                47 => module.vec_znx_big_add_small_into(&mut vb!(0), rc, &vb!(1), ac, &vz!(2), bc),
                48 => module.vec_znx_big_add_assign(&mut vb!(0), rc, &vb!(1), ac),
                50 => module.vec_znx_dft_apply(e[0] as usize, e[1] as usize, &mut vd!(0), rc, &vz!(1), ac),
                51 => module.vec_znx_idft_apply(&mut vb!(0), rc, &vd!(1), ac, sc),
                52 => module.vec_znx_idft_apply_tmpa(&mut vb!(0), rc, &mut vd!(1), ac),
                53 => module.vec_znx_dft_add_into(&mut vd!(0), rc, &vd!(1), ac, &vd!(2), bc),
                54 => module.vec_znx_dft_sub(&mut vd!(0), rc, &vd!(1), ac, &vd!(2), bc),
                55 => module.vec_znx_dft_copy(e[0] as usize, e[1] as usize, &mut vd!(0), rc, &vd!(1), ac),
                56 => module.vec_znx_dft_zero(&mut vd!(0), rc),
                57 => module.vec_znx_dft_add_assign(&mut vd!(0), rc, &vd!(1), ac),
                58 => {
                    let big: VecZnxBig<&mut [u8], BE> = module.vec_znx_idft_apply_consume(vd!(0));
                    // the returned view must still be the same bytes and well formed for the big word size
                    let wb = std::mem::size_of::<<BE as Backend>::ScalarBig>();
                    if !(big.data.as_ptr() as usize == sl(o[0].off, 0).as_ptr() as usize && big.n() * big.cols() * big.size() * wb <= big.data.len()) { carve_ok = false; }
                    let mut out = Vec::new();
                    let (bn, bc_, bs) = (big.n(), big.cols(), big.size());
                    for c in 0..bc_ { for j in 0..bs { let b0 = bn * (j * bc_ + c) * wb; out.extend_from_slice(sl(o[0].off + b0, bn * wb)); } }
                    return out;
                }
                60 => module.svp_prepare(&mut sp!(0), rc, &sz!(1), ac),
                61 => module.svp_apply_dft(&mut vd!(0), rc, &sp!(1), ac, &vz!(2), bc),
                62 => module.svp_apply_dft_to_dft(&mut vd!(0), rc, &sp!(1), ac, &vd!(2), bc),
                63 => module.svp_apply_dft_to_dft_assign(&mut vd!(0), rc, &sp!(1), ac),
                80 => module.cnv_prepare_left(&mut cl!(0), &vz!(1), -1, sc),
                81 => module.cnv_prepare_right(&mut cr!(0), &vz!(1), -1, sc),
                82 => module.cnv_apply_dft(e[0] as usize, &mut vd!(0), rc, &cl!(1), ac, &cr!(2), bc, sc),
                83 => module.cnv_pairwise_apply_dft(e[0] as usize, &mut vd!(0), rc, &cl!(1), &cr!(2), ac, bc, sc),
                84 => {
                    let cst: &[i64] = unsafe { std::slice::from_raw_parts(sl(o[2].off, o[2].h.len).as_ptr() as *const i64, o[2].h.len / 8) };
                    module.cnv_by_const_apply(e[0] as usize, &mut vb!(0), rc, &vz!(1), ac, cst, sc)
                }
                85 => module.cnv_prepare_self(&mut cl!(0), &mut cr!(1), &vz!(2), -1, sc),
                70 => module.vmp_prepare(&mut vm!(0), &mz!(1), sc),
                71 => module.vmp_apply_dft_to_dft(&mut vd!(0), &vd!(1), &vm!(2), e[1] as usize, sc),
                72 => module.vmp_apply_dft(&mut vd!(0), &vz!(1), &vm!(2), sc),
                _ => panic!("c17: unknown op"),
            }
            // ---- digest: the selected column (or every column), active limbs, of the destination
            let h = o[0].h;
            let mut out = Vec::new();
            if kinds[0] == K_M || kinds[0] == K_V {
                out.extend_from_slice(sl(o[0].off, h.len));
            } else {
                let colsel: Vec<usize> = if whole { (0..h.cols).collect() } else { vec![rc] };
                for c in colsel { for j in 0..h.size {
                    let b0 = h.n * (j * h.cols + c) * h.w;
                    if b0 + h.n * h.w <= h.len { out.extend_from_slice(sl(o[0].off + b0, h.n * h.w)); }
                } }
            }
            out
        }));
        let viol = hook_violations();
        // ---- canaries
        let mut ok = carve_ok;
        let mut i = 0usize;
        regions.sort();
        for (lo, len) in regions {
            if lo > i && arena[i..lo] != before[i..lo] { ok = false; }
            i = i.max(lo + len);
        }
        if i < total && arena[i..] != before[i..] { ok = false; }
        if miri { std::mem::forget(std::mem::take(&mut arena)); std::mem::forget(module); }
        for (_, len, p) in reg.iter() { unsafe { std::alloc::dealloc(*p, std::alloc::Layout::from_size_align((*len).max(1), 64).unwrap()); } }
        match res {
            Ok(d) => Obs { status: 0, canary_ok: ok, viol, digest: d, scratch_panic: false, hdr: None },
            Err(p) => {
                let m = panic_class(p);
                if std::env::var("C17_VERBOSE").is_ok() { eprintln!("c17: panic: {}", m); }
                let sp = m.starts_with("Attempted to take") || m.contains("scratch.available()");
                Obs { status: 1, canary_ok: ok, viol, digest: vec![], scratch_panic: sp, hdr: None }
            }
        }
    })
}


fn src(seed: u64) -> Source { let mut s = [0u8; 32]; s[..8].copy_from_slice(&seed.to_le_bytes()); Source::new(s) }

/// core-level operations on operands carved out of scratch windows inside the canary arena
fn run_core(q: &Par, fill: u64, slack: usize) -> Obs {
    let q = *q;
    with_be!(q.be, BE, {
        let n = q.n;
        let module: Module<BE> = Module::<BE>::new(n as u64);
        let (b2k, rank, dsize) = (q.e[0] as u32, q.e[2] as u32, (q.e[3] as u32).max(1));
        let lay = |size: usize| GLWELayout { n: Degree(n as u32), base2k: Base2K(b2k), k: TorusPrecision(b2k * size as u32), rank: Rank(rank) };
        let (lr, la) = (lay(q.size[0]), lay(q.size[1]));
        let ksz = q.size[2] as u32;
        let dnum = (q.size[1] as u32).div_ceil(dsize).max(1);
        let lk = GGLWELayout { n: Degree(n as u32), base2k: Base2K(b2k), k: TorusPrecision(b2k * ksz), rank_out: Rank(rank), rank_in: Rank(rank), dnum: Dnum(dnum), dsize: Dsize(dsize) };
        let lg = GGSWLayout { n: Degree(n as u32), base2k: Base2K(b2k), k: TorusPrecision(b2k * ksz), rank: Rank(rank), dnum: Dnum(dnum), dsize: Dsize(dsize) };
        // owned key material (outside the arena)
        let mut sk = GLWESecret::alloc_from_infos(&lr); sk.fill_ternary_prob(0.5, &mut src(q.seed ^ 1));
        let mut skp = module.glwe_secret_prepared_alloc(lr.rank); module.glwe_secret_prepare(&mut skp, &sk);
        let infos = EncryptionLayout::new_from_default_sigma(lr).unwrap();
        let big = |bytes: usize| -> ScratchOwned<BE> { ScratchOwned::<BE>::alloc(bytes + (1 << 16)) };
        // windows: res, a, scratch; the subject's window starts 8*hp1 bytes after a 64-byte boundary
        let bytes = |cols: usize, size: usize| n * cols * size * 8;
        let (rcols, acols) = (q.cols[0], q.cols[1]);
        let shift = |k: usize| if k == q.subj { 8 * q.hp1 as usize } else { 0 };
        let pad = |k: usize| (64 - shift(k) % 64) % 64;
        let w0 = r64(GUARD) + shift(0); let l0 = pad(0) + bytes(rcols, q.size[0]);
        let w1 = r64(w0 + l0 + GUARD) + shift(1); let l1 = pad(1) + bytes(acols, q.size[1]);
        let sc_off = r64(w1 + l1 + GUARD);
        let need = match q.opc {
            90 => module.glwe_encrypt_sk_tmp_bytes(&lr),
            91 => module.glwe_decrypt_tmp_bytes(&la),
            92 => module.glwe_keyswitch_tmp_bytes(&lr, &la, &lk),
            _ => module.glwe_external_product_tmp_bytes(&lr, &la, &lg),
        } + slack;
        let mut arena: Vec<u8> = poulpy_hal::alloc_aligned::<u8>(sc_off + need + GUARD + 64);
        let total = arena.len();
        let mut g = Rng::new(fill);
        garbage(&mut arena, &mut g);
        let base: *mut u8 = arena.as_mut_ptr();
        let sl = |off: usize, len: usize| -> &'static mut [u8] { assert!(off + len <= total); unsafe { std::slice::from_raw_parts_mut(base.add(off), len) } };
        let mut regions = vec![(w0, l0), (w1, l1), (sc_off, need)];
        let before: Vec<u8> = arena.clone();
        hook_reset();
        let mut carve_ok = true;
        let mut obs_hdr: Option<Vec<i128>> = None;
        let mut ill = false;
        // history 13 on a carved GLWE operand: a larger GLWE (one more limb) is read into it; the reader must return Err and
        // leave the view as it was; what its accessors report afterwards is the observed header
        macro_rules! reject_larger_glwe { ($g:expr, $lay:expr, $size:expr) => {{
            let big = GLWE::alloc_from_infos(&lay($size + 1));
            let mut stream: Vec<u8> = Vec::new();
            big.write_to(&mut stream).unwrap();
            let _ = $g.read_from(&mut Cursor::new(&stream));
            let d = $g.data();
            let h = Hdr { n: d.n(), cols: d.cols(), size: d.size(), max: d.max_size(), len: d.data.len(), w: 8 };
            obs_hdr = Some(vec![h.n as i128, h.cols as i128, h.size as i128, h.max as i128, h.len as i128, 8]);
            if !h.inv() { ill = true; }
        }}; }
        // history 13 on the owned key: a larger matrix (one dimension bumped, same prefix) is read into it
        let bump = |rows: usize, cin: usize, cout: usize, size: usize| -> (usize, usize, usize, usize, usize) {
            match q.hp1 { 0 => (2 * n, size, rows, cin, cout), 1 => (n, size + 1, rows, cin, cout), 2 => (n, size, rows + 1, cin, cout),
                          3 => (n, size, rows, cin + 1, cout), _ => (n, size, rows, cin, cout + 1) }
        };
        let key_stream = |rows: usize, cin: usize, cout: usize, size: usize| -> Vec<u8> {
            let (n2, s2, r2, ci2, co2) = bump(rows, cin, cout, size);
            let mut stream: Vec<u8> = Vec::new();
            stream.extend_from_slice(&b2k.to_le_bytes()); stream.extend_from_slice(&dsize.to_le_bytes());
            let mut m = MatZnx::alloc(n2, r2, ci2, co2, s2);
            { let d: &mut Vec<u8> = m.data_mut(); fill_words(d, &mut Rng::new(q.seed ^ 0x4B), 16); }
            m.write_to(&mut stream).unwrap();
            stream
        };
        let mat_hdr = |mn: usize, rows: usize, cin: usize, cout: usize, size: usize, len: usize| -> (Vec<i128>, bool) {
            let need = [rows, cin, cout, size, 8].iter().try_fold(mn, |a, b| a.checked_mul(*b));
            (vec![mn as i128, cin as i128, size as i128, size as i128, len as i128, 8, rows as i128, cout as i128],
             matches!(need, Some(b) if b <= len))
        };
        let res = catch_unwind(AssertUnwindSafe(|| -> Vec<u8> {
            let win0: &mut Scratch<BE> = Scratch::<BE>::from_bytes(sl(w0, l0));
            let win1: &mut Scratch<BE> = Scratch::<BE>::from_bytes(sl(w1, l1));
            let sc: &mut Scratch<BE> = Scratch::<BE>::from_bytes(sl(sc_off, need));
            let mut chk = |p: usize, l: usize, woff: usize, wl: usize, k: usize| {
                if !(p % 64 == 0 && p == base as usize + woff + pad(k) && p + l == base as usize + woff + wl) { carve_ok = false; }
            };
            match q.opc {
                90 => {
                    let (mut ct, _) = win0.take_glwe(&lr);
                    let (mut pt, _) = win1.take_glwe_plaintext(&la);
                    chk(ct.data().data.as_ptr() as usize, ct.data().data.len(), w0, l0, 0);
                    chk(pt.data.data.as_ptr() as usize, pt.data.data.len(), w1, l1, 1);
                    if q.hist == 13 && q.subj == 0 { reject_larger_glwe!(ct, lay, q.size[0]); if ill { return vec![]; } }
                    module.vec_znx_fill_uniform(b2k as usize, &mut pt.data, 0, &mut src(q.seed ^ 2));
                    module.glwe_encrypt_sk(&mut ct, &pt, &skp, &infos, &mut src(q.seed ^ 3), &mut src(q.seed ^ 4), sc);
                    ct.data().data.to_vec()
                }
                91 => {
                    let (mut pt, _) = win0.take_glwe_plaintext(&lr);
                    let (mut ct, _) = win1.take_glwe(&la);
                    chk(pt.data.data.as_ptr() as usize, pt.data.data.len(), w0, l0, 0);
                    chk(ct.data().data.as_ptr() as usize, ct.data().data.len(), w1, l1, 1);
                    if q.hist == 13 && q.subj == 1 { reject_larger_glwe!(ct, lay, q.size[1]); if ill { return vec![]; } }
                    ct.fill_uniform(b2k as usize, &mut src(q.seed ^ 5));
                    module.glwe_decrypt(&ct, &mut pt, &skp, sc);
                    pt.data.data.to_vec()
                }
                _ => {
                    let (mut r, _) = win0.take_glwe(&lr);
                    let (mut a, _) = win1.take_glwe(&la);
                    chk(r.data().data.as_ptr() as usize, r.data().data.len(), w0, l0, 0);
                    chk(a.data().data.as_ptr() as usize, a.data().data.len(), w1, l1, 1);
                    if q.hist == 13 && q.subj == 0 { reject_larger_glwe!(r, lay, q.size[0]); if ill { return vec![]; } }
                    if q.hist == 13 && q.subj == 1 { reject_larger_glwe!(a, lay, q.size[1]); if ill { return vec![]; } }
                    a.fill_uniform(b2k as usize, &mut src(q.seed ^ 6));
                    if q.opc == 92 {
                        let mut key = GGLWE::alloc_from_infos(&lk); key.fill_uniform(b2k as usize, &mut src(q.seed ^ 7));
                        if q.hist == 13 && q.subj == 2 {
                            let (rows, cin, cout, size) = (key.data().rows(), key.data().cols_in(), key.data().cols_out(), key.data().size());
                            let _ = key.read_from(&mut Cursor::new(&key_stream(rows, cin, cout, size)));
                            let m = key.data();
                            let (h, ok) = mat_hdr(m.n(), m.rows(), m.cols_in(), m.cols_out(), m.size(), m.data().len());
                            obs_hdr = Some(h); if !ok { ill = true; return vec![]; }
                        }
                        let mut kp = module.gglwe_prepared_alloc_from_infos(&lk);
                        let mut sb = big(module.gglwe_prepare_tmp_bytes(&lk)); module.gglwe_prepare(&mut kp, &key, sb.borrow());
                        module.glwe_keyswitch(&mut r, &a, &kp, sc);
                    } else {
                        let mut gg = GGSW::alloc_from_infos(&lg); gg.fill_uniform(b2k as usize, &mut src(q.seed ^ 8));
                        if q.hist == 13 && q.subj == 2 {
                            // GGSW exposes its matrix only through the *Infos traits: rows = dnum, cols_in = cols_out = rank + 1;
                            // the buffer length is the one GGSW::alloc allocated (64-byte rounded)
                            let shape = |g: &GGSW<Vec<u8>>| (g.n().0 as usize, g.dnum().0 as usize, g.rank().0 as usize + 1, g.size());
                            let (_, rows, c, size) = shape(&gg);
                            let len0 = r64(n * rows * c * c * size * 8);
                            let _ = gg.read_from(&mut Cursor::new(&key_stream(rows, c, c, size)));
                            let (mn, rows2, c2, size2) = shape(&gg);
                            let (h, ok) = mat_hdr(mn, rows2, c2, c2, size2, len0);
                            obs_hdr = Some(h); if !ok { ill = true; return vec![]; }
                        }
                        let mut gp = module.ggsw_prepared_alloc_from_infos(&lg);
                        let mut sb = big(module.ggsw_prepare_tmp_bytes(&lg)); module.ggsw_prepare(&mut gp, &gg, sb.borrow());
                        module.glwe_external_product(&mut r, &a, &gp, sc);
                    }
                    r.data().data.to_vec()
                }
            }
        }));
        let viol = hook_violations();
        let mut ok = carve_ok;
        let mut i = 0usize;
        regions.sort();
        for (lo, len) in regions {
            if lo > i && arena[i..lo] != before[i..lo] { ok = false; }
            i = i.max(lo + len);
        }
        if i < total && arena[i..] != before[i..] { ok = false; }
        match res {
            Ok(d) => Obs { status: if ill { 3 } else { 0 }, canary_ok: ok, viol, digest: d, scratch_panic: false, hdr: obs_hdr },
            Err(p) => {
                let m = panic_class(p);
                if std::env::var("C17_VERBOSE").is_ok() { eprintln!("c17: panic: {}", m); }
                let sp = m.starts_with("Attempted to take") || m.contains("scratch.available()");
                Obs { status: 1, canary_ok: ok, viol, digest: vec![], scratch_panic: sp, hdr: obs_hdr }
            }
        }
    })
}

/// scheme-layer record: smallest working scratch window (multiple of 64) by bisection, then two garbage fills
fn observe_layer(q: &Par) -> (Vec<i128>, Vec<i128>, usize) {
    let shift = 8 * q.hp1 as usize;
    let dsz = q.size[0];
    let fa = 0xA5A5_0001 ^ q.seed; let fb = 0x5A5A_0002 ^ q.seed.rotate_left(17);
    let w = layers::min_window(1 << 26, |w| layers::run(q.be, q.opc, dsz, w, shift, fa).0.is_ok());
    let (n, cols, size) = layers::nominal(q.opc, dsz);
    let nominal_hdr = vec![n as i128, cols as i128, size as i128, size as i128, r64(n * cols * size * 8) as i128, 8];
    let w = match w { Some(w) => w, None => return (vec![1, 1, 0, 1], nominal_hdr, 0) };
    hook_reset();
    let (ra, oka, hdr) = layers::run(q.be, q.opc, dsz, w, shift, fa);
    let (rb, okb, _) = layers::run(q.be, q.opc, dsz, w, shift, fb);
    let viol = hook_violations();
    let status = match (&ra, &rb) {
        (Ok(a), Ok(b)) => if q.opc < 110 && (a.first() != Some(&1) || b.first() != Some(&1)) { 4 } else { 0 },
        (Err(_), Err(_)) => 1,
        _ => 9,
    };
    let deq = match (&ra, &rb) { (Ok(a), Ok(b)) => a == b, _ => true };
    (vec![status, (oka && okb) as i128, viol, deq as i128], hdr, w)
}

fn observe(q: &Par, force: bool) -> (Vec<i128>, Vec<i128>, usize) {
    if q.opc >= 100 { return observe_layer(q); }
    let pl = plan(q);
    let hd = pl.opd[q.subj].h;
    let mut hv = vec![hd.n as i128, hd.cols as i128, hd.size as i128, hd.max as i128, hd.len as i128, hd.w as i128];
    let skind = op_info(q.opc).map(|x| x.0[q.subj.min(2)]).unwrap_or(K_NONE);
    if q.opc < 90 && (skind == K_M || skind == K_V) { hv.push(pl.opd[q.subj].rows as i128); hv.push(pl.opd[q.subj].cout as i128); }
    let mut slack = 0usize;
    loop {
        let a = run_once(q, &pl, 0xA5A5_0001 ^ q.seed, slack, force);
        if a.scratch_panic && slack < 64 * 64 { slack += 64; continue; }
        let b = run_once(q, &pl, 0x5A5A_0002 ^ q.seed.rotate_left(17), slack, force);
        let status = if a.status == b.status { a.status } else { 9 };
        let deq = a.digest == b.digest;
        if let Some(h) = &a.hdr { hv = h.clone(); }
        return (vec![status, (a.canary_ok && b.canary_ok) as i128, a.viol + b.viol, deq as i128], hv, slack);
    }
}

pub fn exec(r: &Rec) -> Out {
    let q = par(r);
    // a panic outside the observed call (module creation, input preparation) is reported as such
    match catch_unwind(AssertUnwindSafe(|| observe(&q, r.code != 17000))) {
        Ok((o, h, _)) => Ok(vec![o, h]),
        Err(p) => Err(format!("setup: {}", panic_class(p))),
    }
}

// ------------------------------------------------------------------------------------------------------------------
fn mk(be: i128, opc: i64, n: usize, hist: i64, subj: usize, hp1: i64, hp2: i64, sh: [[usize; 3]; 3], e: [i64; 4], seed: u64) -> Rec {
    let mut ps: Vec<i128> = vec![be, opc as i128, n as i128, hist as i128, subj as i128, hp1 as i128, hp2 as i128];
    for s in sh { ps.extend([s[0] as i128, s[1] as i128, s[2] as i128]); }
    ps.extend(e.iter().map(|x| *x as i128));
    ps.push(seed as i128);
    Rec::new(17000, ps, vec![])
}

const OPS: [i64; 61] = [1, 2, 3, 4, 5, 6, 7, 8, 9, 10, 11, 12, 13, 14, 15, 16, 20, 21, 22, 23, 24, 25, 26, 27, 28, 29,
                        40, 41, 42, 43, 44, 45, 46, 47, 48, 50, 51, 52, 53, 54, 55, 56, 57, 58, 60, 61, 62, 63, 70, 71, 72, 80, 81, 82, 83, 84, 85, 90, 91, 92, 93];

/// smallest ring degree the operation family is exercised with on a backend (the FFT64 transforms need n >= 16,
/// the NTT120 ones n >= 2; see DESIGN / evidence notes)
/// smallest ring degree of the MAIN stream per backend and family: below it the call is either rejected by a defined
/// panic during input preparation (FFT64 transforms at n = 1) or lies in one of the known-finding zones that the
/// hazard stream exercises in isolated processes (FFT64 vmp for n < 8, NTT120 vmp at n = 1: inadmissible by the code's own
/// debug asserts / silent no-op)
fn min_n(be: i128, opc: i64) -> usize {
    if std::env::var("C17_MIN_N_1").is_ok() { return 1; }
    if opc < 50 { 1 }
    else if opc >= 90 { if be <= 2 { 16 } else { 2 } }
    else if opc >= 80 { if std::env::var("C17_CNV_MIN1").is_ok() { 1 } else if be <= 2 { 8 } else { 2 } }
    else if opc >= 70 { if be <= 2 { 8 } else { 2 } }
    else if be <= 2 { 2 } else { 1 }
}

pub fn generate(tier: &str, seed: u64) -> Vec<Rec> { gen_stream(tier, seed, 0) }

/// zone 0 = main stream (admissible calls and cleanly rejected ones); zones 1..5 = the hazard stream:
///   1 (retired: FFT64Avx DFT-domain operations at n in {2,4}, repaired)      2 FFT64 vmp family at n in {2,4}      3 NTT120 vmp family at n = 1
///   4 an operand of another ring degree (histories 10, 11)      5 (retired: ill-formed subjects from an unchecked from_data; repaired by 2067fe8 / 122d562)
pub fn gen_stream(tier: &str, seed: u64, zone: u8) -> Vec<Rec> {
    let mut g = Rng::new(seed ^ 0xC17 ^ ((zone as u64) << 32));
    let mut out = Vec::new();
    let reps = if zone != 0 { if tier == "thorough" { 6 } else { 2 } } else if tier == "thorough" { 150 } else { 30 };
    for rep in 0..reps {
        for be in 1..=4i128 {
            for &opc in OPS.iter() {
                let (kinds, _, _, _) = op_info(opc).unwrap();
                let mn = min_n(be, opc);
                let nn: Vec<usize> = match zone {
                    1 => { continue; }   // (FFT64Avx DFT-domain kernels at n < 8: repaired by fd67345, now part of the main stream)
                    2 => { if !(be <= 2 && opc >= 70) { continue; } vec![2, 4] }
                    3 => { if !(be >= 3 && opc >= 70) { continue; } vec![1] }
                    _ => [1usize, 2, 4, 8, 16, 32, 64, 128].iter().copied().filter(|x| *x >= mn).collect(),
                };
                let n = if rep == 0 { nn[0] } else { g.pick(&nn) };
                let mut sh = [[0usize; 3]; 3];
                for o in 0..3 { let cols = g.range(1, 3) as usize; sh[o] = [cols, g.pick(&[1usize, 2, 3, 5]), g.below(cols as u64) as usize]; }
                let mut e = [0i64; 4];
                match opc {
                    10..=13 => e[0] = g.range(-2 * n as i64, 2 * n as i64),
                    14 | 15 | 44 | 45 => e[0] = g.range(-(n as i64), n as i64) * 2 + 1,
                    16 => { sh[1][1] = 1; e[0] = g.below(sh[0][1].min(sh[2][1]) as u64) as i64; }
                    20 | 43 => { e[0] = g.range(2, 20); e[1] = if g.below(2) == 0 { e[0] } else { g.range(2, 20) }; e[2] = g.range(-30, 30); }
                    21 => e[0] = g.range(2, 20),
                    22..=29 => { e[0] = g.range(2, 20); e[1] = g.range(0, e[0] * (sh[0][1] as i64 + 2)); }
                    50 | 55 => { e[0] = g.range(1, 3); e[1] = g.range(0, 4); }
                    70 => { e[0] = g.range(1, 3);
                            if zone == 2 && rep % 2 == 0 { e[0] = 1; sh[1][1] = 1; sh[0][0] = 1; sh[0][2] = 0; } }   // tiny matrices: the silent no-op case
                    71 | 72 => { e[0] = g.range(1, 3); e[1] = if opc == 71 { g.range(0, sh[2][1] as i64) } else { 0 }; sh[2][0] = 1; sh[2][2] = 0; }
                    80 | 81 | 85 => { let c = g.range(1, 2) as usize; for o in 0..3 { sh[o][0] = c; sh[o][2] = g.below(c as u64) as usize; }
                                      if opc == 85 { sh[1][1] = sh[0][1]; } }
                    82 | 83 => {
                        // a_size, b_size in 1..5 independently, result sizes giving odd and even numbers of computed limbs,
                        // offsets 0..a+b, 1..2 columns
                        for o in 0..3 { sh[o][1] = g.range(1, 5) as usize; }
                        sh[0][1] = g.range(1, 7) as usize;
                        e[0] = g.range(0, (sh[1][1] + sh[2][1]) as i64);
                        if opc == 83 { let c = g.range(1, 2) as usize; sh[1][0] = c; sh[2][0] = c; sh[1][2] = g.below(c as u64) as usize; sh[2][2] = g.below(c as u64) as usize; }
                    }
                    84 => { sh[2] = [1, 1, 0]; e[1] = g.range(1, 5); e[0] = g.range(0, sh[1][1] as i64 + e[1]); }
                    90..=93 => {
                        let rank = g.range(1, 2) as usize;
                        e[0] = g.range(8, 17); e[2] = rank as i64; e[3] = g.range(1, 2);
                        sh[0] = [if opc == 91 { 1 } else { rank + 1 }, g.pick(&[1usize, 2, 3]), 0];
                        sh[1] = [if opc == 90 { 1 } else { rank + 1 }, g.pick(&[1usize, 2, 3]), 0];
                        // a valid key layout: dnum * dsize <= key size and dsize < key size
                        let ds = e[3] as usize; let dnum = sh[1][1].div_ceil(ds).max(1);
                        sh[2] = [1, (dnum * ds).max(ds + 1) + g.below(2) as usize, 0];
                    }
                    _ => {}
                }
                if opc >= 90 && zone != 0 { continue; }
                // history: which operand, which kind of history it admits
                let subj = { let c: Vec<usize> = (0..3).filter(|o| kinds[*o] != K_NONE && kinds[*o] != K_C).collect(); c[g.below(c.len() as u64) as usize] };
                let kind = kinds[subj];
                let mut hs: Vec<i64> = vec![0, 0, 7, 8];
                if kind == K_Z || kind == K_D { hs.extend([1, 1]); }
                if kind == K_Z { hs.extend([2, 3, 3, 4, 5, 5, 6, 9, 12, 13, 13]); }
                if kind == K_S || kind == K_M { hs.extend([13, 13]); }
                if kind == K_B || kind == K_D || kind == K_P { hs.push(9); }
                match zone {
                    1..=3 => hs = vec![0],
                    4 => { if kind == K_Z { hs = vec![10, 11]; } else { hs = vec![11]; } }
                    5 => { continue; }   // (retired: every from_data validates its buffer since 122d562)
                    _ => {}
                }
                if opc == 58 { hs.retain(|h| *h != 1); }   // consume: the big view reuses the active prefix only
                let mut subj = subj;
                if opc >= 90 {
                    // core level: carved operands (7), or the rejected read of a larger object into a GLWE operand / the key first (13)
                    subj = g.below(2) as usize;
                    hs = vec![7];
                    if g.below(2) == 0 {
                        hs = vec![13];
                        subj = match opc { 90 => 0, 91 => 1, _ => g.below(3) as usize };
                    }
                }
                let hist = g.pick(&hs);
                let size = sh[subj][1]; let cols = sh[subj][0];
                let (hp1, hp2): (i64, i64) = match hist {
                    1 => (g.range(1, 2), 0),
                    2 => (0, g.pick(&[1i64, size as i64, size as i64 + 1, size as i64 + 2])),
                    3 | 4 => { let c = if zone == 5 { 3 } else { g.below(4) }; match c { 0 => (0, 0), 1 => (1, 1), 2 => (0, 2), _ => (g.range(1, 2), 0) } }
                    5 | 6 => { let k = if zone == 5 { 3 } else { g.below(5) as i64 }; let v = match k {
                                  0 => g.pick(&[n as i64 * 2, (n as i64 / 2).max(1), cols as i64]),
                                  1 => g.pick(&[cols as i64 + 1, size as i64, 1]),
                                  2 => g.pick(&[size as i64 + 1, cols as i64, 1]),
                                  3 => if zone == 5 { g.pick(&[size as i64 + 1, size as i64 + 2]) } else { g.pick(&[0, size as i64 - 1, size as i64 + 1, size as i64 + 2, 1 << 40]) },
                                  _ => g.pick(&[0, 8, (n * cols * size * 8) as i64 + 8]) };
                               (k, v) }
                    7 => (g.range(0, 7), 0),
                    8 => (g.range(1, if w_of(kind, be) == 16 { 3 } else { 7 }), 0),
                    9 => (g.range(1, (n as i64).max(1)), 0),
                    10 => (g.range(0, 4), 0),
                    13 => (if opc >= 90 && subj == 2 || kind == K_M { g.range(0, 4) } else if kind == K_S { g.range(0, 1) } else { g.range(0, 2) }, 0),
                    11 => (g.range(0, 1), 0),
                    _ => (0, 0),
                };
                // history 13 is about the REJECTED read: when the 64-byte rounding of a tiny receiver holds the bumped object the
                // read is (rightly) accepted and the receiver gets another shape than the other operands (or another ring degree
                // than the module): not this stream's subject - such a record falls back to the fresh-view history
                let hist = if hist == 13 && opc < 90 {
                    let h1 = hp1 as usize;
                    let (bytes, bumped) = if kind == K_M {
                        let d = [n, sh[1][1], e[0] as usize, sh[1][0], sh[0][0]];           // n size rows cin cout
                        let mut b = d; if h1 == 0 { b[0] *= 2 } else { b[h1.min(4)] += 1 }
                        (d.iter().product::<usize>() * 8, b.iter().product::<usize>() * 8)
                    } else {
                        let d = [n, cols, if kind == K_S { 1 } else { size }];
                        let mut b = d; if h1 == 0 { b[0] *= 2 } else { b[h1.min(2)] += 1 }
                        (d.iter().product::<usize>() * 8, b.iter().product::<usize>() * 8)
                    };
                    if bumped <= r64(bytes) { 0 } else { 13 }
                } else { hist };
                let (hp1, hp2) = if hist == 0 { (0, 0) } else { (hp1, hp2) };
                // a few inadmissible column selectors (a defined panic is expected)
                if zone == 0 && opc <= 15 && matches!(hist, 0 | 1 | 7 | 8) && g.below(12) == 0 { let o = subj; sh[o][2] = sh[o][0]; }
                let mut r = mk(be, opc, n, hist, subj, hp1, hp2, sh, e, g.next() >> 8);
                if zone != 0 { r.code = 17000 + zone as i64; }
                out.push(r);
            }
        }
    }
    if zone == 0 {
        // scheme layers: CKKS add / mul / rescale on four backends, FheUint prepare / add circuit / blind rotation on FFT64
        let shifts: &[i64] = if tier == "thorough" { &[0, 1, 3, 7] } else { &[0, 3] };
        for be in 1..=4i128 {
            for opc in [100i64, 101, 102, 110, 111, 112] {
                if opc >= 110 && be > 2 { continue; }
                for &hp1 in shifts {
                    if opc == 110 && hp1 != 0 && tier != "thorough" { continue; }   // circuit bootstrapping is the expensive one
                    let dsz = if opc == 102 { 7 } else { 8 };
                    let (n, cols, size) = layers::nominal(opc, dsz);
                    out.push(mk(be, opc, n, 0, 0, hp1, 0, [[cols, size, 0], [0, 0, 0], [0, 0, 0]], [0; 4], g.next() >> 8));
                }
            }
        }
    }
    out
}

fn main() {
    let args: Vec<String> = std::env::args().collect();
    if args.get(1).map(|s| s.as_str()) == Some("demo") {
        // demo <in_file> <out_file>: run the operation ALSO on ill-formed subjects (inside the guard zones) and report
        std::panic::set_hook(Box::new(|_| {}));
        use std::io::{BufRead, Write};
        let inp = std::io::BufReader::new(std::fs::File::open(&args[2]).unwrap());
        let mut f = std::io::BufWriter::new(std::fs::File::create(&args[3]).unwrap());
        for line in inp.lines() {
            let line = line.unwrap();
            if let Some(r) = Rec::parse(&line) {
                let q = par(&r);
                let (o, h, slack) = observe(&q, true);
                writeln!(f, "{} | forced {:?} hdr {:?} slack {}", line.rsplit_once('#').map(|x| x.0).unwrap_or(&line), o, h, slack).unwrap();
            }
        }
        return;
    }
    if args.get(1).map(|s| s.as_str()) == Some("list") {
        // list <tier> <seed> <out_file>: the generated inputs only (nothing is run)
        use std::io::Write;
        let mut f = std::io::BufWriter::new(std::fs::File::create(&args[4]).unwrap());
        let seed: u64 = args[3].parse().unwrap();
        let zones: Vec<u8> = if args.get(5).map(|s| s.as_str()) == Some("hazard") { vec![2, 3, 4] } else { vec![0] };
        for z in zones { for r in gen_stream(&args[2], seed, z) { writeln!(f, "{}", r.line(&Ok(vec![]))).unwrap(); } }
        return;
    }
    poulpy_verif_harness::run_main(generate, exec)
}
