//! C19: seed-compressed objects decompress to what standard encryption produces.  Record layout: coq/Model/C19Run.v.
//!   ps: 0 be 1 n 2 b 3 size 4 rank_in 5 rank_out 6 dnum 7 dsize 8 nk 9 kind 10 psize (19001) / galois generator (kind 2)
//!       11 sigma*1000 12 bound*1000 13 secret kind 14 secret param 15 key index (kind 4)
//!       16..20 seed_xs_out 20..24 seed_xs_in 24..28 seed_xe 28..32 seed_xa
//!   kinds of 19002: 0 GGLWE (random small plaintext polynomials) 1 GLWE switching key 2 automorphism key 3 tensor key
//!                   4 GGLWE->GGSW key (entry ps[15])
//! flags (last output): per slot [decompressed cell == standard glwe_encrypt_sk with Source::new(stored seed) and the shared
//!   error stream (2 = not expressible with the public API)], then [stored seeds follow the root seed in draw order,
//!   compressed bodies == decompressed bodies, decompress after serialise/deserialise gives the same bytes,
//!   deserialised object serialises to the same bytes]
use poulpy_core::api::*;
use poulpy_core::layouts::*;
use poulpy_hal::api::*;
use poulpy_hal::layouts::*;
use poulpy_hal::source::Source;
use poulpy_verif_harness::rec::*;
use poulpy_verif_harness::with_be;

#[path = "../enc_common.rs"]
mod enc_common;
use enc_common::*;

struct Hd { be: i128, n: usize, b: usize, size: usize, rin: usize, rout: usize, dnum: usize, dsize: usize, nk: usize, kind: i128,
            x10: i128, sigma: f64, bound: f64, skind: i128, sparam: i128, idx: usize }
fn hd(p: &[i128]) -> Hd {
    let u = |i: usize| p[i] as usize;
    Hd { be: p[0], n: u(1), b: u(2), size: u(3), rin: u(4), rout: u(5), dnum: u(6), dsize: u(7), nk: u(8), kind: p[9], x10: p[10],
         sigma: p[11] as f64 / 1000.0, bound: p[12] as f64 / 1000.0, skind: p[13], sparam: p[14], idx: u(15) }
}
fn seed_at(p: &[i128], i: usize) -> [u8; 32] { words_seed(&p[16 + 4 * i..20 + 4 * i]) }

/// negacyclic product of two small polynomials
fn negamul(a: &[i64], b: &[i64]) -> Vec<i64> {
    let n = a.len();
    let mut r = vec![0i64; n];
    for i in 0..n { for j in 0..n { let v = a[i] * b[j]; if i + j < n { r[i + j] += v } else { r[i + j - n] -= v } } }
    r
}

/// parse a serialised GGLWECompressed (after `skip` bytes of wrapper header): (seeds, body words), and the bytes consumed
fn parse_gglwe_compressed(bytes: &[u8], skip: usize) -> (Vec<[u8; 32]>, Vec<i128>, usize) {
    let b = &bytes[skip..];
    let cnt = u32::from_le_bytes(b[16..20].try_into().unwrap()) as usize;
    let mut seeds = Vec::new();
    for i in 0..cnt { seeds.push(b[20 + 32 * i..52 + 32 * i].try_into().unwrap()); }
    let m = 20 + 32 * cnt;
    let len = u64::from_le_bytes(b[m + 40..m + 48].try_into().unwrap()) as usize;
    let words = b[m + 48..m + 48 + len].chunks_exact(8).map(|c| i64::from_le_bytes(c.try_into().unwrap()) as i128).collect();
    (seeds, words, skip + m + 48 + len)
}

fn case(code: i64, p: &[i128], msg: &[i128]) -> (Vec<Vec<i128>>, Vec<Vec<i128>>) {
    let h = hd(p);
    let (sxo, sxi, sxe, sxa) = (seed_at(p, 0), seed_at(p, 1), seed_at(p, 2), seed_at(p, 3));
    let noise = NoiseInfos::new(h.nk, h.sigma, h.bound).unwrap();
    let n = h.n;
    let (dn, b2, kk) = (Degree(n as u32), Base2K(h.b as u32), TorusPrecision((h.size * h.b) as u32));
    with_be!(h.be, BE, {
        let module: Module<BE> = Module::<BE>::new(if code == 19004 { 8 } else { n as u64 });
        let mut sc: ScratchOwned<BE> = garbage_scratch::<BE>(1 << 22);
        let clen = h.rout * h.size * n;
        let cell_words = (h.rout + 1) * h.size * n;
        // a GENERIC receiver for deserialisation: every header field differs from the sender's (radix, precision, ranks, dnum, dsize),
        // the buffer is larger; after read_from it must be the sender's object (same bytes when written again, same decompression)
        let (gdn, gds) = (Dnum(h.dnum as u32 + 1), Dsize(h.dsize as u32 + 1));
        let gsize = ((h.dnum + 1) * (h.dsize + 1) + 1).max(h.size + 2);
        let (gb2, gk) = (Base2K(h.b as u32 + 5), TorusPrecision((gsize * (h.b + 5)) as u32));
        let grk = |r: usize| Rank(r as u32 + 1);
        if code == 19001 {
            let psize = h.x10 as usize;
            let (sk, s) = glwe_secret(n, h.rout, h.skind, h.sparam, &sxo);
            let mut skp = module.glwe_secret_prepared_alloc(Rank(h.rout as u32));
            module.glwe_secret_prepare(&mut skp, &sk);
            let mut pt = GLWEPlaintext::alloc(dn, b2, TorusPrecision((psize * h.b) as u32));
            set_col(&mut pt.data, 0, msg);
            let li = GLWELayout { n: dn, base2k: b2, k: kk, rank: Rank(h.rout as u32) };
            let mut cc = GLWECompressed::alloc_from_infos(&li);
            module.glwe_compressed_encrypt_sk(&mut cc, &pt, &skp, sxa, &noise, &mut Source::new(sxe), sc.borrow());
            let mut ct = GLWE::alloc_from_infos(&li);
            module.decompress_glwe(&mut ct, &cc);
            // standard encryption with the mask source rebuilt from the stored seed
            let bytes = ser(&cc);
            let stored: [u8; 32] = bytes[8..40].try_into().unwrap();
            let mut std_ct = GLWE::alloc_from_infos(&li);
            module.glwe_encrypt_sk(&mut std_ct, &pt, &skp, &noise, &mut Source::new(sxe), &mut Source::new(stored), sc.borrow());
            // serialise -> deserialise -> decompress
            let mut cc2 = GLWECompressed::alloc_from_infos(&li);
            cc2.read_from(&mut &bytes[..]).unwrap();
            let mut ct2 = GLWE::alloc_from_infos(&li);
            module.decompress_glwe(&mut ct2, &cc2);
            let mut cc3 = GLWECompressed::alloc_from_infos(&GLWELayout { n: dn, base2k: gb2, k: gk, rank: grk(h.rout) });
            cc3.read_from(&mut &bytes[..]).unwrap();
            let mut ct3 = GLWE::alloc_from_infos(&li);
            module.decompress_glwe(&mut ct3, &cc3);
            // both decrypt to the same plaintext
            let mut d1 = GLWEPlaintext::alloc(dn, b2, kk); let mut d2 = GLWEPlaintext::alloc(dn, b2, kk);
            module.glwe_decrypt(&ct, &mut d1, &skp, sc.borrow());
            module.glwe_decrypt(&std_ct, &mut d2, &skp, sc.borrow());
            let body = tail_words(&bytes, n * h.size);
            let flags = vec![(ser(&ct) == ser(&std_ct)) as i128, (stored == sxa) as i128, (body == col_words(ct.data(), 0)) as i128,
                             (ser(&ct2) == ser(&ct) && ser(&ct3) == ser(&ct)) as i128, (ser(&cc2) == bytes && ser(&cc3) == bytes) as i128, (d1.data.data == d2.data.data) as i128];
            let e = replay_error(&module, n, h.b, h.size, noise, &mut Source::new(sxe));
            return (vec![to128(&s), raw_u64(&stored, clen), to128(&e), vec![1; 6]], vec![body, all_cols(ct.data()), flags]);
        }
        if code == 19004 {
            // decompress_lwe: the compressed object (seed + body) is built from the standard encryption under Source::new(seed)
            // (no compressed LWE encryption exists); decompression must give that ciphertext back.  n = LWE dimension.
            let nl = n;
            let mut sk = LWESecret::alloc(Degree(nl as u32));
            fill_lwe_secret(&mut sk, h.skind, h.sparam, &mut Source::new(sxo));
            let psize = h.x10 as usize;
            let mut pt = LWEPlaintext::alloc(b2, TorusPrecision((psize * h.b) as u32));
            set_col(pt.data_mut(), 0, msg);
            let mut ct = LWE::alloc(Degree(nl as u32), b2, kk);
            module.lwe_encrypt_sk(&mut ct, &pt, &sk, &noise, &mut Source::new(sxe), &mut Source::new(sxa), sc.borrow());
            let w = col_words(ct.data(), 0);
            let mut bytes: Vec<u8> = vec![];
            bytes.extend(((h.size * h.b) as u32).to_le_bytes()); bytes.extend((h.b as u32).to_le_bytes()); bytes.extend(sxa);
            for x in [1u64, 1, h.size as u64, h.size as u64, (8 * h.size) as u64] { bytes.extend(x.to_le_bytes()); }
            for j in 0..h.size { bytes.extend((w[j * (nl + 1)] as i64).to_le_bytes()); }
            let mut cc = LWECompressed::alloc(b2, kk);
            cc.read_from(&mut &bytes[..]).unwrap();
            let mut ccg = LWECompressed::alloc(gb2, gk);
            ccg.read_from(&mut &bytes[..]).unwrap();
            let mut og = LWE::alloc(Degree(nl as u32), b2, kk);
            let round = ser(&cc) == bytes && ser(&ccg) == bytes
                && std::panic::catch_unwind(std::panic::AssertUnwindSafe(|| { module.decompress_lwe(&mut og, &ccg); col_words(og.data(), 0) == w })).unwrap_or(false);
            let dec = std::panic::catch_unwind(std::panic::AssertUnwindSafe(|| {
                let mut o = LWE::alloc(Degree(nl as u32), b2, kk);
                module.decompress_lwe(&mut o, &cc);
                col_words(o.data(), 0)
            }));
            let s: Vec<i128> = sk.raw().iter().map(|x| *x as i128).collect();
            let e = replay_error(&module, 1, h.b, h.size, noise, &mut Source::new(sxe));
            let (words, flag) = match dec { Ok(d) => { let f = (d == w) as i128; (d, f) } Err(_) => (vec![], 0) };
            return (vec![s, raw_u64(&sxa, h.size * (nl + 1)), to128(&e), vec![1, 1]], vec![words, vec![flag, round as i128]]);
        }
        if code == 19003 {
            // GGSW compressed: rank = rout
            let rank = h.rout;
            let (sk, s) = glwe_secret(n, rank, h.skind, h.sparam, &sxo);
            let mut skp = module.glwe_secret_prepared_alloc(Rank(rank as u32));
            module.glwe_secret_prepare(&mut skp, &sk);
            let mut m = ScalarZnx::alloc(n, 1);
            for (d, s) in m.at_mut(0, 0).iter_mut().zip(msg) { *d = *s as i64; }
            let mut gc = GGSWCompressed::alloc(dn, b2, kk, Rank(rank as u32), Dnum(h.dnum as u32), Dsize(h.dsize as u32));
            let cells = h.dnum * (rank + 1);
            // root of the per-cell seeds and number of cells encrypted before this GGSW (shared error stream)
            let (root, skip): ([u8; 32], usize);
            if h.kind == 1 {
                // entry h.idx of a compressed CGGI blind-rotation key over an LWE secret of dimension h.rin: GGSW i encrypts the
                // constant s_lwe[i] with the i-th seed drawn from seed_xa as its own root
                use poulpy_bin_fhe::blind_rotation::{BlindRotationKeyCompressed, BlindRotationKeyCompressedEncryptSk, BlindRotationKeyLayout, CGGI};
                let nl = h.rin;
                let lay = BlindRotationKeyLayout { n_glwe: dn, n_lwe: Degree(nl as u32), base2k: b2, k: kk, dnum: Dnum(h.dnum as u32), rank: Rank(rank as u32) };
                let mut skl = LWESecret::alloc(Degree(nl as u32));
                fill_lwe_secret(&mut skl, 2, 8, &mut Source::new(sxi));
                let mut key = BlindRotationKeyCompressed::<Vec<u8>, CGGI>::alloc(&lay);
                module.blind_rotation_key_compressed_encrypt_sk(&mut key, &skp, &skl, sxa, &noise, &mut Source::new(sxe), sc.borrow());
                let all = ser(&key);
                let entry = 20 + 32 * cells + 48 + n * h.size * cells * 8;
                gc.read_from(&mut &all[16 + h.idx * entry..16 + (h.idx + 1) * entry]).unwrap();
                for x in m.at_mut(0, 0).iter_mut() { *x = 0; }
                m.at_mut(0, 0)[0] = skl.raw()[h.idx];
                root = words_seed(&raw_u64(&sxa, 4 * (h.idx + 1))[4 * h.idx..]);
                skip = h.idx * cells;
            } else {
                module.ggsw_compressed_encrypt_sk(&mut gc, &m, &skp, sxa, &noise, &mut Source::new(sxe), sc.borrow());
                root = sxa; skip = 0;
            }
            let mut g = GGSW::alloc(dn, b2, kk, Rank(rank as u32), Dnum(h.dnum as u32), Dsize(h.dsize as u32));
            module.decompress_ggsw(&mut g, &gc);
            let bytes = ser(&gc);
            let mut gc2 = GGSWCompressed::alloc(dn, b2, kk, Rank(rank as u32), Dnum(h.dnum as u32), Dsize(h.dsize as u32));
            gc2.read_from(&mut &bytes[..]).unwrap();
            let mut g2 = GGSW::alloc(dn, b2, kk, Rank(rank as u32), Dnum(h.dnum as u32), Dsize(h.dsize as u32));
            module.decompress_ggsw(&mut g2, &gc2);
            let mut gc3 = GGSWCompressed::alloc(dn, gb2, gk, grk(rank), gdn, gds);
            gc3.read_from(&mut &bytes[..]).unwrap();
            let mut g3 = GGSW::alloc(dn, b2, kk, Rank(rank as u32), Dnum(h.dnum as u32), Dsize(h.dsize as u32));
            module.decompress_ggsw(&mut g3, &gc3);
            let parent = raw_u64(&root, 4 * cells);
            let (mut seeds_w, mut children, mut cellw, mut flags, mut exp) = (vec![], vec![], vec![], vec![], vec![]);
            let mut xe = Source::new(sxe);
            let mut errs: Vec<i128> = vec![];
            let mut bodies_ok = true;
            let mut xe_std = Source::new(sxe);
            for _ in 0..skip { let _ = replay_error(&module, n, h.b, h.size, noise, &mut xe); let _ = replay_error(&module, n, h.b, h.size, noise, &mut xe_std); }
            for row in 0..h.dnum { for col in 0..=rank {
                let cb = ser(&gc.at(row, col));
                let stored: [u8; 32] = cb[8..40].try_into().unwrap();
                seeds_w.extend(seed_words(&stored));
                children.extend(raw_u64(&stored, clen));
                let cell = g.at(row, col);
                cellw.extend(all_cols(cell.data()));
                bodies_ok &= tail_words(&cb, n * h.size) == col_words(cell.data(), 0);
                errs.extend(to128(&replay_error(&module, n, h.b, h.size, noise, &mut xe)));
                // standard encryption of the cell: only the column-0 cells are expressible (glwe_encrypt_sk puts pt on column 0)
                let mut tp = GLWEPlaintext::alloc(dn, b2, kk);
                module.vec_znx_add_scalar_assign(&mut tp.data, 0, (h.dsize - 1) + row * h.dsize, &m, 0);
                module.vec_znx_normalize_assign(h.b, &mut tp.data, 0, sc.borrow());
                if col == 0 {
                    let mut sct = GLWE::alloc(dn, b2, kk, Rank(rank as u32));
                    module.glwe_encrypt_sk(&mut sct, &tp, &skp, &noise, &mut xe_std, &mut Source::new(stored), sc.borrow());
                    flags.push((all_cols(sct.data()) == all_cols(cell.data())) as i128); exp.push(1);
                } else {
                    // keep the shared error stream in step
                    let _ = replay_error(&module, n, h.b, h.size, noise, &mut xe_std);
                    flags.push(2); exp.push(2);
                }
            } }
            flags.extend([(seeds_w == parent) as i128, bodies_ok as i128, (ser(&g2) == ser(&g) && ser(&g3) == ser(&g)) as i128, (ser(&gc2) == bytes && ser(&gc3) == bytes) as i128]);
            exp.extend([1; 4]);
            let mw: Vec<i128> = m.at(0, 0).iter().map(|x| *x as i128).collect();
            return (vec![mw, to128(&s), parent, children, errs, exp], vec![seeds_w, cellw, flags]);
        }
        // ---------------- 19002: GGLWE-shaped objects ----------------
        let (rin, rout) = (h.rin, h.rout);
        let (sk_out, s_out_lib) = glwe_secret(n, rout, h.skind, h.sparam, &sxo);
        let (sk_in, s_in) = glwe_secret(n, rin, h.skind, h.sparam, &sxi);
        let polys = |flat: &[i64]| -> Vec<Vec<i64>> { flat.chunks(n).map(|c| c.to_vec()).collect() };
        let alloc_g = || GGLWE::alloc(dn, b2, kk, Rank(rin as u32), Rank(rout as u32), Dnum(h.dnum as u32), Dsize(h.dsize as u32));
        // per kind: (plaintext polynomials, clear s_out, serialised compressed object, offset of the GGLWECompressed inside it,
        //            decompressed cells, decompressed-after-serde cells, serde bytes equal)
        let (ms, s_out, bytes, skip, cells_a, cells_b, cells_c, ser_same): (Vec<Vec<i64>>, Vec<i64>, Vec<u8>, usize, Vec<i128>, Vec<i128>, Vec<i128>, bool);
        let mut wrapper_flag: i128 = 2;
        let dump = |g: &GGLWE<&[u8]>| -> Vec<i128> {
            let mut w = Vec::new();
            for row in 0..h.dnum { for col in 0..rin { w.extend(all_cols(g.at(row, col).data())); } }
            w
        };
        match h.kind {
            0 => {
                let mut skp = module.glwe_secret_prepared_alloc(Rank(rout as u32));
                module.glwe_secret_prepare(&mut skp, &sk_out);
                let mut pt = ScalarZnx::alloc(n, rin);
                for c in 0..rin { for (d, s) in pt.at_mut(c, 0).iter_mut().zip(&msg[c * n..(c + 1) * n]) { *d = *s as i64; } }
                let mut cc = GGLWECompressed::alloc(dn, b2, kk, Rank(rin as u32), Rank(rout as u32), Dnum(h.dnum as u32), Dsize(h.dsize as u32));
                module.gglwe_compressed_encrypt_sk(&mut cc, &pt, &skp, sxa, &noise, &mut Source::new(sxe), sc.borrow());
                let mut g = alloc_g(); module.decompress_gglwe(&mut g, &cc);
                bytes = ser(&cc); skip = 0;
                let mut cc2 = GGLWECompressed::alloc(dn, b2, kk, Rank(rin as u32), Rank(rout as u32), Dnum(h.dnum as u32), Dsize(h.dsize as u32));
                cc2.read_from(&mut &bytes[..]).unwrap();
                let mut g2 = alloc_g(); module.decompress_gglwe(&mut g2, &cc2);
                let mut cc3 = GGLWECompressed::alloc(dn, gb2, gk, grk(rin), grk(rout), gdn, gds);
                cc3.read_from(&mut &bytes[..]).unwrap();
                let mut g3 = alloc_g(); module.decompress_gglwe(&mut g3, &cc3);
                cells_c = dump(&g3.to_ref());
                ser_same = ser(&cc2) == bytes && ser(&cc3) == bytes;
                ms = msg.chunks(n).map(|c| v64(c)).collect(); s_out = s_out_lib.clone();
                cells_a = dump(&g.to_ref()); cells_b = dump(&g2.to_ref());
            }
            1 => {
                let mut kc = GLWESwitchingKeyCompressed::alloc(dn, b2, kk, Rank(rin as u32), Rank(rout as u32), Dnum(h.dnum as u32), Dsize(h.dsize as u32));
                module.glwe_switching_key_compressed_encrypt_sk(&mut kc, &sk_in, &sk_out, sxa, &noise, &mut Source::new(sxe), sc.borrow());
                let mut g = GLWESwitchingKey::alloc(dn, b2, kk, Rank(rin as u32), Rank(rout as u32), Dnum(h.dnum as u32), Dsize(h.dsize as u32));
                module.decompress_glwe_switching_key(&mut g, &kc);
                bytes = ser(&kc); skip = 8;
                let mut kc2 = GLWESwitchingKeyCompressed::alloc(dn, b2, kk, Rank(rin as u32), Rank(rout as u32), Dnum(h.dnum as u32), Dsize(h.dsize as u32));
                kc2.read_from(&mut &bytes[..]).unwrap();
                let mut g2 = GLWESwitchingKey::alloc(dn, b2, kk, Rank(rin as u32), Rank(rout as u32), Dnum(h.dnum as u32), Dsize(h.dsize as u32));
                module.decompress_glwe_switching_key(&mut g2, &kc2);
                let mut kc3 = GLWESwitchingKeyCompressed::alloc(dn, gb2, gk, grk(rin), grk(rout), gdn, gds);
                kc3.read_from(&mut &bytes[..]).unwrap();
                let mut g3 = GLWESwitchingKey::alloc(dn, b2, kk, Rank(rin as u32), Rank(rout as u32), Dnum(h.dnum as u32), Dsize(h.dsize as u32));
                module.decompress_glwe_switching_key(&mut g3, &kc3);
                cells_c = dump(&g3.to_ref());
                ser_same = ser(&kc2) == bytes && ser(&kc3) == bytes;
                ms = polys(&s_in); s_out = s_out_lib.clone();
                cells_a = dump(&g.to_ref()); cells_b = dump(&g2.to_ref());
                // the LWE-related compressed layouts are wrappers of this one (no encryption routine exists for them): where the
                // shape admits them they must accept the same bytes and decompress to the same cells
                if h.dsize == 1 {
                    let mut ok = true; let mut any = false;
                    if rin == 1 && rout == 1 {
                        for mut w in [LWESwitchingKeyCompressed::alloc(dn, b2, kk, Dnum(h.dnum as u32)), LWESwitchingKeyCompressed::alloc(dn, gb2, gk, gdn)] {
                        w.read_from(&mut &bytes[..]).unwrap();
                        let mut o = LWESwitchingKey::alloc(dn, b2, kk, Dnum(h.dnum as u32));
                        module.decompress_gglwe(&mut o, &w);
                        ok &= dump(&o.to_ref()) == cells_a && ser(&w) == bytes; any = true;
                        }
                    }
                    if rout == 1 {
                        for mut w in [GLWEToLWESwitchingKeyCompressed::alloc(dn, b2, kk, Rank(rin as u32), Dnum(h.dnum as u32)), GLWEToLWESwitchingKeyCompressed::alloc(dn, gb2, gk, grk(rin), gdn)] {
                        w.read_from(&mut &bytes[..]).unwrap();
                        let mut o = GLWEToLWEKey::alloc(dn, b2, kk, Rank(rin as u32), Dnum(h.dnum as u32));
                        module.decompress_gglwe(&mut o, &w);
                        ok &= dump(&o.to_ref()) == cells_a && ser(&w) == bytes; any = true;
                        }
                    }
                    if rin == 1 {
                        for mut w in [LWEToGLWEKeyCompressed::alloc(dn, b2, kk, Rank(rout as u32), Dnum(h.dnum as u32)), LWEToGLWEKeyCompressed::alloc(dn, gb2, gk, grk(rout), gdn)] {
                        w.read_from(&mut &bytes[..]).unwrap();
                        let mut o = LWEToGLWEKey::alloc(dn, b2, kk, Rank(rout as u32), Dnum(h.dnum as u32));
                        module.decompress_gglwe(&mut o, &w);
                        ok &= dump(&o.to_ref()) == cells_a && ser(&w) == bytes; any = true;
                        }
                    }
                    if any { wrapper_flag = ok as i128; }
                }
            }
            2 => {
                let gal = module.galois_element(h.x10 as i64);
                let mut kc = GLWEAutomorphismKeyCompressed::alloc(dn, b2, kk, Rank(rout as u32), Dnum(h.dnum as u32), Dsize(h.dsize as u32));
                module.glwe_automorphism_key_compressed_encrypt_sk(&mut kc, gal, &sk_out, sxa, &noise, &mut Source::new(sxe), sc.borrow());
                let mut g = GLWEAutomorphismKey::alloc(dn, b2, kk, Rank(rout as u32), Dnum(h.dnum as u32), Dsize(h.dsize as u32));
                module.decompress_automorphism_key(&mut g, &kc);
                bytes = ser(&kc); skip = 8;
                let mut kc2 = GLWEAutomorphismKeyCompressed::alloc(dn, b2, kk, Rank(rout as u32), Dnum(h.dnum as u32), Dsize(h.dsize as u32));
                kc2.read_from(&mut &bytes[..]).unwrap();
                let mut g2 = GLWEAutomorphismKey::alloc(dn, b2, kk, Rank(rout as u32), Dnum(h.dnum as u32), Dsize(h.dsize as u32));
                module.decompress_automorphism_key(&mut g2, &kc2);
                let mut kc3 = GLWEAutomorphismKeyCompressed::alloc(dn, gb2, gk, grk(rout), gdn, gds);
                kc3.read_from(&mut &bytes[..]).unwrap();
                let mut g3 = GLWEAutomorphismKey::alloc(dn, b2, kk, Rank(rout as u32), Dnum(h.dnum as u32), Dsize(h.dsize as u32));
                module.decompress_automorphism_key(&mut g3, &kc3);
                cells_c = dump(&g3.to_ref());
                ser_same = ser(&kc2) == bytes && ser(&kc3) == bytes;
                // plaintext = sk, encrypted under sigma_{gal^-1}(sk)
                let mut a: VecZnx<Vec<u8>> = VecZnx::alloc(n, rout, 1);
                for c in 0..rout { a.at_mut(c, 0).copy_from_slice(&s_out_lib[c * n..(c + 1) * n]); }
                let mut r: VecZnx<Vec<u8>> = VecZnx::alloc(n, rout, 1);
                for c in 0..rout { module.vec_znx_automorphism(module.galois_element_inv(gal), &mut r, c, &a, c); }
                ms = polys(&s_out_lib);
                s_out = (0..rout).flat_map(|c| r.at(c, 0).to_vec()).collect();
                cells_a = dump(&g.to_ref()); cells_b = dump(&g2.to_ref());
            }
            3 => {
                let mut kc = GLWETensorKeyCompressed::alloc(dn, b2, kk, Rank(rout as u32), Dnum(h.dnum as u32), Dsize(h.dsize as u32));
                module.glwe_tensor_key_compressed_encrypt_sk(&mut kc, &sk_out, sxa, &noise, &mut Source::new(sxe), sc.borrow());
                let mut g = GLWETensorKey::alloc(dn, b2, kk, Rank(rout as u32), Dnum(h.dnum as u32), Dsize(h.dsize as u32));
                module.decompress_tensor_key(&mut g, &kc);
                bytes = ser(&kc); skip = 0;
                let mut kc2 = GLWETensorKeyCompressed::alloc(dn, b2, kk, Rank(rout as u32), Dnum(h.dnum as u32), Dsize(h.dsize as u32));
                kc2.read_from(&mut &bytes[..]).unwrap();
                let mut g2 = GLWETensorKey::alloc(dn, b2, kk, Rank(rout as u32), Dnum(h.dnum as u32), Dsize(h.dsize as u32));
                module.decompress_tensor_key(&mut g2, &kc2);
                let mut kc3 = GLWETensorKeyCompressed::alloc(dn, gb2, gk, grk(rout), gdn, gds);
                kc3.read_from(&mut &bytes[..]).unwrap();
                let mut g3 = GLWETensorKey::alloc(dn, b2, kk, Rank(rout as u32), Dnum(h.dnum as u32), Dsize(h.dsize as u32));
                module.decompress_tensor_key(&mut g3, &kc3);
                cells_c = dump(&g3.to_ref());
                ser_same = ser(&kc2) == bytes && ser(&kc3) == bytes;
                let sp = polys(&s_out_lib);
                let mut prods = Vec::new();
                for i in 0..rout { for j in i..rout { prods.push(negamul(&sp[i], &sp[j])); } }
                ms = prods; s_out = s_out_lib.clone();
                cells_a = dump(&g.to_ref()); cells_b = dump(&g2.to_ref());
            }
            _ => {
                let mut kc = GGLWEToGGSWKeyCompressed::alloc(dn, b2, kk, Rank(rout as u32), Dnum(h.dnum as u32), Dsize(h.dsize as u32));
                GGLWEToGGSWKeyCompressedEncryptSk::gglwe_to_ggsw_key_encrypt_sk(&module, &mut kc, &sk_out, sxa, &noise, &mut Source::new(sxe), sc.borrow());
                let mut g = GGLWEToGGSWKey::alloc(dn, b2, kk, Rank(rout as u32), Dnum(h.dnum as u32), Dsize(h.dsize as u32));
                module.decompress_gglwe_to_ggsw_key(&mut g, &kc);
                let all = ser(&kc);
                let mut kc2 = GGLWEToGGSWKeyCompressed::alloc(dn, b2, kk, Rank(rout as u32), Dnum(h.dnum as u32), Dsize(h.dsize as u32));
                kc2.read_from(&mut &all[..]).unwrap();
                let mut g2 = GGLWEToGGSWKey::alloc(dn, b2, kk, Rank(rout as u32), Dnum(h.dnum as u32), Dsize(h.dsize as u32));
                module.decompress_gglwe_to_ggsw_key(&mut g2, &kc2);
                let mut kc3 = GGLWEToGGSWKeyCompressed::alloc(dn, gb2, gk, Rank(rout as u32), gdn, gds);
                kc3.read_from(&mut &all[..]).unwrap();
                let mut g3 = GGLWEToGGSWKey::alloc(dn, b2, kk, Rank(rout as u32), Dnum(h.dnum as u32), Dsize(h.dsize as u32));
                module.decompress_gglwe_to_ggsw_key(&mut g3, &kc3);
                cells_c = dump(&g3.at(h.idx).to_ref());
                ser_same = ser(&kc2) == all && ser(&kc3) == all;
                // entry idx: its own GGLWECompressed, located by walking the serialised list
                let mut off = 8;
                for _ in 0..h.idx { off = parse_gglwe_compressed(&all, off).2; }
                bytes = all; skip = off;
                let sp = polys(&s_out_lib);
                ms = (0..rout).map(|j| negamul(&sp[h.idx], &sp[j])).collect(); s_out = s_out_lib.clone();
                cells_a = dump(&g.at(h.idx).to_ref()); cells_b = dump(&g2.at(h.idx).to_ref());
            }
        }
        let (seeds, bodies, _) = parse_gglwe_compressed(&bytes, skip);
        let cells = h.dnum * rin;
        assert_eq!(seeds.len(), cells);
        // the root of the per-cell seeds: seed_xa, or for a GGLWE->GGSW key the idx-th seed drawn from seed_xa
        let root: [u8; 32] = if h.kind == 4 { words_seed(&raw_u64(&sxa, 4 * (h.idx + 1))[4 * h.idx..]) } else { sxa };
        let parent = raw_u64(&root, 4 * cells);
        // children: streams of the seeds DRAWN at encryption (derived from the root), dec_children: of the seeds STORED
        let drawn = draw_to_slot(&parent, h.dnum, rin);
        let mut seeds_w = vec![]; let mut children = vec![]; let mut dec_children = vec![];
        for (slot, s) in seeds.iter().enumerate() {
            seeds_w.extend(seed_words(s)); dec_children.extend(raw_u64(s, clen));
            children.extend(raw_u64(&words_seed(&drawn[4 * slot..4 * slot + 4]), clen));
        }
        // errors in draw order (col outer, row inner); a GGLWE->GGSW entry starts after the cells of the earlier entries
        let mut xe = Source::new(sxe);
        if h.kind == 4 { for _ in 0..h.idx * cells { let _ = replay_error(&module, n, h.b, h.size, noise, &mut xe); } }
        let mut xe_std = Source::new(sxe);
        if h.kind == 4 { for _ in 0..h.idx * cells { let _ = replay_error(&module, n, h.b, h.size, noise, &mut xe_std); } }
        let mut errs: Vec<i128> = vec![];
        let mut std_flag = vec![2i128; cells];
        let std_ok = h.kind != 2;
        let mut skp = module.glwe_secret_prepared_alloc(Rank(rout as u32));
        module.glwe_secret_prepare(&mut skp, &sk_out);
        for col in 0..rin { for row in 0..h.dnum {
            errs.extend(to128(&replay_error(&module, n, h.b, h.size, noise, &mut xe)));
            if std_ok {
                let slot = rin * row + col;
                let mut m = ScalarZnx::alloc(n, 1);
                m.at_mut(0, 0).copy_from_slice(&ms[col]);
                let mut tp = GLWEPlaintext::alloc(dn, b2, kk);
                module.vec_znx_add_scalar_assign(&mut tp.data, 0, (h.dsize - 1) + row * h.dsize, &m, 0);
                module.vec_znx_normalize_assign(h.b, &mut tp.data, 0, sc.borrow());
                let mut sct = GLWE::alloc(dn, b2, kk, Rank(rout as u32));
                module.glwe_encrypt_sk(&mut sct, &tp, &skp, &noise, &mut xe_std, &mut Source::new(seeds[slot]), sc.borrow());
                std_flag[slot] = (all_cols(sct.data()) == cells_a[slot * cell_words..(slot + 1) * cell_words]) as i128;
            }
        } }
        let mut bodies_ok = bodies.len() == cells * h.size * n;
        for slot in 0..cells { if bodies_ok { bodies_ok &= bodies[slot * h.size * n..(slot + 1) * h.size * n] == cells_a[slot * cell_words..slot * cell_words + h.size * n]; } }
        let mut flags = std_flag.clone();
        flags.extend([(seeds_w == drawn) as i128, bodies_ok as i128, (cells_a == cells_b && cells_a == cells_c) as i128, ser_same as i128, wrapper_flag]);
        // predicted flags (from the shape alone): every comparison succeeds, 2 where the public API cannot express it
        let mut exp: Vec<i128> = vec![if std_ok { 1 } else { 2 }; cells];
        exp.extend([1, 1, 1, 1, if wrapper_flag == 2 { 2 } else { 1 }]);
        let msw: Vec<i128> = ms.iter().flat_map(|m| to128(m)).collect();
        (vec![msw, to128(&s_out), parent, children, errs, dec_children, exp], vec![seeds_w, cells_a, flags])
    })
}

/// the parent stream lists the seeds in draw order (col outer, row inner); re-order to slot order rank_in*row + col
fn draw_to_slot(parent: &[i128], dnum: usize, rin: usize) -> Vec<i128> {
    let mut out = vec![0; parent.len()];
    for row in 0..dnum { for col in 0..rin {
        let (slot, draw) = (rin * row + col, col * dnum + row);
        out[4 * slot..4 * slot + 4].copy_from_slice(&parent[4 * draw..4 * draw + 4]);
    } }
    out
}

pub fn exec(r: &Rec) -> Out {
    let r2 = r.clone();
    guard(move || two_fills(|| case(r2.code, &r2.ps, &r2.vs[0]).1))
}

fn log2_ceil(x: usize) -> usize { if x <= 1 { 0 } else { (usize::BITS - (x - 1).leading_zeros()) as usize } }

pub fn generate(tier: &str, seed: u64) -> Vec<Rec> {
    let mut rng = Rng::new(seed);
    let mut out = Vec::new();
    let reps = if tier == "thorough" { 1500 } else { 260 };
    for it in 0..reps {
        let (code, kind) = match it % 13 { 0 => (19001, 0), 1 => (19004, 0), 2 => (19003, 0), 3 => (19003, 1), 4 | 5 => (19002, 0), 6 | 7 => (19002, 1), 8 | 9 => (19002, 2),
                                           10 | 11 => (19002, 3), _ => (19002, 4) };
        let be = 1 + (it / 13) as i128 % 4;
        let n = if code == 19004 { rng.pick(&[1usize, 1, 2, 5, 8]) } else { 1usize << rng.range(3, 5) };
        let rout = rng.range(1, 3) as usize;
        let mut rin = rng.range(1, 3) as usize;
        if code == 19002 && (kind == 2 || kind == 4) { rin = rout; }
        if code == 19003 && kind == 1 { rin = rng.range(1, 6) as usize; }
        if code == 19002 && kind == 3 { rin = rout * (rout + 1) / 2; }
        let skind = rng.below(5) as i128;   // not ZERO: products would be trivial
        let (sparam, hw) = match skind {
            0 | 2 => { let p = rng.range(1, 16) as usize; (p, n) }
            1 | 3 => { let hh = rng.range(1, n as i64) as usize; (hh, hh) }
            _ => { let divs: Vec<usize> = (1..=n).filter(|d| n % d == 0).collect(); let d = rng.pick(&divs); (d, n / d) }
        };
        // the plaintext of tensor-type keys is s_i*s_j (coefficients up to n) on one limb: keep b above log2(n)+2 there
        let bmin = if kind >= 3 { log2_ceil(n) + 2 } else { 1 };
        let bmax = if be <= 2 { (50 - log2_ceil(hw)).min(50) } else { 52 };
        let b = rng.range(bmin as i64, bmax as i64) as usize;
        let dsize = if code == 19003 && kind == 1 { 1 } else { rng.range(1, 3) as usize };
        let dnum = rng.range(1, 3) as usize;
        let size = (dnum * dsize).max(dsize + 1) + rng.below(2) as usize;   // the layouts require size > dsize
        let nk = match rng.below(3) { 0 => size * b, _ => rng.range(1, (size * b) as i64) as usize };
        let x10 = if code == 19001 || code == 19004 { rng.range(1, size as i64 + 1) as i128 } else { rng.range(-5, 5) as i128 };
        let idx = if code == 19002 && kind == 4 { rng.below(rout as u64) as i128 } else if code == 19003 && kind == 1 { rng.below(rin as u64) as i128 } else { 0 };
        let (sigma, bound) = match rng.below(3) { 0 => (1.0, 6.0), _ => (3.2, 19.2) };
        let mut ps: Vec<i128> = vec![be, n as i128, b as i128, size as i128, rin as i128, rout as i128, dnum as i128, dsize as i128, nk as i128,
            kind, x10, (sigma * 1000.0) as i128, (bound * 1000.0) as i128, skind, sparam as i128, idx];
        for _ in 0..4 { ps.extend(seed_words(&rng.bytes32())); }
        let msg: Vec<i128> = match code {
            19001 => { let cl = rng.below(5); message(&mut rng, n, x10 as usize, b, cl) }
            19004 => { let cl = rng.below(5); message(&mut rng, 1, x10 as usize, b, cl) }
            19003 => (0..n).map(|_| rng.range(-1, 1) as i128).collect(),
            _ => (0..rin * n).map(|_| rng.range(-2, 2) as i128).collect(),
        };
        let derived = std::panic::catch_unwind(|| case(code, &ps, &msg).0).unwrap_or_default();
        let mut vs = if code == 19002 || code == 19003 { vec![] } else { vec![msg.clone()] };
        if (code == 19002 || code == 19003) && derived.is_empty() { vs.push(msg.clone()); }
        vs.extend(derived);
        out.push(Rec::new(code, ps, vs));
    }
    out
}

fn main() { poulpy_verif_harness::run_main(generate, exec) }
