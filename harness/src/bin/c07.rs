//! C07 (also feeding C10/C11): DFT-domain operations observed in the coefficient domain.
//! Every input is given in the coefficient domain, brought into the DFT domain with the public API,
//! the operation under test is applied to a destination pre-filled with garbage, and the selected
//! column is brought back with idft.  Each case runs twice with two independent garbage fills
//! (destination, other columns, scratch); the record's last vector holds the flags
//!   [second run gives the same column, bytes outside the selected column untouched (run 1), (run 2)].
//!
//! header: be n | rcols rsize rcol | acols asize acol | bcols bsize bcol | extra...
use poulpy_hal::api::*;
use poulpy_hal::layouts::*;
use poulpy_verif_harness::hal::*;
use poulpy_verif_harness::rec::*;
use poulpy_verif_harness::with_be;

// the HAL convolution layer (opcodes 5001..5004) is exercised by the C05 harness code; C07 runs those records too
#[path = "c05.rs"]
#[allow(dead_code)]
mod c05;
#[path = "../c07_ntt.rs"]
mod c07_ntt;
#[path = "../c07_net.rs"]
mod c07_net;

fn garbage(buf: &mut [u8], rng: &mut Rng) {
    for c in buf.chunks_mut(8) {
        let v = rng.next().to_le_bytes();
        let l = c.len();
        c.copy_from_slice(&v[..l]);
    }
}

fn big_words(bytes: &[u8], word: usize) -> Vec<i128> {
    if word == 8 {
        bytes.chunks_exact(8).map(|c| i64::from_le_bytes(c.try_into().unwrap()) as i128).collect()
    } else {
        bytes.chunks_exact(16).map(|c| i128::from_le_bytes(c.try_into().unwrap())).collect()
    }
}

/// bytes of column `col`, limbs [0,size) of a (cols, size) layout whose limb stride is `limb_bytes`
fn col_ranges(cols: usize, size: usize, col: usize, limb_bytes: usize) -> Vec<(usize, usize)> {
    (0..size).map(|j| { let o = limb_bytes * (j * cols + col); (o, o + limb_bytes) }).collect()
}
fn outside_equal(a: &[u8], b: &[u8], ranges: &[(usize, usize)]) -> bool {
    if a.len() != b.len() { return false; }
    let mut i = 0;
    let mut rs = ranges.to_vec();
    rs.sort();
    for (lo, hi) in rs {
        if a[i..lo] != b[i..lo] { return false; }
        i = hi;
    }
    a[i..] == b[i..]
}

fn op(r: &Rec) -> Vec<Vec<i128>> {
    let p = &r.ps;
    let u = |i: usize| p[i] as usize;
    let (be, n) = (p[0], u(1));
    let (rcols, rsize, rcol) = (u(2), u(3), u(4));
    let (acols, asize, acol) = (u(5), u(6), u(7));
    let (bcols, bsize, bcol) = (u(8), u(9), u(10));
    let ex = |i: usize| p[11 + i];
    let code = r.code;
    if code >= 7200 { return c07_net::op(r); }
    if code >= 7100 { return c07_ntt::op(r); }
    with_be!(be, BE, {
        let m = module::<BE>(n);
        let word = std::mem::size_of::<<BE as Backend>::ScalarBig>();
        let mut cols_out: Vec<Vec<i128>> = Vec::new();
        let mut frames = Vec::new();
        for run in 0..2u64 {
            let mut g = Rng::new(0xC0FFEE ^ (run * 7919) ^ (r.ps.iter().fold(0u64, |h, x| h.wrapping_mul(31).wrapping_add(*x as u64))));
            let sbytes = 1usize << 16;
            let mut sc = scratch_filled::<BE>(sbytes + n * 4096, g.next() as i64);
            // destination with capacity beyond its active size in two thirds of the records: limbs [rsize, cap) of every
            // column are "unused capacity" and must come out exactly as they went in
            let cap = rsize + (r.ps.iter().fold(0u64, |h, x| h.wrapping_mul(17).wrapping_add(*x as u64)) % 3) as usize;
            let mut res_dft = m.vec_znx_dft_alloc(rcols, cap);
            garbage(res_dft.data_mut().as_mut(), &mut g);
            res_dft.set_size(rsize);
            let a = if !r.vs.is_empty() && !matches!(code, 7010 | 7011 | 7012) { mk_vec_znx(n, acols, asize, asize, &v64(&r.vs[0])) } else { mk_vec_znx(n, 1, 1, 1, &vec![0; n]) };
            // helper: VecZnx -> fresh VecZnxDft with every column transformed
            let to_dft = |v: &VecZnx<Vec<u8>>, cols: usize, size: usize| {
                let mut d = m.vec_znx_dft_alloc(cols, size);
                for c in 0..cols { m.vec_znx_dft_apply(1, 0, &mut d, c, v, c); }
                d
            };
            match code {
                7001 => m.vec_znx_dft_apply(ex(0) as usize, ex(1) as usize, &mut res_dft, rcol, &a, acol),
                7002 => { let ad = to_dft(&a, acols, asize); m.vec_znx_dft_copy(ex(0) as usize, ex(1) as usize, &mut res_dft, rcol, &ad, acol) }
                7003 | 7004 => {
                    let b = mk_vec_znx(n, bcols, bsize, bsize, &v64(&r.vs[1]));
                    let (ad, bd) = (to_dft(&a, acols, asize), to_dft(&b, bcols, bsize));
                    if code == 7003 { m.vec_znx_dft_add_into(&mut res_dft, rcol, &ad, acol, &bd, bcol) } else { m.vec_znx_dft_sub(&mut res_dft, rcol, &ad, acol, &bd, bcol) }
                }
                7005..=7008 | 7012 => {
                    // accumulate forms: the prior content of the selected column is an input (vs[1], rsize limbs, 1 column)
                    let r0 = mk_vec_znx(n, 1, rsize, rsize, &v64(&r.vs[1]));
                    m.vec_znx_dft_apply(1, 0, &mut res_dft, rcol, &r0, 0);
                    if code == 7012 {
                        let mut pp = m.svp_ppol_alloc(acols);
                        let sa = mk_scalar_znx(n, acols, &v64(&r.vs[0]));
                        for c in 0..acols { m.svp_prepare(&mut pp, c, &sa, c); }
                        m.svp_apply_dft_to_dft_assign(&mut res_dft, rcol, &pp, acol);
                    } else {
                        let ad = to_dft(&a, acols, asize);
                        match code {
                            7005 => m.vec_znx_dft_add_assign(&mut res_dft, rcol, &ad, acol),
                            7006 => m.vec_znx_dft_sub_assign(&mut res_dft, rcol, &ad, acol),
                            7007 => m.vec_znx_dft_sub_negate_assign(&mut res_dft, rcol, &ad, acol),
                            _ => m.vec_znx_dft_add_scaled_assign(&mut res_dft, rcol, &ad, acol, ex(0) as i64),
                        }
                    }
                }
                7009 => m.vec_znx_dft_zero(&mut res_dft, rcol),
                7010 | 7011 => {
                    // a = scalar (n*acols words), b = VecZnx
                    let mut pp = m.svp_ppol_alloc(acols);
                    let sa = mk_scalar_znx(n, acols, &v64(&r.vs[0]));
                    for c in 0..acols { m.svp_prepare(&mut pp, c, &sa, c); }
                    let b = mk_vec_znx(n, bcols, bsize, bsize, &v64(&r.vs[1]));
                    if code == 7010 { m.svp_apply_dft(&mut res_dft, rcol, &pp, acol, &b, bcol) }
                    else { let bd = to_dft(&b, bcols, bsize); m.svp_apply_dft_to_dft(&mut res_dft, rcol, &pp, acol, &bd, bcol) }
                }
                7020 | 7021 => {
                    // vmp: a = VecZnx (acols = cols_in, asize limbs), mat = rows x cols_in x cols_out x msize, res has cols_out = rcols columns
                    let (rows, msize, limb_offset) = (ex(0) as usize, ex(1) as usize, ex(2) as usize);
                    let mut mat = MatZnx::alloc(n, rows, acols, rcols, msize);
                    { let bytes = words_to_bytes(&v64(&r.vs[1])); let d: &mut Vec<u8> = mat.data_mut(); d[..bytes.len()].copy_from_slice(&bytes); }
                    let mut pm = m.vmp_pmat_alloc(rows, acols, rcols, msize);
                    m.vmp_prepare(&mut pm, &mat, sc.borrow());
                    if code == 7020 {
                        let ad = to_dft(&a, acols, asize);
                        m.vmp_apply_dft_to_dft(&mut res_dft, &ad, &pm, limb_offset, sc.borrow());
                    } else {
                        m.vmp_apply_dft(&mut res_dft, &a, &pm, sc.borrow());
                    }
                }
                _ => panic!("c07: unknown op {}", code),
            }
            // bring every column back
            let whole = matches!(code, 7020 | 7021);
            let dft_after: Vec<u8> = res_dft.data().as_ref().to_vec();
            let mut big = m.vec_znx_big_alloc(rcols, rsize);
            garbage(big.data_mut().as_mut(), &mut g);
            let mut out = Vec::new();
            let sel: Vec<usize> = if whole { (0..rcols).collect() } else { vec![rcol] };
            for c in &sel {
                m.vec_znx_idft_apply(&mut big, *c, &res_dft, *c, sc.borrow());
            }
            let bb: &[u8] = big.data().as_ref();
            let words = big_words(bb, word);
            for c in &sel { for j in 0..rsize { let o = n * (j * rcols + c); out.extend_from_slice(&words[o..o + n]); } }
            // frame: the dft destination outside the selected column(s) must be exactly the garbage we put there
            let mut g2 = Rng::new(0xC0FFEE ^ (run * 7919) ^ (r.ps.iter().fold(0u64, |h, x| h.wrapping_mul(31).wrapping_add(*x as u64))));
            let _ = g2.next();
            let mut ref_dft = m.vec_znx_dft_alloc(rcols, cap);
            garbage(ref_dft.data_mut().as_mut(), &mut g2);
            let limb_bytes = dft_after.len() / (rcols * cap).max(1);
            let ranges: Vec<(usize, usize)> = sel.iter().flat_map(|c| col_ranges(rcols, rsize, *c, limb_bytes)).collect();
            frames.push(outside_equal(&dft_after, ref_dft.data().as_ref(), &ranges));
            cols_out.push(out);
        }
        let same = cols_out[0] == cols_out[1];
        vec![cols_out[0].clone(), vec![same as i128, frames[0] as i128, frames[1] as i128]]
    })
}

pub fn exec(r: &Rec) -> Out {
    if (5000..6000).contains(&r.code) { return c05::exec(r); }
    let r2 = r.clone();
    guard(move || op(&r2))
}

/// values with |x| < 2^bits, in classes: random, extreme with aligned signs, sparse, zero
fn vals(rng: &mut Rng, cnt: usize, bits: u32) -> Vec<i128> {
    let class = rng.below(6);
    let m = 1i64 << bits;
    (0..cnt).map(|i| (match class {
        0 | 1 => rng.range(-m + 1, m - 1),
        2 => m - 1,
        3 => if i % 2 == 0 { m - 1 } else { -(m - 1) },
        4 => if rng.below(8) == 0 { rng.range(-m + 1, m - 1) } else { 0 },
        _ => -(m - 1),
    }) as i128).collect()
}

pub fn generate(tier: &str, seed: u64) -> Vec<Rec> {
    let mut rng = Rng::new(seed);
    let mut out = Vec::new();
    let reps = if tier == "thorough" { 3000 } else { 900 };
    let codes = [7001i64, 7002, 7003, 7004, 7005, 7006, 7007, 7008, 7009, 7010, 7011, 7012, 7020, 7020, 7021];
    for it in 0..reps {
        let code = codes[(it as usize) % codes.len()];
        let be = rng.range(1, 4) as i128;
        // (the model's exact product is quadratic in N: a few records at N = 128, 256; every degree to 2^16 is round-tripped below)
        let logn = if tier == "thorough" && rng.below(60) == 0 { rng.range(7, 8) } else { rng.range(3, 6) };
        let n = 1usize << logn;
        let (rcols, acols, bcols) = (rng.range(1, 3) as usize, rng.range(1, 3) as usize, rng.range(1, 3) as usize);
        let (rsize, asize, bsize) = (rng.range(1, 6) as usize, rng.range(1, 6) as usize, rng.range(1, 6) as usize);
        let (rcol, acol, bcol) = (rng.below(rcols as u64) as usize, rng.below(acols as u64) as usize, rng.below(bcols as u64) as usize);
        // magnitude domain: products of two operands summed over n coefficients and `rows` terms stay below 2^50
        let fft = be <= 2;
        let vbits: u32 = if fft { 17 } else { 40 };
        let mut extra: Vec<i128> = vec![];
        let mut vs: Vec<Vec<i128>> = vec![];
        match code {
            7001 | 7002 => { extra = vec![rng.range(1, 4) as i128, rng.range(0, 6) as i128]; vs.push(vals(&mut rng, n * acols * asize, 45)); }
            7003 | 7004 => { vs.push(vals(&mut rng, n * acols * asize, 44)); vs.push(vals(&mut rng, n * bcols * bsize, 44)); }
            7005..=7008 => { extra = vec![rng.range(-4, 4) as i128]; vs.push(vals(&mut rng, n * acols * asize, 44)); vs.push(vals(&mut rng, n * rsize, 44)); }
            7009 => {}
            7010 | 7011 => { vs.push(vals(&mut rng, n * acols, vbits - (logn as u32 + 1) / 2)); vs.push(vals(&mut rng, n * bcols * bsize, vbits)); }
            7012 => { vs.push(vals(&mut rng, n * acols, vbits - (logn as u32 + 1) / 2)); vs.push(vals(&mut rng, n * rsize, vbits)); }
            7020 | 7021 => {
                let rows = rng.range(1, 6) as usize; let msize = rng.range(1, 6) as usize;
                let lo = if code == 7020 { rng.range(0, (msize as i64) + 1) as usize } else { 0 };
                extra = vec![rows as i128, msize as i128, lo as i128];
                let vb = vbits - 2 - (logn as u32 + 1) / 2;
                vs.push(vals(&mut rng, n * acols * asize, vb));
                vs.push(vals(&mut rng, n * rows * acols * rcols * msize, vb));
            }
            _ => {}
        }
        let mut ps = vec![be, n as i128, rcols as i128, rsize as i128, rcol as i128, acols as i128, asize as i128, acol as i128, bcols as i128, bsize as i128, bcol as i128];
        ps.extend(extra);
        out.push(Rec::new(code, ps, vs));
    }
    // every ring degree up to 2^16: transform round trips (no product: the model is linear in N), so that a table or
    // kernel-dispatch error at one particular N cannot hide
    for logn in 3..=16u32 {
        let n = 1usize << logn;
        let bes: Vec<i128> = if tier == "thorough" || logn % 3 == 1 { vec![1, 2, 3, 4] } else { vec![1, 3] };
        for be in bes {
            let asize = if logn >= 14 { 1 } else { 2 };
            let ps = vec![be, n as i128, 1, asize as i128, 0, 1, asize as i128, 0, 1, 1, 0, 1, 0];
            out.push(Rec::new(7001, ps, vec![vals(&mut rng, n * asize, 45)]));
            if logn <= 13 || (tier == "thorough" && logn <= 14) {   // the exact product of the model is quadratic in N
                let ps = vec![be, n as i128, 1, 1, 0, 1, 1, 0, 1, 1, 0];
                out.push(Rec::new(7003, ps, vec![vals(&mut rng, n, 44), vals(&mut rng, n, 44)]));
            }
        }
    }
    c07_ntt::generate(tier, &mut rng, &mut out);
    c07_net::generate(tier, &mut rng, &mut out);
    out.extend(c05::generate(tier, seed.wrapping_add(5)).into_iter().filter(|r| (5001..=5004).contains(&r.code)));
    out
}

fn main() { poulpy_verif_harness::run_main(generate, exec) }
