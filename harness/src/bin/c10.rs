//! C10: every backend gives bit-identical results.  Each base record of C07 (DFT-domain ops inside the common
//! magnitude domain), C08 (kernels and vector-level normalise/shift) and C09 (ring operations) is executed on
//! FFT64Ref, FFT64Avx, NTT120Ref, NTT120Avx; opcode 100000 + op; outputs = FFT64Ref's outputs + [eq flags].
//! Records whose operands only exist in the i128 big accumulators of the NTT120 family (opcode 200000 + op) run on
//! NTT120Ref and NTT120Avx; outputs = NTT120Ref's outputs + [eq flag].
//! Large-ring-degree records (opcode 400000 + op, N = 2^13..2^16): equality flags only.
//! Sampling records (opcode 300000 + k): one sampler call on the four backends from the same seed; outputs =
//! [result equal to FFT64Ref's (x3), random stream position afterwards equal (x3)] -- the sampled values themselves are
//! not modelled (the stream is an input), the statement "sampling consumes the random stream identically" is.
#![allow(dead_code)]
#[path = "c07.rs"]
mod c07;
#[path = "c08.rs"]
mod c08;
#[path = "c09.rs"]
mod c09;

use poulpy_hal::api::*;
use poulpy_hal::layouts::*;
use poulpy_hal::source::Source;
use poulpy_verif_harness::hal::*;
use poulpy_verif_harness::rec::*;
use poulpy_verif_harness::with_be;

fn base_exec(r: &Rec) -> Out {
    let c = r.code;
    if (7000..8000).contains(&c) || (5000..6000).contains(&c) { c07::exec(r) } else if (8000..9000).contains(&c) { c08::exec(r) } else { c09::exec(r) }
}

/// one sampler call: header [0, n, cols, size, col, base2k, k, sigma*1000, bound*1000, seed]; returns (result words, next 32 stream bytes)
fn sample(k: i64, be: i128, p: &[i128]) -> (Vec<i128>, Vec<i128>) {
    let (n, cols, size, col, base2k) = (p[1] as usize, p[2] as usize, p[3] as usize, p[4] as usize, p[5] as usize);
    let noise = NoiseInfos::new(p[6] as usize, p[7] as f64 / 1000.0, p[8] as f64 / 1000.0).unwrap();
    let mut seed = [0u8; 32];
    seed[..16].copy_from_slice(&p[9].to_le_bytes());
    let mut src = Source::new(seed);
    with_be!(be, BE, {
        let m = module::<BE>(n);
        let words: Vec<i128> = if k == 4 {
            let mut big = m.vec_znx_big_alloc(cols, size);
            m.vec_znx_big_add_normal(base2k, &mut big, col, noise, &mut src);
            let word = std::mem::size_of::<<BE as Backend>::ScalarBig>();
            let b: &[u8] = big.data().as_ref();
            // (the allocation may be rounded up: compare the n*cols*size words of the layout only)
            let w: Vec<i128> = if word == 8 { b.chunks_exact(8).map(|c| i64::from_le_bytes(c.try_into().unwrap()) as i128).collect() }
            else { b.chunks_exact(16).map(|c| i128::from_le_bytes(c.try_into().unwrap())).collect() };
            w[..n * cols * size].to_vec()
        } else {
            let mut v = mk_vec_znx(n, cols, size, size, &vec![7i64; n * cols * size]);
            match k {
                1 => m.vec_znx_fill_uniform(base2k, &mut v, col, &mut src),
                2 => m.vec_znx_fill_normal(base2k, &mut v, col, noise, &mut src),
                _ => m.vec_znx_add_normal(base2k, &mut v, col, noise, &mut src),
            }
            dump_vec_znx(&v).into_iter().map(|x| x as i128).collect()
        };
        let nxt: [u8; 32] = src.new_seed();
        (words, nxt.iter().map(|b| *b as i128).collect())
    })
}

pub fn exec(r: &Rec) -> Out {
    if r.code >= 400000 {
        // large ring degrees: equality flags only (no model prediction of the values)
        let c = r.code - 400000;
        let outs: Vec<Out> = (1..=4i128).map(|be| { let mut ps = r.ps.clone(); ps[0] = be; base_exec(&Rec::new(c, ps, r.vs.clone())) }).collect();
        return match &outs[0] {
            Ok(o1) => Ok(vec![(1..4).map(|i| match &outs[i] { Ok(x) => (x == o1) as i128, Err(_) => 0 }).collect()]),
            Err(e) => if outs.iter().all(|x| x.is_err()) { Err(e.clone()) } else { Ok(vec![vec![0, 0, 0]]) },
        };
    }
    if r.code >= 300000 {
        let (k, p) = (r.code - 300000, r.ps.clone());
        return guard(move || {
            let runs: Vec<(Vec<i128>, Vec<i128>)> = (1..=4i128).map(|be| sample(k, be, &p)).collect();
            let mut flags: Vec<i128> = (1..4).map(|i| (runs[i].0 == runs[0].0) as i128).collect();
            flags.extend((1..4).map(|i| (runs[i].1 == runs[0].1) as i128));
            vec![flags]
        });
    }
    if r.code >= 200000 {
        let c = r.code - 200000;
        let outs: Vec<Out> = [3i128, 4].iter().map(|be| { let mut ps = r.ps.clone(); ps[0] = *be; base_exec(&Rec::new(c, ps, r.vs.clone())) }).collect();
        return match (&outs[0], &outs[1]) {
            (Ok(a), Ok(b)) => { let mut o = a.clone(); o.push(vec![(a == b) as i128]); Ok(o) }
            (Err(e), Err(_)) => Err(e.clone()),
            _ => Ok(vec![vec![0]]),
        };
    }
    let c = r.code - 100000;
    let mut outs: Vec<Out> = Vec::new();
    for be in 1..=4i128 {
        let mut ps = r.ps.clone();
        ps[0] = be;
        outs.push(base_exec(&Rec::new(c, ps, r.vs.clone())));
    }
    match &outs[0] {
        Ok(o1) => {
            let mut o = o1.clone();
            let flags: Vec<i128> = (1..4).map(|i| match &outs[i] { Ok(x) => (x == o1) as i128, Err(_) => 0 }).collect();
            o.push(flags);
            Ok(o)
        }
        Err(e) => {
            // a panic must be a panic on every backend
            if outs.iter().all(|x| x.is_err()) { Err(e.clone()) } else { Ok(vec![vec![0, 0, 0]]) }
        }
    }
}

pub fn generate(tier: &str, seed: u64) -> Vec<Rec> {
    let mut base = Vec::new();
    // kernels + vector ops of C08 (the kernel records name a backend in ps[0]; 8001/8002 have no backend: skip them)
    // big-accumulator records: keep those generated for the FFT64 family (values inside the i64 domain common to both families)
    base.extend(c08::generate(tier, seed.wrapping_add(8)).into_iter().filter(|r| r.code >= 8010 && (r.code < 8201 || r.ps[0] <= 2)));
    // big-accumulator records (9101..9116) carry a domain tag at ps[16]: only the common-domain ones (0) are comparable across families
    base.extend(c09::generate(tier, seed.wrapping_add(9)).into_iter().filter(|r| !(9100..9200).contains(&r.code) || r.ps[16] == 0));
    // DFT-domain ops: force the FFT64 magnitude domain for every record (be = 1 at generation time)
    // (and the HAL convolution records 5001..5004, which c07::generate passes through from the C05 harness code)
    base.extend(c07::generate(tier, seed.wrapping_add(7)).into_iter().filter(|r| ((7000..7100).contains(&r.code) || (5001..=5004).contains(&r.code)) && r.ps[0] <= 2));
    let mut out: Vec<Rec> = base.into_iter().map(|r| { let mut ps = r.ps.clone(); ps[0] = 0; Rec::new(100000 + r.code, ps, r.vs) }).collect();
    // NTT120 family only: i128 big-accumulator operands (normalisers generated for be >= 3, big ring operations outside the common domain)
    let fam8 = c08::generate(tier, seed.wrapping_add(8)).into_iter().filter(|r| (8201..8300).contains(&r.code) && r.ps[0] >= 3);
    let fam9 = c09::generate(tier, seed.wrapping_add(9)).into_iter().filter(|r| (9100..9200).contains(&r.code) && r.ps[16] != 0);
    out.extend(fam8.chain(fam9).map(|r| { let mut ps = r.ps.clone(); ps[0] = 3; Rec::new(200000 + r.code, ps, r.vs) }));
    {
        let mut big = Vec::new();
        c09::generate_large(tier, &mut Rng::new(seed ^ 0xB16), &mut big);
        out.extend(big.into_iter().map(|r| Rec::new(400000 + r.code, r.ps, r.vs)));
    }
    // samplers: same seed on every backend; tight admissible bounds make the rejection loop run
    let mut rng = Rng::new(seed ^ 0x5A);
    let reps = if tier == "thorough" { 1200 } else { 300 };
    for it in 0..reps {
        let k = 1 + (it % 4) as i64;
        let n = rng.pick(&[1usize, 2, 4, 8, 16, 64, 256, 256]);
        let cols = rng.range(1, 3); let size = rng.range(1, 4); let col = rng.below(cols as u64) as i128;
        let base2k = rng.range(2, 52);
        // k a multiple of the radix in half of the cases: the sampler's scale is then 1 and a tight bound such as
        // 3.2 or 1.0 puts a visible share of the samples into the rejection window
        let nk = if it % 2 == 0 { base2k * rng.range(1, size) } else { rng.range(1, size * base2k) };
        let (sigma, bound) = rng.pick(&[(3200i128, 3200i128), (3200, 19200), (1000, 1000), (1000, 1400), (3200, 3700), (8000, 8100), (2500, 15000)]);
        out.push(Rec::new(300000 + k, vec![0, n as i128, cols as i128, size as i128, col, base2k as i128, nk as i128, sigma, bound, rng.next() as i128], vec![]));
    }
    out
}

fn main() { poulpy_verif_harness::run_main(generate, exec) }
