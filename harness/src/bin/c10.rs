//! C10: every backend gives bit-identical results.  Each base record of C07 (DFT-domain ops inside the common
//! magnitude domain), C08 (kernels and vector-level normalise/shift) and C09 (ring operations) is executed on
//! FFT64Ref, FFT64Avx, NTT120Ref, NTT120Avx; opcode 100000 + op; outputs = FFT64Ref's outputs + [eq flags].
#![allow(dead_code)]
#[path = "c07.rs"]
mod c07;
#[path = "c08.rs"]
mod c08;
#[path = "c09.rs"]
mod c09;

use poulpy_verif_harness::rec::*;

fn base_exec(r: &Rec) -> Out {
    let c = r.code;
    if (7000..8000).contains(&c) { c07::exec(r) } else if (8000..9000).contains(&c) { c08::exec(r) } else { c09::exec(r) }
}

pub fn exec(r: &Rec) -> Out {
    let c = r.code - 100000;
    let mut outs: Vec<Out> = Vec::new();
    for be in 1..=4i128 {
        let mut ps = r.ps.clone();
        ps[0] = be;
        outs.push(base_exec(&Rec::new(c, ps, r.vs.clone())));
    }
    match &outs[0] {
        Ok(o1) => {
            let mut o = o1.clone();
            let flags: Vec<i128> = (1..4).map(|i| match &outs[i] { Ok(x) => (x == o1) as i128, Err(_) => 0 }).collect();
            o.push(flags);
            Ok(o)
        }
        Err(e) => {
            // a panic must be a panic on every backend
            if outs.iter().all(|x| x.is_err()) { Err(e.clone()) } else { Ok(vec![vec![0, 0, 0]]) }
        }
    }
}

pub fn generate(tier: &str, seed: u64) -> Vec<Rec> {
    let mut base = Vec::new();
    // kernels + vector ops of C08 (the kernel records name a backend in ps[0]; 8001/8002 have no backend: skip them)
    // big-accumulator records: keep those generated for the FFT64 family (values inside the i64 domain common to both families)
    base.extend(c08::generate(tier, seed.wrapping_add(8)).into_iter().filter(|r| r.code >= 8010 && (r.code < 8201 || r.ps[0] <= 2)));
    // big-accumulator records (9101..9116) carry a domain tag at ps[16]: only the common-domain ones (0) are comparable across families
    base.extend(c09::generate(tier, seed.wrapping_add(9)).into_iter().filter(|r| !(9100..9200).contains(&r.code) || r.ps[16] == 0));
    // DFT-domain ops: force the FFT64 magnitude domain for every record (be = 1 at generation time)
    base.extend(c07::generate(tier, seed.wrapping_add(7)).into_iter().filter(|r| r.code < 7100 && r.ps[0] <= 2));
    base.into_iter().map(|r| { let mut ps = r.ps.clone(); ps[0] = 0; Rec::new(100000 + r.code, ps, r.vs) }).collect()
}

fn main() { poulpy_verif_harness::run_main(generate, exec) }
