//! C01: encrypt-then-decrypt through the public API, with everything the library drew regenerated for the model.
//! Header / vectors / outputs: see coq/Model/C01Run.v.
//!   ps[15] sigma*1000 | ps[16] bound*1000 | ps[17] secret kind | ps[18] secret param | ps[19] message class
//!   ps[20..24] seed_xs | [24..28] seed_xe | [28..32] seed_xa | [32..36] seed_xu | [36..40] seed_xe_pk | [40..44] seed_xa_pk
use poulpy_core::api::*;
use poulpy_core::layouts::*;
use poulpy_hal::api::*;
use poulpy_hal::layouts::*;
use poulpy_hal::source::Source;
use poulpy_verif_harness::rec::*;
use poulpy_verif_harness::with_be;

#[path = "../enc_common.rs"]
mod enc_common;
use enc_common::*;

struct Hd { be: i128, n: usize, b: usize, size: usize, rank: usize, nk: usize, psize: usize, pb: usize, dsize: usize, db: usize,
            nkp: usize, sigma: f64, bound: f64, kind: i128, param: i128 }
fn hd(p: &[i128]) -> Hd {
    let u = |i: usize| p[i] as usize;
    Hd { be: p[0], n: u(1), b: u(2), size: u(3), rank: u(4), nk: u(5), psize: u(6), pb: u(7), dsize: u(8), db: u(9), nkp: u(13),
         sigma: p[15] as f64 / 1000.0, bound: p[16] as f64 / 1000.0, kind: p[17], param: p[18] }
}
fn seed_at(p: &[i128], i: usize) -> [u8; 32] { words_seed(&p[20 + 4 * i..24 + 4 * i]) }

/// returns (derived vectors vs[1..], outputs)
fn case(code: i64, p: &[i128], ptw: &[i128]) -> (Vec<Vec<i128>>, Vec<Vec<i128>>) {
    let h = hd(p);
    let (sxs, sxe, sxa, sxu, sxep, sxap) = (seed_at(p, 0), seed_at(p, 1), seed_at(p, 2), seed_at(p, 3), seed_at(p, 4), seed_at(p, 5));
    let noise = NoiseInfos::new(h.nk, h.sigma, h.bound).unwrap();
    let (limb, slog, _) = ceil_bound(noise, h.b);
    with_be!(h.be, BE, {
        if code == 1002 {
            // LWE: module degree is irrelevant to the LWE routines (they work on 1-coefficient vectors)
            let module: Module<BE> = Module::<BE>::new(8);
            let n = h.n;
            let mut sk = LWESecret::alloc(Degree(n as u32));
            fill_lwe_secret(&mut sk, h.kind, h.param, &mut Source::new(sxs));
            let s: Vec<i128> = sk.raw().iter().map(|x| *x as i128).collect();
            let mut pt = LWEPlaintext::alloc(Base2K(h.pb as u32), TorusPrecision((h.psize * h.pb) as u32));
            set_col(pt.data_mut(), 0, ptw);
            let mut ct = LWE::alloc(Degree(n as u32), Base2K(h.b as u32), TorusPrecision((h.size * h.b) as u32));
            let mut sc: ScratchOwned<BE> = garbage_scratch::<BE>(module.lwe_encrypt_sk_tmp_bytes(&ct).max(module.lwe_decrypt_tmp_bytes(&ct)) + 4096);
            module.lwe_encrypt_sk(&mut ct, &pt, &sk, &noise, &mut Source::new(sxe), &mut Source::new(sxa), sc.borrow());
            let mut dec = LWEPlaintext::alloc(Base2K(h.db as u32), TorusPrecision((h.dsize * h.db) as u32));
            module.lwe_decrypt(&ct, &mut dec, &sk, sc.borrow());
            let ua = raw_u64(&sxa, h.size * (n + 1));
            let e = replay_error(&module, 1, h.b, h.size, noise, &mut Source::new(sxe));
            return (vec![s, ua, to128(&e)],
                    vec![col_words(ct.data(), 0), col_words(dec.data(), 0), vec![limb as i128, slog]]);
        }
        let n = h.n;
        let module: Module<BE> = Module::<BE>::new(n as u64);
        let (sk, s) = glwe_secret(n, h.rank, h.kind, h.param, &sxs);
        let mut skp = module.glwe_secret_prepared_alloc(Rank(h.rank as u32));
        module.glwe_secret_prepare(&mut skp, &sk);
        let mut pt = GLWEPlaintext::alloc(Degree(n as u32), Base2K(h.pb as u32), TorusPrecision((h.psize.max(1) * h.pb) as u32));
        if h.psize > 0 { set_col(&mut pt.data, 0, ptw); }
        let li = GLWELayout { n: Degree(n as u32), base2k: Base2K(h.b as u32), k: TorusPrecision((h.size * h.b) as u32), rank: Rank(h.rank as u32) };
        let mut ct = GLWE::alloc_from_infos(&li);
        let mut dec = GLWEPlaintext::alloc(Degree(n as u32), Base2K(h.db as u32), TorusPrecision((h.dsize * h.db) as u32));
        let bytes = module.glwe_encrypt_sk_tmp_bytes(&li).max(module.glwe_decrypt_tmp_bytes(&li)).max(module.glwe_encrypt_pk_tmp_bytes(&li));
        let mut sc: ScratchOwned<BE> = garbage_scratch::<BE>(bytes + 4096);
        let ua = raw_u64(if code == 1003 { &sxap } else { &sxa }, h.rank * h.size * n);
        // several encryptions share one scratch arena: a warm-up encryption (other seeds) dirties it before the one under test
        if matches!(code, 1001 | 1004 | 1005) && h.pb == h.b {
            let mut warm = GLWE::alloc_from_infos(&li);
            module.glwe_encrypt_sk(&mut warm, &pt, &skp, &noise, &mut Source::new(flip_seed(&sxe)), &mut Source::new(flip_seed(&sxa)), sc.borrow());
        }
        match code {
            1005 => {
                module.glwe_encrypt_zero_sk(&mut ct, &skp, &noise, &mut Source::new(sxe), &mut Source::new(sxa), sc.borrow());
                module.glwe_decrypt(&ct, &mut dec, &skp, sc.borrow());
                let e = replay_error(&module, n, h.b, h.size, noise, &mut Source::new(sxe));
                (vec![to128(&s), ua, to128(&e)], vec![all_cols(ct.data()), col_words(&dec.data, 0), vec![limb as i128, slog]])
            }
            1001 => {
                module.glwe_encrypt_sk(&mut ct, &pt, &skp, &noise, &mut Source::new(sxe), &mut Source::new(sxa), sc.borrow());
                module.glwe_decrypt(&ct, &mut dec, &skp, sc.borrow());
                let e = replay_error(&module, n, h.b, h.size, noise, &mut Source::new(sxe));
                (vec![to128(&s), ua, to128(&e)], vec![all_cols(ct.data()), col_words(&dec.data, 0), vec![limb as i128, slog]])
            }
            1004 => {
                let mut cc = GLWECompressed::alloc_from_infos(&li);
                module.glwe_compressed_encrypt_sk(&mut cc, &pt, &skp, sxa, &noise, &mut Source::new(sxe), sc.borrow());
                module.decompress_glwe(&mut ct, &cc);
                module.glwe_decrypt(&ct, &mut dec, &skp, sc.borrow());
                let e = replay_error(&module, n, h.b, h.size, noise, &mut Source::new(sxe));
                (vec![to128(&s), ua, to128(&e)],
                 vec![tail_words(&ser(&cc), n * h.size), all_cols(ct.data()), col_words(&dec.data, 0), vec![limb as i128, slog]])
            }
            1003 => {
                let noise_pk = NoiseInfos::new(h.nkp, h.sigma, h.bound).unwrap();
                let mut pk = GLWEPublicKey::alloc_from_infos(&li);
                module.glwe_public_key_generate(&mut pk, &skp, &noise_pk, &mut Source::new(sxep), &mut Source::new(sxap));
                let mut pkp = module.glwe_public_key_prepared_alloc_from_infos(&li);
                module.glwe_public_key_prepare(&mut pkp, &pk);
                module.glwe_encrypt_pk(&mut ct, &pt, &pkp, &noise, &mut Source::new(sxu), &mut Source::new(sxe), sc.borrow());
                module.glwe_decrypt(&ct, &mut dec, &skp, sc.borrow());
                let epk = replay_error(&module, n, h.b, h.size, noise_pk, &mut Source::new(sxep));
                let u = replay_scalar(n, h.kind, h.param, &mut Source::new(sxu));
                let mut se = Source::new(sxe);
                let mut es: Vec<i128> = Vec::new();
                for _ in 0..=h.rank { es.extend(to128(&replay_error(&module, n, h.b, h.size, noise, &mut se))); }
                (vec![to128(&s), ua, to128(&epk), to128(&u), es],
                 vec![all_cols(pk.to_ref().data()), all_cols(ct.data()), col_words(&dec.data, 0), vec![limb as i128, slog]])
            }
            _ => panic!("c01: unknown op {}", code),
        }
    })
}

pub fn exec(r: &Rec) -> Out {
    let r2 = r.clone();
    if r2.code == 1006 {
        // public-key encryption + decryption on a zeroed scratch arena and under two garbage fills: [[1]] iff all outputs coincide
        return guard(move || {
            use std::sync::atomic::Ordering;
            FILL.store(0, Ordering::Relaxed);   // zeroed arena
            let z = case(1003, &r2.ps, &r2.vs[0]).1;
            FILL.store(0x5EED_0001, Ordering::Relaxed);
            let a = case(1003, &r2.ps, &r2.vs[0]).1;
            FILL.store(0xC0FF_EE77_1234_5678, Ordering::Relaxed);
            let b = case(1003, &r2.ps, &r2.vs[0]).1;
            FILL.store(0x5EED_0001, Ordering::Relaxed);
            vec![vec![(a == b && a == z) as i128]]
        });
    }
    guard(move || two_fills(|| case(r2.code, &r2.ps, &r2.vs[0]).1))
}

fn log2_ceil(x: usize) -> usize { if x <= 1 { 0 } else { (usize::BITS - (x - 1).leading_zeros()) as usize } }

pub fn generate(tier: &str, seed: u64) -> Vec<Rec> {
    let mut rng = Rng::new(seed);
    let mut out = Vec::new();
    let reps = if tier == "thorough" { 4000 } else { 560 };
    for it in 0..reps {
        let code = match it % 10 { 0..=3 => 1001, 4 => 1005, 5 | 6 => 1002, 7 | 8 => 1003, _ => 1004 };
        let be = rng.range(1, 4) as i128;
        let n = if code == 1002 { rng.pick(&[1usize, 2, 3, 7, 8, 16, 31, 64]) }
                else if tier == "thorough" && rng.below(40) == 0 { 256 } else { 1usize << rng.range(3, 6) };
        let rank = if code == 1002 { 1 } else if rng.below(4) == 0 { 0 } else { rng.range(0, 3) as usize };
        // secret distribution and an upper bound of its 1-norm
        let kind = rng.below(6) as i128;
        let (param, hw) = match kind {
            0 | 2 => { let p = rng.range(1, 16) as usize; (p, n) }
            1 | 3 => { let h = rng.range(0, n as i64) as usize; (h, h.max(1)) }
            4 => { let divs: Vec<usize> = (1..=n).filter(|d| n % d == 0).collect(); let d = rng.pick(&divs); (d, n / d) }
            _ => (0, 1),
        };
        // radix: FFT64 keeps |s|_1 * 2^(b-1) below 2^49 (its exact-product domain, cf. c07.rs: at 2^50 one word in 4000 thorough records,
        // n=64 base2k=50 |s|_1=2, came back off by one from the f64 FFT); NTT120 goes to 52
        let bmax = if be <= 2 { (50 - log2_ceil(hw)).min(50) } else { 52 };
        let b = match rng.below(5) { 0 => bmax, 1 => rng.range(1, 4) as usize, _ => rng.range(1, bmax as i64) as usize };
        let size = rng.range(1, 5) as usize;
        // noise precision: anywhere in the ciphertext, mostly not a multiple of the radix
        let nk = match rng.below(4) { 0 => size * b, _ => rng.range(1, (size * b) as i64) as usize };
        let nkp = match rng.below(3) { 0 => nk, _ => rng.range(1, (size * b) as i64) as usize };
        let psize = if code == 1005 { 0 } else { match rng.below(4) { 0 => size, 1 => size + 1, _ => rng.range(1, size as i64 + 1) as usize } };
        // the plaintext handed to encrypt may DECLARE another radix than the ciphertext (the sk paths never look at it)
        let pb = if code != 1005 && rng.below(12) == 0 { let dmax = if be <= 2 { 50 } else { 52 }; rng.range(1, dmax) as usize } else { b };
        let (dsize, db) = match rng.below(4) {
            0 => (size, b),
            1 => (rng.range(1, 5) as usize, b),
            _ => { let dmax = if be <= 2 { 50 } else { 52 }; (rng.range(1, 5) as usize, rng.range(1, dmax) as usize) }
        };
        let (sigma, bound) = match rng.below(5) { 0 => (1.0, 1.0), 1 => (1.0, 6.0), 2 => (17.5, 40.0), _ => (3.2, 19.2) };
        let class = rng.below(5);
        let noise = NoiseInfos::new(nk, sigma, bound).unwrap();
        let (limb, slog, eb) = ceil_bound(noise, b);
        let (_, _, ebp) = ceil_bound(NoiseInfos::new(nkp, sigma, bound).unwrap(), b);
        let mut ps: Vec<i128> = vec![be, n as i128, b as i128, size as i128, rank as i128, nk as i128, psize as i128, pb as i128,
            dsize as i128, db as i128, eb, limb as i128, slog, nkp as i128, ebp, (sigma * 1000.0) as i128, (bound * 1000.0) as i128,
            kind, param as i128, class as i128];
        for _ in 0..6 { ps.extend(seed_words(&rng.bytes32())); }
        let pn = if code == 1002 { 1 } else { n };
        let ptw = message(&mut rng, pn, psize, pb, class);
        // a public key of distribution ZERO: only the independence of the scratch contents is recorded (code 1006)
        let code = if code == 1003 && kind == 5 { 1006 } else { code };
        let r = Rec::new(code, ps.clone(), vec![ptw.clone()]);
        // derive what the library drew by running the case once (a panic leaves the derived vectors empty)
        let derived = if code == 1006 { vec![] } else { std::panic::catch_unwind(|| case(code, &ps, &ptw).0).unwrap_or_default() };
        let mut vs = vec![ptw];
        vs.extend(derived);
        out.push(Rec::new(r.code, r.ps, vs));
    }
    out
}

fn main() { poulpy_verif_harness::run_main(generate, exec) }
