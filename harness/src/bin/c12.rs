//! C12: declared scratch size always suffices; scratch contents never matter.
//!
//! Two kinds of records:
//!   code 12001..12499  formula value: params = [be, n, shape..] -> [[bytes]] = the real Rust `*_tmp_bytes`
//!                      (the extracted model recomputes it from the Gallina formula GENERATED from the same source)
//!   code 12501..12999  the real thing (code = formula code + 500): the operation is run with a scratch that is an
//!                      EXACT-SIZE window (`tmp_bytes` bytes, not rounded) starting at a 64-byte aligned address
//!                      inside a larger canary-filled allocation; run twice with two different garbage fills of the
//!                      window; output [[bytes, panic_kind, canary_ok, outputs_equal]]
//!                      panic_kind: 0 none, 1 "Attempted to take ..", 2 "scratch.available() .. <", 3 other
//!
//! How the window is carved (only public API of poulpy-hal): `ScratchOwned::<BE>::alloc(G + need + G + 64)`
//! (which rounds up to 64 and returns 64-aligned memory), `.borrow()` gives `&mut Scratch<BE>` whose `data: [u8]`
//! field is public (used to write / check the canaries), then `Scratch::split_at_mut(G)` (front guard) and
//! `Scratch::split_at_mut(need)` on the rest give the exact window as a `&mut Scratch<BE>` of `need` bytes.
use poulpy_core::api::*;
use poulpy_core::layouts::*;
use poulpy_bin_fhe::blind_rotation::{BlindRotationKey, BlindRotationKeyEncryptSk, BlindRotationKeyLayout, BlindRotationKeyPrepared, CGGI, LookUpTableLayout, LookupTable};
use poulpy_bin_fhe::bdd_arithmetic::tests::test_suite::TestContext;
use poulpy_bin_fhe::bdd_arithmetic::{Add, Cmux, ExecuteBDDCircuit, FheUint, FheUintPrepare, FheUintPrepared, GetGGSWBit, Slt};
use poulpy_bin_fhe::circuit_bootstrapping::{CircuitBootstrappingEncryptionInfos, CircuitBootstrappingExecute, CircuitBootstrappingKey, CircuitBootstrappingKeyLayout, CircuitBootstrappingKeyPrepared};
use poulpy_ckks::{CKKSMeta, layouts::{CKKSCiphertext, CKKSPlaintextVecZnx}, leveled::api::*};
use poulpy_core::EncryptionLayout;
use poulpy_hal::api::*;
use poulpy_hal::layouts::*;
use poulpy_hal::source::Source;
use poulpy_verif_harness::rec::*;
use poulpy_verif_harness::with_be;
use std::collections::HashMap;
use std::panic::{catch_unwind, AssertUnwindSafe};

const GUARD: usize = 192;

fn canary(i: usize) -> u8 { (i as u8).wrapping_mul(37) ^ 0xC3 }

struct RunRes { kind: i128, canary_ok: bool, out: Vec<u8> }

fn panic_kind(m: &str) -> i128 {
    if m.starts_with("Attempted to take") { 1 } else if m.contains("scratch.available()") { 2 } else { 3 }
}

/// run `f` on an exact-size scratch window of `need` bytes, pre-filled with garbage derived from `fill`
fn exact<BE, F>(need: usize, fill: u64, f: F) -> RunRes
where
    BE: Backend + poulpy_hal::oep::HalImpl<BE>,
    F: FnOnce(&mut Scratch<BE>) -> Vec<u8>,
{
    let mut owned: ScratchOwned<BE> = ScratchOwned::<BE>::alloc(GUARD + need + GUARD + 64);
    let all: &mut Scratch<BE> = owned.borrow();
    let base = all.data.as_ptr() as usize;
    assert!(base % 64 == 0, "harness: base of ScratchOwned is not 64-aligned");
    for (i, b) in all.data.iter_mut().enumerate() { *b = canary(i); }
    let (front, rest) = all.split_at_mut(GUARD);
    let (win, back) = rest.split_at_mut(need);
    assert!(win.data.as_ptr() as usize == base + GUARD && win.data.len() == need, "harness: window not where expected");
    let mut g = Rng::new(fill);
    for c in win.data.chunks_mut(8) { let v = g.next().to_le_bytes(); let l = c.len(); c.copy_from_slice(&v[..l]); }
    let r = catch_unwind(AssertUnwindSafe(|| f(win)));
    let ok = front.data.iter().enumerate().all(|(i, b)| *b == canary(i))
        && back.data.iter().enumerate().all(|(i, b)| *b == canary(GUARD + need + i));
    match r {
        Ok(out) => RunRes { kind: 0, canary_ok: ok, out },
        Err(p) => {
            let m = panic_class(p);
            if std::env::var("C12_VERBOSE").is_ok() { eprintln!("c12: need={} panic: {}", need, m); }
            RunRes { kind: panic_kind(&m), canary_ok: ok, out: vec![] }
        }
    }
}

fn src(seed: u64) -> Source { let mut s = [0u8; 32]; s[..8].copy_from_slice(&seed.to_le_bytes()); Source::new(s) }
fn rand_bytes(b: &mut [u8], seed: u64, mask: u8) { let mut g = Rng::new(seed); for x in b.iter_mut() { *x = (g.next() as u8) & mask; } }
fn u(x: i128) -> usize { x as usize }
fn ser_bytes<T: WriterTo>(x: &T) -> Vec<u8> { let mut v = Vec::new(); x.write_to(&mut v).unwrap(); v }

/// layout descriptions travel as 6 numbers: base2k, k, rank (= rank_out), rank_in, dnum, dsize
fn glwe_l(n: usize, q: &[i128]) -> GLWELayout {
    GLWELayout { n: Degree(n as u32), base2k: Base2K(q[0] as u32), k: TorusPrecision(q[1] as u32), rank: Rank(q[2] as u32) }
}
fn gglwe_l(n: usize, q: &[i128]) -> GGLWELayout {
    GGLWELayout { n: Degree(n as u32), base2k: Base2K(q[0] as u32), k: TorusPrecision(q[1] as u32), rank_out: Rank(q[2] as u32),
                  rank_in: Rank(q[3] as u32), dnum: Dnum(q[4] as u32), dsize: Dsize(q[5] as u32) }
}
fn ggsw_l(n: usize, q: &[i128]) -> GGSWLayout {
    GGSWLayout { n: Degree(n as u32), base2k: Base2K(q[0] as u32), k: TorusPrecision(q[1] as u32), rank: Rank(q[2] as u32),
                 dnum: Dnum(q[4] as u32), dsize: Dsize(q[5] as u32) }
}

/// (need, what to run) for one operation on backend $T.  `$go(need, closure)` is either "formula only" or the exact run.
macro_rules! body {
    ($T:ident, $op:expr, $p:expr, $go:expr) => {{
        type M = Module<$T>;
        let p: &[i128] = $p;
        let n = u(p[1]);
        let module: M = M::new(n as u64);
        let big = |bytes: usize| -> ScratchOwned<$T> { ScratchOwned::<$T>::alloc(bytes + (1 << 16)) };
        let rvec = |cols: usize, size: usize, b2k: usize, seed: u64| -> VecZnx<Vec<u8>> {
            let mut v = VecZnx::alloc(n, cols, size); let mut s = src(seed);
            for c in 0..cols { module.vec_znx_fill_uniform(b2k, &mut v, c, &mut s); } v };
        match $op {
            // ------------------------------------------------------------------ HAL
            1 => { // vec_znx_normalize  [be n res_size a_size res_b2k a_b2k]
                let a = rvec(1, u(p[3]), u(p[5]), 1); let mut res = VecZnx::alloc(n, 1, u(p[2]));
                $go(module.vec_znx_normalize_tmp_bytes(), &mut |s: &mut Scratch<$T>| {
                    module.vec_znx_normalize(&mut res, u(p[4]), 0, 0, &a, u(p[5]), 0, s); res.data.clone() }) }
            2 => { // vec_znx_normalize_assign [be n size b2k]
                let a0 = rvec(1, u(p[2]), 62, 2);
                $go(module.vec_znx_normalize_tmp_bytes(), &mut |s: &mut Scratch<$T>| {
                    let mut a = a0.clone(); module.vec_znx_normalize_assign(u(p[3]), &mut a, 0, s); a.data.clone() }) }
            3 | 5 | 7 | 8 | 9 | 10 => { // rsh lsh rsh_add_into lsh_add_into rsh_sub lsh_sub [be n size b2k k]
                let a = rvec(1, u(p[2]), u(p[3]), 3); let r0 = rvec(1, u(p[2]), u(p[3]), 4);
                let (b2k, k, op) = (u(p[3]), u(p[4]), $op);
                let need = if op == 3 || op == 7 || op == 9 { module.vec_znx_rsh_tmp_bytes() } else { module.vec_znx_lsh_tmp_bytes() };
                $go(need, &mut |s: &mut Scratch<$T>| { let mut r = r0.clone();
                    match op { 3 => module.vec_znx_rsh(b2k, k, &mut r, 0, &a, 0, s), 5 => module.vec_znx_lsh(b2k, k, &mut r, 0, &a, 0, s),
                               7 => module.vec_znx_rsh_add_into(b2k, k, &mut r, 0, &a, 0, s), 8 => module.vec_znx_lsh_add_into(b2k, k, &mut r, 0, &a, 0, s),
                               9 => module.vec_znx_rsh_sub(b2k, k, &mut r, 0, &a, 0, s), _ => module.vec_znx_lsh_sub(b2k, k, &mut r, 0, &a, 0, s) }
                    r.data.clone() }) }
            4 | 6 => { // rsh_assign lsh_assign [be n size b2k k]
                let a0 = rvec(1, u(p[2]), u(p[3]), 5); let (b2k, k, op) = (u(p[3]), u(p[4]), $op);
                let need = if op == 4 { module.vec_znx_rsh_tmp_bytes() } else { module.vec_znx_lsh_tmp_bytes() };
                $go(need, &mut |s: &mut Scratch<$T>| { let mut a = a0.clone();
                    if op == 4 { module.vec_znx_rsh_assign(b2k, k, &mut a, 0, s) } else { module.vec_znx_lsh_assign(b2k, k, &mut a, 0, s) }
                    a.data.clone() }) }
            11 | 12 | 13 => { // rotate_assign automorphism_assign mul_xp_minus_one_assign [be n size p]
                let a0 = rvec(1, u(p[2]), 50, 6); let (pp, op) = (p[3] as i64, $op);
                let need = match op { 11 => module.vec_znx_rotate_assign_tmp_bytes(), 12 => module.vec_znx_automorphism_assign_tmp_bytes(),
                                      _ => module.vec_znx_mul_xp_minus_one_assign_tmp_bytes() };
                $go(need, &mut |s: &mut Scratch<$T>| { let mut a = a0.clone();
                    match op { 11 => module.vec_znx_rotate_assign(pp, &mut a, 0, s), 12 => module.vec_znx_automorphism_assign(pp, &mut a, 0, s),
                               _ => module.vec_znx_mul_xp_minus_one_assign(pp, &mut a, 0, s) }
                    a.data.clone() }) }
            14 => { // split_ring [be n size]  (two halves of degree n/2)
                let a = rvec(1, u(p[2]), 50, 7);
                $go(module.vec_znx_split_ring_tmp_bytes(), &mut |s: &mut Scratch<$T>| {
                    let mut parts: Vec<VecZnx<Vec<u8>>> = (0..2).map(|_| VecZnx::alloc(n / 2, 1, u(p[2]))).collect();
                    module.vec_znx_split_ring(&mut parts, 0, &a, 0, s);
                    let mut o = parts[0].data.clone(); o.extend_from_slice(&parts[1].data); o }) }
            20 => { // vec_znx_big_normalize [be n res_size a_size res_b2k a_b2k]
                let mut a = module.vec_znx_big_alloc(1, u(p[3])); rand_bytes(a.data.as_mut(), 8, 0x3f);
                let mut res = VecZnx::alloc(n, 1, u(p[2]));
                $go(module.vec_znx_big_normalize_tmp_bytes(), &mut |s: &mut Scratch<$T>| {
                    module.vec_znx_big_normalize(&mut res, u(p[4]), 0, 0, &a, u(p[5]), 0, s); res.data.clone() }) }
            21 => { // vec_znx_big_automorphism_assign [be n size p]
                let mut a0 = module.vec_znx_big_alloc(1, u(p[2])); rand_bytes(a0.data.as_mut(), 9, 0xff); let pp = p[3] as i64;
                let init: Vec<u8> = a0.data.as_ref().to_vec();
                $go(module.vec_znx_big_automorphism_assign_tmp_bytes(), &mut |s: &mut Scratch<$T>| {
                    a0.data.as_mut().copy_from_slice(&init);
                    module.vec_znx_big_automorphism_assign(pp, &mut a0, 0, s); a0.data.as_ref().to_vec() }) }
            30 => { // vmp_prepare [be n rows cols_in cols_out size]
                let (rows, ci, co, size) = (u(p[2]), u(p[3]), u(p[4]), u(p[5]));
                let mut mat = MatZnx::alloc(n, rows, ci, co, size); mat.fill_uniform(40, &mut src(10));
                let mut pm = module.vmp_pmat_alloc(rows, ci, co, size);
                $go(module.vmp_prepare_tmp_bytes(rows, ci, co, size), &mut |s: &mut Scratch<$T>| {
                    module.vmp_prepare(&mut pm, &mat, s); pm.data().as_ref().to_vec() }) }
            31 | 32 => { // vmp_apply_dft_to_dft / vmp_apply_dft [be n res_size a_size rows cols_in cols_out size limb_offset]
                let (rs, asz, rows, ci, co, size, lo) = (u(p[2]), u(p[3]), u(p[4]), u(p[5]), u(p[6]), u(p[7]), u(p[8]));
                let mut mat = MatZnx::alloc(n, rows, ci, co, size); mat.fill_uniform(30, &mut src(11));
                let mut pm = module.vmp_pmat_alloc(rows, ci, co, size);
                let mut sb = big(module.vmp_prepare_tmp_bytes(rows, ci, co, size)); module.vmp_prepare(&mut pm, &mat, sb.borrow());
                let a = rvec(ci, asz, 30, 12);
                let mut a_dft = module.vec_znx_dft_alloc(ci, asz);
                for c in 0..ci { module.vec_znx_dft_apply(1, 0, &mut a_dft, c, &a, c); }
                let mut res = module.vec_znx_dft_alloc(co, rs);
                if $op == 31 {
                    $go(module.vmp_apply_dft_to_dft_tmp_bytes(rs, asz, rows, ci, co, size), &mut |s: &mut Scratch<$T>| {
                        module.vmp_apply_dft_to_dft(&mut res, &a_dft, &pm, lo, s); res.data.as_ref().to_vec() })
                } else {
                    $go(module.vmp_apply_dft_tmp_bytes(rs, asz, rows, ci, co, size), &mut |s: &mut Scratch<$T>| {
                        module.vmp_apply_dft(&mut res, &a, &pm, s); res.data.as_ref().to_vec() })
                } }
            40 => { // vec_znx_idft_apply [be n size]
                let a = rvec(1, u(p[2]), 30, 13); let mut a_dft = module.vec_znx_dft_alloc(1, u(p[2]));
                module.vec_znx_dft_apply(1, 0, &mut a_dft, 0, &a, 0);
                let mut res = module.vec_znx_big_alloc(1, u(p[2]));
                $go(module.vec_znx_idft_apply_tmp_bytes(), &mut |s: &mut Scratch<$T>| {
                    module.vec_znx_idft_apply(&mut res, 0, &a_dft, 0, s); res.data.as_ref().to_vec() }) }
            50 | 51 | 52 => { // cnv_prepare_left / right / self [be n res_size a_size]
                let (rs, asz, op) = (u(p[2]), u(p[3]), $op);
                let a = rvec(1, asz, 30, 14);
                let mut l = module.cnv_pvec_left_alloc(1, rs); let mut r = module.cnv_pvec_right_alloc(1, rs);
                let need = match op { 50 => module.cnv_prepare_left_tmp_bytes(rs, asz), 51 => module.cnv_prepare_right_tmp_bytes(rs, asz),
                                      _ => module.cnv_prepare_self_tmp_bytes(rs, asz) };
                $go(need, &mut |s: &mut Scratch<$T>| {
                    match op { 50 => module.cnv_prepare_left(&mut l, &a, -1, s), 51 => module.cnv_prepare_right(&mut r, &a, -1, s),
                               _ => module.cnv_prepare_self(&mut l, &mut r, &a, -1, s) }
                    let mut o = l.data().as_ref().to_vec(); o.extend_from_slice(r.data().as_ref()); o }) }
            53 | 55 => { // cnv_apply_dft / cnv_pairwise_apply_dft [be n cnv_offset res_size a_size b_size]
                let (off, rs, asz, bsz, op) = (u(p[2]), u(p[3]), u(p[4]), u(p[5]), $op);
                let a = rvec(2, asz, 20, 15); let b = rvec(2, bsz, 20, 16);
                let mut l = module.cnv_pvec_left_alloc(2, asz); let mut r = module.cnv_pvec_right_alloc(2, bsz);
                let mut sb = big(module.cnv_prepare_left_tmp_bytes(asz, asz).max(module.cnv_prepare_right_tmp_bytes(bsz, bsz)));
                module.cnv_prepare_left(&mut l, &a, -1, sb.borrow()); module.cnv_prepare_right(&mut r, &b, -1, sb.borrow());
                let mut res = module.vec_znx_dft_alloc(1, rs);
                let need = if op == 53 { module.cnv_apply_dft_tmp_bytes(off, rs, asz, bsz) } else { module.cnv_pairwise_apply_dft_tmp_bytes(rs, off, asz, bsz) };
                $go(need, &mut |s: &mut Scratch<$T>| {
                    if op == 53 { module.cnv_apply_dft(off, &mut res, 0, &l, 0, &r, 0, s) } else { module.cnv_pairwise_apply_dft(off, &mut res, 0, &l, &r, 0, 1, s) }
                    res.data.as_ref().to_vec() }) }
            54 => { // cnv_by_const_apply [be n cnv_offset res_size a_size b_len]
                let (off, rs, asz, bl) = (u(p[2]), u(p[3]), u(p[4]), u(p[5]));
                let a = rvec(1, asz, 20, 17); let b: Vec<i64> = (0..bl).map(|i| (i as i64 * 7919 + 13) % 1000 - 500).collect();
                let mut res = module.vec_znx_big_alloc(1, rs);
                $go(module.cnv_by_const_apply_tmp_bytes(off, rs, asz, bl), &mut |s: &mut Scratch<$T>| {
                    module.cnv_by_const_apply(off, &mut res, 0, &a, 0, &b, s); res.data.as_ref().to_vec() }) }
            60 => { // Scratch::split_mut(threads, len) on exactly threads * len bytes [be n threads len]
                let (th, len) = (u(p[2]), u(p[3]));
                $go(th * len, &mut |s: &mut Scratch<$T>| {
                    let (parts, _) = s.split_mut(th, len);
                    parts.iter().map(|x| x.data.len() as u8).collect() }) }
            // ------------------------------------------------------------------ core
            101 | 102 => { // lwe_encrypt_sk / lwe_decrypt [be n_module n_lwe base2k k (k_pt)]: k_pt = precision of the plaintext
                           // container (default k): a plaintext with fewer limbs than the ciphertext takes the other code paths
                let (nl, b2k, k) = (p[2] as u32, p[3] as u32, p[4] as u32);
                let kpt = if p.len() > 5 { p[5] as u32 } else { k };
                let infos = EncryptionLayout::new_from_default_sigma(LWELayout { n: Degree(nl), k: TorusPrecision(k), base2k: Base2K(b2k) }).unwrap();
                let mut sk = LWESecret::alloc(Degree(nl)); sk.fill_ternary_prob(0.5, &mut src(20));
                let mut pt = LWEPlaintext::alloc(Base2K(b2k), TorusPrecision(kpt)); pt.encode_i64(3, TorusPrecision(b2k.min(kpt).min(4)));
                let mut ct = LWE::alloc_from_infos(&infos);
                if $op == 101 {
                    $go(module.lwe_encrypt_sk_tmp_bytes(&infos), &mut |s: &mut Scratch<$T>| {
                        module.lwe_encrypt_sk(&mut ct, &pt, &sk, &infos, &mut src(21), &mut src(22), s); ct.data().data.clone() })
                } else {
                    ct.fill_uniform(b2k as usize, &mut src(23));
                    let mut out = LWEPlaintext::alloc(Base2K(b2k), TorusPrecision(kpt));
                    $go(module.lwe_decrypt_tmp_bytes(&infos), &mut |s: &mut Scratch<$T>| {
                        module.lwe_decrypt(&ct, &mut out, &sk, s); out.data().data.clone() })
                } }
            103 | 104 | 105 => { // glwe_encrypt_sk / glwe_encrypt_pk / glwe_decrypt [be n | base2k k rank ...]
                let li = glwe_l(n, &p[2..8]);
                let infos = EncryptionLayout::new_from_default_sigma(li).unwrap();
                let mut sk = GLWESecret::alloc_from_infos(&li); sk.fill_ternary_prob(0.5, &mut src(30));
                let mut skp = module.glwe_secret_prepared_alloc(li.rank); module.glwe_secret_prepare(&mut skp, &sk);
                // optional p[8]: precision of the plaintext container (default: the ciphertext's)
                let lpt = GLWELayout { n: li.n, base2k: li.base2k, k: TorusPrecision(if p.len() > 8 { p[8] as u32 } else { li.k.0 }), rank: li.rank };
                let mut pt = GLWEPlaintext::alloc_from_infos(&lpt); module.vec_znx_fill_uniform(u(p[2]), &mut pt.data, 0, &mut src(31));
                let mut ct = GLWE::alloc_from_infos(&li);
                match $op {
                    103 => $go(module.glwe_encrypt_sk_tmp_bytes(&li), &mut |s: &mut Scratch<$T>| {
                        module.glwe_encrypt_sk(&mut ct, &pt, &skp, &infos, &mut src(32), &mut src(33), s); ct.data().data.clone() }),
                    104 => {
                        let mut pk = GLWEPublicKey::alloc_from_infos(&li);
                        module.glwe_public_key_generate(&mut pk, &skp, &infos, &mut src(34), &mut src(35));
                        let mut pkp = module.glwe_public_key_prepared_alloc_from_infos(&li); module.glwe_public_key_prepare(&mut pkp, &pk);
                        $go(module.glwe_encrypt_pk_tmp_bytes(&li), &mut |s: &mut Scratch<$T>| {
                            module.glwe_encrypt_pk(&mut ct, &pt, &pkp, &infos, &mut src(36), &mut src(37), s); ct.data().data.clone() }) }
                    _ => {
                        ct.fill_uniform(u(p[2]), &mut src(38));
                        let mut out = GLWEPlaintext::alloc_from_infos(&lpt);
                        $go(module.glwe_decrypt_tmp_bytes(&li), &mut |s: &mut Scratch<$T>| {
                            module.glwe_decrypt(&ct, &mut out, &skp, s); out.data.data.clone() }) }
                } }
            118 => { // glwe_public_key_generate [be n | glwe(6)]: takes no scratch - it allocates ScratchOwned::alloc(glwe_encrypt_sk_tmp_bytes)
                     // itself (rounded up to 64 bytes) and runs glwe_encrypt_sk in it; `need` is that rounded size
                let li = glwe_l(n, &p[2..8]);
                let infos = EncryptionLayout::new_from_default_sigma(li).unwrap();
                let mut sk = GLWESecret::alloc_from_infos(&li); sk.fill_ternary_prob(0.5, &mut src(30));
                let mut skp = module.glwe_secret_prepared_alloc(li.rank); module.glwe_secret_prepare(&mut skp, &sk);
                $go(module.glwe_encrypt_sk_tmp_bytes(&li).next_multiple_of(64), &mut |_s: &mut Scratch<$T>| {
                    let mut pk = GLWEPublicKey::alloc_from_infos(&li);
                    module.glwe_public_key_generate(&mut pk, &skp, &infos, &mut src(34), &mut src(35)); pk.to_ref().data().data.to_vec() }) }
            106 | 107 => { // glwe_keyswitch(_assign)  [be n | res(6) a(6) key(6)]
                let (lr, la, lk) = (glwe_l(n, &p[2..8]), glwe_l(n, &p[8..14]), gglwe_l(n, &p[14..20]));
                let mut key = GGLWE::alloc_from_infos(&lk); key.fill_uniform(u(p[14]), &mut src(40));
                let mut kp = module.gglwe_prepared_alloc_from_infos(&lk);
                let mut sb = big(module.gglwe_prepare_tmp_bytes(&lk)); module.gglwe_prepare(&mut kp, &key, sb.borrow());
                let mut a = GLWE::alloc_from_infos(&la); a.fill_uniform(u(p[8]), &mut src(41));
                let mut r0 = GLWE::alloc_from_infos(&lr); r0.fill_uniform(u(p[2]), &mut src(42));
                if $op == 106 {
                    $go(module.glwe_keyswitch_tmp_bytes(&lr, &la, &lk), &mut |s: &mut Scratch<$T>| {
                        let mut r = r0.clone(); module.glwe_keyswitch(&mut r, &a, &kp, s); r.data().data.clone() })
                } else {
                    $go(module.glwe_keyswitch_tmp_bytes(&lr, &lr, &lk), &mut |s: &mut Scratch<$T>| {
                        let mut r = r0.clone(); module.glwe_keyswitch_assign(&mut r, &kp, s); r.data().data.clone() })
                } }
            110 | 111 => { // glwe_automorphism / glwe_automorphism_add  [be n | res(6) a(6) key(6)]
                let (lr, la, lk) = (glwe_l(n, &p[2..8]), glwe_l(n, &p[8..14]), gglwe_l(n, &p[14..20]));
                let mut key = GGLWE::alloc_from_infos(&lk); key.fill_uniform(u(p[14]), &mut src(40));
                let mut kp = module.glwe_automorphism_key_prepared_alloc_from_infos(&lk);
                let mut sb = big(module.gglwe_prepare_tmp_bytes(&lk)); module.gglwe_prepare(&mut kp, &key, sb.borrow());
                kp.set_p(module.galois_element(1));
                let mut a = GLWE::alloc_from_infos(&la); a.fill_uniform(u(p[8]), &mut src(41));
                let mut r0 = GLWE::alloc_from_infos(&lr); r0.fill_uniform(u(p[2]), &mut src(42));
                if $op == 110 {
                    $go(module.glwe_automorphism_tmp_bytes(&lr, &la, &lk), &mut |s: &mut Scratch<$T>| {
                        let mut r = r0.clone(); module.glwe_automorphism(&mut r, &a, &kp, s); r.data().data.clone() })
                } else {
                    $go(module.glwe_automorphism_tmp_bytes(&lr, &la, &lk), &mut |s: &mut Scratch<$T>| {
                        let mut r = r0.clone(); module.glwe_automorphism_add(&mut r, &a, &kp, s); r.data().data.clone() })
                } }
            108 | 109 => { // glwe_external_product(_assign) [be n | res(6) a(6) ggsw(6)]
                let (lr, la, lg) = (glwe_l(n, &p[2..8]), glwe_l(n, &p[8..14]), ggsw_l(n, &p[14..20]));
                let mut g = GGSW::alloc_from_infos(&lg); g.fill_uniform(u(p[14]), &mut src(50));
                let mut gp = module.ggsw_prepared_alloc_from_infos(&lg);
                let mut sb = big(module.ggsw_prepare_tmp_bytes(&lg)); module.ggsw_prepare(&mut gp, &g, sb.borrow());
                let mut a = GLWE::alloc_from_infos(&la); a.fill_uniform(u(p[8]), &mut src(51));
                let mut r0 = GLWE::alloc_from_infos(&lr); r0.fill_uniform(u(p[2]), &mut src(52));
                if $op == 108 {
                    $go(module.glwe_external_product_tmp_bytes(&lr, &la, &lg), &mut |s: &mut Scratch<$T>| {
                        let mut r = r0.clone(); module.glwe_external_product(&mut r, &a, &gp, s); r.data().data.clone() })
                } else {
                    $go(module.glwe_external_product_tmp_bytes(&lr, &lr, &lg), &mut |s: &mut Scratch<$T>| {
                        let mut r = r0.clone(); module.glwe_external_product_assign(&mut r, &gp, s); r.data().data.clone() })
                } }
            112 => { // glwe_trace [be n | res(6) a(6) key(6) skip]
                let (lr, la, lk) = (glwe_l(n, &p[2..8]), glwe_l(n, &p[8..14]), gglwe_l(n, &p[14..20]));
                let skip = u(p[20]);
                let mut keys: HashMap<i64, GLWEAutomorphismKeyPrepared<DeviceBuf<$T>, $T>> = HashMap::new();
                for (j, g) in module.glwe_trace_galois_elements().into_iter().enumerate() {
                    let mut key = GGLWE::alloc_from_infos(&lk); key.fill_uniform(u(p[14]), &mut src(60 + j as u64));
                    let mut kp = module.glwe_automorphism_key_prepared_alloc_from_infos(&lk);
                    let mut sb = big(module.gglwe_prepare_tmp_bytes(&lk)); module.gglwe_prepare(&mut kp, &key, sb.borrow());
                    kp.set_p(g); keys.insert(g, kp);
                }
                let mut a = GLWE::alloc_from_infos(&la); a.fill_uniform(u(p[8]), &mut src(58));
                let mut r0 = GLWE::alloc_from_infos(&lr); r0.fill_uniform(u(p[2]), &mut src(59));
                $go(module.glwe_trace_tmp_bytes(&lr, &la, &lk), &mut |s: &mut Scratch<$T>| {
                    let mut r = r0.clone(); module.glwe_trace(&mut r, skip, &a, &keys, s); r.data().data.clone() }) }
            119 => { // glwe_trace_assign [be n | res(6) _(6) key(6) skip]
                let (lr, lk) = (glwe_l(n, &p[2..8]), gglwe_l(n, &p[14..20]));
                let skip = u(p[20]);
                let mut keys: HashMap<i64, GLWEAutomorphismKeyPrepared<DeviceBuf<$T>, $T>> = HashMap::new();
                for (j, g) in module.glwe_trace_galois_elements().into_iter().enumerate() {
                    let mut key = GGLWE::alloc_from_infos(&lk); key.fill_uniform(u(p[14]), &mut src(60 + j as u64));
                    let mut kp = module.glwe_automorphism_key_prepared_alloc_from_infos(&lk);
                    let mut sb = big(module.gglwe_prepare_tmp_bytes(&lk)); module.gglwe_prepare(&mut kp, &key, sb.borrow());
                    kp.set_p(g); keys.insert(g, kp);
                }
                let mut r0 = GLWE::alloc_from_infos(&lr); r0.fill_uniform(u(p[2]), &mut src(59));
                $go(module.glwe_trace_tmp_bytes(&lr, &lr, &lk), &mut |s: &mut Scratch<$T>| {
                    let mut r = r0.clone(); module.glwe_trace_assign(&mut r, skip, &keys, s); r.data().data.clone() }) }
            113 | 114 | 115 | 117 => { // glwe_normalize / glwe_rsh / glwe_rotate_assign / glwe_lsh_assign  [be n | res(6) a(6) k]
                let (lr, la) = (glwe_l(n, &p[2..8]), glwe_l(n, &p[8..14])); let k = u(p[14]);
                let mut a = GLWE::alloc_from_infos(&la); a.fill_uniform(u(p[8]), &mut src(70));
                let mut r0 = GLWE::alloc_from_infos(&lr); r0.fill_uniform(u(p[2]), &mut src(71));
                match $op {
                    113 => $go(module.glwe_normalize_tmp_bytes(), &mut |s: &mut Scratch<$T>| {
                        let mut r = r0.clone(); module.glwe_normalize(&mut r, &a, s); r.data().data.clone() }),
                    114 => $go(module.glwe_shift_tmp_bytes(), &mut |s: &mut Scratch<$T>| {
                        let mut r = r0.clone(); module.glwe_rsh(k, &mut r, s); r.data().data.clone() }),
                    117 => $go(module.glwe_shift_tmp_bytes(), &mut |s: &mut Scratch<$T>| {
                        let mut r = r0.clone(); module.glwe_lsh_assign(&mut r, k, s); r.data().data.clone() }),
                    _ => $go(module.glwe_rotate_tmp_bytes(), &mut |s: &mut Scratch<$T>| {
                        let mut r = r0.clone(); module.glwe_rotate_assign(k as i64, &mut r, s); r.data().data.clone() }),
                } }
            116 => { // glwe_mul_const [be n | res(6) a(6) b_len cnv_offset]
                let (lr, la) = (glwe_l(n, &p[2..8]), glwe_l(n, &p[8..14])); let (bl, off) = (u(p[14]), u(p[15]));
                let mut a = GLWE::alloc_from_infos(&la); a.fill_uniform(u(p[8]), &mut src(80));
                let mut r0 = GLWE::alloc_from_infos(&lr); r0.fill_uniform(u(p[2]), &mut src(81));
                let b: Vec<i64> = (0..bl).map(|i| (i as i64 * 7919 + 13) % 1000 - 500).collect();
                $go(module.glwe_mul_const_tmp_bytes(&lr, &la, bl), &mut |s: &mut Scratch<$T>| {
                    let mut r = r0.clone(); module.glwe_mul_const(off, &mut r, &a, &b, s); r.data().data.clone() }) }
            120 => { // gglwe_prepare [be n | key(6)]
                let lk = gglwe_l(n, &p[2..8]);
                let mut key = GGLWE::alloc_from_infos(&lk); key.fill_uniform(u(p[2]), &mut src(90));
                let mut kp = module.gglwe_prepared_alloc_from_infos(&lk);
                // GGLWEPrepared has no public data accessor: the prepared key is observed through a key-switch that uses it
                let la = GLWELayout { n: lk.n, base2k: lk.base2k, k: lk.k, rank: lk.rank_in };
                let lr = GLWELayout { n: lk.n, base2k: lk.base2k, k: lk.k, rank: lk.rank_out };
                let mut a = GLWE::alloc_from_infos(&la); a.fill_uniform(u(p[2]), &mut src(98));
                let mut sb = big(module.glwe_keyswitch_tmp_bytes(&lr, &la, &lk));
                $go(module.gglwe_prepare_tmp_bytes(&lk), &mut |s: &mut Scratch<$T>| {
                    module.gglwe_prepare(&mut kp, &key, s);
                    let mut r = GLWE::alloc_from_infos(&lr); module.glwe_keyswitch(&mut r, &a, &kp, sb.borrow()); r.data().data.clone() }) }
            121 => { // ggsw_prepare [be n | ggsw(6)]
                let lg = ggsw_l(n, &p[2..8]);
                let mut g = GGSW::alloc_from_infos(&lg); g.fill_uniform(u(p[2]), &mut src(91));
                let mut gp = module.ggsw_prepared_alloc_from_infos(&lg);
                $go(module.ggsw_prepare_tmp_bytes(&lg), &mut |s: &mut Scratch<$T>| {
                    module.ggsw_prepare(&mut gp, &g, s); gp.data().data().as_ref().to_vec() }) }
            122 => { // gglwe_keyswitch [be n | res gglwe(6) a gglwe(6) key(6)]
                let (lr, la, lk) = (gglwe_l(n, &p[2..8]), gglwe_l(n, &p[8..14]), gglwe_l(n, &p[14..20]));
                let mut key = GGLWE::alloc_from_infos(&lk); key.fill_uniform(u(p[14]), &mut src(92));
                let mut kp = module.gglwe_prepared_alloc_from_infos(&lk);
                let mut sb = big(module.gglwe_prepare_tmp_bytes(&lk)); module.gglwe_prepare(&mut kp, &key, sb.borrow());
                let mut a = GGLWE::alloc_from_infos(&la); a.fill_uniform(u(p[8]), &mut src(93));
                let mut r0 = GGLWE::alloc_from_infos(&lr); r0.fill_uniform(u(p[2]), &mut src(94));
                $go(module.gglwe_keyswitch_tmp_bytes(&lr, &la, &lk), &mut |s: &mut Scratch<$T>| {
                    let mut r = r0.clone(); module.gglwe_keyswitch(&mut r, &a, &kp, s); r.data().data().clone() }) }
            123 | 124 => { // gglwe_external_product [res gglwe(6) a gglwe(6) ggsw(6)] / ggsw_external_product [res ggsw(6) a ggsw(6) ggsw(6)]
                let lg = ggsw_l(n, &p[14..20]);
                let mut g = GGSW::alloc_from_infos(&lg); g.fill_uniform(u(p[14]), &mut src(95));
                let mut gp = module.ggsw_prepared_alloc_from_infos(&lg);
                let mut sb = big(module.ggsw_prepare_tmp_bytes(&lg)); module.ggsw_prepare(&mut gp, &g, sb.borrow());
                if $op == 123 {
                    let (lr, la) = (gglwe_l(n, &p[2..8]), gglwe_l(n, &p[8..14]));
                    let mut a = GGLWE::alloc_from_infos(&la); a.fill_uniform(u(p[8]), &mut src(96));
                    let mut r0 = GGLWE::alloc_from_infos(&lr); r0.fill_uniform(u(p[2]), &mut src(97));
                    $go(module.gglwe_external_product_tmp_bytes(&lr, &la, &lg), &mut |s: &mut Scratch<$T>| {
                        let mut r = r0.clone(); module.gglwe_external_product(&mut r, &a, &gp, s); r.data().data().clone() })
                } else {
                    let (lr, la) = (ggsw_l(n, &p[2..8]), ggsw_l(n, &p[8..14]));
                    let mut a = GGSW::alloc_from_infos(&la); a.fill_uniform(u(p[8]), &mut src(96));
                    let mut r0 = GGSW::alloc_from_infos(&lr); r0.fill_uniform(u(p[2]), &mut src(97));
                    $go(module.ggsw_external_product_tmp_bytes(&lr, &la, &lg), &mut |s: &mut Scratch<$T>| {
                        let mut r = r0.clone(); module.ggsw_external_product(&mut r, &a, &gp, s);
                        let mut o = Vec::new();
                        for i in 0..u(p[6]) { for j in 0..u(p[4]) + 1 { o.extend_from_slice(r.at(i, j).data().data); } }
                        o })
                } }
            125 => { // glwe_mul_plain (oracle only) [be n | res(6) a(6) b(6) cnv_offset]
                let (lr, la, lb) = (glwe_l(n, &p[2..8]), glwe_l(n, &p[8..14]), glwe_l(n, &p[14..20])); let off = u(p[20]);
                let mut a = GLWE::alloc_from_infos(&la); a.fill_uniform(u(p[8]), &mut src(100));
                let mut b = GLWEPlaintext::alloc_from_infos(&lb); module.vec_znx_fill_uniform(u(p[14]), &mut b.data, 0, &mut src(101));
                let mut r0 = GLWE::alloc_from_infos(&lr); r0.fill_uniform(u(p[2]), &mut src(102));
                let (ak, bk) = (u(p[9]), u(p[15]));
                $go(module.glwe_mul_plain_tmp_bytes(&lr, &la, &lb), &mut |s: &mut Scratch<$T>| {
                    let mut r = r0.clone(); module.glwe_mul_plain(off, &mut r, &a, ak, &b, bk, s); r.data().data.clone() }) }
            126 => { // glwe_tensor_apply (oracle only) [be n | res(6) a(6) b(6) cnv_offset]
                let (lr, la, lb) = (glwe_l(n, &p[2..8]), glwe_l(n, &p[8..14]), glwe_l(n, &p[14..20])); let off = u(p[20]);
                let mut a = GLWE::alloc_from_infos(&la); a.fill_uniform(u(p[8]), &mut src(103));
                let mut b = GLWE::alloc_from_infos(&lb); b.fill_uniform(u(p[14]), &mut src(104));
                let mut r = GLWETensor::alloc_from_infos(&lr);
                let (ak, bk) = (u(p[9]), u(p[15]));
                $go(module.glwe_tensor_apply_tmp_bytes(&lr, &la, &lb), &mut |s: &mut Scratch<$T>| {
                    module.glwe_tensor_apply(off, &mut r, &a, ak, &b, bk, s); r.data().data.clone() }) }
            // ------------------------------------------------------------------ oracle-only operations (no take tree): exact window + two fills
            130..=138 => { // key / matrix encryption routines [be n | key(6) n_lwe]
                let lk = gglwe_l(n, &p[2..8]); let nl = p[8] as u32;
                let noise = NoiseInfos::new(u(p[3]), poulpy_core::DEFAULT_SIGMA_XE, 6.0 * poulpy_core::DEFAULT_SIGMA_XE).unwrap();
                let mut sk_out = GLWESecret::alloc(Degree(n as u32), lk.rank_out); sk_out.fill_ternary_prob(0.5, &mut src(110));
                let mut sk_in = GLWESecret::alloc(Degree(n as u32), lk.rank_in); sk_in.fill_ternary_prob(0.5, &mut src(111));
                let mut skp = module.glwe_secret_prepared_alloc(lk.rank_out); module.glwe_secret_prepare(&mut skp, &sk_out);
                let mut sk_lwe = LWESecret::alloc(Degree(nl)); sk_lwe.fill_ternary_prob(0.5, &mut src(112));
                let mut sk_lwe2 = LWESecret::alloc(Degree(nl)); sk_lwe2.fill_ternary_prob(0.5, &mut src(113));
                match $op {
                    130 => { let mut pt = ScalarZnx::alloc(n, lk.rank_in.as_usize()); pt.fill_ternary_prob(0, 0.5, &mut src(114));
                        let mut res = GGLWE::alloc_from_infos(&lk);
                        $go(module.gglwe_encrypt_sk_tmp_bytes(&lk), &mut |s: &mut Scratch<$T>| {
                            module.gglwe_encrypt_sk(&mut res, &pt, &skp, &noise, &mut src(115), &mut src(116), s); res.data().data().clone() }) }
                    131 => { let lg = ggsw_l(n, &p[2..8]); let mut pt = ScalarZnx::alloc(n, 1); pt.fill_ternary_prob(0, 0.5, &mut src(114));
                        let mut res = GGSW::alloc_from_infos(&lg);
                        $go(module.ggsw_encrypt_sk_tmp_bytes(&lg), &mut |s: &mut Scratch<$T>| {
                            module.ggsw_encrypt_sk(&mut res, &pt, &skp, &noise, &mut src(115), &mut src(116), s); res.at(0, 0).data().data.to_vec() }) }
                    132 => { let mut res = GLWESwitchingKey::alloc_from_infos(&lk);
                        $go(module.glwe_switching_key_encrypt_sk_tmp_bytes(&lk), &mut |s: &mut Scratch<$T>| {
                            module.glwe_switching_key_encrypt_sk(&mut res, &sk_in, &sk_out, &noise, &mut src(115), &mut src(116), s); res.to_ref().data().data().to_vec() }) }
                    133 => { let mut res = GLWEAutomorphismKey::alloc_from_infos(&lk); let g = module.galois_element(1);
                        $go(module.glwe_automorphism_key_encrypt_sk_tmp_bytes(&lk), &mut |s: &mut Scratch<$T>| {
                            module.glwe_automorphism_key_encrypt_sk(&mut res, g, &sk_out, &noise, &mut src(115), &mut src(116), s); res.to_ref().data().data().to_vec() }) }
                    134 => { let mut res = GLWETensorKey::alloc_from_infos(&lk);
                        $go(module.glwe_tensor_key_encrypt_sk_tmp_bytes(&lk), &mut |s: &mut Scratch<$T>| {
                            module.glwe_tensor_key_encrypt_sk(&mut res, &sk_out, &noise, &mut src(115), &mut src(116), s); res.to_ref().data().data().to_vec() }) }
                    135 => { let mut res = GGLWEToGGSWKey::alloc_from_infos(&lk);
                        $go(<M as GGLWEToGGSWKeyEncryptSk<$T>>::gglwe_to_ggsw_key_encrypt_sk_tmp_bytes(&module, &lk), &mut |s: &mut Scratch<$T>| {
                            <M as GGLWEToGGSWKeyEncryptSk<$T>>::gglwe_to_ggsw_key_encrypt_sk(&module, &mut res, &sk_out, &noise, &mut src(115), &mut src(116), s); ser_bytes(&res) }) }
                    136 => { let mut res = LWESwitchingKey::alloc_from_infos(&lk);
                        $go(module.lwe_switching_key_encrypt_sk_tmp_bytes(&lk), &mut |s: &mut Scratch<$T>| {
                            module.lwe_switching_key_encrypt_sk(&mut res, &sk_lwe, &sk_lwe2, &noise, &mut src(115), &mut src(116), s); res.to_ref().data().data().to_vec() }) }
                    137 => { let mut res = GLWEToLWEKey::alloc_from_infos(&lk);
                        $go(module.glwe_to_lwe_key_encrypt_sk_tmp_bytes(&lk), &mut |s: &mut Scratch<$T>| {
                            module.glwe_to_lwe_key_encrypt_sk(&mut res, &sk_lwe, &sk_in, &noise, &mut src(115), &mut src(116), s); res.to_ref().data().data().to_vec() }) }
                    _ => { let mut res = LWEToGLWEKey::alloc_from_infos(&lk);
                        $go(module.lwe_to_glwe_key_encrypt_sk_tmp_bytes(&lk), &mut |s: &mut Scratch<$T>| {
                            module.lwe_to_glwe_key_encrypt_sk(&mut res, &sk_lwe, &skp, &noise, &mut src(115), &mut src(116), s); res.to_ref().data().data().to_vec() }) }
                } }
            140 | 141 | 146 => { // ggsw_keyswitch / ggsw_automorphism / ggsw_from_gglwe [be n | res ggsw(6) a ggsw(6) key(6) tsk(6)]
                let (lr, la, lk, lt) = (ggsw_l(n, &p[2..8]), ggsw_l(n, &p[8..14]), gglwe_l(n, &p[14..20]), gglwe_l(n, &p[20..26]));
                let mut key = GGLWE::alloc_from_infos(&lk); key.fill_uniform(u(p[14]), &mut src(120));
                let mut kp = module.glwe_automorphism_key_prepared_alloc_from_infos(&lk);
                let mut sb = big(module.gglwe_prepare_tmp_bytes(&lk)); module.gglwe_prepare(&mut kp, &key, sb.borrow()); kp.set_p(module.galois_element(1));
                let mut tsk = GGLWEToGGSWKey::alloc_from_infos(&lt); tsk.fill_uniform(u(p[20]), &mut src(121));
                let mut tp = module.gglwe_to_ggsw_key_prepared_alloc_from_infos(&lt);
                let mut sb2 = big(module.gglwe_to_ggsw_key_prepare_tmp_bytes(&lt)); module.gglwe_to_ggsw_key_prepare(&mut tp, &tsk, sb2.borrow());
                let mut a = GGSW::alloc_from_infos(&la); a.fill_uniform(u(p[8]), &mut src(122));
                let mut r0 = GGSW::alloc_from_infos(&lr); r0.fill_uniform(u(p[2]), &mut src(123));
                let dump = |r: &GGSW<Vec<u8>>| -> Vec<u8> { let mut o = Vec::new(); for i in 0..u(p[6]) { for j in 0..u(p[4]) + 1 { o.extend_from_slice(r.at(i, j).data().data); } } o };
                match $op {
                    140 => $go(module.ggsw_keyswitch_tmp_bytes(&lr, &la, &lk, &lt), &mut |s: &mut Scratch<$T>| {
                        let mut r = r0.clone(); module.ggsw_keyswitch(&mut r, &a, &kp, &tp, s); dump(&r) }),
                    141 => $go(module.ggsw_automorphism_tmp_bytes(&lr, &la, &lk, &lt), &mut |s: &mut Scratch<$T>| {
                        let mut r = r0.clone(); module.ggsw_automorphism(&mut r, &a, &kp, &tp, s); dump(&r) }),
                    _ => { // a GGLWE with rank_in = 1 of the same shape as the GGSW rows
                        let lga = GGLWELayout { n: lr.n, base2k: lr.base2k, k: lr.k, rank_in: Rank(1), rank_out: lr.rank, dnum: lr.dnum, dsize: lr.dsize };
                        let mut ag = GGLWE::alloc_from_infos(&lga); ag.fill_uniform(u(p[2]), &mut src(124));
                        $go(module.ggsw_from_gglwe_tmp_bytes(&lr, &lt), &mut |s: &mut Scratch<$T>| {
                            let mut r = r0.clone(); module.ggsw_from_gglwe(&mut r, &ag, &tp, s); dump(&r) }) }
                } }
            142 => { // glwe_automorphism_key_automorphism [be n | res key(6) a key(6) key(6)]
                let (lr, la, lk) = (gglwe_l(n, &p[2..8]), gglwe_l(n, &p[8..14]), gglwe_l(n, &p[14..20]));
                let mut key = GGLWE::alloc_from_infos(&lk); key.fill_uniform(u(p[14]), &mut src(125));
                let mut kp = module.glwe_automorphism_key_prepared_alloc_from_infos(&lk);
                let mut sb = big(module.gglwe_prepare_tmp_bytes(&lk)); module.gglwe_prepare(&mut kp, &key, sb.borrow()); kp.set_p(module.galois_element(1));
                let mut a = GLWEAutomorphismKey::alloc_from_infos(&la); a.fill_uniform(u(p[8]), &mut src(126)); a.set_p(module.galois_element(2));
                $go(module.glwe_automorphism_key_automorphism_tmp_bytes(&lr, &la, &lk), &mut |s: &mut Scratch<$T>| {
                    let mut r = GLWEAutomorphismKey::alloc_from_infos(&lr); module.glwe_automorphism_key_automorphism(&mut r, &a, &kp, s); r.to_ref().data().data().to_vec() }) }
            143 | 144 | 145 => { // lwe_keyswitch / glwe_from_lwe / lwe_from_glwe [be n | lwe_res(b2k k n_lwe) lwe_a(b2k k n_lwe) glwe(6) key(6)]
                let lres = LWELayout { n: Degree(p[4] as u32), k: TorusPrecision(p[3] as u32), base2k: Base2K(p[2] as u32) };
                let la = LWELayout { n: Degree(p[7] as u32), k: TorusPrecision(p[6] as u32), base2k: Base2K(p[5] as u32) };
                let (lg, lk) = (glwe_l(n, &p[8..14]), gglwe_l(n, &p[14..20]));
                let mut key = GGLWE::alloc_from_infos(&lk); key.fill_uniform(u(p[14]), &mut src(127));
                let mut kp = module.gglwe_prepared_alloc_from_infos(&lk);
                let mut sb = big(module.gglwe_prepare_tmp_bytes(&lk)); module.gglwe_prepare(&mut kp, &key, sb.borrow());
                let mut a = LWE::alloc_from_infos(&la); a.fill_uniform(u(p[5]), &mut src(128));
                let mut g = GLWE::alloc_from_infos(&lg); g.fill_uniform(u(p[8]), &mut src(129));
                match $op {
                    143 => $go(module.lwe_keyswitch_tmp_bytes(&lres, &la, &lk), &mut |s: &mut Scratch<$T>| {
                        let mut r = LWE::alloc_from_infos(&lres); module.lwe_keyswitch(&mut r, &a, &kp, s); r.data().data.clone() }),
                    144 => $go(module.glwe_from_lwe_tmp_bytes(&lg, &la, &lk), &mut |s: &mut Scratch<$T>| {
                        let mut r = GLWE::alloc_from_infos(&lg); module.glwe_from_lwe(&mut r, &a, &kp, s); r.data().data.clone() }),
                    _ => $go(module.lwe_from_glwe_tmp_bytes(&lres, &lg, &lk), &mut |s: &mut Scratch<$T>| {
                        let mut r = LWE::alloc_from_infos(&lres); module.lwe_from_glwe(&mut r, &g, 0, &kp, s); r.data().data.clone() }),
                } }
            147 => { // glwe_pack [be n | res(6) inputs(6) key(6)]: four inputs at slots {0, 1, n/2+1, n/2+2} so that all three cases of
                     // pack_internal (both halves, low only, high only) occur; log_gap_out = 0
                let (lr, la, lk) = (glwe_l(n, &p[2..8]), glwe_l(n, &p[8..14]), gglwe_l(n, &p[14..20]));
                let mut keys: HashMap<i64, GLWEAutomorphismKeyPrepared<DeviceBuf<$T>, $T>> = HashMap::new();
                for (j, g) in module.glwe_pack_galois_elements().into_iter().enumerate() {
                    let mut key = GGLWE::alloc_from_infos(&lk); key.fill_uniform(u(p[14]), &mut src(130 + j as u64));
                    let mut kp = module.glwe_automorphism_key_prepared_alloc_from_infos(&lk);
                    let mut sb = big(module.gglwe_prepare_tmp_bytes(&lk)); module.gglwe_prepare(&mut kp, &key, sb.borrow());
                    kp.set_p(g); keys.insert(g, kp);
                }
                let slots = [0usize, 1, n / 2 + 1, n / 2 + 2];
                let cts0: Vec<GLWE<Vec<u8>>> = (0..4).map(|i| { let mut c = GLWE::alloc_from_infos(&la); c.fill_uniform(u(p[8]), &mut src(150 + i as u64)); c }).collect();
                // sized through the public query, for the layout of the result and for the layout of the inputs
                $go(module.glwe_pack_tmp_bytes(&lr, &lk).max(module.glwe_pack_tmp_bytes(&la, &lk)), &mut |s: &mut Scratch<$T>| {
                    let mut cts = cts0.clone(); let mut r = GLWE::alloc_from_infos(&lr);
                    let mut m: HashMap<usize, &mut GLWE<Vec<u8>>> = HashMap::new();
                    for (i, c) in cts.iter_mut().enumerate() { m.insert(slots[i], c); }
                    module.glwe_pack(&mut r, m, 0, &keys, s); r.data().data.clone() }) }
            148 | 149 | 150 | 151 | 152 => { // tensor_relinearize / tensor_square_apply / mul_plain_assign / mul_const_assign / tensor_apply_add_assign
                                               // [be n | res(6) a(6) key(6) cnv_offset]
                let (lr, la, lk) = (glwe_l(n, &p[2..8]), glwe_l(n, &p[8..14]), gglwe_l(n, &p[14..20])); let off = u(p[20]);
                let mut a = GLWE::alloc_from_infos(&la); a.fill_uniform(u(p[8]), &mut src(160));
                let ak = u(p[9]);
                match $op {
                    148 => {
                        let mut key = GLWETensorKey::alloc_from_infos(&lk); key.fill_uniform(u(p[14]), &mut src(161));
                        let mut kp = module.alloc_tensor_key_prepared_from_infos(&lk);
                        let mut sb = big(module.prepare_tensor_key_tmp_bytes(&lk)); module.prepare_tensor_key(&mut kp, &key, sb.borrow());
                        let mut t = GLWETensor::alloc_from_infos(&la); t.fill_uniform(u(p[8]), &mut src(162));
                        let tsk_size = lk.size();
                        $go(module.glwe_tensor_relinearize_tmp_bytes(&lr, &la, &kp), &mut |s: &mut Scratch<$T>| {
                            let mut r = GLWE::alloc_from_infos(&lr); module.glwe_tensor_relinearize(&mut r, &t, &kp, tsk_size, s); r.data().data.clone() }) }
                    149 => { let mut r = GLWETensor::alloc_from_infos(&lr);
                        $go(module.glwe_tensor_square_apply_tmp_bytes(&lr, &la), &mut |s: &mut Scratch<$T>| {
                            module.glwe_tensor_square_apply(off, &mut r, &a, ak, s); r.data().data.clone() }) }
                    150 => { let mut b = GLWEPlaintext::alloc_from_infos(&la); module.vec_znx_fill_uniform(u(p[8]), &mut b.data, 0, &mut src(163));
                        $go(module.glwe_mul_plain_tmp_bytes(&la, &la, &la), &mut |s: &mut Scratch<$T>| {
                            let mut r = a.clone(); module.glwe_mul_plain_assign(off, &mut r, ak, &b, ak, s); r.data().data.clone() }) }
                    151 => { let b: Vec<i64> = (0..3).map(|i| (i as i64 * 7919 + 13) % 1000 - 500).collect();
                        $go(module.glwe_mul_const_tmp_bytes(&la, &la, b.len()), &mut |s: &mut Scratch<$T>| {
                            let mut r = a.clone(); module.glwe_mul_const_assign(off, &mut r, &b, s); r.data().data.clone() }) }
                    _ => { let mut r0 = GLWETensor::alloc_from_infos(&lr); r0.fill_uniform(u(p[2]), &mut src(164));
                        $go(module.glwe_tensor_apply_tmp_bytes(&lr, &la, &la), &mut |s: &mut Scratch<$T>| {
                            let mut r = r0.clone(); module.glwe_tensor_apply_add_assign(off, &mut r, &a, ak, &a, ak, s); r.data().data.clone() }) }
                } }
            180 | 181 | 182 => { // blind rotation (CGGI): key encryption / key preparation / execute (oracle only)
                                 // [be n | n_lwe block base2k k_brk rows k_res rank ext]
                let (nl, block, b2k, kbrk, rows, kres, rank, ext) = (u(p[2]), u(p[3]), p[4] as u32, p[5] as u32, p[6] as u32, p[7] as u32, p[8] as u32, u(p[9]));
                let brl = BlindRotationKeyLayout { n_glwe: Degree(n as u32), n_lwe: Degree(nl as u32), base2k: Base2K(b2k), k: TorusPrecision(kbrk), dnum: Dnum(rows), rank: Rank(rank) };
                let gl = GLWELayout { n: Degree(n as u32), base2k: Base2K(b2k), k: TorusPrecision(kres), rank: Rank(rank) };
                let noise = NoiseInfos::new(kbrk as usize, poulpy_core::DEFAULT_SIGMA_XE, 6.0 * poulpy_core::DEFAULT_SIGMA_XE).unwrap();
                let mut sk = GLWESecret::alloc_from_infos(&gl); sk.fill_ternary_prob(0.5, &mut src(190));
                let mut skp = module.glwe_secret_prepared_alloc_from_infos(&gl); module.glwe_secret_prepare(&mut skp, &sk);
                let mut skl = LWESecret::alloc(Degree(nl as u32)); skl.fill_binary_block(block, &mut src(191));
                let mut brk: BlindRotationKey<Vec<u8>, CGGI> = BlindRotationKey::<Vec<u8>, CGGI>::alloc(&brl);
                let mut sb = big(BlindRotationKey::<Vec<u8>, CGGI>::encrypt_sk_tmp_bytes(&module, &brl));
                module.blind_rotation_key_encrypt_sk(&mut brk, &skp, &skl, &noise, &mut src(192), &mut src(193), sb.borrow());
                match $op {
                    180 => $go(BlindRotationKey::<Vec<u8>, CGGI>::encrypt_sk_tmp_bytes(&module, &brl), &mut |s: &mut Scratch<$T>| {
                        let mut k2: BlindRotationKey<Vec<u8>, CGGI> = BlindRotationKey::<Vec<u8>, CGGI>::alloc(&brl);
                        module.blind_rotation_key_encrypt_sk(&mut k2, &skp, &skl, &noise, &mut src(192), &mut src(193), s); ser_bytes(&k2) }),
                    181 => { let mut lwe = LWE::alloc(Degree(nl as u32), Base2K(b2k), TorusPrecision(b2k)); lwe.fill_uniform(b2k as usize, &mut src(194));
                        let lut = { let li = LookUpTableLayout { n: Degree(n as u32), extension_factor: ext, k: TorusPrecision(kres), base2k: Base2K(b2k) };
                                    let mut l = LookupTable::alloc(&li); let f: Vec<i64> = (0..8).collect(); l.set(&module, &f, 4); l };
                        let mut sx = big(BlindRotationKeyPrepared::<DeviceBuf<$T>, CGGI, $T>::execute_tmp_bytes(&module, block, ext, &gl, &brl));
                        $go(BlindRotationKeyPrepared::<DeviceBuf<$T>, CGGI, $T>::prepare_tmp_bytes(&module, &brl), &mut |s: &mut Scratch<$T>| {
                            let mut kp: BlindRotationKeyPrepared<DeviceBuf<$T>, CGGI, $T> = BlindRotationKeyPrepared::alloc(&module, &brk);
                            kp.prepare(&module, &brk, s);
                            let mut res = GLWE::alloc_from_infos(&gl); kp.execute(&module, &mut res, &lwe, &lut, sx.borrow()); res.data().data.clone() }) }
                    _ => { let mut lwe = LWE::alloc(Degree(nl as u32), Base2K(b2k), TorusPrecision(b2k)); lwe.fill_uniform(b2k as usize, &mut src(194));
                        let lut = { let li = LookUpTableLayout { n: Degree(n as u32), extension_factor: ext, k: TorusPrecision(kres), base2k: Base2K(b2k) };
                                    let mut l = LookupTable::alloc(&li); let f: Vec<i64> = (0..8).collect(); l.set(&module, &f, 4); l };
                        let mut kp: BlindRotationKeyPrepared<DeviceBuf<$T>, CGGI, $T> = BlindRotationKeyPrepared::alloc(&module, &brk);
                        let mut sp = big(BlindRotationKeyPrepared::<DeviceBuf<$T>, CGGI, $T>::prepare_tmp_bytes(&module, &brl)); kp.prepare(&module, &brk, sp.borrow());
                        $go(BlindRotationKeyPrepared::<DeviceBuf<$T>, CGGI, $T>::execute_tmp_bytes(&module, block, ext, &gl, &brl), &mut |s: &mut Scratch<$T>| {
                            let mut res = GLWE::alloc_from_infos(&gl); kp.execute(&module, &mut res, &lwe, &lut, s); res.data().data.clone() }) }
                } }
            190..=196 => { // compressed encryptions [be n | layout(6)]
                let lk = gglwe_l(n, &p[2..8]);
                let noise = NoiseInfos::new(u(p[3]), poulpy_core::DEFAULT_SIGMA_XE, 6.0 * poulpy_core::DEFAULT_SIGMA_XE).unwrap();
                let mut sk_out = GLWESecret::alloc(Degree(n as u32), lk.rank_out); sk_out.fill_ternary_prob(0.5, &mut src(230));
                let mut sk_in = GLWESecret::alloc(Degree(n as u32), lk.rank_in); sk_in.fill_ternary_prob(0.5, &mut src(231));
                let mut skp = module.glwe_secret_prepared_alloc(lk.rank_out); module.glwe_secret_prepare(&mut skp, &sk_out);
                let seed = [7u8; 32];
                match $op {
                    190 => { let lg = glwe_l(n, &p[2..8]);
                        let lpt = GLWELayout { n: lg.n, base2k: lg.base2k, k: TorusPrecision(if p.len() > 8 { p[8] as u32 } else { lg.k.0 }), rank: lg.rank };
                        let mut pt = GLWEPlaintext::alloc_from_infos(&lpt); module.vec_znx_fill_uniform(u(p[2]), &mut pt.data, 0, &mut src(232));
                        let mut res = GLWECompressed::alloc_from_infos(&lg);
                        $go(module.glwe_compressed_encrypt_sk_tmp_bytes(&lg), &mut |s: &mut Scratch<$T>| {
                            module.glwe_compressed_encrypt_sk(&mut res, &pt, &skp, seed, &noise, &mut src(233), s); ser_bytes(&res) }) }
                    191 => { let mut pt = ScalarZnx::alloc(n, lk.rank_in.as_usize()); pt.fill_ternary_prob(0, 0.5, &mut src(232));
                        let mut res = GGLWECompressed::alloc_from_infos(&lk);
                        $go(module.gglwe_compressed_encrypt_sk_tmp_bytes(&lk), &mut |s: &mut Scratch<$T>| {
                            module.gglwe_compressed_encrypt_sk(&mut res, &pt, &skp, seed, &noise, &mut src(233), s); ser_bytes(&res) }) }
                    192 => { let lg = ggsw_l(n, &p[2..8]); let mut pt = ScalarZnx::alloc(n, 1); pt.fill_ternary_prob(0, 0.5, &mut src(232));
                        let mut res = GGSWCompressed::alloc_from_infos(&lg);
                        $go(module.ggsw_compressed_encrypt_sk_tmp_bytes(&lg), &mut |s: &mut Scratch<$T>| {
                            module.ggsw_compressed_encrypt_sk(&mut res, &pt, &skp, seed, &noise, &mut src(233), s); ser_bytes(&res) }) }
                    193 => { let mut res = GLWESwitchingKeyCompressed::alloc_from_infos(&lk);
                        $go(module.glwe_switching_key_compressed_encrypt_sk_tmp_bytes(&lk), &mut |s: &mut Scratch<$T>| {
                            module.glwe_switching_key_compressed_encrypt_sk(&mut res, &sk_in, &sk_out, seed, &noise, &mut src(233), s); ser_bytes(&res) }) }
                    194 => { let mut res = GLWEAutomorphismKeyCompressed::alloc_from_infos(&lk); let g = module.galois_element(1);
                        $go(module.glwe_automorphism_key_compressed_encrypt_sk_tmp_bytes(&lk), &mut |s: &mut Scratch<$T>| {
                            module.glwe_automorphism_key_compressed_encrypt_sk(&mut res, g, &sk_out, seed, &noise, &mut src(233), s); ser_bytes(&res) }) }
                    195 => { let mut res = GLWETensorKeyCompressed::alloc_from_infos(&lk);
                        $go(module.glwe_tensor_key_compressed_encrypt_sk_tmp_bytes(&lk), &mut |s: &mut Scratch<$T>| {
                            module.glwe_tensor_key_compressed_encrypt_sk(&mut res, &sk_out, seed, &noise, &mut src(233), s); ser_bytes(&res) }) }
                    _ => { let mut res = GGLWEToGGSWKeyCompressed::alloc_from_infos(&lk);
                        $go(<M as GGLWEToGGSWKeyCompressedEncryptSk<$T>>::gglwe_to_ggsw_key_encrypt_sk_tmp_bytes(&module, &lk), &mut |s: &mut Scratch<$T>| {
                            <M as GGLWEToGGSWKeyCompressedEncryptSk<$T>>::gglwe_to_ggsw_key_encrypt_sk(&module, &mut res, &sk_out, seed, &noise, &mut src(233), s); ser_bytes(&res) }) }
                } }
            183 => { // circuit bootstrapping (oracle only) [be n | res_base2k dnum rank brk_base2k expo log_domain]
                let (rb, dnum, rank, bb, expo) = (u(p[2]), u(p[3]), u(p[4]), u(p[5]), p[6] != 0);
                let (n_lwe, block, ld, lgo) = (12usize, 3usize, u(p[7]), 1usize);
                let k_res = (dnum + 1) * rb;
                let rows = |k: usize, b: usize| k.div_ceil(b);
                let (tb, ab) = (12usize, 11usize);
                let cbt_infos = CircuitBootstrappingKeyLayout {
                    brk_layout: BlindRotationKeyLayout { n_glwe: Degree(n as u32), n_lwe: Degree(n_lwe as u32), base2k: Base2K(bb as u32),
                        k: TorusPrecision(((rows(k_res, bb) + 1) * bb) as u32), dnum: Dnum(rows(k_res, bb) as u32), rank: Rank(rank as u32) },
                    atk_layout: GLWEAutomorphismKeyLayout { n: Degree(n as u32), base2k: Base2K(ab as u32),
                        k: TorusPrecision(((rows(k_res, ab) + 1) * ab) as u32), dnum: Dnum(rows(k_res, ab) as u32), rank: Rank(rank as u32), dsize: Dsize(1) },
                    tsk_layout: GGLWEToGGSWKeyLayout { n: Degree(n as u32), base2k: Base2K(tb as u32),
                        k: TorusPrecision(((rows(k_res, tb) + 1) * tb) as u32), dnum: Dnum(rows(k_res, tb) as u32), dsize: Dsize(1), rank: Rank(rank as u32) },
                };
                let l = GGSWLayout { n: Degree(n as u32), base2k: Base2K(rb as u32), k: TorusPrecision(k_res as u32), dnum: Dnum(dnum as u32), dsize: Dsize(1), rank: Rank(rank as u32) };
                let mut sbig = big(1 << 24);
                let mut sk_lwe = LWESecret::alloc(Degree(n_lwe as u32)); sk_lwe.fill_binary_block(block, &mut src(200));
                let mut sk_glwe = GLWESecret::alloc(Degree(n as u32), Rank(rank as u32)); sk_glwe.fill_ternary_prob(0.5, &mut src(201));
                let li = LWELayout { n: Degree(n_lwe as u32), k: TorusPrecision(22), base2k: Base2K(14) };
                let mut lwe = LWE::alloc_from_infos(&li); lwe.fill_uniform(14, &mut src(202));
                let mut key: CircuitBootstrappingKey<Vec<u8>, CGGI> = CircuitBootstrappingKey::alloc_from_infos(&cbt_infos);
                let enc = CircuitBootstrappingEncryptionInfos::from_default_sigma(&cbt_infos).unwrap();
                key.encrypt_sk(&module, &sk_lwe, &sk_glwe, &enc, &mut src(203), &mut src(204), sbig.borrow());
                let mut kp: CircuitBootstrappingKeyPrepared<DeviceBuf<$T>, CGGI, $T> = CircuitBootstrappingKeyPrepared::alloc_from_infos(&module, &cbt_infos);
                kp.prepare(&module, &key, sbig.borrow());
                let dump = |r: &GGSW<Vec<u8>>| -> Vec<u8> { let mut o = Vec::new(); for i in 0..dnum { for j in 0..rank + 1 { o.extend_from_slice(r.at(i, j).data().data); } } o };
                // each mode has its own size query since 7e35613
                $go(if expo { module.circuit_bootstrapping_execute_to_exponent_tmp_bytes(block, 1, ld, &l, &cbt_infos) } else { module.circuit_bootstrapping_execute_tmp_bytes(block, 1, &l, &cbt_infos) }, &mut |s: &mut Scratch<$T>| {
                    let mut ggsw = GGSW::alloc_from_infos(&l);
                    if expo { kp.execute_to_exponent(&module, lgo, &mut ggsw, &lwe, ld, 1, s); } else { kp.execute_to_constant(&module, &mut ggsw, &lwe, ld, 1, s); }
                    dump(&ggsw) }) }
            184 => { // cmux family [be n | res(6) a(6) ggsw(6) variant]
                let (lr, la, lg) = (glwe_l(n, &p[2..8]), glwe_l(n, &p[8..14]), ggsw_l(n, &p[14..20]));
                let mut g = GGSW::alloc_from_infos(&lg); g.fill_uniform(u(p[14]), &mut src(210));
                let mut gp = module.ggsw_prepared_alloc_from_infos(&lg);
                let mut sb = big(module.ggsw_prepare_tmp_bytes(&lg)); module.ggsw_prepare(&mut gp, &g, sb.borrow());
                let mut t = GLWE::alloc_from_infos(&la); t.fill_uniform(u(p[8]), &mut src(211));
                let mut f = GLWE::alloc_from_infos(&la); f.fill_uniform(u(p[8]), &mut src(212));
                let variant = p[20];   // 0 = cmux(res, t, f, s), 1 = cmux_assign(res, a, s), 2 = cmux_assign_neg(res, a, s)
                let mut r0 = GLWE::alloc_from_infos(&lr); r0.fill_uniform(u(p[2]), &mut src(213));
                $go(module.cmux_tmp_bytes(&lr, &la, &lg), &mut |s: &mut Scratch<$T>| {
                    let mut r = r0.clone();
                    match variant { 0 => module.cmux(&mut r, &t, &f, &gp, s), 1 => module.cmux_assign(&mut r, &t, &gp, s), _ => module.cmux_assign_neg(&mut r, &t, &gp, s) }
                    r.data().data.clone() }) }
            other => panic!("c12: unknown op {}", other),
        }
    }};
}

/// fhe_uint preparation at the crate's test parameter set (oracle only) [be n=256 | threads bit_start bit_count]: 185 = through
/// prepare_custom (one thread), 186 = prepare_custom_multi_thread on a scratch of EXACTLY threads * fhe_uint_prepare_tmp_bytes
/// bytes (the split into per-thread regions happens inside)
mod fhe_uint_ref {
    use super::*;
    type BE = poulpy_cpu_ref::FFT64Ref;
    static CTX: std::sync::LazyLock<TestContext<CGGI, BE>> = std::sync::LazyLock::new(TestContext::<CGGI, BE>::new);
    type Prep = FheUintPrepared<DeviceBuf<BE>, u32, BE>;
    static OPERANDS: std::sync::LazyLock<(Prep, Prep)> = std::sync::LazyLock::new(|| {
        let ctx = &*CTX;
        let l = ctx.ggsw_infos();
        let enc = EncryptionLayout::new_from_default_sigma(l).unwrap();
        let mut scratch: ScratchOwned<BE> = ScratchOwned::alloc(1 << 22);
        let mut mk = |v: u32, s: u64| { let mut p: Prep = FheUintPrepared::alloc_from_infos(&ctx.module, &l);
            p.encrypt_sk(&ctx.module, v, &ctx.sk_glwe, &enc, &mut src(240 + s), &mut src(250 + s), scratch.borrow()); p };
        (mk(0x1234_5678, 0), mk(0x0fed_cba9, 1))
    });
    /// parameters of the two-word multi-thread record, read off the crate's test parameter set through PUBLIC queries only:
    /// [T_BITS, max_state_size, res(6), ggsw(6), atk(6)] (the BDD circuits themselves are private to the crate)
    pub fn bdd_params(op: i64) -> Vec<i128> {
        let ctx = &*CTX;
        let (gl, gg) = (ctx.glwe_infos(), ctx.ggsw_infos());
        let atk = ctx.bdd_key.automorphism_key_infos();
        let res: FheUint<Vec<u8>, u32> = FheUint::alloc_from_infos(&gl);
        let glwe_bytes = GLWE::<Vec<u8>>::bytes_of_from_infos(&gl);
        let (slot, pack) = (32 * glwe_bytes, ctx.module.glwe_pack_tmp_bytes(&gl, &atk));
        let st = if op == 0 { res.add_tmp_bytes(&ctx.module, &gl, &gg, &ctx.bdd_key) } else { res.slt_tmp_bytes(&ctx.module, &gl, &gg, &ctx.bdd_key) };
        let cmux0 = ctx.module.execute_bdd_circuit_tmp_bytes(&gl, 0, &gg);
        // per-thread size = single-thread size minus the output slots when the BDD arena dominates the packing; otherwise the
        // state size is searched through the public per-thread query
        let per = st - slot;
        let state = if per > pack { (per - cmux0) / (2 * glwe_bytes) } else { 0 };
        assert!(per > pack && ctx.module.execute_bdd_circuit_tmp_bytes(&gl, state, &gg) == per,
                "c12: cannot read max_state_size off the public size queries (per = {per}, pack = {pack})");
        let mut v: Vec<i128> = vec![32, state as i128];
        v.extend([gl.base2k.0 as i128, gl.k.0 as i128, gl.rank.0 as i128, gl.rank.0 as i128, 0, 1]);
        v.extend([gg.base2k.0 as i128, gg.k.0 as i128, gg.rank.0 as i128, gg.rank.0 as i128, gg.dnum.0 as i128, gg.dsize.0 as i128]);
        v.extend([atk.base2k.0 as i128, atk.k.0 as i128, atk.rank_out.0 as i128, atk.rank_in.0 as i128, atk.dnum.0 as i128, atk.dsize.0 as i128]);
        v
    }
    /// 187: FheUint two-word operation through its `_multi_thread` entry point on a scratch of EXACTLY `<op>_multi_thread_tmp_bytes`
    /// bytes [be n=256 | op (0 add, 5 slt) threads T_BITS max_state_size res(6) ggsw(6) atk(6)]
    pub fn bdd_mt(mode: i64, p: &[i128]) -> Vec<i128> {
        let ctx = &*CTX;
        let (op, threads) = (p[2], u(p[3]));
        let (gl, gg) = (ctx.glwe_infos(), ctx.ggsw_infos());
        let r0: FheUint<Vec<u8>, u32> = FheUint::alloc_from_infos(&gl);
        let need = if op == 0 { r0.add_multi_thread_tmp_bytes(&ctx.module, threads, &gl, &gg, &ctx.bdd_key) }
                   else { r0.slt_multi_thread_tmp_bytes(&ctx.module, threads, &gl, &gg, &ctx.bdd_key) };
        let (a, b) = (&OPERANDS.0, &OPERANDS.1);
        let mut f = |s: &mut Scratch<BE>| -> Vec<u8> {
            let mut res: FheUint<Vec<u8>, u32> = FheUint::alloc_from_infos(&gl);
            if op == 0 { res.add_multi_thread(threads, &ctx.module, a, b, &ctx.bdd_key, s); } else { res.slt_multi_thread(threads, &ctx.module, a, b, &ctx.bdd_key, s); }
            res.to_ref().data().data.to_vec() };
        match mode { 0 => formula_only::<BE>(need, &mut f), 1 => exact_once::<BE>(need, &mut f), _ => exact_twice::<BE>(need, &mut f) }
    }
    pub fn run(op: i64, p: &[i128]) -> Vec<i128> {
        let ctx = &*CTX;
        let (threads, start, count) = (u(p[2]), u(p[3]), u(p[4]));
        let mut sbig: ScratchOwned<BE> = ScratchOwned::alloc(1 << 24);
        let mut c: FheUint<Vec<u8>, u32> = FheUint::alloc_from_infos(&ctx.glwe_infos());
        let e = EncryptionLayout::new_from_default_sigma(ctx.glwe_infos()).unwrap();
        c.encrypt_sk(&ctx.module, 0xdead_beefu32, &ctx.sk_glwe, &e, &mut src(220), &mut src(221), sbig.borrow());
        let p0: FheUintPrepared<DeviceBuf<BE>, u32, BE> = FheUintPrepared::alloc_from_infos(&ctx.module, &ctx.ggsw_infos());
        let per = ctx.module.fhe_uint_prepare_tmp_bytes(7, 1, &p0, &c, &ctx.bdd_key);
        let need = if op == 185 { per } else { threads * per };
        exact_twice::<BE>(need, &mut |s: &mut Scratch<BE>| {
            let mut pp: FheUintPrepared<DeviceBuf<BE>, u32, BE> = FheUintPrepared::alloc_from_infos(&ctx.module, &ctx.ggsw_infos());
            if op == 185 { pp.prepare_custom(&ctx.module, &c, start, start + count, &ctx.bdd_key, s); }
            else { pp.prepare_custom_multi_thread(threads, &ctx.module, &c, start, count, &ctx.bdd_key, s); }
            let mut o = Vec::new();
            for i in start..start + count { let b = pp.get_bit(i); o.extend_from_slice(b.data().data()); }
            o })
    }
}

/// CKKS leveled operations (oracle only) [be n | base2k k_ct log_delta]; CKKSImpl is implemented for the AVX backends only under a
/// feature the shared harness manifest does not enable, so these run on the two reference backends.
macro_rules! ckks_body {
    ($T:ident, $op:expr, $p:expr, $go:expr) => {{
        type M = Module<$T>;
        let p: &[i128] = $p;
        let n = u(p[1]);
        let module: M = M::new(n as u64);
        let big = |bytes: usize| -> ScratchOwned<$T> { ScratchOwned::<$T>::alloc(bytes + (1 << 16)) };
                let (b2k, kct, ld) = (u(p[2]), u(p[3]), u(p[4]));
                let gl = GLWELayout { n: Degree(n as u32), base2k: Base2K(b2k as u32), k: TorusPrecision(kct as u32), rank: Rank(1) };
                let kk = kct + b2k; let dnum = kk.div_ceil(b2k);
                let kl = GGLWELayout { n: gl.n, base2k: gl.base2k, k: TorusPrecision(kk as u32), rank_in: Rank(1), rank_out: Rank(1), dnum: Dnum(dnum as u32), dsize: Dsize(1) };
                let noise = NoiseInfos::new(kct, poulpy_core::DEFAULT_SIGMA_XE, 6.0 * poulpy_core::DEFAULT_SIGMA_XE).unwrap();
                let mut sk = GLWESecret::alloc(gl.n, Rank(1)); sk.fill_ternary_prob(0.5, &mut src(170));
                let mut skp = module.glwe_secret_prepared_alloc(Rank(1)); module.glwe_secret_prepare(&mut skp, &sk);
                let mut tk = GLWETensorKey::alloc_from_infos(&kl); tk.fill_uniform(b2k, &mut src(171));
                let mut tkp = module.alloc_tensor_key_prepared_from_infos(&kl);
                let mut sb = big(module.prepare_tensor_key_tmp_bytes(&kl)); module.prepare_tensor_key(&mut tkp, &tk, sb.borrow());
                let mut atks: HashMap<i64, GLWEAutomorphismKeyPrepared<DeviceBuf<$T>, $T>> = HashMap::new();
                for (j, (idx, g)) in [(1i64, module.galois_element(1)), (-1i64, -1i64)].into_iter().enumerate() {
                    let mut key = GGLWE::alloc_from_infos(&kl); key.fill_uniform(b2k, &mut src(172 + j as u64));
                    let mut kp = module.glwe_automorphism_key_prepared_alloc_from_infos(&kl);
                    let mut sb = big(module.gglwe_prepare_tmp_bytes(&kl)); module.gglwe_prepare(&mut kp, &key, sb.borrow());
                    kp.set_p(g); atks.insert(idx, kp); // rotation keys are looked up by rotation index; -1 = conjugation
                }
                // optional trailing parameters: p[5] = precision of the DESTINATION of the `_into` operations (0 = the operands'), p[6] =
                // constant variant (0 real only, 1 imaginary only, 2 both), p[7] = log_delta of the plaintext operand (0 = the ciphertext's)
                let kdst = if p.len() > 5 && p[5] != 0 { u(p[5]) } else { kct };
                let cvar = if p.len() > 6 { p[6] } else { 0 };
                let ldpt = if p.len() > 7 && p[7] != 0 { u(p[7]) } else { ld };
                let gld = GLWELayout { n: gl.n, base2k: gl.base2k, k: TorusPrecision(kdst as u32), rank: Rank(1) };
                let meta = CKKSMeta { log_delta: ld, log_budget: kct - ld - b2k };
                let meta_pt = CKKSMeta { log_delta: ldpt, log_budget: kct - ld - b2k };
                let mut pt = CKKSPlaintextVecZnx::alloc(gl.n, gl.base2k, meta);
                module.vec_znx_fill_uniform(b2k, &mut pt.data, 0, &mut src(175));
                let mut pt2 = CKKSPlaintextVecZnx::alloc(gl.n, gl.base2k, meta_pt);
                module.vec_znx_fill_uniform(b2k, &mut pt2.data, 0, &mut src(186));
                let mk = |s1: u64, s2: u64| -> CKKSCiphertext<Vec<u8>> {
                    let mut sc = big(module.ckks_encrypt_sk_tmp_bytes(&gl)); let mut c = CKKSCiphertext::alloc(gl.n, gl.k, gl.base2k);
                    module.ckks_encrypt_sk(&mut c, &pt, &skp, &noise, &mut src(s1), &mut src(s2), sc.borrow()).unwrap(); c };
                let (a, b) = (mk(176, 177), mk(178, 179));
                // destination of the `_into` operations: its own number of limbs
                let dst = || -> CKKSCiphertext<Vec<u8>> { CKKSCiphertext::alloc(gl.n, gld.k, gl.base2k) };
                // a destination that already holds a ciphertext (accumulating operations): encrypted at its own precision
                let mkd = |s1: u64, s2: u64| -> CKKSCiphertext<Vec<u8>> {
                    let mut sc = big(module.ckks_encrypt_sk_tmp_bytes(&gld)); let mut c = CKKSCiphertext::alloc(gl.n, gld.k, gl.base2k);
                    let md = CKKSMeta { log_delta: ld, log_budget: kdst.saturating_sub(ld + b2k) };
                    let mut ptd = CKKSPlaintextVecZnx::alloc(gl.n, gl.base2k, md); module.vec_znx_fill_uniform(b2k, &mut ptd.data, 0, &mut src(187));
                    let nz = NoiseInfos::new(kdst, poulpy_core::DEFAULT_SIGMA_XE, 6.0 * poulpy_core::DEFAULT_SIGMA_XE).unwrap();
                    module.ckks_encrypt_sk(&mut c, &ptd, &skp, &nz, &mut src(s1), &mut src(s2), sc.borrow()).unwrap(); c };
                // an operation that REJECTS its operands (Err) is not a scratch matter: the marker makes both fills agree
                let bytes = ckks_out;
                // experiment switch: size with the maximum of the query over the destination and the operand layout
                let use_max = std::env::var("C12_CKKS_MAX").is_ok();
                let mx = |r: usize, o: usize| -> usize { if use_max { r.max(o) } else { r } };
                let conj = atks.get(&-1i64).unwrap();
                let cst: poulpy_ckks::layouts::plaintext::CKKSPlaintextCstRnx<f64> = match cvar {
                    0 => poulpy_ckks::layouts::plaintext::CKKSPlaintextCstRnx::new(Some(0.75), None),
                    1 => poulpy_ckks::layouts::plaintext::CKKSPlaintextCstRnx::new(None, Some(-0.5)),
                    _ => poulpy_ckks::layouts::plaintext::CKKSPlaintextCstRnx::new(Some(0.75), Some(-0.5)) };
                match $op {
                    160 => $go(module.ckks_encrypt_sk_tmp_bytes(&gl), &mut |s: &mut Scratch<$T>| {
                        let mut r = CKKSCiphertext::alloc(gl.n, gl.k, gl.base2k);
                        let e = module.ckks_encrypt_sk(&mut r, &pt, &skp, &noise, &mut src(180), &mut src(181), s); bytes(&r, e) }),
                    161 => $go(module.ckks_decrypt_tmp_bytes(&gl), &mut |s: &mut Scratch<$T>| {
                        let mut o = CKKSPlaintextVecZnx::alloc(gl.n, gl.base2k, meta_pt); let e = module.ckks_decrypt(&mut o, &a, &skp, s);
                        if e.is_ok() { o.data.data.clone() } else { vec![0xEE] } }),
                    162 => $go(module.ckks_add_tmp_bytes(), &mut |s: &mut Scratch<$T>| {
                        let mut r = dst(); let e = module.ckks_add_into(&mut r, &a, &b, s); bytes(&r, e) }),
                    163 => $go(mx(module.ckks_mul_tmp_bytes(&gld, &kl), module.ckks_mul_tmp_bytes(&gl, &kl)), &mut |s: &mut Scratch<$T>| {
                        let mut r = dst(); let e = module.ckks_mul_into(&mut r, &a, &b, &tkp, s); bytes(&r, e) }),
                    164 => $go(mx(module.ckks_square_tmp_bytes(&gld, &kl), module.ckks_square_tmp_bytes(&gl, &kl)), &mut |s: &mut Scratch<$T>| {
                        let mut r = dst(); let e = module.ckks_square_into(&mut r, &a, &tkp, s); bytes(&r, e) }),
                    165 => $go(module.ckks_mul_pt_vec_znx_tmp_bytes(&gld, &gl, &meta_pt), &mut |s: &mut Scratch<$T>| {
                        let mut r = dst(); let e = module.ckks_mul_pt_vec_znx_into(&mut r, &a, &pt2, s); bytes(&r, e) }),
                    166 => $go(module.ckks_rescale_tmp_bytes(), &mut |s: &mut Scratch<$T>| {
                        let mut r = mk(176, 177); let e = module.ckks_rescale_assign(&mut r, b2k / 2, s); bytes(&r, e) }),
                    167 => $go(module.ckks_rotate_tmp_bytes(&gld, &kl).max(module.ckks_rotate_tmp_bytes(&gl, &kl)), &mut |s: &mut Scratch<$T>| {
                        let mut r = dst(); let e = module.ckks_rotate_into(&mut r, &a, 1, &atks, s); bytes(&r, e) }),
                    168 => $go(module.ckks_conjugate_tmp_bytes(&gld, &kl).max(module.ckks_conjugate_tmp_bytes(&gl, &kl)), &mut |s: &mut Scratch<$T>| {
                        let mut r = dst(); let e = module.ckks_conjugate_into(&mut r, &a, conj, s); bytes(&r, e) }),
                    169 => $go(module.ckks_mul_pow2_tmp_bytes(), &mut |s: &mut Scratch<$T>| {
                        let mut r = dst(); let e = module.ckks_mul_pow2_into(&mut r, &a, 3, s); bytes(&r, e) }),
                    170 => $go(module.ckks_div_pow2_tmp_bytes(), &mut |s: &mut Scratch<$T>| {
                        let mut r = dst(); let e = module.ckks_div_pow2_into(&mut r, &a, 3, s); bytes(&r, e) }),
                    171 => $go(module.ckks_add_pt_vec_znx_tmp_bytes(), &mut |s: &mut Scratch<$T>| {
                        let mut r = dst(); let e = module.ckks_add_pt_vec_znx_into(&mut r, &a, &pt2, s); bytes(&r, e) }),
                    172 => $go(module.ckks_neg_tmp_bytes(), &mut |s: &mut Scratch<$T>| {
                        let mut r = dst(); let e = module.ckks_neg_into(&mut r, &a, s); bytes(&r, e) }),
                    173 => $go(module.ckks_align_tmp_bytes(), &mut |s: &mut Scratch<$T>| {
                        let (mut x, mut y) = (mk(176, 177), mk(178, 179)); let mut sc = big(module.ckks_rescale_tmp_bytes()); module.ckks_rescale_assign(&mut y, 5, sc.borrow()).unwrap();
                        let e = module.ckks_align_assign(&mut x, &mut y, s); let mut o = ckks_out(&x, e); o.extend(y.data().data.clone()); o }),
                    // ---- composites (delegates to the operations above on ONE scratch)
                    174 => $go(module.ckks_sub_tmp_bytes(), &mut |s: &mut Scratch<$T>| {
                        let mut r = dst(); let e = module.ckks_sub_into(&mut r, &a, &b, s); bytes(&r, e) }),
                    175 => $go(mx(module.ckks_mul_add_ct_tmp_bytes(&gld, &kl), module.ckks_mul_add_ct_tmp_bytes(&gl, &kl)), &mut |s: &mut Scratch<$T>| {
                        let mut r = mkd(182, 183); let e = module.ckks_mul_add_ct_into(&mut r, &a, &b, &tkp, s); bytes(&r, e) }),
                    176 => $go(mx(module.ckks_mul_sub_ct_tmp_bytes(&gld, &kl), module.ckks_mul_sub_ct_tmp_bytes(&gl, &kl)), &mut |s: &mut Scratch<$T>| {
                        let mut r = mkd(182, 183); let e = module.ckks_mul_sub_ct_into(&mut r, &a, &b, &tkp, s); bytes(&r, e) }),
                    177 => { let c = mk(184, 185);
                        $go(mx(module.ckks_dot_product_ct_tmp_bytes(2, &gld, &kl), module.ckks_dot_product_ct_tmp_bytes(2, &gl, &kl)), &mut |s: &mut Scratch<$T>| {
                            let mut r = dst();
                            let e = module.ckks_dot_product_ct(&mut r, &[&a, &b], &[&b, &c], &tkp, s); bytes(&r, e) }) }
                    178 => { let c = mk(184, 185);
                        // three factors need two multiplicative levels of budget
                        let ins: Vec<&CKKSCiphertext<Vec<u8>>> = if kct - ld - b2k >= 2 * ld + 10 { vec![&a, &b, &c] } else { vec![&a, &b] };
                        $go(mx(module.ckks_mul_many_tmp_bytes(ins.len(), &gld, &kl), module.ckks_mul_many_tmp_bytes(ins.len(), &gl, &kl)), &mut |s: &mut Scratch<$T>| {
                            let mut r = dst();
                            let e = module.ckks_mul_many(&mut r, &ins, &tkp, s); bytes(&r, e) }) }
                    179 => { let c = mk(184, 185);
                        $go(module.ckks_add_many_tmp_bytes(), &mut |s: &mut Scratch<$T>| {
                            let mut r = dst();
                            let e = module.ckks_add_many(&mut r, &[&a, &b, &c], s); bytes(&r, e) }) }
                    // ---- constants (real only / imaginary only / both: only the last takes the GLWE temporary)
                    197 => $go(module.ckks_mul_pt_const_tmp_bytes(&gld, &gl, &meta_pt), &mut |s: &mut Scratch<$T>| {
                        let mut r = dst(); let e = module.ckks_mul_pt_const_rnx_into(&mut r, &a, &cst, meta_pt, s); bytes(&r, e) }),
                    198 => $go(module.ckks_add_pt_const_tmp_bytes(), &mut |s: &mut Scratch<$T>| {
                        let mut r = dst(); let e = module.ckks_add_pt_const_rnx_into(&mut r, &a, &cst, meta_pt, s); bytes(&r, e) }),
                    _ => $go(module.ckks_mul_add_pt_const_tmp_bytes(&gld, &gl, &meta_pt), &mut |s: &mut Scratch<$T>| {
                        let mut r = mkd(182, 183); let e = module.ckks_mul_add_pt_const_rnx_into(&mut r, &a, &cst, meta_pt, s); bytes(&r, e) }),
                }
    }};
}

/// an operation that REJECTS its operands (Err) is not a scratch matter: the marker makes both fills agree
fn ckks_out<E>(c: &CKKSCiphertext<Vec<u8>>, r: Result<(), E>) -> Vec<u8> { if r.is_ok() { c.data().data.clone() } else { vec![0xEE] } }

fn formula_only<BE: Backend>(need: usize, _f: &mut dyn FnMut(&mut Scratch<BE>) -> Vec<u8>) -> Vec<i128> { vec![need as i128] }

fn exact_once<BE>(need: usize, f: &mut dyn FnMut(&mut Scratch<BE>) -> Vec<u8>) -> Vec<i128>
where BE: Backend + poulpy_hal::oep::HalImpl<BE>,
{
    let r1 = exact::<BE, _>(need, 0x1111_2222_3333_4444, |s| f(s));
    vec![need as i128, r1.kind, r1.canary_ok as i128]
}

fn exact_twice<BE>(need: usize, f: &mut dyn FnMut(&mut Scratch<BE>) -> Vec<u8>) -> Vec<i128>
where BE: Backend + poulpy_hal::oep::HalImpl<BE>,
{
    let r1 = exact::<BE, _>(need, 0x1111_2222_3333_4444, |s| f(s));
    let r2 = exact::<BE, _>(need, 0xdead_beef_0bad_f00d, |s| f(s));
    let kind = if r1.kind != 0 { r1.kind } else { r2.kind };
    let eq = r1.kind == r2.kind && r1.out == r2.out;
    vec![need as i128, kind, (r1.canary_ok && r2.canary_ok) as i128, eq as i128]
}

fn run(r: &Rec) -> Vec<Vec<i128>> {
    let be = r.ps[0] as i64;
    let (mode, op) = if r.code < 12500 { (0, r.code - 12000) } else if r.code < 12700 { (1, r.code - 12500) } else { (2, r.code - 12700) };
    let p: &[i128] = &r.ps;
    if op == 187 {
        assert!(be == 1, "c12: FheUint operations run on FFT64Ref");
        return vec![fhe_uint_ref::bdd_mt(mode, p)];
    }
    if op == 185 || op == 186 {
        assert!(be == 1 && mode == 2, "c12: fhe_uint preparation runs on FFT64Ref, independence phase only");
        return vec![fhe_uint_ref::run(op, p)];
    }
    if (160..=179).contains(&op) || (197..=199).contains(&op) {
        use poulpy_cpu_ref::{FFT64Ref, NTT120Ref};
        let v: Vec<i128> = match be {
            1 => ckks_body!(FFT64Ref, op, p, exact_twice::<FFT64Ref>),
            3 => ckks_body!(NTT120Ref, op, p, exact_twice::<NTT120Ref>),
            _ => panic!("c12: CKKS operations run on the reference backends only"),
        };
        return vec![v];
    }
    let v: Vec<i128> = with_be!(be, T, {
        match mode { 0 => body!(T, op, p, formula_only::<T>), 1 => body!(T, op, p, exact_once::<T>), _ => body!(T, op, p, exact_twice::<T>) }
    });
    vec![v]
}

pub fn exec(r: &Rec) -> Out {
    let r2 = r.clone();
    guard(move || run(&r2))
}

fn inf(b2k: i128, k: i128, rank: i128, rank_in: i128, dnum: i128, dsize: i128) -> Vec<i128> { vec![b2k, k, rank, rank_in, dnum, dsize] }

struct Gen { out: Vec<Rec>, indep: bool, thorough: bool }
impl Gen {
    /// one (op, shape): main phase = formula record + (if `run_it` and the take tree is `modelled`) exact-window record;
    /// independence phase (tier "indep-*") = two-fill oracle-only record
    fn push(&mut self, op: i64, ps: Vec<i128>, run_it: bool, modelled: bool) {
        let run_it = run_it || self.thorough;
        if self.indep {
            if run_it { self.out.push(Rec::new(12700 + op, ps, vec![])); }
        } else {
            if modelled { self.out.push(Rec::new(12000 + op, ps.clone(), vec![])); }
            if run_it && modelled { self.out.push(Rec::new(12500 + op, ps, vec![])); }
        }
    }
}

/// smallest ring degree at which the operation runs at all on this backend family (below it the transforms /
/// block kernels assert or index out of bounds before any scratch question arises)
fn min_n(op: i64, fft: bool) -> i128 {
    match op {
        11..=14 | 21 => 2,
        30 | 31 | 32 => if fft { 8 } else { 2 }, // NTT120 vmp works on x2 blocks (debug_assert!(n >= 2)); FFT64 on blocks of 4 complex
        40 => if fft { 2 } else { 1 },
        50..=52 => if fft { 8 } else { 1 },
        53..=55 | 116 => if fft { 8 } else { 2 }, // FFT64 convolution kernels loop over m/4 (n/8) blocks, NTT120 over n/2 x2-blocks
        103 | 105 | 118 => if fft { 2 } else { 1 },
        104 => 8, // glwe_public_key_generate (set-up of the record) itself allocates glwe_encrypt_sk_tmp_bytes and panics below 8
        106..=109 | 120..=124 => if fft { 8 } else { 2 },
        125 | 126 => if fft { 8 } else { 2 },
        110..=112 | 119 => if fft { 8 } else { 2 },
        115 => 2,
        _ => 1,
    }
}

pub fn generate(tier: &str, seed: u64) -> Vec<Rec> {
    let mut rng = Rng::new(seed);
    let (indep, tier) = match tier.strip_prefix("indep-") { Some(t) => (true, t), None => (false, tier) };
    let thorough = tier == "thorough";
    let mut g = Gen { out: Vec::new(), indep, thorough };
    let bes: &[i128] = &[1, 2, 3, 4];
    let ns: &[i128] = if thorough { &[1, 2, 4, 8, 16, 32, 64, 256] } else { &[1, 2, 4, 8, 16, 64] };
    for &be in bes {
        let fft = be <= 2;
        let refbe = be == 1 || be == 3;
        for &n in ns {
            let ok = |op: i64| n >= min_n(op, fft);
            // AVX backends and larger n: fewer exact runs in the quick tier
            let dense = refbe || n <= 8;
            // ---- HAL
            for &(rs, asz) in &[(1i128, 1i128), (3, 2), (2, 5)] {
                g.push(1, vec![be, n, rs, asz, 17, 17], dense, true);
                g.push(1, vec![be, n, rs, asz, 12, 19], dense && rs == 3, true);
                g.push(20, vec![be, n, rs, asz, 17, 17], dense, true);
                g.push(20, vec![be, n, rs, asz, 19, 12], dense && rs == 3, true);
            }
            for &size in &[1i128, 3] {
                g.push(2, vec![be, n, size, 17], dense, true);
                for &k in &[0i128, 1, 5, 20] {
                    for &op in &[3i64, 4, 5, 6, 7, 8, 9, 10] {
                        if op == 4 && (k >= 17 || k == 0) { continue; } // vec_znx_rsh_assign with k = 0 or beyond one limb is C08's finding (DESIGN 5.7a)
                        g.push(op, vec![be, n, size, 17, k], dense && (k == 5 || size == 3), true);
                    }
                }
                if ok(11) {
                    g.push(11, vec![be, n, size, 3], dense, true);
                    g.push(12, vec![be, n, size, 5], dense, true);
                    g.push(13, vec![be, n, size, -1], dense, true);
                    g.push(14, vec![be, n, size], dense, true);
                    g.push(21, vec![be, n, size, 5], dense, true);
                }
                if ok(40) { g.push(40, vec![be, n, size], dense, true); }
            }
            if ok(30) {
                for &(rows, ci, co, size, asz, rs) in &[(1i128, 1i128, 1i128, 1i128, 1i128, 1i128), (3, 1, 2, 3, 2, 3), (2, 2, 3, 2, 5, 2), (4, 3, 2, 3, 3, 4)] {
                    g.push(30, vec![be, n, rows, ci, co, size], dense, true);
                    g.push(31, vec![be, n, rs, asz, rows, ci, co, size, 0], dense, true);
                    g.push(31, vec![be, n, rs, asz, rows, ci, co, size, 1], dense && rows == 3, true);
                    g.push(32, vec![be, n, rs, asz, rows, ci, co, size, 0], dense, true);
                }
            }
            for &(rs, asz, bsz, off) in &[(1i128, 1i128, 1i128, 0i128), (3, 2, 2, 0), (2, 3, 1, 1), (5, 2, 3, 1), (2, 2, 2, 3)] {
                if ok(50) {
                    g.push(50, vec![be, n, rs, asz], dense, true);
                    g.push(51, vec![be, n, rs, asz], dense, true);
                    g.push(52, vec![be, n, rs, asz], dense, true);
                    g.push(53, vec![be, n, off, rs, asz, bsz], dense, true);
                    g.push(55, vec![be, n, off, rs, asz, bsz], dense, true);
                }
                if ok(54) { g.push(54, vec![be, n, off, rs, asz, bsz], dense, true); }
            }
            if n == 8 {
                for &(th, len) in &[(1i128, 320144i128), (2, 320144), (3, 100), (4, 4096), (2, 64), (5, 0), (3, 8)] {
                    g.push(60, vec![be, n, th, len], true, true);
                }
            }
            // ---- oracle-only batch (independence phase only; n >= 8 so that the n < 8 family is not multiplied)
            if n >= 8 && n <= 16 && (refbe || n == 8) {
                let k3: &[(i128, i128, i128, i128, i128, i128)] = &[(17, 51, 1, 1, 2, 1), (12, 72, 2, 2, 3, 2), (17, 34, 1, 1, 1, 1), (15, 75, 2, 1, 2, 2)];
                for &(kb, kk, rout, rin, dnum, dsize) in k3 {
                    let key = inf(kb, kk, rout, rin, dnum, dsize);
                    let mk = |op: i64| -> Vec<i128> { let mut v = vec![be, n]; v.extend(&key); v.push(if op % 2 == 0 { 7 } else { n - 1 }); v };
                    g.push(130, mk(130), true, true);
                    g.push(132, mk(132), true, true);
                    if rin == rout {
                        for &op in &[131i64, 133, 134, 135] { g.push(op, mk(op), true, true); }
                    }
                    { let mut v = vec![be, n]; v.extend(&key);
                      g.push(191, v.clone(), true, true); g.push(193, v.clone(), true, true);
                      if rin == rout { for &op in &[190i64, 192, 194, 195, 196] { g.push(op, v.clone(), true, true); }
                                       let mut w = v.clone(); w.push(kb); g.push(190, w, true, true);
                                       let mut w = v.clone(); w.push(kk + 2 * kb); g.push(190, w, true, true); } }
                    if dsize == 1 && rout == 1 { g.push(137, mk(137), true, true); }
                    if dsize == 1 && rin == 1 { g.push(138, mk(138), true, true); }
                    if dsize == 1 && rin == 1 && rout == 1 { g.push(136, mk(136), true, true); }
                    if rin == rout {
                        // GGSW key-switch / automorphism / expansion: res, a GGSWs of 2 rows in the key's radix resp. a different one
                        for &(ab, ak) in &[(kb, 2 * kb), (kb - 2, 3 * (kb - 2))] {
                            let mut v = vec![be, n];
                            v.extend(&inf(ab, ak + ab, rout, rout, 2, 1)); v.extend(&inf(ab, ak + ab, rout, rout, 2, 1)); v.extend(&key);
                            v.extend(&inf(kb, kk, rout, rout, dnum, dsize));
                            g.push(140, v.clone(), true, true);
                            g.push(141, v.clone(), true, true);
                            g.push(146, v, true, true);
                            // the input GGSW more precise than the result
                            let mut v2 = vec![be, n];
                            v2.extend(&inf(ab, ak, rout, rout, 2, 1)); v2.extend(&inf(ab, ak + 2 * ab, rout, rout, 2, 1)); v2.extend(&key);
                            v2.extend(&inf(kb, kk, rout, rout, dnum, dsize));
                            g.push(140, v2.clone(), true, true);
                            g.push(141, v2, true, true);
                            // .. and the result more precise than the input
                            let mut v3 = vec![be, n];
                            v3.extend(&inf(ab, ak + 2 * ab, rout, rout, 2, 1)); v3.extend(&inf(ab, ak, rout, rout, 2, 1)); v3.extend(&key);
                            v3.extend(&inf(kb, kk, rout, rout, dnum, dsize));
                            g.push(140, v3.clone(), true, true);
                            g.push(141, v3, true, true);
                            let mut w = vec![be, n];
                            w.extend(&inf(ab, ak + ab, rout, rout, 2, 1)); w.extend(&inf(ab, ak + ab, rout, rout, 2, 1)); w.extend(&key);
                            g.push(142, w, true, false);
                        }
                        // glwe_pack: inputs of the result's layout, inputs with more limbs than the result, inputs of another radix
                        for &(ib, ik) in &[(kb, kk - kb), (kb, kk), (kb - 2, kk - kb), (kb - 1, (kk - kb) / kb * (kb - 1)), (kb, kb)] {
                            let mut v = vec![be, n]; v.extend(&inf(kb, kk - kb, rout, rout, 0, 1)); v.extend(&inf(ib, ik, rout, rout, 0, 1)); v.extend(&key);
                            g.push(147, v, true, true);
                        }
                        for &(ab, ak, off) in &[(kb, 2 * kb, 0i128), (kb - 2, 3 * (kb - 2), kb + 3)] {
                            let mut v = vec![be, n];
                            v.extend(&inf(kb, kk - kb, rout, rout, 0, 1)); v.extend(&inf(ab, ak, rout, rout, 0, 1)); v.extend(&key); v.push(off);
                            for &op in &[148i64, 149, 150, 151, 152] { g.push(op, v.clone(), true, op <= 149); }
                        }
                    }
                    if dsize == 1 {
                        // LWE <-> GLWE conversions and LWE key-switch: [lwe_res(b2k k n_lwe) lwe_a(b2k k n_lwe) glwe(6) key(6)]
                        let lw = |b: i128, k: i128, nl: i128| vec![b, k, nl];
                        if rin == 1 && rout == 1 {
                            for &(rb, rk, ab, ak) in &[(kb - 1, 2 * (kb - 1), kb, 2 * kb + 1), (kb, 3 * kb, kb, kb), (kb, kb, kb - 3, 4 * (kb - 3))] {
                                let mut v = vec![be, n]; v.extend(lw(rb, rk, 7)); v.extend(lw(ab, ak, n - 1)); v.extend(&inf(kb, 2 * kb, 1, 1, 0, 1)); v.extend(&key);
                                g.push(143, v, true, true);
                            }
                        }
                        if rin == 1 {
                            // (glwe b2k, glwe k, lwe b2k, lwe k): same radix; LWE more precise than the GLWE; cross radix
                            for &(gb, gk, lb, lk_) in &[(kb, 2 * kb, kb, 2 * kb), (kb, kb, kb, 3 * kb), (kb - 2, 3 * kb, kb - 1, 2 * kb), (kb, 2 * kb, kb - 3, 4 * kb)] {
                                let mut v = vec![be, n]; v.extend(lw(kb, 2 * kb, 7)); v.extend(lw(lb, lk_, 7)); v.extend(&inf(gb, gk, rout, rout, 0, 1)); v.extend(&key);
                                g.push(144, v, true, true);
                            }
                        }
                        if rout == 1 {
                            for &(lb, lk_, gb, gk) in &[(kb - 1, 2 * kb, kb - 2, 3 * kb), (kb, kb, kb, 3 * kb), (kb, 3 * kb, kb, kb)] {
                                let mut v = vec![be, n]; v.extend(lw(lb, lk_, 7)); v.extend(lw(kb, 2 * kb, 7)); v.extend(&inf(gb, gk, rin, rin, 0, 1)); v.extend(&key);
                                g.push(145, v, true, true);
                            }
                        }
                    }
                }
            }
            if n >= 8 && n <= 16 && (refbe || n == 8) {
                // blind rotation: [n_lwe block base2k k_brk rows k_res rank ext]
                for &(nl, block, b2k, kbrk, rows, kres, rank, ext) in &[(6i128, 3i128, 17i128, 51i128, 2i128, 34i128, 1i128, 1i128), (7, 7, 15, 45, 2, 30, 1, 2), (4, 2, 12, 48, 3, 36, 2, 1)] {
                    for op in 180..=182i64 { g.push(op, vec![be, n, nl, block, b2k, kbrk, rows, kres, rank, ext], true, false); }
                }
            }
            if n == 16 && (refbe || be == 2) {
                // circuit bootstrapping [res_base2k dnum rank brk_base2k expo] and cmux [res(6) a(6) ggsw(6)]
                for &(rb, dnum, rank, bb, expo, ld) in &[(7i128, 2i128, 1i128, 13i128, 0i128, 2i128), (8, 2, 2, 15, 1, 2), (6, 2, 1, 12, 0, 1), (8, 1, 1, 15, 0, 1), (6, 2, 1, 12, 1, 1)] {
                    g.push(183, vec![be, n, rb, dnum, rank, bb, expo, ld], true, false);
                }
                for &(rb, rk, ab, ak, gb, gk, rank, dnum, dsize) in &[(17i128, 34i128, 17i128, 34i128, 17i128, 51i128, 1i128, 2i128, 1i128), (12, 24, 12, 36, 12, 48, 2, 2, 2), (17, 51, 17, 34, 17, 51, 1, 3, 1)] {
                    for variant in 0..3i128 {
                        let mut v = vec![be, n]; v.extend(&inf(rb, rk, rank, rank, 0, 1)); v.extend(&inf(ab, ak, rank, rank, 0, 1)); v.extend(&inf(gb, gk, rank, rank, dnum, dsize));
                        v.push(variant);
                        g.push(184, v, true, true);
                    }
                }
            }
            if n == 16 && be == 1 {
                // FheUint add / slt through the multi-thread entry point, exact multi-thread size query; thread counts around the
                // points where ceil(32 / ceil(32 / threads)) differs from threads
                for &op in &[0i64, 5] {
                    let bp = fhe_uint_ref::bdd_params(op);
                    for &th in &[1i128, 2, 3, 4, 5, 8, 9, 12, 16, 17, 31, 32, 33] {
                        let mut v = vec![be, 256, op as i128, th]; v.extend(&bp);
                        g.push(187, v, true, true);
                    }
                }
            }
            if n == 16 && be == 1 && g.indep {
                // fhe_uint preparation at the crate's test parameter set (n = 256 inside): [threads bit_start bit_count]
                for &(op, th, st, ct) in &[(185i64, 1i128, 3i128, 1i128), (186, 1, 0, 1), (186, 2, 5, 2), (186, 3, 29, 3)] {
                    g.push(op, vec![be, 256, th, st, ct], true, false);
                }
            }
            if n >= 8 && n <= 16 && refbe {
                for &(b2k, kct, ld) in &[(17i128, 85i128, 30i128), (12, 84, 20)] {
                    for op in 160..=179i64 { g.push(op, vec![be, n, b2k, kct, ld], true, false); }
                    // destination strictly larger / smaller than the operands; constants real / imaginary / both; plaintext log_delta below / above
                    for &kdst in &[kct + 3 * b2k, kct - 2 * b2k] {
                        for &op in &[162i64, 163, 164, 165, 167, 168, 169, 170, 171, 172, 174, 175, 176, 177, 178, 179] {
                            g.push(op, vec![be, n, b2k, kct, ld, kdst], true, false);
                        }
                    }
                    for &kdst in &[0i128, kct + 3 * b2k, kct - 2 * b2k] {
                        for cvar in 0..3i128 {
                            for &ldpt in &[0i128, ld - 5, ld + 5] {
                                for &op in &[197i64, 198, 199] { g.push(op, vec![be, n, b2k, kct, ld, kdst, cvar, ldpt], true, false); }
                            }
                        }
                    }
                    for &ldpt in &[ld - 5, ld + 5] {
                        for &kdst in &[0i128, kct + 3 * b2k] {
                            for &op in &[161i64, 165, 171] { g.push(op, vec![be, n, b2k, kct, ld, kdst, 0, ldpt], true, false); }
                        }
                    }
                }
            }
            // ---- core
            let dense_core = refbe || n <= 4;
            for &(nl, b2k, k) in &[(1i128, 17i128, 17i128), (7, 17, 30), (n, 12, 36), (n + 1, 17, 8 * 17), (22, 10, 55)] {
                g.push(101, vec![be, n, nl, b2k, k], dense_core, true);
                g.push(102, vec![be, n, nl, b2k, k], dense_core, true);
                if k > b2k {   // a plaintext container with fewer limbs than the ciphertext
                    g.push(101, vec![be, n, nl, b2k, k, b2k], dense_core, true);
                    g.push(102, vec![be, n, nl, b2k, k, b2k], dense_core, true);
                }
                // .. and with more limbs
                g.push(101, vec![be, n, nl, b2k, k, k + 2 * b2k], dense_core, true);
                g.push(102, vec![be, n, nl, b2k, k, k + 2 * b2k], dense_core, true);
            }
            for &(b2k, k, rank) in &[(17i128, 17i128, 1i128), (17, 40, 1), (12, 36, 2), (10, 55, 3), (15, 45, 0)] {
                let gi = inf(b2k, k, rank, rank, 0, 1);
                for &op in &[103i64, 104, 105, 118] {
                    if !ok(op) { continue; }
                    let mut ps = vec![be, n]; ps.extend(&gi);
                    g.push(op, ps.clone(), dense_core, true);
                    if op != 118 {
                        if k > b2k { let mut q = ps.clone(); q.push(b2k); g.push(op, q, dense_core, true); }   // plaintext with one limb
                        let mut q = ps.clone(); q.push(k + 2 * b2k); g.push(op, q, dense_core, true);             // plaintext with more limbs
                    }
                }
                for &op in &[113i64, 114, 115, 117] {
                    if !ok(op) { continue; }
                    let mut ps = vec![be, n]; ps.extend(&gi); ps.extend(&inf(b2k + 2, k + 5, rank, rank, 0, 1)); ps.push(1);
                    g.push(op, ps, dense_core, true);
                    // result longer than the operand, same radix / operand longer than the result
                    let mut ps = vec![be, n]; ps.extend(&inf(b2k, k + 2 * b2k, rank, rank, 0, 1)); ps.extend(&gi); ps.push(b2k + 3);
                    g.push(op, ps, dense_core, true);
                    let mut ps = vec![be, n]; ps.extend(&gi); ps.extend(&inf(b2k, k + 2 * b2k, rank, rank, 0, 1)); ps.push(2);
                    g.push(op, ps, dense_core, true);
                }
            }
            // key-switch family: (res b2k,k) (a b2k,k) (key b2k, k, rank_in, rank_out, dnum, dsize); key: size > dsize, dnum*dsize <= size
            let ks: &[(i128, i128, i128, i128, i128, i128, i128, i128, i128, i128)] = &[
                (17, 34, 17, 34, 17, 51, 1, 1, 2, 1),      // same radix, dsize 1
                (17, 51, 17, 51, 17, 68, 2, 1, 3, 1),      // rank_in != rank_out
                (16, 48, 17, 51, 17, 85, 1, 2, 2, 2),      // res radix differs, dsize 2
                (15, 60, 16, 64, 17, 102, 2, 2, 2, 3),     // cross-radix input (extra temporaries), dsize 3
                (17, 17, 13, 39, 17, 34, 1, 1, 1, 1),      // cross-radix, one-limb result
                (12, 60, 12, 58, 12, 72, 1, 1, 3, 2),      // a.size not a multiple of dsize
                (17, 51, 17, 51, 17, 51, 1, 1, 1, 2),      // dsize 2, same radix everywhere
                (17, 17, 13, 13, 17, 34, 1, 1, 1, 1),      // cross-radix one-limb rank-1 input (witness of C12_suffices_glwe_automorphism_add_refuted)
                (17, 68, 17, 34, 17, 51, 1, 1, 2, 1),      // result LONGER than the input and than the key (its tail is only partially produced)
                (17, 34, 17, 85, 17, 51, 2, 2, 2, 1),      // input longer than result and key
                (12, 36, 12, 48, 12, 60, 3, 3, 2, 2),      // rank 3
            ];
            for &(rb, rk, ab, ak, kb, kk, rin, rout, dnum, dsize) in ks {
                let mut ps = vec![be, n];
                ps.extend(&inf(rb, rk, rout, rout, 0, 1)); ps.extend(&inf(ab, ak, rin, rin, 0, 1)); ps.extend(&inf(kb, kk, rout, rin, dnum, dsize));
                if ok(106) { g.push(106, ps.clone(), dense_core, true); }
                if ok(120) {
                    // matrix forms: res / a are GGLWEs with 2 rows, rank_in 1, of the radix of `a` (res.base2k == a.base2k is required)
                    let mut pk = vec![be, n]; pk.extend(&inf(kb, kk, rout, rin, dnum, dsize));
                    g.push(120, pk, dense_core, true);
                    let mut pm = vec![be, n];
                    pm.extend(&inf(ab, ak + 2 * ab, rout, 1, 2, 1)); pm.extend(&inf(ab, ak + 2 * ab, rin, 1, 2, 1)); pm.extend(&inf(kb, kk, rout, rin, dnum, dsize));
                    g.push(122, pm, dense_core && n <= 16, true);
                }
                if rin == rout {
                    if ok(107) { g.push(107, ps.clone(), dense_core, true); }
                    if ok(110) {
                        g.push(110, ps.clone(), dense_core, true);
                        g.push(111, ps.clone(), dense_core, true);
                        let mut pt = ps.clone(); pt.push(0);
                        g.push(112, pt.clone(), dense_core && n <= 16, true);
                        g.push(119, pt, dense_core && n <= 16, true);
                    }
                    // external product: the GGSW has rank_in = rank
                    let mut pe = vec![be, n];
                    pe.extend(&inf(rb, rk, rout, rout, 0, 1)); pe.extend(&inf(ab, ak, rout, rout, 0, 1)); pe.extend(&inf(kb, kk, rout, rout, dnum, dsize));
                    if ok(108) {
                        g.push(108, pe.clone(), dense_core, true);
                        g.push(109, pe, dense_core, true);
                    }
                    if ok(121) {
                        let gg = inf(kb, kk, rout, rout, dnum, dsize);
                        let mut pg = vec![be, n]; pg.extend(&gg);
                        g.push(121, pg, dense_core, true);
                        let mut p3 = vec![be, n];
                        p3.extend(&inf(ab, ak + 2 * ab, rout, 1, 2, 1)); p3.extend(&inf(ab, ak + 2 * ab, rout, 1, 2, 1)); p3.extend(&gg);
                        g.push(123, p3, dense_core && n <= 16, true);
                        let mut p4 = vec![be, n];
                        p4.extend(&inf(ab, ak + 2 * ab, rout, rout, 2, 1)); p4.extend(&inf(ab, ak + 2 * ab, rout, rout, 2, 1)); p4.extend(&gg);
                        g.push(124, p4, dense_core && n <= 16, true);
                    }
                }
            }
            for &(rb, rk, ab, ak, bl, off) in &[(17i128, 34i128, 17i128, 34i128, 1i128, 0i128), (17, 51, 17, 34, 2, 17), (17, 51, 15, 45, 3, 40), (12, 36, 12, 36, 2, 0), (17, 17, 17, 51, 2, 5), (17, 85, 17, 34, 1, 0)] {
                let mut ps = vec![be, n];
                ps.extend(&inf(rb, rk, 1, 1, 0, 1)); ps.extend(&inf(ab, ak, 1, 1, 0, 1)); ps.push(bl); ps.push(off);
                if ok(116) { g.push(116, ps, dense_core, true); }
                // oracle-only (no take tree): glwe_mul_plain, glwe_tensor_apply
                if ok(125) {
                    let mut q = vec![be, n];
                    q.extend(&inf(rb, rk, 1, 1, 0, 1)); q.extend(&inf(ab, ak, 1, 1, 0, 1)); q.extend(&inf(ab, ak, 1, 1, 0, 1)); q.push(off);
                    g.push(125, q.clone(), dense_core, false);
                    g.push(126, q, dense_core, false);
                }
            }
        }
    }
    // random shapes on the reference backends
    let extra = if thorough { 400 } else { 60 };
    for _ in 0..extra {
        let be = rng.pick(&[1i128, 3]);
        let n = rng.pick(&[8i128, 16, 32]);
        let b2k = rng.range(8, 20) as i128;
        let rank = rng.range(1, 3) as i128;
        let dsize = rng.range(1, 3) as i128;
        let dnum = rng.range(1, 3) as i128;
        let size = dnum * dsize + rng.range(1, 2) as i128;
        let ab = if rng.below(2) == 0 { b2k } else { rng.range(8, 20) as i128 };
        let asz = rng.range(1, 5) as i128;
        let mut ps = vec![be, n];
        let rb = if rng.below(2) == 0 { b2k } else { rng.range(8, 20) as i128 };
        ps.extend(&inf(rb, rb * rng.range(1, 5) as i128 - rng.range(0, 3) as i128, rank, rank, 0, 1));
        ps.extend(&inf(ab, ab * asz - rng.range(0, 3) as i128, rank, rank, 0, 1));
        ps.extend(&inf(b2k, b2k * size, rank, rank, dnum, dsize));
        let op = rng.pick(&[106i64, 108, 111]);
        g.push(op, ps, true, true);
        let mut pg = vec![be, n]; pg.extend(&inf(b2k, b2k * size - rng.range(0, 5) as i128, rank, rank, 0, 1));
        g.push(rng.pick(&[103i64, 104, 105]), pg, true, true);
    }
    g.out
}

fn main() { poulpy_verif_harness::run_main(generate, exec) }
