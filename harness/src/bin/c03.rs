//! C03: key-switching family.  See ../ks_common.rs for the record layout.
//!
//! codes
//!   3001 glwe_keyswitch            3002 glwe_keyswitch_assign         (L1: output limbs reproduced by the model; L2 oracle)
//!   3090 key rows: a freshly encrypted GLWE switching key / automorphism key, row by row (key-row lemma on real keys)
//!
//! ps[18] = input value class, ps[19] = secret kinds (in*4+out)
#[path = "../ks_common.rs"]
#[macro_use]
mod ks_common;
use ks_common::*;
use poulpy_verif_harness::with_be;

fn run(r: &Rec) -> (Vec<Vec<i128>>, Vec<Vec<i128>>) {
    let h = Hdr::parse(&r.ps);
    let x = |i: usize| r.ps[HDR + i];
    with_be!(h.be, BE, {
        ks_helpers!(BE);
        let m: M = M::new(h.n as u64);
        let n = h.n;
        match r.code {
            3001 | 3002 => {
                // vs: 0 sk_in, 1 sk_out, 2 input ciphertext, 3 key dump  (all regenerated from the seed: vs is what the model reads)
                let a = glwe_from(n, h.in_b, h.in_size, h.in_rank, &r.vs[2]);
                let sk_in = sk_new(n, h.key_rin, h.seed ^ 1, (x(1) / 4) as u64);
                let sk_out = sk_new(n, h.key_rout, h.seed ^ 2, (x(1) % 4) as u64);
                let (_k, kp) = ksk_new(&m, &h, &sk_in, &sk_out, h.seed);
                let mut outs = Vec::new();
                for fill in [0x4330_0000_0000_0001i64, -0x0123_4567_89ab_cdefi64] {
                    if r.code == 3001 {
                        let lo = h.glwe_out();
                        let mut res = GLWE::alloc_from_infos(&lo);
                        res.data_mut().data.iter_mut().for_each(|b| *b = 0x5a);
                        let mut sc = scratch(m.glwe_keyswitch_tmp_bytes(&lo, &a, &kp), fill);
                        m.glwe_keyswitch(&mut res, &a, &kp, sc.borrow());
                        outs.push(glwe_dump(&res));
                    } else {
                        let mut res = a.clone();
                        let mut sc = scratch(m.glwe_keyswitch_tmp_bytes(&res, &res, &kp), fill);
                        m.glwe_keyswitch_assign(&mut res, &kp, sc.borrow());
                        outs.push(glwe_dump(&res));
                    }
                }
                let same = (outs[0] == outs[1]) as i128;
                (vec![vec![same]], vec![outs[0].clone()])
            }
            3090 => {
                // key rows: vs: 0 sk_in, 1 sk_out ; obs: key dump
                let p = x(0) as i64;
                let sk_in = sk_new(n, h.key_rin, h.seed ^ 1, (x(1) / 4) as u64);
                let dump = if p == 0 {
                    let sk_out = sk_new(n, h.key_rout, h.seed ^ 2, (x(1) % 4) as u64);
                    let (k, _kp) = ksk_new(&m, &h, &sk_in, &sk_out, h.seed);
                    mat_dump(|r_, c| k.at(r_, c), h.dnum, h.key_rin)
                } else {
                    let (k, _kp) = atk_new(&m, &h, &sk_in, p, h.seed);
                    mat_dump(|r_, c| k.at(r_, c), h.dnum, h.key_rin)
                };
                (vec![dump], vec![vec![1]])
            }
            _ => panic!("c03: unknown op {}", r.code),
        }
    })
}

pub fn exec(r: &Rec) -> (Vec<Vec<i128>>, Out) {
    let r2 = r.clone();
    match std::panic::catch_unwind(move || run(&r2)) {
        Ok((obs, out)) => (obs, Ok(out)),
        Err(p) => (vec![], Err(panic_class(p))),
    }
}

/// fill in the vectors that the model needs and that derive from the seed: secrets and key dump
fn complete(code: i64, mut h: Hdr, extra: Vec<i128>, input: Option<Vec<i128>>) -> Rec {
    h.nobs = 0;
    let ps = h.ps(&extra);
    with_be!(h.be, BE, {
        ks_helpers!(BE);
        let m: M = M::new(h.n as u64);
        let kinds = extra[1];
        let p = extra[0] as i64;
        let sk_in = sk_new(h.n, h.key_rin, h.seed ^ 1, (kinds / 4) as u64);
        let s_in = sk_coeffs(&m, &sk_in);
        let (s_out, dump) = if code == 3090 && p != 0 {
            (s_in.clone(), vec![])
        } else {
            let sk_out = sk_new(h.n, h.key_rout, h.seed ^ 2, (kinds % 4) as u64);
            let s_out = sk_coeffs(&m, &sk_out);
            let dump = if code == 3090 { vec![] } else { let (k, _kp) = ksk_new(&m, &h, &sk_in, &sk_out, h.seed); mat_dump(|r_, c| k.at(r_, c), h.dnum, h.key_rin) };
            (s_out, dump)
        };
        let mut vs = vec![s_in, s_out];
        if let Some(a) = input { vs.push(a); vs.push(dump); }
        Rec::new(code, ps, vs)
    })
}

pub fn generate(tier: &str, seed: u64) -> Vec<Rec> {
    let mut rng = Rng::new(seed);
    let mut out = Vec::new();
    let reps = if tier == "thorough" { 1500 } else { 260 };
    for it in 0..reps {
        let be = [1i128, 3, 2, 4][(it % 4) as usize];
        let n = [8usize, 8, 16, 32][rng.below(4) as usize];
        let fft = be <= 2;
        // radices: three-way mismatch in most cases; FFT64 stays inside its exact magnitude domain (2*b + log2(n*rows) + 2 <= 50)
        let key_b = if fft { rng.range(7, 17) } else { rng.range(7, 40) } as usize;
        let pick_b = |rng: &mut Rng| -> usize { match rng.below(3) { 0 => key_b, 1 => (key_b as i64 + rng.range(-3, 3)).max(4) as usize, _ => rng.range(5, if fft { 19 } else { 45 }) as usize } };
        let (in_b, out_b) = (pick_b(&mut rng), pick_b(&mut rng));
        let dsize = rng.range(1, 3) as usize + (rng.below(8) == 0) as usize;
        let in_size = rng.range(1, 6) as usize;
        // a_size after conversion to the key radix; dnum smaller / equal / larger than needed
        let a_conv = (in_size * in_b).div_ceil(key_b);
        let need = a_conv.div_ceil(dsize);
        let dnum = match rng.below(4) { 0 => need.saturating_sub(1).max(1), 1 => need + 1, _ => need.max(1) };
        let key_size = (dnum * dsize + rng.range(0, 2) as usize).max(dsize + 1);
        let key_k = key_size * key_b - rng.below(key_b as u64) as usize;
        let key_k = key_k.max(dnum * dsize * key_b).min(key_size * key_b);
        let out_size = rng.range(1, 6) as usize;
        let (rin, rout) = (rng.range(1, 3) as usize, rng.range(1, 3) as usize);
        let code = if it % 3 == 2 { 3002 } else { 3001 };
        let (rout, out_b, out_size) = if code == 3002 { (rin, in_b, in_size) } else { (rout, out_b, out_size) };
        let h = Hdr { be, n, nobs: 0, in_b, in_size, in_rank: rin, out_b, out_size, out_rank: rout,
                      key_b, key_size, key_rin: rin, key_rout: rout, dsize, dnum, key_k, bound: BOUND_XE, seed: rng.next() >> 8 };
        let class = rng.below(6);
        let kinds = (rng.below(3) * 4 + rng.below(3)) as i128;
        let a = digits(&mut rng, n * (rin + 1) * in_size, in_b, class);
        out.push(complete(code, h, vec![0, kinds, class as i128], Some(a)));
        if it % 4 == 0 {
            out.push(complete(3090, h, vec![0, kinds], None));
        }
    }
    out
}

fn main() { ks_main(generate, exec) }
