//! C03: key-switching family.  See ../ks_common.rs for the record layout.
//!
//! codes (x_i = ps[18+i]; x0 = Galois element / op parameter, x1 = secret kinds (in*4+out), x2 = input value class)
//!   3001 glwe_keyswitch   3002 glwe_keyswitch_assign        L1: output limbs reproduced by the model (+ L2 oracle)
//!   3003 gglwe_keyswitch  3004 gglwe_keyswitch_assign       x3 = rank_in of the GGLWE, x4 = its dnum, x5 = dnum of the result
//!   3007 lwe_keyswitch                                      x3 = n_lwe_in, x4 = n_lwe_out
//!   3010 glwe_automorphism 3011 _assign 3012 _add 3013 _add_assign 3014 _sub 3015 _sub_negate 3016 _sub_assign 3017 _sub_negate_assign
//!   3020 glwe_automorphism_key_automorphism 3021 _assign    x0 = p_a, x3 = p_b, x4 = dnum_a, x5 = k_noise_a, x6 = dnum_res
//!   3030 glwe_trace 3031 glwe_trace_assign                  x0 = skip
//!   3032 glwe_pack                                          x0 = log_gap_out, x3 = bit mask of the occupied slots
//!   3033 GLWEPacker (log_batch 0): N x glwe_packer_add, flush  x3 = bit mask of the calls that carry a ciphertext
//!   3040 lwe_from_glwe (x0 = coefficient index, x3 = n_lwe)  3041 glwe_from_lwe (x3 = n_lwe)  3042 lwe_sample_extract (x3 = n_lwe)
//!   3050 shape independence: one encrypted message switched through a grid of key shapes (x3 = k_pt, x4 = G, then 6 numbers per shape)
//!   3061 ggsw_from_gglwe 3062 ggsw_expand_row 3063 ggsw_keyswitch 3064 _assign 3065 ggsw_automorphism 3066 _assign  (tensor key from the
//!        public generator; layout as C04's 4021..4033: x4 dsize, x5 dnum, x6 noise position of the GGSW, x7.. second key; every cell checked)
//!   3091 rows of the GGLWE->GGSW (tensor) key: key i, row r, column j encrypts s_i s_j 2^-((r+1) dsize b)
//!   3090 key rows of a freshly encrypted GLWE switching key (x0 = 0) / automorphism key (x0 = p)
//! vs: 0 secret in, 1 secret out, 2 input ciphertext(s), 3 key dump (L1 records only) ; observations: outputs, then [flags]
#[path = "../ks_common.rs"]
#[macro_use]
mod ks_common;
use ks_common::*;
use poulpy_verif_harness::with_be;

fn run(r: &Rec) -> Ran {
    let h = Hdr::parse(&r.ps);
    let x = |i: usize| r.ps.get(HDR + i).copied().unwrap_or(0);
    with_be!(h.be, BE, {
        ks_helpers!(BE);
        let m: M = M::new(h.n as u64);
        let n = h.n;
        let (kin, kout, class) = ((x(1) / 4) as u64, (x(1) % 4) as u64, x(2) as u64);
        let mut g = Rng::new(h.seed ^ 0xA5A5);
        match r.code {
            3001 | 3002 => {
                let sk_in = sk_new(n, h.key_rin, h.seed ^ 1, kin);
                let sk_out = sk_new(n, h.key_rout, h.seed ^ 2, kout);
                let (k, kp) = ksk_new(&m, &h, &sk_in, &sk_out, h.seed);
                let av = input_or(r, 2, || digits(&mut g, n * (h.in_rank + 1) * h.in_size, h.in_b, class));
                let a = glwe_from(n, h.in_b, h.in_size, h.in_rank, &av);
                let vs = vec![sk_coeffs(&m, &sk_in), sk_coeffs(&m, &sk_out), av.clone(), mat_dump(|r_, c| k.at(r_, c), h.dnum, h.key_rin)];
                let code = r.code;
                (vs, try_op(|| {
                    let (o, same) = twice(|fill| {
                        if code == 3001 {
                            let lo = h.glwe_out();
                            let mut res = GLWE::alloc_from_infos(&lo);
                            res.data_mut().data.iter_mut().for_each(|b| *b = 0x5a);
                            let mut sc = scratch(m.glwe_keyswitch_tmp_bytes(&lo, &a, &kp), fill);
                            m.glwe_keyswitch(&mut res, &a, &kp, sc.borrow());
                            vec![glwe_dump(&res)]
                        } else {
                            let mut res = a.clone();
                            let mut sc = scratch(m.glwe_keyswitch_tmp_bytes(&res, &res, &kp), fill);
                            m.glwe_keyswitch_assign(&mut res, &kp, sc.borrow());
                            vec![glwe_dump(&res)]
                        }
                    });
                    // supporting evidence: measured standard deviation of the added noise vs the library's own formula
                    let mut fl = vec![same];
                    if code == 3001 {
                        let (li, lo) = (h.glwe_in(), h.glwe_out());
                        let (skpi, skpo) = (sk_prep(&m, &sk_in), sk_prep(&m, &sk_out));
                        let mut sc = setup(m.glwe_decrypt_tmp_bytes(&li).max(m.glwe_noise_tmp_bytes(&lo)).max(m.glwe_normalize_tmp_bytes()));
                        let mut pt_in = GLWEPlaintext::alloc_from_infos(&li);
                        m.glwe_decrypt(&a, &mut pt_in, &skpi, sc.borrow());
                        let mut pt_out = GLWEPlaintext::alloc_from_infos(&lo);
                        m.glwe_normalize(&mut pt_out, &pt_in, sc.borrow());
                        let res = glwe_from(n, h.out_b, h.out_size, h.out_rank, &o[0]);
                        let std = m.glwe_noise(&res, &pt_out, &skpo, sc.borrow()).std();
                        let var_xs = if kin == 1 { 0.25 } else { 0.5 };
                        let sig2 = DEFAULT_SIGMA_XE * DEFAULT_SIGMA_XE;
                        let rows = (h.in_size * h.in_b).div_ceil(h.key_b).div_ceil(h.dsize).min(h.dnum);
                        let mut var = var_noise_gglwe_product_v2(n as f64, h.key_k, rows, h.dsize, h.key_b, var_xs, 0.0, 0.0, sig2, 0.0, h.key_rin as f64);
                        // rounding of the result to its own precision (not part of the library formula)
                        let vso = if kout == 1 { 0.5 } else { 0.5 };
                        var += (1.0 + (h.out_rank * n) as f64 * vso) * (-2.0 * (h.out_size * h.out_b) as f64).exp2() / 12.0;
                        let full = (rows * h.dsize * h.key_b >= h.in_size * h.in_b) && h.dsize <= 2 && class <= 1;
                        fl.extend([(1000.0 * std.max(1e-300).log2()) as i128, (1000.0 * var.sqrt().log2()) as i128, full as i128]);
                    }
                    (vec![fl], o)
                }))
            }
            3003 | 3004 => {
                let (a_rin, a_dnum, r_dnum) = (us(x(3)), us(x(4)), us(x(5)));
                let sk_in = sk_new(n, h.key_rin, h.seed ^ 1, kin);
                let sk_out = sk_new(n, h.key_rout, h.seed ^ 2, kout);
                let (_k, kp) = ksk_new(&m, &h, &sk_in, &sk_out, h.seed);
                let la = GGLWELayout { n: Degree(n as u32), base2k: Base2K(h.in_b as u32), k: TorusPrecision((h.in_size * h.in_b) as u32),
                                       rank_in: Rank(a_rin as u32), rank_out: Rank(h.key_rin as u32), dnum: Dnum(a_dnum as u32), dsize: Dsize(1) };
                let lr = GGLWELayout { n: Degree(n as u32), base2k: Base2K(h.out_b as u32), k: TorusPrecision((h.out_size * h.out_b) as u32),
                                       rank_in: Rank(a_rin as u32), rank_out: Rank(h.key_rout as u32), dnum: Dnum(r_dnum as u32), dsize: Dsize(1) };
                let cell = n * (h.in_rank + 1) * h.in_size;
                let av = input_or(r, 2, || digits(&mut g, cell * a_dnum * a_rin, h.in_b, class));
                let mut a = GGLWE::alloc_from_infos(&la);
                for row in 0..a_dnum { for ci in 0..a_rin { let q = row * a_rin + ci; glwe_fill(&mut a.at_mut(row, ci), &av[q * cell..(q + 1) * cell]); } }
                let vs = vec![sk_coeffs(&m, &sk_in), sk_coeffs(&m, &sk_out), av.clone(), vec![]];
                let code = r.code;
                (vs, try_op(|| {
                    let (mut o, same) = twice(|fill| {
                        if code == 3003 {
                            let mut res = GGLWE::alloc_from_infos(&lr);
                            let mut sc = scratch(m.gglwe_keyswitch_tmp_bytes(&lr, &la, &kp), fill);
                            m.gglwe_keyswitch(&mut res, &a, &kp, sc.borrow());
                            vec![mat_dump(|r_, c| res.at(r_, c), r_dnum, a_rin)]
                        } else {
                            let mut res = a.clone();
                            let mut sc = scratch(m.gglwe_keyswitch_tmp_bytes(&la, &la, &kp), fill);
                            m.gglwe_keyswitch_assign(&mut res, &kp, sc.borrow());
                            vec![mat_dump(|r_, c| res.at(r_, c), a_dnum, a_rin)]
                        }
                    });
                    o.push(vec![same]);
                    (o, vec![vec![1]])
                }))
            }
            3007 => {
                let (nl_in, nl_out) = (us(x(3)), us(x(4)));
                let (ski, sko) = (lwe_sk_new(nl_in, h.seed ^ 1), lwe_sk_new(nl_out, h.seed ^ 2));
                let lk = LWESwitchingKeyLayout { n: Degree(n as u32), base2k: Base2K(h.key_b as u32), k: TorusPrecision((h.key_size * h.key_b) as u32), dnum: Dnum(h.dnum as u32) };
                let mut k = LWESwitchingKey::alloc_from_infos(&lk);
                let mut sc0 = setup(m.lwe_switching_key_encrypt_sk_tmp_bytes(&lk).max(m.gglwe_prepare_tmp_bytes(&lk)));
                m.lwe_switching_key_encrypt_sk(&mut k, &ski, &sko, &h.noise(), &mut src(h.seed ^ 0x51), &mut src(h.seed ^ 0x52), sc0.borrow());
                let mut kp = m.lwe_switching_key_prepared_alloc_from_infos(&k);
                m.lwe_switching_key_prepare(&mut kp, &k, sc0.borrow());
                let av = input_or(r, 2, || digits(&mut g, (nl_in + 1) * h.in_size, h.in_b, class));
                let a = lwe_from(nl_in, h.in_b, h.in_size, &av);
                let vs = vec![lwe_sk_coeffs(&ski), lwe_sk_coeffs(&sko), av.clone(), vec![]];
                (vs, try_op(|| {
                    let (mut o, same) = twice(|fill| {
                        let mut res = LWE::alloc(Degree(nl_out as u32), Base2K(h.out_b as u32), TorusPrecision((h.out_size * h.out_b) as u32));
                        let mut sc = scratch(m.lwe_keyswitch_tmp_bytes(&res, &a, &kp), fill);
                        m.lwe_keyswitch(&mut res, &a, &kp, sc.borrow());
                        vec![lwe_dump(&res)]
                    });
                    o.push(vec![same]);
                    (o, vec![vec![1]])
                }))
            }
            3010..=3017 => {
                let p = x(0) as i64;
                let sk = sk_new(n, h.key_rin, h.seed ^ 1, kin);
                let (_k, kp) = atk_new(&m, &h, &sk, p, h.seed);
                let av = input_or(r, 2, || digits(&mut g, n * (h.in_rank + 1) * h.in_size, h.in_b, class));
                let a = glwe_from(n, h.in_b, h.in_size, h.in_rank, &av);
                let s = sk_coeffs(&m, &sk);
                let vs = vec![s.clone(), s, av.clone(), vec![]];
                let code = r.code;
                (vs, try_op(|| {
                    let (mut o, same) = twice(|fill| {
                        let lo = h.glwe_out();
                        let inplace = matches!(code, 3011 | 3013 | 3016 | 3017);
                        let mut res = if inplace { a.clone() } else { let mut t = GLWE::alloc_from_infos(&lo); t.data_mut().data.iter_mut().for_each(|b| *b = 0x5a); t };
                        let need = if inplace { m.glwe_automorphism_tmp_bytes(&res, &res, &kp) } else { m.glwe_automorphism_tmp_bytes(&lo, &a, &kp) };
                        let mut sc = scratch(need, fill);
                        match code {
                            3010 => m.glwe_automorphism(&mut res, &a, &kp, sc.borrow()),
                            3011 => m.glwe_automorphism_assign(&mut res, &kp, sc.borrow()),
                            3012 => m.glwe_automorphism_add(&mut res, &a, &kp, sc.borrow()),
                            3013 => m.glwe_automorphism_add_assign(&mut res, &kp, sc.borrow()),
                            3014 => m.glwe_automorphism_sub(&mut res, &a, &kp, sc.borrow()),
                            3015 => m.glwe_automorphism_sub_negate(&mut res, &a, &kp, sc.borrow()),
                            3016 => m.glwe_automorphism_sub_assign(&mut res, &kp, sc.borrow()),
                            _ => m.glwe_automorphism_sub_negate_assign(&mut res, &kp, sc.borrow()),
                        }
                        vec![glwe_dump(&res)]
                    });
                    o.push(vec![same]);
                    (o, vec![vec![1]])
                }))
            }
            3020 | 3021 => {
                let (pa, pb, dnum_a, k_a, dnum_r) = (x(0) as i64, x(3) as i64, us(x(4)), us(x(5)), us(x(6)));
                let sk = sk_new(n, h.key_rin, h.seed ^ 1, kin);
                let (_kb, kbp) = atk_new(&m, &h, &sk, pb, h.seed);
                // the key that is transformed: automorphism key for p_a in the "input" layout
                let la = GGLWELayout { n: Degree(n as u32), base2k: Base2K(h.in_b as u32), k: TorusPrecision((h.in_size * h.in_b) as u32),
                                       rank_in: Rank(h.in_rank as u32), rank_out: Rank(h.in_rank as u32), dnum: Dnum(dnum_a as u32), dsize: Dsize(1) };
                let lr = GGLWELayout { n: Degree(n as u32), base2k: Base2K(h.out_b as u32), k: TorusPrecision((h.out_size * h.out_b) as u32),
                                       rank_in: Rank(h.in_rank as u32), rank_out: Rank(h.in_rank as u32), dnum: Dnum(dnum_r as u32), dsize: Dsize(1) };
                let mut ka = GLWEAutomorphismKey::alloc_from_infos(&la);
                let noise_a = NoiseInfos::new(k_a, DEFAULT_SIGMA_XE, 6.0 * DEFAULT_SIGMA_XE).unwrap();
                let mut sc0 = setup(m.glwe_automorphism_key_encrypt_sk_tmp_bytes(&la));
                m.glwe_automorphism_key_encrypt_sk(&mut ka, pa, &sk, &noise_a, &mut src(h.seed ^ 0x71), &mut src(h.seed ^ 0x72), sc0.borrow());
                let s = sk_coeffs(&m, &sk);
                let vs = vec![s.clone(), s, mat_dump(|r_, c| ka.at(r_, c), dnum_a, h.in_rank), vec![]];
                let code = r.code;
                (vs, try_op(|| {
                    let (mut o, same) = twice(|fill| {
                        if code == 3020 {
                            let mut res = GLWEAutomorphismKey::alloc_from_infos(&lr);
                            let mut sc = scratch(m.glwe_automorphism_key_automorphism_tmp_bytes(&lr, &la, &kbp), fill);
                            m.glwe_automorphism_key_automorphism(&mut res, &ka, &kbp, sc.borrow());
                            vec![mat_dump(|r_, c| res.at(r_, c), dnum_r, h.in_rank), vec![res.p() as i128]]
                        } else {
                            let mut res = ka.clone();
                            let mut sc = scratch(m.glwe_automorphism_key_automorphism_tmp_bytes(&la, &la, &kbp), fill);
                            m.glwe_automorphism_key_automorphism_assign(&mut res, &kbp, sc.borrow());
                            vec![mat_dump(|r_, c| res.at(r_, c), dnum_a, h.in_rank), vec![res.p() as i128]]
                        }
                    });
                    o.push(vec![same]);
                    (o, vec![vec![1]])
                }))
            }
            3030 | 3031 => {
                let skip = us(x(0));
                let sk = sk_new(n, h.key_rin, h.seed ^ 1, kin);
                let keys = atk_map(&m, &h, &sk, h.seed);
                let av = input_or(r, 2, || digits(&mut g, n * (h.in_rank + 1) * h.in_size, h.in_b, class));
                let a = glwe_from(n, h.in_b, h.in_size, h.in_rank, &av);
                let s = sk_coeffs(&m, &sk);
                let vs = vec![s.clone(), s, av.clone(), vec![]];
                let code = r.code;
                let lk = h.gglwe();
                (vs, try_op(|| {
                    let (mut o, same) = twice(|fill| {
                        if code == 3030 {
                            let lo = h.glwe_out();
                            let mut res = GLWE::alloc_from_infos(&lo);
                            let mut sc = scratch(m.glwe_trace_tmp_bytes(&lo, &a, &lk), fill);
                            m.glwe_trace(&mut res, skip, &a, &keys, sc.borrow());
                            vec![glwe_dump(&res)]
                        } else {
                            let mut res = a.clone();
                            let mut sc = scratch(m.glwe_trace_tmp_bytes(&res, &res, &lk), fill);
                            m.glwe_trace_assign(&mut res, skip, &keys, sc.borrow());
                            vec![glwe_dump(&res)]
                        }
                    });
                    o.push(vec![same]);
                    (o, vec![vec![1]])
                }))
            }
            3032 => {
                let (log_gap, mask) = (us(x(0)), x(3) as u64);
                let sk = sk_new(n, h.key_rin, h.seed ^ 1, kin);
                let keys = atk_map(&m, &h, &sk, h.seed);
                let slots: Vec<usize> = (0..n).filter(|i| (mask >> i) & 1 == 1).collect();
                let cell = n * (h.in_rank + 1) * h.in_size;
                let av = input_or(r, 2, || digits(&mut g, cell * slots.len(), h.in_b, class));
                let s = sk_coeffs(&m, &sk);
                let vs = vec![s.clone(), s, av.clone(), vec![]];
                let lk = h.gglwe();
                (vs, try_op(|| {
                    let (mut o, same) = twice(|fill| {
                        let mut cts: Vec<GLWE<Vec<u8>>> = (0..slots.len()).map(|i| glwe_from(n, h.in_b, h.in_size, h.in_rank, &av[i * cell..(i + 1) * cell])).collect();
                        let mut map: HashMap<usize, &mut GLWE<Vec<u8>>> = HashMap::new();
                        for (ct, i) in cts.iter_mut().zip(slots.iter()) { map.insert(*i, ct); }
                        let lo = h.glwe_out();
                        let mut res = GLWE::alloc_from_infos(&lo);
                        let mut sc = scratch(m.glwe_pack_tmp_bytes(&lo, &lk), fill);
                        m.glwe_pack(&mut res, map, log_gap, &keys, sc.borrow());
                        vec![glwe_dump(&res)]
                    });
                    o.push(vec![same]);
                    (o, vec![vec![1]])
                }))
            }
            3033 => {
                // GLWEPacker, log_batch = 0: N calls to glwe_packer_add (Some for the occupied slots), then flush
                let mask = x(3) as u64;
                let sk = sk_new(n, h.key_rin, h.seed ^ 1, kin);
                let keys = atk_map(&m, &h, &sk, h.seed);
                let slots: Vec<usize> = (0..n).filter(|i| (mask >> i) & 1 == 1).collect();
                let cell = n * (h.in_rank + 1) * h.in_size;
                let av = input_or(r, 2, || digits(&mut g, cell * slots.len(), h.in_b, class));
                let s = sk_coeffs(&m, &sk);
                let vs = vec![s.clone(), s, av.clone(), vec![]];
                let lk = h.gglwe();
                (vs, try_op(|| {
                    let (mut o, same) = twice(|fill| {
                        // the accumulators have the layout of the result; the inputs their own
                        let lo = h.glwe_out();
                        let mut packer = poulpy_core::GLWEPacker::alloc(&lo, 0);
                        let mut sc = scratch(poulpy_core::glwe_packer_tmp_bytes(&m, &lo, &lk), fill);
                        let mut k = 0usize;
                        for i in 0..n {
                            if (mask >> i) & 1 == 1 {
                                let ct = glwe_from(n, h.in_b, h.in_size, h.in_rank, &av[k * cell..(k + 1) * cell]);
                                k += 1;
                                poulpy_core::glwe_packer_add(&m, &mut packer, Some(&ct), &keys, sc.borrow());
                            } else {
                                poulpy_core::glwe_packer_add(&m, &mut packer, None::<&GLWE<Vec<u8>>>, &keys, sc.borrow());
                            }
                        }
                        let mut res = GLWE::alloc_from_infos(&lo);
                        poulpy_core::glwe_packer_flush(&m, &mut packer, &mut res, sc.borrow());
                        vec![glwe_dump(&res)]
                    });
                    o.push(vec![same]);
                    (o, vec![vec![1]])
                }))
            }
            3040 => {
                let (idx, nl) = (us(x(0)), us(x(3)));
                let sk = sk_new(n, h.key_rin, h.seed ^ 1, kin);
                let skl = lwe_sk_new(nl, h.seed ^ 2);
                let lk = GLWEToLWEKeyLayout { n: Degree(n as u32), base2k: Base2K(h.key_b as u32), k: TorusPrecision((h.key_size * h.key_b) as u32),
                                              rank_in: Rank(h.key_rin as u32), dnum: Dnum(h.dnum as u32) };
                let mut k = GLWEToLWEKey::alloc_from_infos(&lk);
                let mut sc0 = setup(m.glwe_to_lwe_key_encrypt_sk_tmp_bytes(&lk).max(m.gglwe_prepare_tmp_bytes(&lk)));
                m.glwe_to_lwe_key_encrypt_sk(&mut k, &skl, &sk, &h.noise(), &mut src(h.seed ^ 0x51), &mut src(h.seed ^ 0x52), sc0.borrow());
                let mut kp = m.glwe_to_lwe_key_prepared_alloc_from_infos(&k);
                m.glwe_to_lwe_key_prepare(&mut kp, &k, sc0.borrow());
                let av = input_or(r, 2, || digits(&mut g, n * (h.in_rank + 1) * h.in_size, h.in_b, class));
                let a = glwe_from(n, h.in_b, h.in_size, h.in_rank, &av);
                let vs = vec![sk_coeffs(&m, &sk), lwe_sk_coeffs(&skl), av.clone(), vec![]];
                (vs, try_op(|| {
                    let (mut o, same) = twice(|fill| {
                        let mut res = LWE::alloc(Degree(nl as u32), Base2K(h.out_b as u32), TorusPrecision((h.out_size * h.out_b) as u32));
                        let mut sc = scratch(m.lwe_from_glwe_tmp_bytes(&res, &a, &kp), fill);
                        m.lwe_from_glwe(&mut res, &a, idx, &kp, sc.borrow());
                        vec![lwe_dump(&res)]
                    });
                    o.push(vec![same]);
                    (o, vec![vec![1]])
                }))
            }
            3041 => {
                let nl = us(x(3));
                let sk = sk_new(n, h.key_rout, h.seed ^ 1, kout);
                let skp = sk_prep(&m, &sk);
                let skl = lwe_sk_new(nl, h.seed ^ 2);
                let lk = LWEToGLWEKeyLayout { n: Degree(n as u32), base2k: Base2K(h.key_b as u32), k: TorusPrecision((h.key_size * h.key_b) as u32),
                                              rank_out: Rank(h.key_rout as u32), dnum: Dnum(h.dnum as u32) };
                let mut k = LWEToGLWEKey::alloc_from_infos(&lk);
                let mut sc0 = setup(m.lwe_to_glwe_key_encrypt_sk_tmp_bytes(&lk).max(m.gglwe_prepare_tmp_bytes(&lk)));
                m.lwe_to_glwe_key_encrypt_sk(&mut k, &skl, &skp, &h.noise(), &mut src(h.seed ^ 0x51), &mut src(h.seed ^ 0x52), sc0.borrow());
                let mut kp = m.lwe_to_glwe_key_prepared_alloc_from_infos(&k);
                m.lwe_to_glwe_key_prepare(&mut kp, &k, sc0.borrow());
                let av = input_or(r, 2, || digits(&mut g, (nl + 1) * h.in_size, h.in_b, class));
                let a = lwe_from(nl, h.in_b, h.in_size, &av);
                let vs = vec![lwe_sk_coeffs(&skl), sk_coeffs(&m, &sk), av.clone(), vec![]];
                (vs, try_op(|| {
                    let (mut o, same) = twice(|fill| {
                        let lo = h.glwe_out();
                        let mut res = GLWE::alloc_from_infos(&lo);
                        let mut sc = scratch(m.glwe_from_lwe_tmp_bytes(&lo, &a, &kp), fill);
                        m.glwe_from_lwe(&mut res, &a, &kp, sc.borrow());
                        vec![glwe_dump(&res)]
                    });
                    o.push(vec![same]);
                    (o, vec![vec![1]])
                }))
            }
            3042 => {
                let nl = us(x(3));
                let s: Vec<i128> = (0..nl).map(|_| g.range(-1, 1) as i128).collect();
                let av = input_or(r, 2, || digits(&mut g, n * 2 * h.in_size, h.in_b, class));
                let a = glwe_from(n, h.in_b, h.in_size, 1, &av);
                let vs = vec![s, vec![], av.clone(), vec![]];
                (vs, try_op(|| {
                    let mut res = LWE::alloc(Degree(nl as u32), Base2K(h.out_b as u32), TorusPrecision((h.out_size * h.out_b) as u32));
                    m.lwe_sample_extract(&mut res, &a);
                    (vec![lwe_dump(&res), vec![1]], vec![vec![1]])
                }))
            }
            3050 => {
                // one message, one pair of secrets, a grid of gadget shapes
                let (k_pt, gn) = (us(x(3)), us(x(4)));
                let sk_in = sk_new(n, h.key_rin, h.seed ^ 1, kin);
                let sk_out = sk_new(n, h.key_rout, h.seed ^ 2, kout);
                let msg: Vec<i128> = input_or(r, 2, || (0..n).map(|_| g.range(-(1 << (k_pt - 1)), (1 << (k_pt - 1)) - 1) as i128).collect());
                // encode at the top k_pt bits of the first limbs and encrypt with noise at the input precision
                let li = h.glwe_in();
                let mut pt = GLWEPlaintext::alloc_from_infos(&li);
                pt.encode_vec_i64(&v64(&msg), TorusPrecision(k_pt as u32));
                let mut a = GLWE::alloc_from_infos(&li);
                let skp = sk_prep(&m, &sk_in);
                let noise = NoiseInfos::new(h.in_size * h.in_b, DEFAULT_SIGMA_XE, 6.0 * DEFAULT_SIGMA_XE).unwrap();
                let mut sc0 = setup(m.glwe_encrypt_sk_tmp_bytes(&li));
                m.glwe_encrypt_sk(&mut a, &pt, &skp, &noise, &mut src(h.seed ^ 0x62), &mut src(h.seed ^ 0x63), sc0.borrow());
                let vs = vec![sk_coeffs(&m, &sk_in), sk_coeffs(&m, &sk_out), msg.clone(), glwe_dump(&a)];
                (vs, try_op(|| {
                    let mut o = Vec::new();
                    for gi in 0..gn {
                        let q = |j: usize| us(x(5 + 6 * gi + j));
                        let mut hg = h;
                        hg.key_b = q(0); hg.dsize = q(1); hg.dnum = q(2); hg.key_size = q(3); hg.out_b = q(4); hg.out_size = q(5);
                        hg.key_k = hg.key_size * hg.key_b;
                        let (_k, kp) = ksk_new(&m, &hg, &sk_in, &sk_out, h.seed.wrapping_add(gi as u64));
                        let lo = hg.glwe_out();
                        let mut res = GLWE::alloc_from_infos(&lo);
                        let mut sc = scratch(m.glwe_keyswitch_tmp_bytes(&lo, &a, &kp), 0x4330_0000_0000_0001i64);
                        m.glwe_keyswitch(&mut res, &a, &kp, sc.borrow());
                        o.push(glwe_dump(&res));
                    }
                    (o, vec![vec![1]])
                }))
            }
            // GGSW key-switch family (C03 names it): same code as C04's records, C03 numbering
            3061..=3066 | 3091 => {
                let code4 = match r.code { 3061 => 4021, 3062 => 4022, 3063 => 4030, 3064 => 4031, 3065 => 4032, 3066 => 4033, _ => 4023 };
                run_ggsw_family(r, code4)
            }
            3090 => {
                let p = x(0) as i64;
                let sk_in = sk_new(n, h.key_rin, h.seed ^ 1, kin);
                if p == 0 {
                    let sk_out = sk_new(n, h.key_rout, h.seed ^ 2, kout);
                    let vs = vec![sk_coeffs(&m, &sk_in), sk_coeffs(&m, &sk_out)];
                    (vs, try_op(|| { let (k, _kp) = ksk_new(&m, &h, &sk_in, &sk_out, h.seed); (vec![mat_dump(|r_, c| k.at(r_, c), h.dnum, h.key_rin)], vec![vec![1]]) }))
                } else {
                    let s = sk_coeffs(&m, &sk_in);
                    let vs = vec![s.clone(), s];
                    (vs, try_op(|| { let (k, _kp) = atk_new(&m, &h, &sk_in, p, h.seed); (vec![mat_dump(|r_, c| k.at(r_, c), h.dnum, h.key_rin)], vec![vec![1]]) }))
                }
            }
            _ => panic!("c03: unknown op {}", r.code),
        }
    })
}

fn has_flags(c: i64) -> bool { !matches!(c, 3042 | 3050 | 3090 | 3091) }
pub fn exec(r: &Rec) -> Ran { exec_xbe(r, run, has_flags) }

/// a gadget shape for an input of `in_size` limbs of radix `in_b`: (key_b, dsize, dnum, key_size, key_k)
fn shape(rng: &mut Rng, fft: bool, in_b: usize, in_size: usize, max_dsize: usize) -> (usize, usize, usize, usize, usize) {
    let key_b = match rng.below(3) { 0 => in_b.min(if fft { 17 } else { 40 }), _ => (if fft { rng.range(7, 17) } else { rng.range(7, 40) }) as usize };
    let dsize = (rng.range(1, 3) as usize + (rng.below(8) == 0) as usize).min(max_dsize);
    let a_conv = (in_size * in_b).div_ceil(key_b);
    let need = a_conv.div_ceil(dsize);
    let dnum = match rng.below(4) { 0 => need.saturating_sub(1).max(1), 1 => need + 1, _ => need.max(1) };
    let key_size = (dnum * dsize + rng.range(0, 2) as usize).max(dsize + 1);
    let key_k = (key_size * key_b - rng.below(key_b as u64) as usize).max(dnum * dsize * key_b).min(key_size * key_b);
    (key_b, dsize, dnum, key_size, key_k)
}

pub fn generate(tier: &str, seed: u64) -> Vec<Rec> {
    let mut rng = Rng::new(seed);
    let mut out = Vec::new();
    let thorough = tier == "thorough";
    let scale = if thorough { 6 } else { 1 };
    let mk = |code: i64, h: &Hdr, extra: Vec<i128>| Rec::new(code, h.ps(&extra), vec![]);
    let pick_b = |rng: &mut Rng, fft: bool, key_b: usize| -> usize {
        match rng.below(3) { 0 => key_b, 1 => (key_b as i64 + rng.range(-3, 3)).max(4) as usize, _ => rng.range(5, if fft { 19 } else { 45 }) as usize } };
    let base = |rng: &mut Rng, it: u64, max_dsize: usize, same_rank: bool| -> Hdr {
        let be = [1i128, 3, 2, 4][(it % 4) as usize];
        let n = [8usize, 8, 16, 32][rng.below(4) as usize];
        let fft = be <= 2;
        let in_b = rng.range(6, if fft { 17 } else { 40 }) as usize;
        let in_size = rng.range(1, 6) as usize;
        let (key_b, dsize, dnum, key_size, key_k) = shape(rng, fft, in_b, in_size, max_dsize);
        let out_b = pick_b(rng, fft, key_b);
        let out_size = rng.range(1, 6) as usize;
        let rin = rng.range(1, 3) as usize;
        let rout = if same_rank { rin } else { rng.range(1, 3) as usize };
        Hdr { be, n, nobs: 0, in_b, in_size, in_rank: rin, out_b, out_size, out_rank: rout,
              key_b, key_size, key_rin: rin, key_rout: rout, dsize, dnum, key_k, bound: BOUND_XE, seed: rng.next() >> 8 }
    };
    let kinds = |rng: &mut Rng| (rng.below(3) * 4 + rng.below(3)) as i128;

    // --- glwe_keyswitch(_assign): L1 + L2, and key rows
    for it in 0..260 * scale {
        let mut h = base(&mut rng, it, 4, false);
        let code = if it % 3 == 2 { 3002 } else { 3001 };
        if code == 3002 { h.out_rank = h.in_rank; h.key_rout = h.in_rank; h.out_b = h.in_b; h.out_size = h.in_size; }
        let (k, c) = (kinds(&mut rng), rng.below(6) as i128);
        out.push(mk(code, &h, vec![0, k, c]));
        if it % 4 == 0 { out.push(mk(3090, &h, vec![0, k])); }
    }
    // --- automorphism variants: every Galois element of (Z/2NZ)* for N <= 32, each with the plain automorphism (out of place / in place
    //     alternating) and one of the six add / sub variants
    for n in [8usize, 16, 32] {
        for (gi, p) in (1..2 * n as i64).step_by(2).enumerate() {
            for rep in 0..(2 * scale) {
                let it = (gi as u64) + rep;
                let mut h = base(&mut rng, it, 4, true);
                h.n = n;
                let code = if rep % 2 == 0 { 3010 + ((gi as i64 + (rep as i64) / 2) % 2) } else { 3012 + ((gi as i64 + (rep as i64) / 2) % 6) };
                if matches!(code, 3011 | 3013 | 3016 | 3017) { h.out_b = h.in_b; h.out_size = h.in_size; }
                let pp = if rng.below(2) == 0 { p } else { p - 2 * n as i64 };
                let (k, c) = (kinds(&mut rng), rng.below(6) as i128);
                out.push(mk(code, &h, vec![pp as i128, k, c]));
                if gi % 4 == 0 && rep == 0 { out.push(mk(3090, &h, vec![pp as i128, k])); }
            }
        }
    }
    // --- gglwe key-switch
    for it in 0..24 * scale {
        let mut h = base(&mut rng, it, 3, false);
        h.in_size = h.in_size.max(2); h.out_b = h.in_b; h.out_size = h.out_size.max(2);
        let code = if it % 3 == 2 { 3004 } else { 3003 };
        if code == 3004 { h.out_rank = h.in_rank; h.key_rout = h.in_rank; h.out_size = h.in_size; }
        let a_dnum = rng.range(1, h.in_size as i64) as usize;
        let r_dnum = rng.range(1, a_dnum.min(h.out_size) as i64) as usize;
        let (k, c) = (kinds(&mut rng), rng.below(6) as i128);
        out.push(mk(code, &h, vec![0, k, c, rng.range(1, 2) as i128, a_dnum as i128, r_dnum as i128]));
    }
    // --- automorphism of automorphism keys
    for it in 0..16 * scale {
        let mut h = base(&mut rng, it, 3, true);
        h.in_size = h.in_size.max(2); h.out_b = h.in_b; h.out_size = h.out_size.max(2);
        let code = if it % 2 == 1 { 3021 } else { 3020 };
        if code == 3021 { h.out_size = h.in_size; }
        let dnum_a = rng.range(1, h.in_size as i64) as usize;
        let dnum_r = rng.range(1, dnum_a.min(h.out_size) as i64) as usize;
        let pa = 2 * rng.below(h.n as u64) as i128 + 1; let pb = 2 * rng.below(h.n as u64) as i128 + 1;
        let k_a = h.in_size * h.in_b;
        out.push(mk(code, &h, vec![pa, kinds(&mut rng), 0, pb, dnum_a as i128, k_a as i128, dnum_r as i128]));
    }
    // --- trace from every start level, out of place and in place
    for n in [8usize, 16, 32] {
        let logn = n.trailing_zeros() as usize;
        for skip in 0..=logn { for rep in 0..(2 * scale) {
            let mut h = base(&mut rng, (skip as u64) * 2 + rep, 4, true);
            h.n = n;
            let code = if rep % 2 == 0 { 3030 } else { 3031 };
            if code == 3031 { h.out_b = h.in_b; h.out_size = h.in_size; }
            out.push(mk(code, &h, vec![skip as i128, kinds(&mut rng), rng.below(6) as i128]));
        } }
    }
    // --- packing: slot subsets for N <= 16 (all subsets of a small window + random subsets), every log_gap_out
    for n in [8usize, 16] {
        let logn = n.trailing_zeros() as usize;
        for it in 0..(14 * scale) {
            let mut h = base(&mut rng, it, 2, true);
            // glwe_pack_tmp_bytes(res, key) is sized for inputs that have the layout of the result: inputs no larger than it
            h.n = n; h.out_b = h.in_b; h.in_size = h.in_size.min(h.out_size);
            let log_gap = (it as usize) % (logn + 1);
            let mask: u64 = match it % 4 { 0 => (1u64 << n) - 1, 1 => 1, _ => (rng.next() & ((1u64 << n) - 1)) | 1 };
            out.push(mk(3032, &h, vec![log_gap as i128, kinds(&mut rng), rng.below(6) as i128, mask as i128]));
        }
    }
    // --- on-the-fly packer (bit-reversed output), log_batch = 0
    for n in [8usize, 16] {
        for it in 0..(6 * scale) {
            let mut h = base(&mut rng, it, 2, true);
            h.n = n;
            let mask: u64 = match it % 3 { 0 => (1u64 << n) - 1, _ => (rng.next() & ((1u64 << n) - 1)) | 1 };
            if it % 2 == 0 { h.in_b = h.out_b; }
            out.push(mk(3033, &h, vec![0, kinds(&mut rng), rng.below(6) as i128, mask as i128]));
        }
    }
    // --- LWE key-switch and conversions, every extraction index for N = 8, 16
    for it in 0..20 * scale {
        let mut h = base(&mut rng, it, 1, true);
        h.in_rank = 1; h.out_rank = 1; h.key_rin = 1; h.key_rout = 1;
        let (nl_in, nl_out) = (rng.range(1, h.n as i64) as i128, rng.range(1, h.n as i64) as i128);
        out.push(mk(3007, &h, vec![0, 0, rng.below(6) as i128, nl_in, nl_out]));
    }
    for n in [8usize, 16] { for idx in 0..n {
        let mut h = base(&mut rng, idx as u64, 1, false);
        h.n = n; h.out_rank = 1; h.key_rout = 1;
        out.push(mk(3040, &h, vec![idx as i128, kinds(&mut rng), rng.below(6) as i128, rng.range(1, n as i64) as i128]));
    } }
    for it in 0..16 * scale {
        let mut h = base(&mut rng, it, 1, false);
        h.in_rank = 1; h.key_rin = 1;
        out.push(mk(3041, &h, vec![0, kinds(&mut rng), rng.below(6) as i128, rng.range(1, h.n as i64) as i128]));
        let mut h2 = base(&mut rng, it, 1, false);
        h2.out_b = h2.in_b;
        out.push(mk(3042, &h2, vec![0, 0, rng.below(6) as i128, rng.range(1, h2.n as i64) as i128]));
    }
    // --- GGSW key-switch / automorphism / from_gglwe / expand_row with the tensor key of the public generator, ranks 1..3 (rank 3 in
    //     every second round: the packed index of s_i s_j first differs from its transpose there), and the rows of the tensor key itself
    for it in 0..36 * scale {
        let mut h = base(&mut rng, it, 2, true);
        let fft = h.be <= 2;
        let rank = if (it / 6) % 2 == 0 { 3 } else { rng.range(1, 3) as usize };
        h.in_rank = rank; h.out_rank = rank; h.key_rin = rank; h.key_rout = rank;
        h.in_size = h.in_size.max(3); h.out_b = h.in_b; h.out_size = h.in_size;
        let code = 3061 + (it % 6) as i64;
        let gd = (rng.range(1, 2) as usize).min(h.in_size - 1);
        let gn_ = rng.range(1, (h.in_size / gd) as i64) as usize;
        let gk = h.in_size * h.in_b;
        let need = (h.in_size * h.in_b).div_ceil(h.key_b).div_ceil(h.dsize);
        h.dnum = need.max(1);
        h.key_size = (h.dnum * h.dsize + 1).max(h.dsize + 1);
        h.key_k = h.key_size * h.key_b;
        let b2 = if rng.below(2) == 0 { h.key_b } else { (if fft { rng.range(7, 16) } else { rng.range(7, 40) }) as usize };
        let d2 = rng.range(1, 2) as usize;
        let n2 = (h.in_size * h.in_b).div_ceil(b2).div_ceil(d2).max(1);
        let s2 = (n2 * d2 + 1).max(d2 + 1);
        let p = 2 * rng.below(h.n as u64) as i128 + 1;
        out.push(mk(code, &h, vec![p, rng.below(3) as i128, 0, rng.below(6) as i128, gd as i128, gn_ as i128, gk as i128,
                                   b2 as i128, s2 as i128, d2 as i128, n2 as i128, (s2 * b2) as i128]));
        if it % 4 == 0 { out.push(mk(3091, &h, vec![0, rng.below(3) as i128])); }
    }
    // --- shape independence
    for it in 0..10 * scale {
        let mut h = base(&mut rng, it, 3, false);
        let fft = h.be <= 2;
        h.in_size = h.in_size.max(2).max(16usize.div_ceil(h.in_b));
        let k_pt = 5usize;
        let gn = 6usize;
        let mut extra = vec![0, kinds(&mut rng), 0, k_pt as i128, gn as i128];
        for _ in 0..gn {
            let (key_b, dsize, _dnum, _ks, _kk) = shape(&mut rng, fft, h.in_b, h.in_size, 3);
            // enough rows for the whole input and two guard limbs so that the message survives: the plaintext must not depend on the shape
            let a_conv = (h.in_size * h.in_b).div_ceil(key_b);
            let dnum = a_conv.div_ceil(dsize) + rng.below(2) as usize;
            // the gadget noise ~ rows*rank*N*2^(dsize*b)*20*2^-k_key must stay below the message: k_key >= dsize*b + 26
            let key_size = (dnum * dsize + 1).max(dsize + 1).max((dsize * key_b + 26).div_ceil(key_b));
            let out_b = pick_b(&mut rng, fft, key_b);
            let out_size = (h.in_size * h.in_b).max(12).div_ceil(out_b) + rng.below(2) as usize;
            extra.extend([key_b as i128, dsize as i128, dnum as i128, key_size as i128, out_b as i128, out_size as i128]);
        }
        out.push(mk(3050, &h, extra));
    }
    out
}

fn main() { ks_main(generate, exec) }
