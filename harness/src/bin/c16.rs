//! C16: CKKS evaluator — metadata/error algebra and value tracking over straight-line programs.
//!
//! One record = one straight-line program run through the public CKKS API on one backend.
//!   code 16001: metadata stream   outputs: one row per step  [status, log_delta, log_budget, size(limbs)]
//!   code 16002: value stream      outputs: one row per step  [status, log_delta, log_budget, size, err_scaled, mag]
//!   code 16003: encode->decode identity (f64)  outputs: [err * 2^52 / max(1,|x|max)]
//! params  ps = [backend (1 FFT64Ref, 3 NTT120Ref), log2 n, base2k, kmax, overflow checks of the build (exec sets it to its own)]
//! vectors vs = steps, each  [op, d, a, b, s0, s1, s2, s3, s4, s5]
//!
//! status: 0 Ok, 1 LimbReallocationShrinksBelowMetadata, 2 InsufficientHomomorphicCapacity, 3 PlaintextBase2KMismatch,
//!         4 MissingAutomorphismKey, 5 PlaintextAlignmentImpossible, 6 MultiplicationPrecisionUnderflow,
//!         7 any other anyhow error, 8 OperandNotCompact, 99 the call panicked (program stops there).
//! err_scaled = floor(max slot error * 2^log_delta) of the destination against the shadow complex evaluation
//!              (-1: no statement: step failed / shadow invalid / not decryptable with an f64 plaintext),
//! mag        = ceil(max |shadow slot|) + 1 of the destination (0 when invalid).
use poulpy_verif_harness::rec::*;
use std::cell::RefCell;
use std::collections::HashMap;
use std::panic::{AssertUnwindSafe, catch_unwind};
use std::rc::Rc;

use poulpy_ckks::{
    CKKSCompositionError, CKKSInfos, CKKSMeta,
    encoding::Encoder,
    layouts::{
        CKKSCiphertext, CKKSConstPlaintextConversion, CKKSMaintainOps, CKKSPlaintextConversion, CKKSPlaintextCstRnx,
        CKKSPlaintextVecRnx, CKKSPlaintextVecZnx,
    },
    leveled::api::{
        CKKSAddManyOps, CKKSAddOps, CKKSAllOpsTmpBytes, CKKSConjugateOps, CKKSDecrypt, CKKSDotProductOps, CKKSEncrypt, CKKSMulAddOps,
        CKKSMulManyOps, CKKSMulOps, CKKSMulSubOps, CKKSNegOps, CKKSPow2Ops, CKKSRescaleOps, CKKSRotateOps, CKKSSubOps,
    },
};
use poulpy_core::{
    DEFAULT_BOUND_XE, DEFAULT_SIGMA_XE, EncryptionLayout,
    api::*,
    layouts::{
        GLWEAutomorphismKey, GLWEAutomorphismKeyLayout, GLWEAutomorphismKeyPrepared, GLWEAutomorphismKeyPreparedFactory, GLWELayout,
        GLWESecret, GLWESecretPreparedFactory, GLWETensorKey, GLWETensorKeyLayout, GLWETensorKeyPrepared,
        GLWETensorKeyPreparedFactory, LWEInfos, Rank, prepared::GLWESecretPrepared,
    },
};
use poulpy_hal::{
    api::{ModuleNew, ScratchOwnedAlloc, ScratchOwnedBorrow},
    layouts::{DeviceBuf, GaloisElement, Module, NoiseInfos, ScratchOwned},
    source::Source,
};

pub const ST_OK: i128 = 0;
pub const ST_OTHER: i128 = 7;
pub const ST_PANIC: i128 = 99;
/// largest log_delta an f64 plaintext conversion accepts (`max_log_delta_prec` = 52 + 1)
pub const F64_PREC: i128 = 53;
/// rotation indices for which keys are generated (conjugation key is separate, always present)
pub const ROT_KEYS: [i64; 2] = [1, 5];
const HW_DIV: usize = 2;

// ---------------------------------------------------------------------------------------------
// op codes (shared with coq/Model/C16Meta.v)
pub const ALLOC: i128 = 1; // d size
pub const ENCRYPT: i128 = 2; // d ; s0 pt_ld s1 pt_lb s2 enc_k s3 valseed s4 valkind
pub const ADD_INTO: i128 = 10;
pub const ADD_ASSIGN: i128 = 11;
pub const SUB_INTO: i128 = 12;
pub const SUB_ASSIGN: i128 = 13;
pub const ADD_PTZ_INTO: i128 = 14; // d a ; s0 pt_ld s1 pt_lb s2 pt_extra_limbs s3 valseed s4 valkind s5 pt_base2k
pub const ADD_PTZ_ASSIGN: i128 = 15;
pub const SUB_PTZ_INTO: i128 = 16;
pub const SUB_PTZ_ASSIGN: i128 = 17;
pub const ADD_PTR_INTO: i128 = 18; // d a ; s0 prec_ld s1 prec_lb s3 valseed s4 valkind
pub const ADD_PTR_ASSIGN: i128 = 19;
pub const SUB_PTR_INTO: i128 = 20;
pub const SUB_PTR_ASSIGN: i128 = 21;
pub const ADD_CZ_INTO: i128 = 22; // d a ; s0 cst_ld s1 cst_k s2 parts(0 none,1 re,2 im,3 both) s3 valseed
pub const ADD_CZ_ASSIGN: i128 = 23;
pub const SUB_CZ_INTO: i128 = 24;
pub const SUB_CZ_ASSIGN: i128 = 25;
pub const ADD_CR_INTO: i128 = 26; // d a ; s0 prec_ld s1 prec_lb s2 parts s3 valseed
pub const ADD_CR_ASSIGN: i128 = 27;
pub const SUB_CR_INTO: i128 = 28;
pub const SUB_CR_ASSIGN: i128 = 29;
pub const NEG_INTO: i128 = 30;
pub const NEG_ASSIGN: i128 = 31;
pub const MUL_INTO: i128 = 32;
pub const MUL_ASSIGN: i128 = 33;
pub const SQUARE_INTO: i128 = 34;
pub const SQUARE_ASSIGN: i128 = 35;
pub const MUL_PTZ_INTO: i128 = 36;
pub const MUL_PTZ_ASSIGN: i128 = 37;
pub const MUL_PTR_INTO: i128 = 38;
pub const MUL_PTR_ASSIGN: i128 = 39;
pub const MUL_CZ_INTO: i128 = 40; // s0 prec_ld s1 prec_lb s2 parts s3 valseed   (constant encoded with to_znx(base2k, prec))
pub const MUL_CZ_ASSIGN: i128 = 41;
pub const MUL_CR_INTO: i128 = 42;
pub const MUL_CR_ASSIGN: i128 = 43;
pub const MULADD_CT: i128 = 44; // d a b
pub const MULADD_PTZ: i128 = 45;
pub const MULADD_PTR: i128 = 46;
pub const MULADD_CZ: i128 = 47;
pub const MULADD_CR: i128 = 48;
pub const MULSUB_CT: i128 = 49;
pub const MULSUB_PTZ: i128 = 50;
pub const MULSUB_PTR: i128 = 51;
pub const MULSUB_CZ: i128 = 52;
pub const MULSUB_CR: i128 = 53;
pub const MULPOW2_INTO: i128 = 54; // d a ; s0 bits
pub const MULPOW2_ASSIGN: i128 = 55;
pub const DIVPOW2_INTO: i128 = 56;
pub const DIVPOW2_ASSIGN: i128 = 57;
pub const ROTATE_INTO: i128 = 58; // d a ; s0 k
pub const ROTATE_ASSIGN: i128 = 59;
pub const CONJ_INTO: i128 = 60;
pub const CONJ_ASSIGN: i128 = 61;
pub const RESCALE_INTO: i128 = 62; // d a ; s0 k
pub const RESCALE_ASSIGN: i128 = 63;
pub const ALIGN: i128 = 64; // d b
pub const COMPACT: i128 = 65; // d
pub const REALLOC: i128 = 66; // d ; s0 size
pub const COMPACT_COPY: i128 = 67; // d a
pub const SET_META: i128 = 68; // d ; s0 ld s1 lb
pub const DECRYPT: i128 = 69; // d ; s0 pt_ld s1 pt_lb
// composites over register lists: s0 = n (0..=5), s1 = first list packed base 8 (register i = (s1 >> 3i) & 7), s2 = second list / parts
pub const ADD_MANY: i128 = 70; // d ; s0 n s1 inputs
pub const MUL_MANY: i128 = 71; // d ; s0 n s1 inputs
pub const DOT_CT: i128 = 72; // d ; s0 n s1 a-list s2 b-list
pub const DOT_PTZ: i128 = 73; // d ; s0 n s1 a-list s3 pt_ld s4 pt_lb s5 valseed
pub const DOT_PTR: i128 = 74; // d ; s0 n s1 a-list s3 prec_ld s4 prec_lb s5 valseed
pub const DOT_CZ: i128 = 75; // d ; s0 n s1 a-list s2 parts s3 prec_ld s4 prec_lb s5 valseed
pub const DOT_CR: i128 = 76;
pub const MAXLIST: i128 = 5;

pub fn unpack(n: i128, packed: i128) -> Vec<usize> {
    (0..n.clamp(0, MAXLIST)).map(|i| ((packed >> (3 * i)) & 7) as usize).collect()
}
pub fn pack(rs: &[usize]) -> i128 {
    rs.iter().enumerate().map(|(i, r)| (*r as i128) << (3 * i)).sum()
}

/// shape of an op: which register fields it uses. (uses_a, uses_b, in_place: d is read)
pub fn shape(op: i128) -> Option<(bool, bool)> {
    Some(match op {
        ALLOC | ENCRYPT | NEG_ASSIGN | SQUARE_ASSIGN | MULPOW2_ASSIGN | DIVPOW2_ASSIGN | ROTATE_ASSIGN | CONJ_ASSIGN
        | RESCALE_ASSIGN | COMPACT | REALLOC | SET_META | DECRYPT | ADD_PTZ_ASSIGN | SUB_PTZ_ASSIGN | ADD_PTR_ASSIGN
        | SUB_PTR_ASSIGN | ADD_CZ_ASSIGN | SUB_CZ_ASSIGN | ADD_CR_ASSIGN | SUB_CR_ASSIGN | MUL_PTZ_ASSIGN | MUL_PTR_ASSIGN
        | MUL_CZ_ASSIGN | MUL_CR_ASSIGN => (false, false),
        ADD_ASSIGN | SUB_ASSIGN | MUL_ASSIGN | ADD_PTZ_INTO | SUB_PTZ_INTO | ADD_PTR_INTO | SUB_PTR_INTO | ADD_CZ_INTO
        | SUB_CZ_INTO | ADD_CR_INTO | SUB_CR_INTO | NEG_INTO | SQUARE_INTO | MUL_PTZ_INTO | MUL_PTR_INTO | MUL_CZ_INTO
        | MUL_CR_INTO | MULADD_PTZ | MULADD_PTR | MULADD_CZ | MULADD_CR | MULSUB_PTZ | MULSUB_PTR | MULSUB_CZ | MULSUB_CR
        | MULPOW2_INTO | DIVPOW2_INTO | ROTATE_INTO | CONJ_INTO | RESCALE_INTO | COMPACT_COPY => (true, false),
        ADD_INTO | SUB_INTO | MUL_INTO | MULADD_CT | MULSUB_CT => (true, true),
        ALIGN => (false, true),
        ADD_MANY | MUL_MANY | DOT_CT | DOT_PTZ | DOT_PTR | DOT_CZ | DOT_CR => (false, false),
        _ => return None,
    })
}

pub const NREGS: usize = 6;

/// a program is well formed when every step names existing registers and the destination differs from the sources
pub fn well_formed(steps: &[Vec<i128>]) -> bool {
    steps.iter().all(|s| {
        if s.len() != 10 {
            return false;
        }
        let Some((ua, ub)) = shape(s[0]) else { return false };
        let ok = |r: i128| (0..NREGS as i128).contains(&r);
        // register lists of the composites: entries exist and differ from the destination
        let lists_ok = if (ADD_MANY..=DOT_CR).contains(&s[0]) {
            let chk = |p: i128| unpack(s[4], p).iter().all(|r| *r < NREGS && *r as i128 != s[1]);
            (0..=MAXLIST).contains(&s[4]) && s[5] >= 0 && s[6] >= 0 && chk(s[5]) && (s[0] != DOT_CT || chk(s[6]))
        } else { true };
        lists_ok && ok(s[1]) && (!ua || (ok(s[2]) && s[2] != s[1])) && (!ub || (ok(s[3]) && s[3] != s[1]))
    })
}

/// the crates return `anyhow::Error` (not nameable here: anyhow is not a dependency of the harness); classify through `dyn Error`
fn err_code<E: AsRef<dyn std::error::Error + Send + Sync + 'static>>(e: &E) -> i128 {
    let d: &(dyn std::error::Error + Send + Sync + 'static) = e.as_ref();
    match d.downcast_ref::<CKKSCompositionError>() {
        Some(CKKSCompositionError::LimbReallocationShrinksBelowMetadata { .. }) => 1,
        Some(CKKSCompositionError::InsufficientHomomorphicCapacity { .. }) => 2,
        Some(CKKSCompositionError::PlaintextBase2KMismatch { .. }) => 3,
        Some(CKKSCompositionError::MissingAutomorphismKey { .. }) => 4,
        Some(CKKSCompositionError::PlaintextAlignmentImpossible { .. }) => 5,
        Some(CKKSCompositionError::MultiplicationPrecisionUnderflow { .. }) => 6,
        Some(CKKSCompositionError::OperandNotCompact { .. }) => 8,
        None => ST_OTHER,
    }
}

fn status<T, E: AsRef<dyn std::error::Error + Send + Sync + 'static>>(r: &Result<T, E>) -> i128 {
    match r {
        Ok(_) => ST_OK,
        Err(e) => err_code(e),
    }
}

/// deterministic slot values: kind 0 random complex in the unit square, 1 constant real, 2 near the magnitude limit
/// (constant real of absolute value `mag`), 3 random complex scaled by `mag`
fn slots(m: usize, seed: u64, kind: i128, mag: f64) -> (Vec<f64>, Vec<f64>) {
    let mut rng = Rng::new(seed ^ 0xC16);
    let u = |r: &mut Rng| (r.next() >> 11) as f64 / (1u64 << 53) as f64 * 2.0 - 1.0;
    match kind {
        1 => (vec![u(&mut rng) * mag; m], vec![0.0; m]),
        2 => (vec![if seed & 1 == 0 { mag } else { -mag }; m], vec![0.0; m]),
        _ => {
            let re = (0..m).map(|_| u(&mut rng) * mag).collect();
            let im = (0..m).map(|_| u(&mut rng) * mag).collect();
            (re, im)
        }
    }
}

fn cst_parts(parts: i128, seed: u64) -> (Option<f64>, Option<f64>) {
    let mut rng = Rng::new(seed ^ 0xC57);
    let u = |r: &mut Rng| (r.next() >> 11) as f64 / (1u64 << 53) as f64 * 2.0 - 1.0;
    let re = u(&mut rng);
    let im = u(&mut rng);
    (if parts & 1 != 0 { Some(re) } else { None }, if parts & 2 != 0 { Some(im) } else { None })
}

fn quant(x: f64, ld: i128) -> f64 {
    let s = (ld as f64).exp2();
    (x * s).round() / s
}

/// the value that the digits of a constant encoded at torus precision k really stand for: round(x 2^ld) taken in
/// [-2^(k-1), 2^(k-1)), over 2^ld (a constant needs log_budget >= 1 bit of headroom per bit of magnitude)
fn cst_value(x: f64, ld: i128, k: i128) -> f64 {
    let v = (x * (ld as f64).exp2()).round();
    if k <= 0 || k > 120 || v.abs() >= 1e30 { return v / (ld as f64).exp2(); }
    let (vi, m) = (v as i128, 1i128 << k);
    let w = (vi + m / 2).rem_euclid(m) - m / 2;
    w as f64 / (ld as f64).exp2()
}

macro_rules! backend_impl {
    ($m:ident, $BE:ty) => {
        pub mod $m {
            use super::*;
            type BE = $BE;
            type Ct = CKKSCiphertext<Vec<u8>>;

            pub struct Ctx {
                pub module: Module<BE>,
                pub n: usize,
                pub base2k: usize,
                pub encoder: Encoder<f64>,
                pub sk: GLWESecretPrepared<DeviceBuf<BE>, BE>,
                pub tsk: GLWETensorKeyPrepared<DeviceBuf<BE>, BE>,
                pub atks: HashMap<i64, GLWEAutomorphismKeyPrepared<DeviceBuf<BE>, BE>>,
                pub conj: GLWEAutomorphismKeyPrepared<DeviceBuf<BE>, BE>,
                pub scratch: ScratchOwned<BE>,
            }

            thread_local! { static CACHE: RefCell<HashMap<(usize, usize, usize), Rc<RefCell<Ctx>>>> = RefCell::new(HashMap::new()); }

            pub fn ctx(logn: usize, base2k: usize, kmax: usize) -> Rc<RefCell<Ctx>> {
                CACHE.with(|c| c.borrow_mut().entry((logn, base2k, kmax)).or_insert_with(|| Rc::new(RefCell::new(Ctx::new(logn, base2k, kmax)))).clone())
            }

            impl Ctx {
                fn new(logn: usize, base2k: usize, kmax: usize) -> Self {
                    let n = 1usize << logn;
                    let module = Module::<BE>::new(n as u64);
                    let dsize = 1usize;
                    // scratch and keys are sized for registers up to kmax + 2 limbs
                    let kbig = kmax + 2 * base2k;
                    let glwe = GLWELayout { n: n.into(), base2k: base2k.into(), k: kbig.into(), rank: Rank(1) };
                    let glwe_infos = EncryptionLayout::new_from_default_sigma(glwe).unwrap();
                    let kk = kbig + dsize * base2k;
                    let dnum = kk.div_ceil(dsize * base2k);
                    let tsk_infos = EncryptionLayout::new_from_default_sigma(GLWETensorKeyLayout {
                        n: n.into(), base2k: base2k.into(), k: kk.into(), rank: Rank(1), dsize: (dsize as u32).into(), dnum: (dnum as u32).into(),
                    }).unwrap();
                    let atk_infos = EncryptionLayout::new_from_default_sigma(GLWEAutomorphismKeyLayout {
                        n: n.into(), base2k: base2k.into(), k: kk.into(), rank: Rank(1), dsize: (dsize as u32).into(), dnum: (dnum as u32).into(),
                    }).unwrap();
                    let mut xa = Source::new([1u8; 32]);
                    let mut xe = Source::new([2u8; 32]);
                    let mut xs = Source::new([0u8; 32]);
                    let mut sk_raw = GLWESecret::alloc_from_infos(&glwe_infos);
                    sk_raw.fill_ternary_hw(n / HW_DIV, &mut xs);
                    let mut sk = module.glwe_secret_prepared_alloc_from_infos(&glwe_infos);
                    module.glwe_secret_prepare(&mut sk, &sk_raw);
                    let prec = CKKSMeta { log_delta: 53, log_budget: 74 };
                    let bytes = module.ckks_all_ops_with_atk_tmp_bytes(&glwe_infos, &tsk_infos, &atk_infos, &prec)
                        .max(module.ckks_mul_add_ct_tmp_bytes(&glwe_infos, &tsk_infos))
                        .max(module.ckks_mul_add_pt_vec_rnx_tmp_bytes(&glwe_infos, &glwe_infos, &prec))
                        .max(module.ckks_mul_add_pt_const_tmp_bytes(&glwe_infos, &glwe_infos, &prec))
                        .max(module.ckks_mul_many_tmp_bytes(MAXLIST as usize, &glwe_infos, &tsk_infos))
                        .max(module.ckks_dot_product_ct_tmp_bytes(MAXLIST as usize, &glwe_infos, &tsk_infos))
                        .max(module.ckks_dot_product_pt_vec_rnx_tmp_bytes(&glwe_infos, &glwe_infos, &prec))
                        .max(module.ckks_dot_product_pt_const_tmp_bytes(&glwe_infos, &glwe_infos, &prec));
                    let mut scratch = ScratchOwned::<BE>::alloc(2 * bytes + (1 << 16));
                    let mut tsk = GLWETensorKey::alloc_from_infos(&tsk_infos);
                    module.glwe_tensor_key_encrypt_sk(&mut tsk, &sk_raw, &tsk_infos, &mut xa, &mut xe, scratch.borrow());
                    let mut tsk_p = module.alloc_tensor_key_prepared_from_infos(&tsk_infos);
                    module.prepare_tensor_key(&mut tsk_p, &tsk, scratch.borrow());
                    let mut mk = |index: i64| {
                        let mut atk = GLWEAutomorphismKey::alloc_from_infos(&atk_infos);
                        let g = if index == -1 { -1 } else { module.galois_element(index) };
                        module.glwe_automorphism_key_encrypt_sk(&mut atk, g, &sk_raw, &atk_infos, &mut xa, &mut xe, scratch.borrow());
                        let mut p = module.glwe_automorphism_key_prepared_alloc_from_infos(&atk_infos);
                        module.glwe_automorphism_key_prepare(&mut p, &atk, scratch.borrow());
                        p
                    };
                    let mut atks = HashMap::new();
                    for r in ROT_KEYS { atks.insert(r, mk(r)); }
                    let conj = mk(-1);
                    Ctx { module, n, base2k, encoder: Encoder::<f64>::new(n / 2).unwrap(), sk, tsk: tsk_p, atks, conj, scratch }
                }

                fn alloc(&self, size: usize) -> Ct {
                    CKKSCiphertext::alloc(self.n.into(), ((size * self.base2k) as u32).into(), self.base2k.into())
                }

                /// vector plaintext (ZNX) with the given metadata and `extra` limbs beyond the minimum, plus the slot values it really encodes
                fn pt_znx(&self, ld: i128, lb: i128, extra: i128, base2k: usize, seed: u64, kind: i128, mag: f64)
                    -> Option<(CKKSPlaintextVecZnx<Vec<u8>>, Vec<f64>, Vec<f64>)> {
                    let m = self.n / 2;
                    let (re, im) = slots(m, seed, kind, mag);
                    let mut rnx = CKKSPlaintextVecRnx::<f64>::alloc(self.n).ok()?;
                    self.encoder.encode_reim(&mut rnx, &re, &im).ok()?;
                    let meta = CKKSMeta { log_delta: ld as usize, log_budget: lb as usize };
                    let big = CKKSMeta { log_delta: ld as usize, log_budget: lb as usize + extra as usize * base2k };
                    let mut znx = CKKSPlaintextVecZnx::alloc(self.n.into(), base2k.into(), big);
                    znx.set_meta_checked(meta).ok()?;
                    if ld > F64_PREC {
                        // not reachable from f64 slots: an all-zero ZNX plaintext with this metadata
                        return Some((znx, vec![0.0; m], vec![0.0; m]));
                    }
                    rnx.to_znx(&mut znx).ok()?;
                    let (qre, qim) = self.decode_pt(&znx).unwrap_or((re, im));
                    Some((znx, qre, qim))
                }

                fn decode_pt(&self, znx: &CKKSPlaintextVecZnx<Vec<u8>>) -> Option<(Vec<f64>, Vec<f64>)> {
                    let m = self.n / 2;
                    let mut rnx = CKKSPlaintextVecRnx::<f64>::alloc(self.n).ok()?;
                    rnx.decode_from_znx(znx).ok()?;
                    let (mut re, mut im) = (vec![0.0; m], vec![0.0; m]);
                    self.encoder.decode_reim(&rnx, &mut re, &mut im).ok()?;
                    Some((re, im))
                }

                /// RNX vector plaintext and the slot values its quantisation at `ld` encodes
                fn pt_rnx(&self, ld: i128, lb: i128, seed: u64, kind: i128, mag: f64) -> (CKKSPlaintextVecRnx<f64>, Vec<f64>, Vec<f64>) {
                    let m = self.n / 2;
                    let (re, im) = slots(m, seed, kind, mag);
                    let mut rnx = CKKSPlaintextVecRnx::<f64>::alloc(self.n).unwrap();
                    self.encoder.encode_reim(&mut rnx, &re, &im).unwrap();
                    let q = if ld <= F64_PREC && ld + lb <= 120 { self.pt_znx(ld, lb, 0, self.base2k, seed, kind, mag) } else { None };
                    match q {
                        Some((_, qre, qim)) => (rnx, qre, qim),
                        None => (rnx, re, im),
                    }
                }

                /// decrypt + decode with an f64 plaintext of metadata (min(ld,53), lb'); None when not representable
                fn dec(&mut self, ct: &Ct) -> Option<(Vec<f64>, Vec<f64>)> {
                    let ld = ct.log_delta().min(F64_PREC as usize);
                    let lb = ct.log_budget().min(120usize.saturating_sub(ld));
                    if ld == 0 && lb == 0 { return None; }
                    let mut pt = CKKSPlaintextVecZnx::alloc(self.n.into(), self.base2k.into(), CKKSMeta { log_delta: ld, log_budget: lb });
                    let r = catch_unwind(AssertUnwindSafe(|| self.module.ckks_decrypt(&mut pt, ct, &self.sk, self.scratch.borrow())));
                    match r {
                        Ok(Ok(())) => self.decode_pt(&pt),
                        _ => None,
                    }
                }
            }

            pub struct Reg { pub ct: Ct, pub re: Vec<f64>, pub im: Vec<f64>, pub valid: bool }

            pub struct Machine { pub cx: Rc<RefCell<Ctx>>, pub regs: Vec<Reg>, pub dead: bool, pub seq: u64 }

            fn cmul(ar: &[f64], ai: &[f64], br: &[f64], bi: &[f64]) -> (Vec<f64>, Vec<f64>) {
                let re = (0..ar.len()).map(|i| ar[i] * br[i] - ai[i] * bi[i]).collect();
                let im = (0..ar.len()).map(|i| ar[i] * bi[i] + ai[i] * br[i]).collect();
                (re, im)
            }
            fn lin(ar: &[f64], ai: &[f64], br: &[f64], bi: &[f64], sign: f64) -> (Vec<f64>, Vec<f64>) {
                ((0..ar.len()).map(|i| ar[i] + sign * br[i]).collect(), (0..ar.len()).map(|i| ai[i] + sign * bi[i]).collect())
            }

            impl Machine {
                pub fn new(logn: usize, base2k: usize, kmax: usize) -> Self {
                    let cx = ctx(logn, base2k, kmax);
                    let m = cx.borrow().n / 2;
                    let regs = (0..NREGS).map(|_| Reg { ct: cx.borrow().alloc(1), re: vec![0.0; m], im: vec![0.0; m], valid: false }).collect();
                    Machine { cx, regs, dead: false, seq: 0 }
                }

                pub fn meta(&self, r: usize) -> (i128, i128, i128) {
                    let c = &self.regs[r].ct;
                    (c.log_delta() as i128, c.log_budget() as i128, c.size() as i128)
                }

                /// run one step; returns the output row (6 columns; the metadata stream keeps the first 4, ALIGN appends b's triple)
                pub fn step(&mut self, s: &[i128]) -> Vec<i128> {
                    if self.dead { return vec![ST_PANIC, 0, 0, 0, -1, 0]; }
                    let r = catch_unwind(AssertUnwindSafe(|| self.step_inner(s)));
                    match r {
                        Ok(row) => row,
                        Err(p) => { self.dead = true; if std::env::var("C16_TRACE").is_ok() { eprintln!("step {:?}: PANIC {}", s, panic_class(p)); } vec![ST_PANIC, 0, 0, 0, -1, 0] }
                    }
                }

                fn step_inner(&mut self, s: &[i128]) -> Vec<i128> {
                    let op = s[0];
                    let (d, a, b) = (s[1] as usize, s[2] as usize, s[3] as usize);
                    let cxr = self.cx.clone();
                    let mut cxb = cxr.borrow_mut();
                    let cx: &mut Ctx = &mut cxb;
                    let m = cx.n / 2;
                    self.seq += 1;
                    let us = |x: i128| -> usize { if x < 0 { 0 } else if x > u64::MAX as i128 { usize::MAX } else { x as usize } };
                    // take the destination out of the register file so that sources can be borrowed shared
                    let mut dst = std::mem::replace(&mut self.regs[d], Reg { ct: cx.alloc(1), re: vec![], im: vec![], valid: false });
                    let regs = &self.regs;
                    let mut extra: Option<(i128, i128, i128)> = None;
                    // new shadow value of the destination: Some((re, im)) when defined
                    let mut shadow: Option<(Vec<f64>, Vec<f64>)> = None;
                    let st: i128;
                    macro_rules! sc { () => { cx.scratch.borrow() }; }
                    match op {
                        ALLOC => {
                            dst.ct = cx.alloc(us(s[4]));
                            st = ST_OK;
                        }
                        ENCRYPT => {
                            let mag = if s[8] == 2 { (s[9] as f64).max(1.0) } else { 1.0 };
                            match cx.pt_znx(s[4], s[5], 0, cx.base2k, s[7] as u64, s[8], mag) {
                                None => { st = ST_OTHER; }
                                Some((pt, qre, qim)) => {
                                    let noise = NoiseInfos::new(us(s[6]), DEFAULT_SIGMA_XE, DEFAULT_BOUND_XE).unwrap();
                                    let mut sd = [0u8; 32];
                                    sd[..8].copy_from_slice(&(s[7] as u64 ^ self.seq).to_le_bytes());
                                    let mut xa = Source::new(sd);
                                    sd[8] = 1;
                                    let mut xe = Source::new(sd);
                                    let r = cx.module.ckks_encrypt_sk(&mut dst.ct, &pt, &cx.sk, &noise, &mut xa, &mut xe, sc!());
                                    st = status(&r);
                                    if st == ST_OK { shadow = Some((qre, qim)); }
                                }
                            }
                        }
                        ADD_INTO | SUB_INTO => {
                            let (x, y) = (&regs[a], &regs[b]);
                            let r = if op == ADD_INTO { cx.module.ckks_add_into(&mut dst.ct, &x.ct, &y.ct, sc!()) } else { cx.module.ckks_sub_into(&mut dst.ct, &x.ct, &y.ct, sc!()) };
                            st = status(&r);
                            if x.valid && y.valid { shadow = Some(lin(&x.re, &x.im, &y.re, &y.im, if op == ADD_INTO { 1.0 } else { -1.0 })); }
                        }
                        ADD_ASSIGN | SUB_ASSIGN => {
                            let x = &regs[a];
                            let r = if op == ADD_ASSIGN { cx.module.ckks_add_assign(&mut dst.ct, &x.ct, sc!()) } else { cx.module.ckks_sub_assign(&mut dst.ct, &x.ct, sc!()) };
                            st = status(&r);
                            if x.valid && dst.valid { shadow = Some(lin(&dst.re, &dst.im, &x.re, &x.im, if op == ADD_ASSIGN { 1.0 } else { -1.0 })); }
                        }
                        ADD_PTZ_INTO | SUB_PTZ_INTO | ADD_PTZ_ASSIGN | SUB_PTZ_ASSIGN | MUL_PTZ_INTO | MUL_PTZ_ASSIGN | MULADD_PTZ | MULSUB_PTZ => {
                            match cx.pt_znx(s[4], s[5], s[6], us(s[9]), s[7] as u64, s[8], 1.0) {
                                None => { st = ST_OTHER; if dst.valid { shadow = Some((dst.re.clone(), dst.im.clone())); } }
                                Some((pt, qre, qim)) => {
                                    let x = &regs[a];
                                    let md = &cx.module;
                                    let r = match op {
                                        ADD_PTZ_INTO => md.ckks_add_pt_vec_znx_into(&mut dst.ct, &x.ct, &pt, sc!()),
                                        SUB_PTZ_INTO => md.ckks_sub_pt_vec_znx_into(&mut dst.ct, &x.ct, &pt, sc!()),
                                        ADD_PTZ_ASSIGN => md.ckks_add_pt_vec_znx_assign(&mut dst.ct, &pt, sc!()),
                                        SUB_PTZ_ASSIGN => md.ckks_sub_pt_vec_znx_assign(&mut dst.ct, &pt, sc!()),
                                        MUL_PTZ_INTO => md.ckks_mul_pt_vec_znx_into(&mut dst.ct, &x.ct, &pt, sc!()),
                                        MUL_PTZ_ASSIGN => md.ckks_mul_pt_vec_znx_assign(&mut dst.ct, &pt, sc!()),
                                        MULADD_PTZ => md.ckks_mul_add_pt_vec_znx_into(&mut dst.ct, &x.ct, &pt, sc!()),
                                        _ => md.ckks_mul_sub_pt_vec_znx_into(&mut dst.ct, &x.ct, &pt, sc!()),
                                    };
                                    st = status(&r);
                                    shadow = Self::pt_shadow(op - ADD_PTZ_INTO, &dst, x, &qre, &qim, op);
                                }
                            }
                        }
                        ADD_PTR_INTO | SUB_PTR_INTO | ADD_PTR_ASSIGN | SUB_PTR_ASSIGN | MUL_PTR_INTO | MUL_PTR_ASSIGN | MULADD_PTR | MULSUB_PTR => {
                            let (pt, qre, qim) = cx.pt_rnx(s[4], s[5], s[7] as u64, s[8], 1.0);
                            let prec = CKKSMeta { log_delta: us(s[4]), log_budget: us(s[5]) };
                            let x = &regs[a];
                            let md = &cx.module;
                            let r = match op {
                                ADD_PTR_INTO => md.ckks_add_pt_vec_rnx_into(&mut dst.ct, &x.ct, &pt, prec, sc!()),
                                SUB_PTR_INTO => md.ckks_sub_pt_vec_rnx_into(&mut dst.ct, &x.ct, &pt, prec, sc!()),
                                ADD_PTR_ASSIGN => md.ckks_add_pt_vec_rnx_assign(&mut dst.ct, &pt, prec, sc!()),
                                SUB_PTR_ASSIGN => md.ckks_sub_pt_vec_rnx_assign(&mut dst.ct, &pt, prec, sc!()),
                                MUL_PTR_INTO => md.ckks_mul_pt_vec_rnx_into(&mut dst.ct, &x.ct, &pt, prec, sc!()),
                                MUL_PTR_ASSIGN => md.ckks_mul_pt_vec_rnx_assign(&mut dst.ct, &pt, prec, sc!()),
                                MULADD_PTR => md.ckks_mul_add_pt_vec_rnx_into(&mut dst.ct, &x.ct, &pt, prec, sc!()),
                                _ => md.ckks_mul_sub_pt_vec_rnx_into(&mut dst.ct, &x.ct, &pt, prec, sc!()),
                            };
                            st = status(&r);
                            shadow = Self::pt_shadow(0, &dst, x, &qre, &qim, op);
                        }
                        ADD_CZ_INTO | SUB_CZ_INTO | ADD_CZ_ASSIGN | SUB_CZ_ASSIGN => {
                            // constant encoded at an explicit torus precision k = s1 (aligned when k = dst.log_budget' + ld)
                            let (cre, cim) = cst_parts(s[6], s[7] as u64);
                            let c = CKKSPlaintextCstRnx::<f64>::new(cre, cim);
                            match c.to_znx_at_k(cx.base2k.into(), us(s[5]), us(s[4])) {
                                Err(_) => { st = ST_OTHER; if dst.valid { shadow = Some((dst.re.clone(), dst.im.clone())); } }
                                Ok(cz) => {
                                    let x = &regs[a];
                                    let md = &cx.module;
                                    let r = match op {
                                        ADD_CZ_INTO => md.ckks_add_pt_const_znx_into(&mut dst.ct, &x.ct, &cz, sc!()),
                                        SUB_CZ_INTO => md.ckks_sub_pt_const_znx_into(&mut dst.ct, &x.ct, &cz, sc!()),
                                        ADD_CZ_ASSIGN => md.ckks_add_pt_const_znx_assign(&mut dst.ct, &cz, sc!()),
                                        _ => md.ckks_sub_pt_const_znx_assign(&mut dst.ct, &cz, sc!()),
                                    };
                                    st = status(&r);
                                    // the digits are injected as they are: the value added is c * 2^(dst.log_budget + ld - k)
                                    let sh = dst.ct.log_budget() as i128 + s[4] - s[5];
                                    let f = (sh as f64).exp2();
                                    let qre = vec![cre.map(|v| quant(v, s[4]) * f).unwrap_or(0.0); m];
                                    let qim = vec![cim.map(|v| quant(v, s[4]) * f).unwrap_or(0.0); m];
                                    shadow = Self::pt_shadow(0, &dst, x, &qre, &qim, op);
                                }
                            }
                        }
                        ADD_CR_INTO | SUB_CR_INTO | ADD_CR_ASSIGN | SUB_CR_ASSIGN | MUL_CR_INTO | MUL_CR_ASSIGN | MULADD_CR | MULSUB_CR
                        | MUL_CZ_INTO | MUL_CZ_ASSIGN | MULADD_CZ | MULSUB_CZ => {
                            let (cre, cim) = cst_parts(s[6], s[7] as u64);
                            let c = CKKSPlaintextCstRnx::<f64>::new(cre, cim);
                            let prec = CKKSMeta { log_delta: us(s[4]), log_budget: us(s[5]) };
                            let x = &regs[a];
                            let md = &cx.module;
                            let r = match op {
                                ADD_CR_INTO => md.ckks_add_pt_const_rnx_into(&mut dst.ct, &x.ct, &c, prec, sc!()),
                                SUB_CR_INTO => md.ckks_sub_pt_const_rnx_into(&mut dst.ct, &x.ct, &c, prec, sc!()),
                                ADD_CR_ASSIGN => md.ckks_add_pt_const_rnx_assign(&mut dst.ct, &c, prec, sc!()),
                                SUB_CR_ASSIGN => md.ckks_sub_pt_const_rnx_assign(&mut dst.ct, &c, prec, sc!()),
                                MUL_CR_INTO => md.ckks_mul_pt_const_rnx_into(&mut dst.ct, &x.ct, &c, prec, sc!()),
                                MUL_CR_ASSIGN => md.ckks_mul_pt_const_rnx_assign(&mut dst.ct, &c, prec, sc!()),
                                MULADD_CR => md.ckks_mul_add_pt_const_rnx_into(&mut dst.ct, &x.ct, &c, prec, sc!()),
                                MULSUB_CR => md.ckks_mul_sub_pt_const_rnx_into(&mut dst.ct, &x.ct, &c, prec, sc!()),
                                _ => match c.to_znx(cx.base2k.into(), prec) {
                                    Err(e) => Err(e),
                                    Ok(cz) => match op {
                                        MUL_CZ_INTO => md.ckks_mul_pt_const_znx_into(&mut dst.ct, &x.ct, &cz, sc!()),
                                        MUL_CZ_ASSIGN => md.ckks_mul_pt_const_znx_assign(&mut dst.ct, &cz, sc!()),
                                        MULADD_CZ => md.ckks_mul_add_pt_const_znx_into(&mut dst.ct, &x.ct, &cz, sc!()),
                                        _ => md.ckks_mul_sub_pt_const_znx_into(&mut dst.ct, &x.ct, &cz, sc!()),
                                    },
                                },
                            };
                            st = status(&r);
                            // multiplicative constants are encoded at k = prec.min_k(base2k); additive ones at the ciphertext's scale
                            let b2 = cx.base2k as i128;
                            let kc = if matches!(op, ADD_CR_INTO | SUB_CR_INTO | ADD_CR_ASSIGN | SUB_CR_ASSIGN) { 0 } else { (s[4] + s[5] + b2 - 1) / b2 * b2 };
                            let qre = vec![cre.map(|v| cst_value(v, s[4], kc)).unwrap_or(0.0); m];
                            let qim = vec![cim.map(|v| cst_value(v, s[4], kc)).unwrap_or(0.0); m];
                            shadow = Self::pt_shadow(0, &dst, x, &qre, &qim, op);
                        }
                        NEG_INTO => {
                            let x = &regs[a];
                            st = status(&cx.module.ckks_neg_into(&mut dst.ct, &x.ct, sc!()));
                            if x.valid { shadow = Some((x.re.iter().map(|v| -v).collect(), x.im.iter().map(|v| -v).collect())); }
                        }
                        NEG_ASSIGN => {
                            st = status(&cx.module.ckks_neg_assign(&mut dst.ct));
                            if dst.valid { shadow = Some((dst.re.iter().map(|v| -v).collect(), dst.im.iter().map(|v| -v).collect())); }
                        }
                        MUL_INTO | MULADD_CT | MULSUB_CT => {
                            let (x, y) = (&regs[a], &regs[b]);
                            let md = &cx.module;
                            let r = match op {
                                MUL_INTO => md.ckks_mul_into(&mut dst.ct, &x.ct, &y.ct, &cx.tsk, sc!()),
                                MULADD_CT => md.ckks_mul_add_ct_into(&mut dst.ct, &x.ct, &y.ct, &cx.tsk, sc!()),
                                _ => md.ckks_mul_sub_ct_into(&mut dst.ct, &x.ct, &y.ct, &cx.tsk, sc!()),
                            };
                            st = status(&r);
                            if x.valid && y.valid {
                                let p = cmul(&x.re, &x.im, &y.re, &y.im);
                                if op == MUL_INTO { shadow = Some(p); }
                                else if dst.valid { shadow = Some(lin(&dst.re, &dst.im, &p.0, &p.1, if op == MULADD_CT { 1.0 } else { -1.0 })); }
                            }
                        }
                        MUL_ASSIGN => {
                            let x = &regs[a];
                            st = status(&cx.module.ckks_mul_assign(&mut dst.ct, &x.ct, &cx.tsk, sc!()));
                            if x.valid && dst.valid { shadow = Some(cmul(&dst.re, &dst.im, &x.re, &x.im)); }
                        }
                        SQUARE_INTO => {
                            let x = &regs[a];
                            st = status(&cx.module.ckks_square_into(&mut dst.ct, &x.ct, &cx.tsk, sc!()));
                            if x.valid { shadow = Some(cmul(&x.re, &x.im, &x.re, &x.im)); }
                        }
                        SQUARE_ASSIGN => {
                            st = status(&cx.module.ckks_square_assign(&mut dst.ct, &cx.tsk, sc!()));
                            if dst.valid { shadow = Some(cmul(&dst.re, &dst.im, &dst.re, &dst.im)); }
                        }
                        MULPOW2_INTO | DIVPOW2_INTO => {
                            let x = &regs[a];
                            let bits = us(s[4]);
                            let r = if op == MULPOW2_INTO { cx.module.ckks_mul_pow2_into(&mut dst.ct, &x.ct, bits, sc!()) } else { cx.module.ckks_div_pow2_into(&mut dst.ct, &x.ct, bits, sc!()) };
                            st = status(&r);
                            let f = if op == MULPOW2_INTO { (s[4] as f64).exp2() } else { (-(s[4] as f64)).exp2() };
                            if x.valid { shadow = Some((x.re.iter().map(|v| v * f).collect(), x.im.iter().map(|v| v * f).collect())); }
                        }
                        MULPOW2_ASSIGN | DIVPOW2_ASSIGN => {
                            let bits = us(s[4]);
                            let r = if op == MULPOW2_ASSIGN { cx.module.ckks_mul_pow2_assign(&mut dst.ct, bits, sc!()) } else { cx.module.ckks_div_pow2_assign(&mut dst.ct, bits) };
                            st = status(&r);
                            let f = if op == MULPOW2_ASSIGN { (s[4] as f64).exp2() } else { (-(s[4] as f64)).exp2() };
                            if dst.valid { shadow = Some((dst.re.iter().map(|v| v * f).collect(), dst.im.iter().map(|v| v * f).collect())); }
                        }
                        ROTATE_INTO | ROTATE_ASSIGN => {
                            let k = s[4] as i64;
                            let (r, src): (_, Option<(&Vec<f64>, &Vec<f64>)>) = if op == ROTATE_INTO {
                                let x = &regs[a];
                                (cx.module.ckks_rotate_into(&mut dst.ct, &x.ct, k, &cx.atks, sc!()), if x.valid { Some((&x.re, &x.im)) } else { None })
                            } else {
                                (cx.module.ckks_rotate_assign(&mut dst.ct, k, &cx.atks, sc!()), if dst.valid { Some((&dst.re, &dst.im)) } else { None })
                            };
                            st = status(&r);
                            if let Some((re, im)) = src {
                                let rot = |v: &Vec<f64>| (0..m).map(|j| v[((j as i64 + k).rem_euclid(m as i64)) as usize]).collect::<Vec<f64>>();
                                shadow = Some((rot(re), rot(im)));
                            }
                        }
                        CONJ_INTO => {
                            let x = &regs[a];
                            st = status(&cx.module.ckks_conjugate_into(&mut dst.ct, &x.ct, &cx.conj, sc!()));
                            if x.valid { shadow = Some((x.re.clone(), x.im.iter().map(|v| -v).collect())); }
                        }
                        CONJ_ASSIGN => {
                            st = status(&cx.module.ckks_conjugate_assign(&mut dst.ct, &cx.conj, sc!()));
                            if dst.valid { shadow = Some((dst.re.clone(), dst.im.iter().map(|v| -v).collect())); }
                        }
                        RESCALE_INTO => {
                            let x = &regs[a];
                            st = status(&cx.module.ckks_rescale_into(&mut dst.ct, us(s[4]), &x.ct, sc!()));
                            if x.valid { shadow = Some((x.re.clone(), x.im.clone())); }
                        }
                        RESCALE_ASSIGN => {
                            st = status(&cx.module.ckks_rescale_assign(&mut dst.ct, us(s[4]), sc!()));
                            if dst.valid { shadow = Some((dst.re.clone(), dst.im.clone())); }
                        }
                        ALIGN => {
                            // both operands are mutated: take b out as well
                            let mut other = std::mem::replace(&mut self.regs[b], Reg { ct: cx.alloc(1), re: vec![], im: vec![], valid: false });
                            st = status(&cx.module.ckks_align_assign(&mut dst.ct, &mut other.ct, sc!()));
                            extra = Some((other.ct.log_delta() as i128, other.ct.log_budget() as i128, other.ct.size() as i128));
                            if st != ST_OK { other.valid = false; }
                            self.regs[b] = other;
                            if dst.valid { shadow = Some((dst.re.clone(), dst.im.clone())); }
                        }
                        COMPACT => {
                            st = status(&cx.module.ckks_compact_limbs(&mut dst.ct));
                            if dst.valid { shadow = Some((dst.re.clone(), dst.im.clone())); }
                        }
                        REALLOC => {
                            st = status(&cx.module.ckks_reallocate_limbs_checked(&mut dst.ct, us(s[4])));
                            if dst.valid { shadow = Some((dst.re.clone(), dst.im.clone())); }
                        }
                        COMPACT_COPY => {
                            let x = &regs[a];
                            match cx.module.ckks_compact_limbs_copy(&x.ct) {
                                Ok(c) => { dst.ct = c; st = ST_OK; }
                                Err(e) => { st = err_code(&e); }
                            }
                            if x.valid { shadow = Some((x.re.clone(), x.im.clone())); }
                        }
                        SET_META => {
                            st = status(&dst.ct.set_meta_checked(CKKSMeta { log_delta: us(s[4]), log_budget: us(s[5]) }));
                        }
                        DECRYPT => {
                            let mut pt = CKKSPlaintextVecZnx::alloc(cx.n.into(), cx.base2k.into(), CKKSMeta { log_delta: us(s[4]), log_budget: us(s[5]) });
                            st = status(&cx.module.ckks_decrypt(&mut pt, &dst.ct, &cx.sk, sc!()));
                            if dst.valid { shadow = Some((dst.re.clone(), dst.im.clone())); }
                        }
                        ADD_MANY | MUL_MANY => {
                            let ins: Vec<&Reg> = unpack(s[4], s[5]).into_iter().map(|r| &regs[r]).collect();
                            let cts: Vec<&Ct> = ins.iter().map(|r| &r.ct).collect();
                            let r = if op == ADD_MANY { cx.module.ckks_add_many(&mut dst.ct, &cts, sc!()) } else { cx.module.ckks_mul_many(&mut dst.ct, &cts, &cx.tsk, sc!()) };
                            st = status(&r);
                            if !ins.is_empty() && ins.iter().all(|r| r.valid) {
                                let mut acc = (ins[0].re.clone(), ins[0].im.clone());
                                for x in &ins[1..] { acc = if op == ADD_MANY { lin(&acc.0, &acc.1, &x.re, &x.im, 1.0) } else { cmul(&acc.0, &acc.1, &x.re, &x.im) }; }
                                shadow = Some(acc);
                            }
                        }
                        DOT_CT => {
                            let xa: Vec<&Reg> = unpack(s[4], s[5]).into_iter().map(|r| &regs[r]).collect();
                            let xb: Vec<&Reg> = unpack(s[4], s[6]).into_iter().map(|r| &regs[r]).collect();
                            let ca: Vec<&Ct> = xa.iter().map(|r| &r.ct).collect();
                            let cb: Vec<&Ct> = xb.iter().map(|r| &r.ct).collect();
                            st = status(&cx.module.ckks_dot_product_ct(&mut dst.ct, &ca, &cb, &cx.tsk, sc!()));
                            if !xa.is_empty() && xa.iter().chain(xb.iter()).all(|r| r.valid) {
                                let mut acc = (vec![0.0; m], vec![0.0; m]);
                                for (x, y) in xa.iter().zip(xb.iter()) { let p = cmul(&x.re, &x.im, &y.re, &y.im); acc = lin(&acc.0, &acc.1, &p.0, &p.1, 1.0); }
                                shadow = Some(acc);
                            }
                        }
                        DOT_PTZ | DOT_PTR | DOT_CZ | DOT_CR => {
                            let xa: Vec<&Reg> = unpack(s[4], s[5]).into_iter().map(|r| &regs[r]).collect();
                            let ca: Vec<&Ct> = xa.iter().map(|r| &r.ct).collect();
                            let n = xa.len();
                            let prec = CKKSMeta { log_delta: us(s[7]), log_budget: us(s[8]) };
                            let mut vals: Vec<(Vec<f64>, Vec<f64>)> = Vec::new();
                            let md = &cx.module;
                            let r = match op {
                                DOT_PTZ => {
                                    let pts: Vec<_> = (0..n).map(|i| cx.pt_znx(s[7], s[8], 0, cx.base2k, s[9] as u64 + i as u64, 0, 1.0).unwrap()).collect();
                                    for p in &pts { vals.push((p.1.clone(), p.2.clone())); }
                                    let refs: Vec<&CKKSPlaintextVecZnx<Vec<u8>>> = pts.iter().map(|p| &p.0).collect();
                                    md.ckks_dot_product_pt_vec_znx(&mut dst.ct, &ca, &refs, sc!())
                                }
                                DOT_PTR => {
                                    let pts: Vec<_> = (0..n).map(|i| cx.pt_rnx(s[7], s[8], s[9] as u64 + i as u64, 0, 1.0)).collect();
                                    for p in &pts { vals.push((p.1.clone(), p.2.clone())); }
                                    let refs: Vec<&CKKSPlaintextVecRnx<f64>> = pts.iter().map(|p| &p.0).collect();
                                    md.ckks_dot_product_pt_vec_rnx(&mut dst.ct, &ca, &refs, prec, sc!())
                                }
                                _ => {
                                    let cs: Vec<_> = (0..n).map(|i| cst_parts(s[6], s[9] as u64 + i as u64)).collect();
                                    let b2 = cx.base2k as i128;
                                    let kc = (s[7] + s[8] + b2 - 1) / b2 * b2;
                                    for (cre, cim) in &cs {
                                        vals.push((vec![cre.map(|v| cst_value(v, s[7], kc)).unwrap_or(0.0); m], vec![cim.map(|v| cst_value(v, s[7], kc)).unwrap_or(0.0); m]));
                                    }
                                    let rnx: Vec<CKKSPlaintextCstRnx<f64>> = cs.iter().map(|(a, b)| CKKSPlaintextCstRnx::<f64>::new(*a, *b)).collect();
                                    if op == DOT_CR {
                                        let refs: Vec<&CKKSPlaintextCstRnx<f64>> = rnx.iter().collect();
                                        md.ckks_dot_product_pt_const_rnx(&mut dst.ct, &ca, &refs, prec, sc!())
                                    } else {
                                        // the constants are converted first (to_znx), as a caller of the ZNX form has to
                                        let mut znx = Vec::new();
                                        let mut e = None;
                                        for c in &rnx { match c.to_znx(cx.base2k.into(), prec) { Ok(z) => znx.push(z), Err(x) => { e = Some(x); break; } } }
                                        match e {
                                            Some(x) => Err(x),
                                            None => { let refs: Vec<&poulpy_ckks::layouts::CKKSPlaintextCstZnx> = znx.iter().collect(); md.ckks_dot_product_pt_const_znx(&mut dst.ct, &ca, &refs, sc!()) }
                                        }
                                    }
                                }
                            };
                            st = status(&r);
                            if n > 0 && xa.iter().all(|r| r.valid) {
                                let mut acc = (vec![0.0; m], vec![0.0; m]);
                                for (x, y) in xa.iter().zip(vals.iter()) { let p = cmul(&x.re, &x.im, &y.0, &y.1); acc = lin(&acc.0, &acc.1, &p.0, &p.1, 1.0); }
                                shadow = Some(acc);
                            }
                        }
                        _ => panic!("c16: unknown op {op}"),
                    }
                    // shadow bookkeeping: a failed step leaves the destination's value unspecified
                    match (st, shadow) {
                        (ST_OK, Some((re, im))) => { dst.re = re; dst.im = im; dst.valid = true; }
                        (_, _) if matches!(op, DECRYPT | SET_META | REALLOC | COMPACT | RESCALE_ASSIGN | DIVPOW2_ASSIGN | ROTATE_ASSIGN) => {
                            // these reject before touching the data: the old value stays
                        }
                        _ => { dst.valid = false; }
                    }
                    if op == ALLOC || op == SET_META { dst.valid = false; }
                    // value check.  A value is representable only while every coefficient stays below 2^(log_budget-1):
                    // |coefficient| <= max slot modulus `cb`; beyond that there is no statement (the shadow becomes undefined)
                    let (mut errs, mut mag) = (-1i128, 0i128);
                    if dst.valid {
                        let cb = dst.re.iter().zip(dst.im.iter()).map(|(x, y)| x.hypot(*y)).fold(0.0, f64::max);
                        // usable range of balanced base-2^b digits: a hair below 2^(log_budget-1) on the positive side
                        let lim = (dst.ct.log_budget() as f64 - 1.0).exp2() * (1.0 - (-(cx.base2k as f64 - 2.0)).exp2());
                        let noise = 64.0 * cx.n as f64 * (-(dst.ct.log_delta() as f64)).exp2();
                        if !(cb.is_finite() && cb * (1.0 + 2f64.powi(-45)) + noise < lim && cb < 1e30) { dst.valid = false; } else { mag = cb.ceil() as i128 + 1; }
                    }
                    if st == ST_OK && dst.valid {
                        if let Some((re, im)) = cx.dec(&dst.ct) {
                            let e = (0..m).map(|i| (re[i] - dst.re[i]).abs().max((im[i] - dst.im[i]).abs())).fold(0.0, f64::max);
                            let sc = e * (dst.ct.log_delta() as f64).exp2();
                            errs = if sc.is_finite() && sc < 1e36 { sc.floor() as i128 } else { i128::MAX >> 4 };
                        }
                    }
                    let row = vec![st, dst.ct.log_delta() as i128, dst.ct.log_budget() as i128, dst.ct.size() as i128, errs, mag];
                    self.regs[d] = dst;
                    match extra {
                        Some((l, b2, sz)) => { let mut r = row; r.extend([l, b2, sz]); r }
                        None => row,
                    }
                }

                /// shadow for the plaintext family: add / sub / mul / mul-add / mul-sub of (x or dst) with the plaintext slots
                fn pt_shadow(_k: i128, dst: &Reg, x: &Reg, qre: &[f64], qim: &[f64], op: i128) -> Option<(Vec<f64>, Vec<f64>)> {
                    let into = |r: &Reg, f: &dyn Fn(&Reg) -> (Vec<f64>, Vec<f64>)| if r.valid { Some(f(r)) } else { None };
                    match op {
                        ADD_PTZ_INTO | ADD_PTR_INTO | ADD_CZ_INTO | ADD_CR_INTO => into(x, &|r| lin(&r.re, &r.im, qre, qim, 1.0)),
                        SUB_PTZ_INTO | SUB_PTR_INTO | SUB_CZ_INTO | SUB_CR_INTO => into(x, &|r| lin(&r.re, &r.im, qre, qim, -1.0)),
                        ADD_PTZ_ASSIGN | ADD_PTR_ASSIGN | ADD_CZ_ASSIGN | ADD_CR_ASSIGN => into(dst, &|r| lin(&r.re, &r.im, qre, qim, 1.0)),
                        SUB_PTZ_ASSIGN | SUB_PTR_ASSIGN | SUB_CZ_ASSIGN | SUB_CR_ASSIGN => into(dst, &|r| lin(&r.re, &r.im, qre, qim, -1.0)),
                        MUL_PTZ_INTO | MUL_PTR_INTO | MUL_CZ_INTO | MUL_CR_INTO => into(x, &|r| cmul(&r.re, &r.im, qre, qim)),
                        MUL_PTZ_ASSIGN | MUL_PTR_ASSIGN | MUL_CZ_ASSIGN | MUL_CR_ASSIGN => into(dst, &|r| cmul(&r.re, &r.im, qre, qim)),
                        MULADD_PTZ | MULADD_PTR | MULADD_CZ | MULADD_CR | MULSUB_PTZ | MULSUB_PTR | MULSUB_CZ | MULSUB_CR => {
                            if x.valid && dst.valid {
                                let p = cmul(&x.re, &x.im, qre, qim);
                                let sign = if matches!(op, MULADD_PTZ | MULADD_PTR | MULADD_CZ | MULADD_CR) { 1.0 } else { -1.0 };
                                Some(lin(&dst.re, &dst.im, &p.0, &p.1, sign))
                            } else { None }
                        }
                        _ => None,
                    }
                }
            }

            /// direct API calls that reproduce the defect classes found by the C16 machinery (n = 256, base2k = 19, k = 152)
            pub fn repro() {
                let cxr = ctx(8, 19, 152);
                let mut cxb = cxr.borrow_mut();
                let cx: &mut Ctx = &mut cxb;
                let m = cx.n / 2;
                let show = |name: &str, r: Result<(), String>, ct: &Ct| {
                    println!("  {name}: {:?}; dst log_delta={} log_budget={} effective_k={} max_k={}", r, ct.log_delta(), ct.log_budget(), ct.effective_k(), ct.max_k().as_usize());
                };
                let es = |r: Result<(), _>| -> Result<(), String> { r.map_err(|e: _| { let c = err_code(&e); format!("error kind {c}") }) };
                let enc = |cx: &mut Ctx, size: usize, ld: usize, lbp: usize, k: usize, seed: u64| -> (Ct, Vec<f64>, Vec<f64>) {
                    let mut ct = cx.alloc(size);
                    let (pt, re, im) = cx.pt_znx(ld as i128, lbp as i128, 0, cx.base2k, seed, 0, 1.0).unwrap();
                    let noise = NoiseInfos::new(k, DEFAULT_SIGMA_XE, DEFAULT_BOUND_XE).unwrap();
                    let (mut xa, mut xe) = (Source::new([seed as u8; 32]), Source::new([seed as u8 + 1; 32]));
                    cx.module.ckks_encrypt_sk(&mut ct, &pt, &cx.sk, &noise, &mut xa, &mut xe, cx.scratch.borrow()).unwrap();
                    (ct, re, im)
                };
                let maxerr = |cx: &mut Ctx, ct: &Ct, re: &[f64], im: &[f64]| -> f64 {
                    match cx.dec(ct) { Some((r, i)) => (0..m).map(|j| (r[j] - re[j]).abs().max((i[j] - im[j]).abs())).fold(0.0, f64::max), None => f64::NAN }
                };
                println!("K1 ckks_rescale_into into a smaller destination");
                let (x, re, im) = enc(cx, 8, 30, 10, 152, 11);
                let mut dst = cx.alloc(6);
                let r = es(cx.module.ckks_rescale_into(&mut dst, 3, &x, cx.scratch.borrow()));
                show("ckks_rescale_into(dst[6 limbs=114 bits], k=3, src(30,122))", r, &dst);
                println!("  max slot error after decrypt: {:e} (2^-log_delta = {:e})", maxerr(cx, &dst, &re, &im), (-30f64).exp2());
                println!("K7 ckks_mul_into with mixed metadata: a=(30,90) b=(20,110)");
                let (a, are, aim) = enc(cx, 7, 30, 3, 120, 21);
                let (b, bre, bim) = enc(cx, 7, 20, 3, 130, 22);
                let mut dst = cx.alloc(8);
                let r = es(cx.module.ckks_mul_into(&mut dst, &a, &b, &cx.tsk, cx.scratch.borrow()));
                show("ckks_mul_into(dst[8], a, b)", r, &dst);
                let (pre, pim) = cmul(&are, &aim, &bre, &bim);
                println!("  max slot error: {:e}; max |a*b| = {:e}  (the product comes out scaled by 2^-10)", maxerr(cx, &dst, &pre, &pim), pre.iter().chain(pim.iter()).fold(0.0f64, |x, y| x.max(y.abs())));
                let (b2, bre2, bim2) = enc(cx, 7, 20, 3, 120, 22);
                let (a2, are2, aim2) = enc(cx, 7, 30, 3, 130, 21);
                let mut dst = cx.alloc(8);
                let r = es(cx.module.ckks_mul_into(&mut dst, &a2, &b2, &cx.tsk, cx.scratch.borrow()));
                show("control: a=(30,100) b=(20,100)", r, &dst);
                let (pre, pim) = cmul(&are2, &aim2, &bre2, &bim2);
                println!("  max slot error: {:e}", maxerr(cx, &dst, &pre, &pim));
                println!("K4 failed ckks_neg_into leaves dst.meta = src.meta; later calls on dst");
                let mut small = cx.alloc(1);
                let r = es(cx.module.ckks_neg_into(&mut small, &x, cx.scratch.borrow()));
                show("ckks_neg_into(dst[1 limb=19 bits], src(30,122))", r, &small);
                let r = es(cx.module.ckks_neg_assign(&mut small));
                show("ckks_neg_assign(dst)", r, &small);
                let r = catch_unwind(AssertUnwindSafe(|| cx.module.ckks_compact_limbs_copy(&small).map(|_| ())));
                println!("  ckks_compact_limbs_copy(dst): {}", match r { Ok(_) => "returned".to_string(), Err(p) => format!("PANIC {}", panic_class(p)) });
                println!("K2 ckks_add_pt_const_rnx_assign with a constant more precise than the ciphertext stores");
                let (mut y, _, _) = enc(cx, 2, 30, 8, 38, 31);
                let c = CKKSPlaintextCstRnx::<f64>::new(Some(0.5), None);
                let r = catch_unwind(AssertUnwindSafe(|| cx.module.ckks_add_pt_const_rnx_assign(&mut y, &c, CKKSMeta { log_delta: 50, log_budget: 0 }, cx.scratch.borrow()).map(|_| ())));
                println!("  ct(30,8)[2 limbs=38 bits] += const(prec log_delta=50): {}", match r { Ok(r) => format!("{:?}", es(r)), Err(p) => format!("PANIC {}", panic_class(p)) });
                println!("K3 product of a ciphertext that is not stored compactly");
                let mut sq = cx.alloc(8);
                cx.module.ckks_square_into(&mut sq, &x, &cx.tsk, cx.scratch.borrow()).unwrap();
                show("x2 = ckks_square_into(dst[8], x(30,122))", Ok(()), &sq);
                let mut q = cx.alloc(8);
                let r = catch_unwind(AssertUnwindSafe(|| cx.module.ckks_square_into(&mut q, &sq, &cx.tsk, cx.scratch.borrow()).map(|_| ())));
                println!("  ckks_square_into(dst, x2) without ckks_compact_limbs: {}", match r { Ok(r) => format!("{:?}", es(r)), Err(p) => format!("PANIC {}", panic_class(p)) });
                println!("K6 ckks_mul_pt_vec_znx_into with a plaintext of another base2k");
                let (pt, _, _) = cx.pt_znx(20, 0, 0, 20, 5, 0, 1.0).unwrap();
                let mut q = cx.alloc(8);
                let r = catch_unwind(AssertUnwindSafe(|| cx.module.ckks_mul_pt_vec_znx_into(&mut q, &x, &pt, cx.scratch.borrow()).map(|_| ())));
                println!("  mul: {}", match r { Ok(r) => format!("{:?}", es(r)), Err(p) => format!("PANIC {}", panic_class(p)) });
                let r = catch_unwind(AssertUnwindSafe(|| cx.module.ckks_add_pt_vec_znx_into(&mut q, &x, &pt, cx.scratch.borrow()).map(|_| ())));
                println!("  add: {}", match r { Ok(r) => format!("{:?}", es(r)), Err(p) => format!("PANIC {}", panic_class(p)) });
                println!("K5 absurd scalars (overflow checks {})", if cfg!(debug_assertions) { "on" } else { "off" });
                let mut q = cx.alloc(7);
                let r = catch_unwind(AssertUnwindSafe(|| cx.module.ckks_div_pow2_into(&mut q, &x, usize::MAX, cx.scratch.borrow()).map(|_| ())));
                match r { Ok(r) => show("ckks_div_pow2_into(dst[7], x(30,122), bits=usize::MAX)", es(r), &q), Err(p) => println!("  ckks_div_pow2_into(dst[7], x, usize::MAX): PANIC {}", panic_class(p)) }
                let r = catch_unwind(AssertUnwindSafe(|| q.set_meta_checked(CKKSMeta { log_delta: usize::MAX, log_budget: 2 }).map(|_| ())));
                match r { Ok(r) => show("set_meta_checked(log_delta=usize::MAX, log_budget=2)", es(r), &q), Err(p) => println!("  set_meta_checked(usize::MAX, 2): PANIC {}", panic_class(p)) }
            }

            pub fn run(code: i64, ps: &[i128], steps: &[Vec<i128>]) -> Vec<Vec<i128>> {
                let mut mach = Machine::new(ps[1] as usize, ps[2] as usize, ps[3] as usize);
                let mut out = Vec::new();
                for s in steps {
                    let row = mach.step(s);
                    let dead = row[0] == ST_PANIC;
                    out.push(project(code, s[0], row));
                    if dead { break; }
                }
                out
            }
        }
    };
}

/// columns kept per stream
pub fn project(code: i64, op: i128, row: Vec<i128>) -> Vec<i128> {
    if code == 16002 {
        row[..6].to_vec()
    } else if op == ALIGN && row.len() >= 9 {
        let mut r = row[..4].to_vec();
        r.extend_from_slice(&row[6..9]);
        r
    } else {
        row[..4].to_vec()
    }
}

backend_impl!(fft64ref, poulpy_cpu_ref::FFT64Ref);
backend_impl!(ntt120ref, poulpy_cpu_ref::NTT120Ref);
// The AVX backends implement CKKSImpl only under poulpy-ckks/enable-avx.  They are compiled in when the harness manifest has
//   avx = ["poulpy-cpu-avx/enable-avx", "poulpy-ckks/enable-avx", "ckks-avx"]   and   ckks-avx = []
#[cfg(feature = "ckks-avx")]
backend_impl!(fft64avx, poulpy_cpu_avx::FFT64Avx);
#[cfg(feature = "ckks-avx")]
backend_impl!(ntt120avx, poulpy_cpu_avx::NTT120Avx);

fn run_prog(code: i64, ps: &[i128], steps: &[Vec<i128>]) -> Vec<Vec<i128>> {
    assert!(well_formed(steps), "c16: malformed program");
    match ps[0] {
        1 => fft64ref::run(code, ps, steps),
        3 => ntt120ref::run(code, ps, steps),
        #[cfg(feature = "ckks-avx")]
        2 => fft64avx::run(code, ps, steps),
        #[cfg(feature = "ckks-avx")]
        4 => ntt120avx::run(code, ps, steps),
        _ => panic!("bad backend"),
    }
}

fn encdec(ps: &[i128]) -> Vec<Vec<i128>> {
    // encode -> decode identity of the f64 slot encoder; output: max error in units of 2^-52 relative to max(1, |x|)
    let m = 1usize << ps[0];
    let (re, im) = slots(m, ps[1] as u64, ps[2], (ps[3] as f64).exp2());
    let enc = Encoder::<f64>::new(m).unwrap();
    let mut pt = CKKSPlaintextVecRnx::<f64>::alloc(2 * m).unwrap();
    enc.encode_reim(&mut pt, &re, &im).unwrap();
    let (mut r2, mut i2) = (vec![0.0; m], vec![0.0; m]);
    enc.decode_reim(&pt, &mut r2, &mut i2).unwrap();
    let mx = re.iter().chain(im.iter()).fold(1.0f64, |a, b| a.max(b.abs()));
    let e = (0..m).map(|i| (re[i] - r2[i]).abs().max((im[i] - i2[i]).abs())).fold(0.0, f64::max);
    vec![vec![(e / mx * 52f64.exp2()).ceil() as i128]]
}

pub fn exec(r: &Rec) -> Out {
    let r2 = r.clone();
    guard(move || match r2.code {
        16001 | 16002 => run_prog(r2.code, &r2.ps, &r2.vs),
        16003 => encdec(&r2.ps),
        _ => panic!("c16: unknown code {}", r2.code),
    })
}

/// overflow checks of this build (the dev profile has them, the release profile of the harness turns them off)
pub fn chk_flag() -> i128 { if cfg!(debug_assertions) { 1 } else { 0 } }

fn st(v: &[i128]) -> Vec<i128> { let mut x = v.to_vec(); x.resize(10, 0); x }

/// programs that are generated while being executed, so that most steps are plausible for the current metadata
macro_rules! gen_impl {
    ($m:ident) => {
        fn $m(rng: &mut Rng, logn: usize, b2k: usize, kmax: usize, nsteps: usize, defects: bool) -> Vec<Vec<i128>> {
            let mut mach = $m::Machine::new(logn, b2k, kmax);
            let b = b2k as i128;
            let maxsz = (kmax / b2k) as i128;
            let mut prog: Vec<Vec<i128>> = Vec::new();
            let mut push = |mach: &mut $m::Machine, prog: &mut Vec<Vec<i128>>, s: Vec<i128>| -> i128 {
                let row = mach.step(&s);
                prog.push(s);
                row[0]
            };
            // registers of unequal limb counts
            for r in 0..NREGS as i128 {
                let sz = match rng.below(6) { 0 => maxsz, 1 => maxsz + 1, 2 => 1 + rng.below(2) as i128, _ => 1 + rng.below(maxsz as u64) as i128 };
                push(&mut mach, &mut prog, st(&[ALLOC, r, 0, 0, sz]));
            }
            let fresh = |rng: &mut Rng, mach: &mut $m::Machine, prog: &mut Vec<Vec<i128>>, r: i128, push: &mut dyn FnMut(&mut $m::Machine, &mut Vec<Vec<i128>>, Vec<i128>) -> i128| {
                let (_, _, mut sz) = mach.meta(r as usize);
                if sz == 0 { sz = 1 + rng.below(maxsz as u64) as i128; push(mach, prog, st(&[ALLOC, r, 0, 0, sz])); }
                let mk = sz * b;
                let ld = rng.range(8, 45.min(mk as i64 - 2).max(8)) as i128;
                let enc_k = if rng.below(8) == 0 { rng.range(1, mk as i64) as i128 } else { mk - rng.below(b as u64) as i128 }.max(1);
                let room = (enc_k - ld).max(0);
                let lbp = if rng.below(6) == 0 { rng.below(40) as i128 } else { rng.below(1 + room.min(24) as u64) as i128 };
                // near the magnitude limit: constant slots of absolute value 2^(log_budget-1) (1 - 2^-(base2k-2))
                // (balanced base-2^b digits decode values in [2^(lb-1) (1 - 2^-b), 2^(lb-1)) as negative: the usable positive range ends there)
                let (kind, mag, lbp) = if rng.below(10) == 0 && room >= 3 && room <= 40 {
                    let cut = if room - 1 >= b - 2 { 1i128 << (room - 1 - (b - 2)) } else { 1 };
                    (2, (1i128 << (room - 1)) - cut.max(2), room)
                } else { (rng.below(2) as i128 * 3, 0, lbp) };
                push(mach, prog, st(&[ENCRYPT, r, 0, 0, ld, lbp, enc_k, rng.next() as u32 as i128, kind, mag]));
            };
            for r in 0..3 { fresh(rng, &mut mach, &mut prog, r, &mut push); }
            let mut poisoned: Vec<bool> = vec![false; NREGS];
            let mut probed: Vec<bool> = vec![false; NREGS];
            for _ in 0..nsteps {
                let d = rng.below(NREGS as u64) as usize;
                let mut a = rng.below(NREGS as u64) as usize;
                let mut bb = rng.below(NREGS as u64) as usize;
                if a == d { a = (a + 1) % NREGS; }
                if bb == d { bb = (bb + 2) % NREGS; if bb == d { bb = (bb + 1) % NREGS; } }
                let (dl, dbud, dsz) = mach.meta(d);
                let (al, abud, asz) = mach.meta(a);
                let (bl, bbud, _bsz) = mach.meta(bb);
                let dmk = dsz * b;
                let wild = rng.below(6) == 0;
                // a register whose metadata was left inconsistent (failed call, or the rescale_into class) is quarantined:
                // in a `defects` program one simple call is made on it (these are the calls the model covers for operands
                // that violate the invariant), then it is allocated afresh; nothing else ever reads it
                if let Some(p) = (0..NREGS).find(|r| poisoned[*r]) {
                    if defects && !probed[p] {
                        probed[p] = true;
                        let other = (p + 1) % NREGS;
                        let s = match rng.below(5) {
                            0 => st(&[NEG_ASSIGN, p as i128]),
                            1 => st(&[RESCALE_ASSIGN, p as i128, 0, 0, rng.below(4) as i128]),
                            2 => st(&[DIVPOW2_ASSIGN, p as i128, 0, 0, rng.below(4) as i128]),
                            3 => st(&[COMPACT_COPY, other as i128, p as i128]),
                            _ => st(&[DECRYPT, p as i128, 0, 0, 20, 4]),
                        };
                        let status = push(&mut mach, &mut prog, s);
                        if status == ST_PANIC { break; }
                        let (l2, b2, s2) = mach.meta(other);
                        if l2 + b2 > s2 * b { poisoned[other] = true; probed[other] = true; }
                    } else {
                        let sz = 1 + rng.below(maxsz as u64) as i128;
                        push(&mut mach, &mut prog, st(&[ALLOC, p as i128, 0, 0, sz]));
                        poisoned[p] = false;
                        probed[p] = false;
                        if rng.below(2) == 0 { fresh(rng, &mut mach, &mut prog, p as i128, &mut push); }
                    }
                    continue;
                }
                let (d, a, bb) = (d as i128, a as i128, bb as i128);
                let aeff = al + abud;
                let noncompact = |l: i128, bu: i128, sz: i128| (l + bu + b - 1) / b != sz;
                // (products of operands with spare limbs return OperandNotCompact: most operands are compacted first, as the crate's example does)
                let keep = rng.below(if defects { 2 } else { 6 }) == 0;
                // products assert compact operands in poulpy-core (known class): compact first, as the crate's example does
                let mut fix: Vec<i128> = Vec::new();
                let off_a = (aeff - dmk).max(0);
                let ptmeta = |rng: &mut Rng, budget: i128| -> (i128, i128) {
                    let l = if wild { rng.range(0, 60) as i128 } else { rng.range(4, 44) as i128 };
                    let bmax = if wild { 60 } else { budget.clamp(0, 24) };
                    let lbp = rng.below(1 + bmax as u64) as i128;
                    // a precision of (0, 0) has no limb at all (to_znx panics on it): not an admissible plaintext
                    (l, if l + lbp == 0 { 1 } else { lbp })
                };
                let seed = rng.next() as u32 as i128;
                let parts = if rng.below(8) == 0 { 0 } else { 1 + rng.below(3) as i128 };
                let s: Vec<i128> = match rng.below(47) {
                    0 => st(&[ADD_INTO, d, a, bb]),
                    1 => st(&[SUB_INTO, d, a, bb]),
                    2 => st(&[ADD_ASSIGN, d, a]),
                    3 => st(&[SUB_ASSIGN, d, a]),
                    4 | 5 => {
                        let into = rng.below(2) == 0;
                        let budget = if into { abud - off_a } else { dbud };
                        let (l, lbp) = ptmeta(rng, budget);
                        let extra = if rng.below(5) == 0 { 1 } else { 0 };
                        let pb = if rng.below(16) == 0 { b + 1 } else { b };
                        let op = *[[ADD_PTZ_ASSIGN, SUB_PTZ_ASSIGN], [ADD_PTZ_INTO, SUB_PTZ_INTO]][into as usize].get(rng.below(2) as usize).unwrap();
                        st(&[op, d, a, 0, l, lbp, extra, seed, 0, pb])
                    }
                    6 | 7 => {
                        let into = rng.below(2) == 0;
                        let budget = if into { abud - off_a } else { dbud };
                        let (l, lbp) = ptmeta(rng, budget);
                        let op = *[[ADD_PTR_ASSIGN, SUB_PTR_ASSIGN], [ADD_PTR_INTO, SUB_PTR_INTO]][into as usize].get(rng.below(2) as usize).unwrap();
                        st(&[op, d, a, 0, l, lbp, 0, seed, 0, b])
                    }
                    8 | 9 => {
                        // constant in ZNX form, aligned to the destination most of the time
                        let into = rng.below(2) == 0;
                        let (srcl, resb) = if into { (al, (abud - off_a).max(0)) } else { (dl, dbud) };
                        let slack = (dmk - resb - srcl).max(0);
                        let l = if wild { rng.range(0, 56) as i128 } else { rng.range(2, (srcl + slack).clamp(2, 50) as i64) as i128 };
                        let k = if rng.below(5) == 0 { (resb + l - rng.range(-3, 6) as i128).max(1) } else { (resb + l).max(1) };
                        // (a constant with more digits than the destination has limbs is rejected: keep most of them fitting)
                        let fits = (k + b - 1) / b <= dsz;
                        let l = if !fits && rng.below(2) == 0 { srcl.min(50) } else { l };
                        let k = if !fits && rng.below(2) == 0 { (resb + l).max(1) } else { k };
                        let op = *[[ADD_CZ_ASSIGN, SUB_CZ_ASSIGN], [ADD_CZ_INTO, SUB_CZ_INTO]][into as usize].get(rng.below(2) as usize).unwrap();
                        st(&[op, d, a, 0, l, k, parts, seed])
                    }
                    10 | 11 => {
                        let into = rng.below(2) == 0;
                        let (srcl, resb) = if into { (al, (abud - off_a).max(0)) } else { (dl, dbud) };
                        let slack = (dmk - resb - srcl).max(0);
                        let mut l = if wild { rng.range(0, 60) as i128 } else { rng.range(2, 50) as i128 };
                        // a constant more precise than what the destination stores is rejected: keep most of them fitting
                        if (resb + l + b - 1) / b > dsz && rng.below(2) == 0 { l = (srcl + slack).min(50).max(0); }
                        if resb + l == 0 { l = 1; } // to_znx_at_k needs k >= 1 (admissibility)
                        let op = *[[ADD_CR_ASSIGN, SUB_CR_ASSIGN], [ADD_CR_INTO, SUB_CR_INTO]][into as usize].get(rng.below(2) as usize).unwrap();
                        st(&[op, d, a, 0, l, rng.below(30) as i128, parts, seed])
                    }
                    12 => st(&[NEG_INTO, d, a]),
                    13 => st(&[NEG_ASSIGN, d]),
                    14 | 15 => { fix = vec![a, bb]; st(&[MUL_INTO, d, a, bb]) }
                    16 => { fix = vec![d, a]; st(&[MUL_ASSIGN, d, a]) }
                    17 => { fix = vec![a]; st(&[SQUARE_INTO, d, a]) }
                    18 => { fix = vec![d]; st(&[SQUARE_ASSIGN, d]) }
                    19 | 20 => {
                        let (l, lbp) = ptmeta(rng, 20);
                        let op = *[MUL_PTZ_INTO, MUL_PTZ_ASSIGN, MUL_PTR_INTO, MUL_PTR_ASSIGN, MULADD_PTZ, MULSUB_PTZ, MULADD_PTR, MULSUB_PTR].get(rng.below(8) as usize).unwrap();
                        fix = vec![if op == MUL_PTZ_ASSIGN || op == MUL_PTR_ASSIGN { d } else { a }];
                        let extra = if rng.below(5) == 0 { 1 } else { 0 };
                        st(&[op, d, a, 0, l, lbp, extra, seed, 0, b])
                    }
                    21 | 22 => {
                        let (l, lbp) = ptmeta(rng, 20);
                        let op = *[MUL_CZ_INTO, MUL_CZ_ASSIGN, MUL_CR_INTO, MUL_CR_ASSIGN, MULADD_CZ, MULSUB_CZ, MULADD_CR, MULSUB_CR].get(rng.below(8) as usize).unwrap();
                        st(&[op, d, a, 0, l, lbp, parts, seed])
                    }
                    23 => { fix = vec![a, bb]; st(&[if rng.below(2) == 0 { MULADD_CT } else { MULSUB_CT }, d, a, bb]) }
                    24 => st(&[MULPOW2_INTO, d, a, 0, if wild { rng.below(70) as i128 } else { rng.below(4) as i128 }]),
                    25 => st(&[MULPOW2_ASSIGN, d, 0, 0, if wild { rng.below(70) as i128 } else { rng.below(4) as i128 }]),
                    26 => st(&[DIVPOW2_INTO, d, a, 0, if wild { rng.below(200) as i128 } else { rng.below(1 + (abud - off_a).clamp(0, 12) as u64) as i128 }]),
                    27 => st(&[DIVPOW2_ASSIGN, d, 0, 0, if wild { rng.below(200) as i128 } else { rng.below(1 + dbud.clamp(0, 12) as u64) as i128 }]),
                    28 | 29 => {
                        let k = if rng.below(4) == 0 { *[0i128, 2, -1, 7, 3, -5].get(rng.below(6) as usize).unwrap() } else { *[1i128, 5].get(rng.below(2) as usize).unwrap() };
                        if rng.below(2) == 0 { st(&[ROTATE_INTO, d, a, 0, k]) } else { st(&[ROTATE_ASSIGN, d, 0, 0, k]) }
                    }
                    30 => st(&[CONJ_INTO, d, a]),
                    31 => st(&[CONJ_ASSIGN, d]),
                    32 => {
                        let k = if wild { rng.below(200) as i128 } else { rng.below(1 + abud.clamp(0, 40) as u64) as i128 };
                        st(&[RESCALE_INTO, d, a, 0, k])
                    }
                    33 => st(&[RESCALE_ASSIGN, d, 0, 0, if wild { rng.below(200) as i128 } else { rng.below(1 + dbud.clamp(0, 40) as u64) as i128 }]),
                    34 => st(&[ALIGN, d, 0, bb]),
                    35 => if dl + dbud == 0 { st(&[NEG_ASSIGN, d]) } else { st(&[COMPACT, d]) },
                    36 => { let need = (dl + dbud + b - 1) / b; st(&[REALLOC, d, 0, 0, (need + rng.range(-1, 2) as i128).max(1)]) }
                    37 => if aeff == 0 { st(&[NEG_INTO, d, a]) } else { st(&[COMPACT_COPY, d, a]) },
                    38 => {
                        if rng.below(3) == 0 { let (l, lbp) = ptmeta(rng, dbud); st(&[DECRYPT, d, 0, 0, l, lbp]) }
                        else { let l = rng.below(1 + dmk.min(50) as u64) as i128; st(&[SET_META, d, 0, 0, l, if wild { rng.below(400) as i128 } else { rng.below(1 + (dmk - l).max(0) as u64) as i128 }]) }
                    }
                    40..=46 => {
                        // composites over register lists (the destination is never an input)
                        let cands: Vec<usize> = (0..NREGS).filter(|r| *r as i128 != d && { let (l, bu, _) = mach.meta(*r); l + bu > 0 }).collect();
                        if cands.is_empty() { fresh(rng, &mut mach, &mut prog, a, &mut push); continue; }
                        let n = match rng.below(10) { 0 => 0, 1 => 1, 2 => 5, _ => 2 + rng.below(3) as usize };
                        let which = 40 + rng.below(7) as i128 + 30; // 70..=76
                        let pick_same_ld = |rng: &mut Rng, mach: &$m::Machine| -> Vec<usize> {
                            let pivot = cands[rng.below(cands.len() as u64) as usize];
                            let same: Vec<usize> = cands.iter().copied().filter(|r| mach.meta(*r).0 == mach.meta(pivot).0).collect();
                            (0..n).map(|_| if rng.below(8) == 0 { cands[rng.below(cands.len() as u64) as usize] } else { same[rng.below(same.len() as u64) as usize] }).collect()
                        };
                        let xs: Vec<usize> = if which == MUL_MANY || which == DOT_CT { pick_same_ld(rng, &mach) } else { (0..n).map(|_| cands[rng.below(cands.len() as u64) as usize]).collect() };
                        let mut ys: Vec<usize> = if which == DOT_CT { pick_same_ld(rng, &mach) } else { vec![] };
                        if which == DOT_CT && rng.below(8) == 0 { ys = xs.clone(); }
                        if which != ADD_MANY && which != DOT_CZ && which != DOT_CR { fix = xs.iter().chain(ys.iter()).map(|r| *r as i128).collect(); }
                        let (l, lbp) = ptmeta(rng, 20);
                        st(&[which, d, 0, 0, n as i128, pack(&xs), if which == DOT_CT { pack(&ys) } else { parts }, l, lbp, seed])
                    }
                    _ => { fresh(rng, &mut mach, &mut prog, d, &mut push); continue; }
                };
                let _ = (bl, bbud, asz);
                if fix.iter().any(|r| { let (l, bu, _) = mach.meta(*r as usize); l + bu == 0 }) {
                    // products of never-encrypted registers make no sense: encrypt one instead
                    let r = *fix.iter().find(|r| { let (l, bu, _) = mach.meta(**r as usize); l + bu == 0 }).unwrap();
                    fresh(rng, &mut mach, &mut prog, r, &mut push);
                    continue;
                }
                if !keep {
                    for r in fix {
                        let (l, bu, sz) = mach.meta(r as usize);
                        if l + bu > 0 && l + bu <= sz * b && noncompact(l, bu, sz) { push(&mut mach, &mut prog, st(&[COMPACT, r])); }
                    }
                }
                let status = push(&mut mach, &mut prog, s);
                if status == ST_PANIC { break; }
                let (l2, b2, s2) = mach.meta(d as usize);
                poisoned[d as usize] = l2 + b2 > s2 * b;
            }
            prog
        }
    };
}
gen_impl!(fft64ref);
gen_impl!(ntt120ref);
#[cfg(feature = "ckks-avx")]
gen_impl!(fft64avx);
#[cfg(feature = "ckks-avx")]
gen_impl!(ntt120avx);

/// (backend, log n, base2k, kmax)
#[cfg(not(feature = "ckks-avx"))]
const CONFIGS: [(i128, usize, usize, usize); 4] = [(1, 7, 19, 152), (3, 7, 52, 312), (1, 8, 16, 128), (3, 8, 45, 270)];
#[cfg(feature = "ckks-avx")]
const CONFIGS: [(i128, usize, usize, usize); 8] =
    [(1, 7, 19, 152), (3, 7, 52, 312), (2, 7, 19, 152), (4, 7, 52, 312), (1, 8, 16, 128), (3, 8, 45, 270), (2, 8, 16, 128), (4, 8, 45, 270)];

pub fn generate(tier: &str, seed: u64) -> Vec<Rec> {
    let (value, tier) = match tier.strip_prefix("value:") { Some(t) => (true, t), None => (false, tier) };
    let mut rng = Rng::new(seed ^ if value { 0x5a5a } else { 0 });
    let nprog = if tier == "thorough" { 1200 } else { 240 };
    let code = if value { 16002 } else { 16001 };
    let mut out = Vec::new();
    for i in 0..nprog {
        let (be, logn, b2k, kmax) = CONFIGS[i % CONFIGS.len()];
        let nsteps = 8 + rng.below(28) as usize;
        // every fifth program of the metadata stream may walk into the known defect classes
        let defects = !value && i % 5 == 4;
        let steps = match be {
            1 => fft64ref(&mut rng, logn, b2k, kmax, nsteps, defects),
            #[cfg(feature = "ckks-avx")]
            2 => fft64avx(&mut rng, logn, b2k, kmax, nsteps, defects),
            #[cfg(feature = "ckks-avx")]
            4 => ntt120avx(&mut rng, logn, b2k, kmax, nsteps, defects),
            _ => ntt120ref(&mut rng, logn, b2k, kmax, nsteps, defects),
        };
        out.push(Rec::new(code, vec![be, logn as i128, b2k as i128, kmax as i128, chk_flag()], steps));
    }
    if value {
        // ct x ct products of operands with mixed metadata, (30,90)x(20,110) etc. (repaired in fd924ce: regression),
        // and the same through the fused path of ckks_dot_product_ct (two terms), which still has the defect for the first two
        for (la, ka, lb_, kb) in [(30i128, 120i128, 20i128, 130i128), (20, 130, 30, 120), (30, 130, 20, 120), (30, 120, 30, 130)] {
            let pre = vec![st(&[ALLOC, 0, 0, 0, 7]), st(&[ALLOC, 1, 0, 0, 7]), st(&[ALLOC, 2, 0, 0, 8]),
                st(&[ENCRYPT, 0, 0, 0, la, 3, ka, 1454563580, 3, 0]), st(&[ENCRYPT, 1, 0, 0, lb_, 3, kb, 2300918428, 0, 0])];
            for last in [st(&[MUL_INTO, 2, 0, 1]), st(&[DOT_CT, 2, 0, 0, 2, pack(&[0, 0]), pack(&[1, 1])])] {
                let mut steps = pre.clone();
                steps.push(last);
                out.push(Rec::new(16002, vec![1, 8, 19, 152, chk_flag()], steps));
            }
        }
        for logm in 1..=12i128 { for kind in [0i128, 3] { for e in [0i128, 20, -20] {
            out.push(Rec::new(16003, vec![logm, rng.next() as u32 as i128, kind, e], vec![]));
        } } }
    } else {
        // one deterministic probe per known-finding class (so that every class is exercised on every run)
        {
            let (be, logn, b2k, kmax) = CONFIGS[0];
            let enc = st(&[ENCRYPT, 0, 0, 0, 30, 10, 152, 11, 0]);
            let probes: Vec<Vec<Vec<i128>>> = vec![
                // rescale_into a smaller destination (repaired: regression)
                vec![st(&[ALLOC, 0, 0, 0, 8]), st(&[ALLOC, 1, 0, 0, 6]), enc.clone(), st(&[RESCALE_INTO, 1, 0, 0, 3])],
                // K2 constant more precise than the destination stores
                vec![st(&[ALLOC, 0, 0, 0, 2]), st(&[ENCRYPT, 0, 0, 0, 30, 8, 38, 11, 0]), st(&[ADD_CR_ASSIGN, 0, 0, 0, 50, 0, 1, 5])],
                // K3 product of a ciphertext that is not stored compactly
                vec![st(&[ALLOC, 0, 0, 0, 8]), st(&[ALLOC, 1, 0, 0, 8]), st(&[ALLOC, 2, 0, 0, 8]), enc.clone(), st(&[SQUARE_INTO, 1, 0]), st(&[SQUARE_INTO, 2, 1])],
                // K4 failed neg_into leaves stale metadata; neg_assign succeeds on it; compact_limbs_copy panics
                vec![st(&[ALLOC, 0, 0, 0, 8]), st(&[ALLOC, 1, 0, 0, 1]), st(&[ALLOC, 2, 0, 0, 1]), enc.clone(), st(&[NEG_INTO, 1, 0]), st(&[NEG_ASSIGN, 1]), st(&[COMPACT_COPY, 2, 1])],
                // K6 product with a vector plaintext of another base2k
                vec![st(&[ALLOC, 0, 0, 0, 8]), st(&[ALLOC, 1, 0, 0, 8]), enc.clone(), st(&[MUL_PTZ_INTO, 1, 0, 0, 20, 0, 0, 5, 0, 20])],
                // single-input add_many / mul_many into a destination that is too small: stale metadata, then calls on it
                vec![st(&[ALLOC, 0, 0, 0, 8]), st(&[ALLOC, 1, 0, 0, 1]), st(&[ALLOC, 2, 0, 0, 1]), enc.clone(), st(&[ADD_MANY, 1, 0, 0, 1, 0]), st(&[NEG_ASSIGN, 1]), st(&[COMPACT_COPY, 2, 1])],
                vec![st(&[ALLOC, 0, 0, 0, 8]), st(&[ALLOC, 1, 0, 0, 1]), enc.clone(), st(&[MUL_MANY, 1, 0, 0, 1, 0]), st(&[RESCALE_ASSIGN, 1, 0, 0, 2])],
                // product tree and fused dot product on compact operands
                vec![st(&[ALLOC, 0, 0, 0, 8]), st(&[ALLOC, 1, 0, 0, 8]), enc.clone(), st(&[MUL_MANY, 1, 0, 0, 3, 0]), st(&[DOT_CT, 1, 0, 0, 3, 0, 0])],
            ];
            for p in probes { out.push(Rec::new(code, vec![be, logn as i128, b2k as i128, kmax as i128, chk_flag()], p)); }
        }
        // usize overflow probes (absurd scalars): div_pow2_into / mul_pow2_into / set_meta_checked
        let big = (1i128 << 64) - 1;
        for (be, logn, b2k, kmax) in [CONFIGS[0], CONFIGS[1]] {
            let (b, sz) = (b2k as i128, (kmax / b2k) as i128);
            let pre = vec![st(&[ALLOC, 0, 0, 0, sz]), st(&[ALLOC, 1, 0, 0, sz - 1]), st(&[ENCRYPT, 0, 0, 0, 30, 10, sz * b, 11, 0])];
            for last in [st(&[DIVPOW2_INTO, 1, 0, 0, big]), st(&[MULPOW2_INTO, 1, 0, 0, big]), st(&[SET_META, 1, 0, 0, big, 2]), st(&[DIVPOW2_INTO, 1, 0, 0, big - 7])] {
                let mut p = pre.clone();
                p.push(last);
                out.push(Rec::new(code, vec![be, logn as i128, b as i128, kmax as i128, chk_flag()], p));
            }
        }
    }
    out
}

/// same command line as `poulpy_verif_harness::run_main`; in `exec` mode the overflow-check flag of a program record
/// (ps[4]) is set to this build's, so that a replay file can be run under both profiles
fn main() {
    use std::io::{BufRead, Write};
    if std::env::var("C16_TRACE").is_ok() { std::panic::set_hook(Box::new(|i| { eprintln!("  at {:?}: {}", i.location().map(|l| format!("{}:{}", l.file(), l.line())), i)})); } else { std::panic::set_hook(Box::new(|_| {})); }
    let args: Vec<String> = std::env::args().collect();
    match args.get(1).map(|s| s.as_str()).unwrap_or("") {
        "gen" => {
            let seed: u64 = args[3].parse().unwrap();
            let mut f = std::io::BufWriter::new(std::fs::File::create(&args[4]).unwrap());
            let recs = generate(&args[2], seed);
            for r in &recs { let o = exec(r); writeln!(f, "{}", r.line(&o)).unwrap(); }
            eprintln!("harness: {} records", recs.len());
        }
        "exec" => {
            let inp = std::io::BufReader::new(std::fs::File::open(&args[2]).unwrap());
            let mut f = std::io::BufWriter::new(std::fs::File::create(&args[3]).unwrap());
            for line in inp.lines() {
                if let Some(mut r) = Rec::parse(&line.unwrap()) {
                    if (r.code == 16001 || r.code == 16002) && r.ps.len() >= 5 { r.ps[4] = chk_flag(); }
                    let o = exec(&r);
                    writeln!(f, "{}", r.line(&o)).unwrap();
                }
            }
        }
        "repro" => fft64ref::repro(),
        _ => { eprintln!("usage: <bin> gen <tier> <seed> <out> | exec <in> <out> | repro"); std::process::exit(2); }
    }
}
