//! C04: external products, CMux, GGSW expansion.  See ../ks_common.rs for the record layout; the "key" of the header is the
//! GGSW multiplier (4001..4012) resp. the GGLWE->GGSW (tensor) key (4021..4033); key_rin = key_rout = rank.
//!
//! codes (x0 = op parameter, x1 = secret kind, x2 = input value class, x3 = m2 class)
//!   4001 glwe_external_product  4002 _assign                   L1: output limbs reproduced by the model (+ L2 oracle)
//!   4003 gglwe_external_product 4004 _assign                   x4 = rank_in of a, x5 = dnum of a, x6 = dnum of res
//!   4005 ggsw_external_product  4006 _assign                   x5 = dnum of a, x6 = dnum of res
//!   4010 cmux  4011 cmux_assign  4012 cmux_assign_neg          m2 = bit (x3 = 0 / 1); 4010 is L1 for dsize <= 2
//!   4020 cells of a freshly encrypted GGSW
//!   4023 rows of the GGLWE->GGSW (tensor) key generated through the public API
//!   4021 ggsw_from_gglwe  4022 ggsw_expand_row                 x4 = dsize of the GGSW, x5 = its dnum, x6 = its noise position
//!   4030 ggsw_keyswitch 4031 _assign  4032 ggsw_automorphism 4033 _assign   second key (ksk / atk): x7.. = b, size, dsize, dnum, k ; x0 = p
//! m2 classes: 0 zero, 1 one, 2 minus one, 3 X^k, 4 small dense, 5 -X^k
//! vs: 0 secret, 1 secret (target), 2 input ciphertext(s), 3 GGSW dump (L1), 4 m2, 5 second input (cmux f) ; observations: outputs, [flags]
#[path = "../ks_common.rs"]
#[macro_use]
mod ks_common;
use ks_common::*;
use poulpy_bin_fhe::bdd_arithmetic::Cmux;
use poulpy_verif_harness::with_be;

fn run(r: &Rec) -> Ran {
    let h = Hdr::parse(&r.ps);
    let x = |i: usize| r.ps.get(HDR + i).copied().unwrap_or(0);
    with_be!(h.be, BE, {
        ks_helpers!(BE);
        let m: M = M::new(h.n as u64);
        let n = h.n;
        let rank = h.key_rout;
        let (kind, class, mclass) = (x(1) as u64, x(2) as u64, x(3) as u64);
        let mut g = Rng::new(h.seed ^ 0xC4C4);
        let sk = sk_new(n, rank, h.seed ^ 1, kind);
        let s = sk_coeffs(&m, &sk);
        let ggsw_dump = |gg: &GGSW<Vec<u8>>, dnum: usize| mat_dump(|r_, c| gg.at(r_, c), dnum, rank + 1);
        match r.code {
            4001 | 4002 => {
                let m2 = input_or(r, 4, || m2_poly(&mut g, n, mclass));
                let (gg, gp) = ggsw_new(&m, &h.ggsw(), h.key_k, &sk, &m2, h.seed);
                let av = input_or(r, 2, || digits(&mut g, n * (rank + 1) * h.in_size, h.in_b, class));
                let a = glwe_from(n, h.in_b, h.in_size, rank, &av);
                let vs = vec![s.clone(), s.clone(), av.clone(), ggsw_dump(&gg, h.dnum), m2.clone()];
                let code = r.code;
                (vs, try_op(|| {
                    let (o, same) = twice(|fill| {
                        if code == 4001 {
                            let lo = h.glwe_out();
                            let mut res = GLWE::alloc_from_infos(&lo);
                            res.data_mut().data.iter_mut().for_each(|b| *b = 0x5a);
                            let mut sc = scratch(m.glwe_external_product_tmp_bytes(&lo, &a, &gp), fill);
                            m.glwe_external_product(&mut res, &a, &gp, sc.borrow());
                            vec![glwe_dump(&res)]
                        } else {
                            let mut res = a.clone();
                            let mut sc = scratch(m.glwe_external_product_tmp_bytes(&res, &res, &gp), fill);
                            m.glwe_external_product_assign(&mut res, &gp, sc.borrow());
                            vec![glwe_dump(&res)]
                        }
                    });
                    (vec![vec![same]], o)
                }))
            }
            4003 | 4004 | 4005 | 4006 => {
                let ggsw_a = r.code >= 4005;
                let a_rin = if ggsw_a { rank + 1 } else { us(x(4)) };
                let (a_dnum, r_dnum) = (us(x(5)), us(x(6)));
                let m2 = input_or(r, 4, || m2_poly(&mut g, n, mclass));
                let (_gg, gp) = ggsw_new(&m, &h.ggsw(), h.key_k, &sk, &m2, h.seed);
                let cell = n * (rank + 1) * h.in_size;
                let av = input_or(r, 2, || digits(&mut g, cell * a_dnum * a_rin, h.in_b, class));
                let vs = vec![s.clone(), s.clone(), av.clone(), vec![], m2.clone()];
                let code = r.code;
                let (kb, ks_, ob, os) = (h.in_b as u32, (h.in_size * h.in_b) as u32, h.out_b as u32, (h.out_size * h.out_b) as u32);
                (vs, try_op(|| {
                    let (mut o, same) = twice(|fill| {
                        if !ggsw_a {
                            let la = GGLWELayout { n: Degree(n as u32), base2k: Base2K(kb), k: TorusPrecision(ks_), rank_in: Rank(a_rin as u32), rank_out: Rank(rank as u32), dnum: Dnum(a_dnum as u32), dsize: Dsize(1) };
                            let lr = GGLWELayout { n: Degree(n as u32), base2k: Base2K(ob), k: TorusPrecision(os), rank_in: Rank(a_rin as u32), rank_out: Rank(rank as u32), dnum: Dnum(r_dnum as u32), dsize: Dsize(1) };
                            let mut a = GGLWE::alloc_from_infos(&la);
                            for row in 0..a_dnum { for ci in 0..a_rin { let q = row * a_rin + ci; glwe_fill(&mut a.at_mut(row, ci), &av[q * cell..(q + 1) * cell]); } }
                            if code == 4003 {
                                let mut res = GGLWE::alloc_from_infos(&lr);
                                res.data_mut().data_mut().iter_mut().for_each(|b| *b = 0x5a);
                                let mut sc = scratch(m.gglwe_external_product_tmp_bytes(&lr, &la, &gp), fill);
                                m.gglwe_external_product(&mut res, &a, &gp, sc.borrow());
                                vec![mat_dump(|r_, c| res.at(r_, c), r_dnum, a_rin)]
                            } else {
                                let mut sc = scratch(m.gglwe_external_product_tmp_bytes(&la, &la, &gp), fill);
                                m.gglwe_external_product_assign(&mut a, &gp, sc.borrow());
                                vec![mat_dump(|r_, c| a.at(r_, c), a_dnum, a_rin)]
                            }
                        } else {
                            let la = GGSWLayout { n: Degree(n as u32), base2k: Base2K(kb), k: TorusPrecision(ks_), rank: Rank(rank as u32), dnum: Dnum(a_dnum as u32), dsize: Dsize(1) };
                            let lr = GGSWLayout { n: Degree(n as u32), base2k: Base2K(ob), k: TorusPrecision(os), rank: Rank(rank as u32), dnum: Dnum(r_dnum as u32), dsize: Dsize(1) };
                            let mut a = GGSW::alloc_from_infos(&la);
                            for row in 0..a_dnum { for ci in 0..a_rin { let q = row * a_rin + ci; glwe_fill(&mut a.at_mut(row, ci), &av[q * cell..(q + 1) * cell]); } }
                            if code == 4005 {
                                let mut res = GGSW::alloc_from_infos(&lr);
                                for row in 0..r_dnum { for ci in 0..a_rin { res.at_mut(row, ci).data_mut().data.iter_mut().for_each(|b| *b = 0x5a); } }
                                let mut sc = scratch(m.ggsw_external_product_tmp_bytes(&lr, &la, &gp), fill);
                                m.ggsw_external_product(&mut res, &a, &gp, sc.borrow());
                                vec![mat_dump(|r_, c| res.at(r_, c), r_dnum, a_rin)]
                            } else {
                                let mut sc = scratch(m.ggsw_external_product_tmp_bytes(&la, &la, &gp), fill);
                                m.ggsw_external_product_assign(&mut a, &gp, sc.borrow());
                                vec![mat_dump(|r_, c| a.at(r_, c), a_dnum, a_rin)]
                            }
                        }
                    });
                    o.push(vec![same]);
                    (o, vec![vec![1]])
                }))
            }
            4010 | 4011 | 4012 => {
                let bit = (mclass & 1) as i128;
                let mut m2 = vec![0i128; n]; m2[0] = bit;
                let (gg, gp) = ggsw_new(&m, &h.ggsw(), h.key_k, &sk, &m2, h.seed);
                let cnt = n * (rank + 1) * h.in_size;
                let tv = input_or(r, 2, || digits(&mut g, cnt, h.in_b, class));
                let fv = input_or(r, 5, || digits(&mut g, cnt, h.in_b, (class + 1) % 6));
                let t = glwe_from(n, h.in_b, h.in_size, rank, &tv);
                let f = glwe_from(n, h.in_b, h.in_size, rank, &fv);
                let vs = vec![s.clone(), s.clone(), tv.clone(), ggsw_dump(&gg, h.dnum), m2.clone(), fv.clone()];
                let code = r.code;
                (vs, try_op(|| {
                    let (o, same) = twice(|fill| {
                        let lo = h.glwe_out();
                        let need = m.cmux_tmp_bytes(&lo, &t, &gp) + if code == 4012 { GLWE::<Vec<u8>>::bytes_of_from_infos(&lo) + 64 } else { 0 };
                        let mut sc = scratch(need, fill);
                        match code {
                            4010 => { let mut res = GLWE::alloc_from_infos(&lo); res.data_mut().data.iter_mut().for_each(|b| *b = 0x5a);
                                      m.cmux(&mut res, &t, &f, &gp, sc.borrow()); vec![glwe_dump(&res)] }
                            // res = (res - a) * s + a : res plays t, a plays f
                            4011 => { let mut res = t.clone(); m.cmux_assign(&mut res, &f, &gp, sc.borrow()); vec![glwe_dump(&res)] }
                            // res = (a - res) * s + res : a plays t, res plays f
                            _ => { let mut res = f.clone(); m.cmux_assign_neg(&mut res, &t, &gp, sc.borrow()); vec![glwe_dump(&res)] }
                        }
                    });
                    if code == 4010 { (vec![vec![same]], o) } else { let mut o = o; o.push(vec![same]); (o, vec![vec![1]]) }
                }))
            }
            4020 => {
                let m2 = input_or(r, 4, || m2_poly(&mut g, n, mclass));
                let vs = vec![s.clone(), s.clone(), vec![], vec![], m2.clone()];
                (vs, try_op(|| { let (gg, _gp) = ggsw_new(&m, &h.ggsw(), h.key_k, &sk, &m2, h.seed); (vec![ggsw_dump(&gg, h.dnum)], vec![vec![1]]) }))
            }
            4021 | 4022 | 4023 | 4030..=4033 => return run_ggsw_family(r, r.code),
            _ => panic!("c04: unknown op {}", r.code),
        }
    })
}

fn has_flags(c: i64) -> bool { c != 4020 && c != 4023 }
pub fn exec(r: &Rec) -> Ran { exec_xbe(r, run, has_flags) }

pub fn generate(tier: &str, seed: u64) -> Vec<Rec> {
    let mut rng = Rng::new(seed ^ 0x0404);
    let mut out = Vec::new();
    let scale = if tier == "thorough" { 6 } else { 1 };
    let mk = |code: i64, h: &Hdr, extra: Vec<i128>| Rec::new(code, h.ps(&extra), vec![]);
    // GGSW multiplier for an input of in_size limbs of radix in_b: precision below / above the GLWE precision
    let base = |rng: &mut Rng, it: u64, max_dsize: usize| -> Hdr {
        let be = [1i128, 3, 2, 4][(it % 4) as usize];
        let n = [8usize, 8, 16, 32][rng.below(4) as usize];
        let fft = be <= 2;
        let in_b = rng.range(6, if fft { 16 } else { 40 }) as usize;
        let in_size = rng.range(1, 6) as usize;
        let key_b = match rng.below(3) { 0 => in_b, _ => (if fft { rng.range(7, 16) } else { rng.range(7, 40) }) as usize };
        let dsize = (rng.range(1, 3) as usize + (rng.below(6) == 0) as usize).min(max_dsize);
        let need = (in_size * in_b).div_ceil(key_b).div_ceil(dsize);
        let dnum = match rng.below(4) { 0 => need.saturating_sub(1).max(1), 1 => need + 1, _ => need.max(1) };
        let key_size = (dnum * dsize + rng.range(0, 2) as usize).max(dsize + 1);
        let key_k = (key_size * key_b - rng.below(key_b as u64) as usize).max(dnum * dsize * key_b).min(key_size * key_b);
        let out_b = match rng.below(3) { 0 => key_b, 1 => in_b, _ => rng.range(5, if fft { 18 } else { 45 }) as usize };
        let out_size = rng.range(1, 6) as usize;
        let rank = rng.range(1, 3) as usize;
        Hdr { be, n, nobs: 0, in_b, in_size, in_rank: rank, out_b, out_size, out_rank: rank,
              key_b, key_size, key_rin: rank, key_rout: rank, dsize, dnum, key_k, bound: BOUND_XE, seed: rng.next() >> 8 }
    };
    // --- glwe external product
    for it in 0..220 * scale {
        let mut h = base(&mut rng, it, 4);
        let code = if it % 3 == 2 { 4002 } else { 4001 };
        if code == 4002 { h.out_b = h.in_b; h.out_size = h.in_size; }
        out.push(mk(code, &h, vec![0, rng.below(3) as i128, rng.below(6) as i128, rng.below(6) as i128]));
        if it % 5 == 0 { out.push(mk(4020, &h, vec![0, rng.below(3) as i128, 0, rng.below(6) as i128])); }
    }
    // --- gglwe / ggsw external products (result with fewer / as many / more rows)
    for it in 0..36 * scale {
        let mut h = base(&mut rng, it, 3);
        h.in_size = h.in_size.max(2); h.out_b = h.in_b; h.out_size = h.out_size.max(2);
        let code = 4003 + (it % 4) as i64;
        if code == 4004 || code == 4006 { h.out_size = h.in_size; }
        let a_dnum = rng.range(1, h.in_size as i64) as usize;
        let r_dnum = match rng.below(3) { 0 => a_dnum, 1 => rng.range(1, a_dnum as i64) as usize, _ => a_dnum + 1 }.min(h.out_size);
        out.push(mk(code, &h, vec![0, rng.below(3) as i128, rng.below(6) as i128, rng.below(6) as i128, rng.range(1, 2) as i128, a_dnum as i128, r_dnum as i128]));
    }
    // --- cmux: one radix everywhere
    for it in 0..90 * scale {
        let mut h = base(&mut rng, it, 4);
        h.key_b = h.in_b; h.out_b = h.in_b; h.out_size = h.in_size;
        let need = h.in_size.div_ceil(h.dsize);
        h.dnum = match rng.below(4) { 0 => need.saturating_sub(1).max(1), 1 => need + 1, _ => need.max(1) };
        h.key_size = (h.dnum * h.dsize + rng.range(0, 2) as usize).max(h.dsize + 1);
        h.key_k = h.key_size * h.key_b;
        let code = 4010 + (it % 3) as i64;
        out.push(mk(code, &h, vec![0, rng.below(3) as i128, rng.below(6) as i128, rng.below(2) as i128]));
    }
    // --- GGSW from GGLWE, row expansion, GGSW key-switch and automorphism: header key = tensor key
    for it in 0..40 * scale {
        let mut h = base(&mut rng, it, 2);
        h.in_size = h.in_size.max(3); h.out_b = h.in_b; h.out_size = h.in_size;
        let code = [4021i64, 4022, 4030, 4031, 4032, 4033][(it % 6) as usize];
        // rank 3 is where the packed index of the secret tensor first differs from its transpose: every second round of the family
        if (it / 6) % 2 == 0 { h.in_rank = 3; h.out_rank = 3; h.key_rin = 3; h.key_rout = 3; }
        let fft = h.be <= 2;
        // shape of the GGSW itself
        let gd = rng.range(1, 2) as usize;
        let gd = gd.min(h.in_size - 1);
        let gn_ = rng.range(1, (h.in_size / gd) as i64) as usize;
        let gk = h.in_size * h.in_b;
        // the tensor key acts on a GLWE of in_size limbs of radix in_b
        let need = (h.in_size * h.in_b).div_ceil(h.key_b).div_ceil(h.dsize);
        h.dnum = need.max(1);
        h.key_size = (h.dnum * h.dsize + 1).max(h.dsize + 1);
        h.key_k = h.key_size * h.key_b;
        // second key (switching / automorphism key)
        let b2 = if rng.below(2) == 0 { h.key_b } else { (if fft { rng.range(7, 16) } else { rng.range(7, 40) }) as usize };
        let d2 = rng.range(1, 2) as usize;
        let n2 = (h.in_size * h.in_b).div_ceil(b2).div_ceil(d2).max(1);
        let s2 = (n2 * d2 + 1).max(d2 + 1);
        let p = 2 * rng.below(h.n as u64) as i128 + 1;
        out.push(mk(code, &h, vec![p, rng.below(3) as i128, 0, rng.below(6) as i128, gd as i128, gn_ as i128, gk as i128,
                                   b2 as i128, s2 as i128, d2 as i128, n2 as i128, (s2 * b2) as i128]));
        if it % 6 == 0 { out.push(mk(4023, &h, vec![0, rng.below(3) as i128])); }
    }
    out
}

fn main() { ks_main(generate, exec) }
