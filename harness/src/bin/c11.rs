//! C11: outputs fully determined by inputs, no stray writes.
//! Flat-memory operations of C08 (vector level) and C09 are run as PAIRS from two different prior contents of the
//! whole destination buffer (opcode 110000 + op, last vector = alternative destination); C07's DFT-domain records
//! carry their own two-fill flags and are passed through; so are C05's HAL convolution records (5001..5004), which
//! dump the whole multi-column destination next to its prior content.
#![allow(dead_code)]
#[path = "c05.rs"]
mod c05;
#[path = "c07.rs"]
mod c07;
#[path = "c08.rs"]
mod c08;
#[path = "c09.rs"]
mod c09;

use poulpy_verif_harness::rec::*;

fn reads_dest(code: i64) -> bool {
    matches!(code, 8102 | 8103 | 8105 | 8106 | 8107 | 8109 | 8110 | 8202 | 8203 | 9002 | 9004 | 9005 | 9007 | 9009 | 9011 | 9015 | 9017 | 9019
        | 9103 | 9105 | 9107 | 9108 | 9110 | 9112 | 9114 | 9116)
}

fn in_col(n: usize, cols: usize, size: usize, col: usize, idx: usize) -> bool {
    let limb = idx / n;
    limb % cols == col && limb / cols < size
}

fn pair(r: &Rec, rng: &mut Rng) -> Option<Rec> {
    if r.code == 9021 || r.code == 9023 || r.vs.is_empty() { return None; }
    let (n, cols, size, col) = (r.ps[1] as usize, r.ps[2] as usize, r.ps[3] as usize, r.ps[5] as usize);
    let res = &r.vs[0];
    let keep = reads_dest(r.code);
    let alt: Vec<i128> = res.iter().enumerate().map(|(i, x)| {
        if keep && in_col(n, cols, size, col, i) { *x } else { rng.val64(40) as i128 }
    }).collect();
    let mut vs = r.vs.clone();
    vs.push(alt);
    Some(Rec::new(110000 + r.code, r.ps.clone(), vs))
}

pub fn exec(r: &Rec) -> Out {
    if r.code >= 110000 {
        let c = r.code - 110000;
        let mut vs1 = r.vs.clone();
        let alt = vs1.pop().unwrap();
        let mut vs2 = vs1.clone();
        vs2[0] = alt;
        let run = |vs: Vec<Vec<i128>>| -> Out {
            let b = Rec::new(c, r.ps.clone(), vs);
            if (8000..9000).contains(&c) { c08::exec(&b) } else { c09::exec(&b) }
        };
        match (run(vs1), run(vs2)) {
            (Ok(a), Ok(b)) => Ok(vec![a[0].clone(), b[0].clone()]),
            (Err(e), _) | (_, Err(e)) => Err(e),
        }
    } else if (5000..6000).contains(&r.code) {
        c05::exec(r)
    } else {
        c07::exec(r)
    }
}

pub fn generate(tier: &str, seed: u64) -> Vec<Rec> {
    let mut rng = Rng::new(seed ^ 0x11);
    let mut base = Vec::new();
    c08::gen_vec(&mut Rng::new(seed.wrapping_add(8)), tier, &mut base);
    base.extend(c09::generate(tier, seed.wrapping_add(9)));
    let mut out: Vec<Rec> = base.iter().filter_map(|r| pair(r, &mut rng)).collect();
    out.extend(c07::generate(tier, seed.wrapping_add(7)).into_iter().filter(|r| (7000..7100).contains(&r.code)));
    out.extend(c05::generate(tier, seed.wrapping_add(5)).into_iter().filter(|r| (5001..=5004).contains(&r.code)));
    out
}

fn main() { poulpy_verif_harness::run_main(generate, exec) }
