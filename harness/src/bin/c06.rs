//! C06: fresh ciphertexts carry the configured randomness.  Record layouts: coq/Model/C06Run.v, coq/Model/C06Oracle.v.
//!   6001 / 6002: header of C01 (see c01.rs); seeds ps[20..24] xs, [24..28] xe, [28..32] xa
//!   6004 / 6005: header of C19 (see c19.rs) + ps[32] eb, ps[33] limb, ps[34] log2 scale
//!   6020: ps = [be, layout, n, b, size, rank, nk, sigma*1000, cts, seed...]; statistics are support, not proof
use poulpy_core::api::*;
use poulpy_core::layouts::*;
use poulpy_hal::api::*;
use poulpy_hal::layouts::*;
use poulpy_hal::source::Source;
use poulpy_verif_harness::rec::*;
use poulpy_verif_harness::with_be;

#[path = "../enc_common.rs"]
mod enc_common;
use enc_common::*;

fn negamul128(a: &[i64], b: &[i64]) -> Vec<i128> {
    let n = a.len();
    let mut r = vec![0i128; n];
    for i in 0..n { if a[i] == 0 { continue; } for j in 0..n {
        let v = a[i] as i128 * b[j] as i128;
        if i + j < n { r[i + j] += v } else { r[i + j - n] -= v }
    } }
    r
}
fn negamul(a: &[i64], b: &[i64]) -> Vec<i64> { negamul128(a, b).iter().map(|x| *x as i64).collect() }

// ------------------------------------------------------------------ 6001 / 6002: controlled seed changes
fn seed_at(p: &[i128], i: usize) -> [u8; 32] { words_seed(&p[20 + 4 * i..24 + 4 * i]) }

fn flip_case(code: i64, p: &[i128], ptw: &[i128]) -> (Vec<Vec<i128>>, Vec<Vec<i128>>) {
    let u = |i: usize| p[i] as usize;
    let (be, n, b, size, rank, nk, psize) = (p[0], u(1), u(2), u(3), u(4), u(5), u(6));
    let (sigma, bound, kind, param) = (p[15] as f64 / 1000.0, p[16] as f64 / 1000.0, p[17], p[18]);
    let (sxs, sxe, sxa) = (seed_at(p, 0), seed_at(p, 1), seed_at(p, 2));
    let noise = NoiseInfos::new(nk, sigma, bound).unwrap();
    // the other plaintext: one digit changed (inside the balanced range)
    let mut ptw2 = ptw.to_vec();
    let half = 1i128 << (b - 1);
    let pos = (p[19] as usize) % ptw2.len();
    ptw2[pos] = if ptw2[pos] >= half - 1 { ptw2[pos] - 1 } else { ptw2[pos] + 1 };
    with_be!(be, BE, {
        if code == 6002 {
            let module: Module<BE> = Module::<BE>::new(8);
            let mk = |seed: &[u8; 32]| { let mut sk = LWESecret::alloc(Degree(n as u32)); fill_lwe_secret(&mut sk, kind, param, &mut Source::new(*seed)); sk };
            let (sk, sk2) = (mk(&sxs), mk(&flip_seed(&sxs)));
            let mut sc: ScratchOwned<BE> = garbage_scratch::<BE>(1 << 16);
            let mut run = |ptw: &[i128], sk: &LWESecret<Vec<u8>>, xe: &[u8; 32], xa: &[u8; 32]| -> Vec<i128> {
                let mut pt = LWEPlaintext::alloc(Base2K(b as u32), TorusPrecision((psize * b) as u32));
                set_col(pt.data_mut(), 0, ptw);
                let mut ct = LWE::alloc(Degree(n as u32), Base2K(b as u32), TorusPrecision((size * b) as u32));
                module.lwe_encrypt_sk(&mut ct, &pt, sk, &noise, &mut Source::new(*xe), &mut Source::new(*xa), sc.borrow());
                col_words(ct.data(), 0)
            };
            let c0 = run(ptw, &sk, &sxe, &sxa);
            let c0b = run(ptw, &sk, &sxe, &sxa);
            let cs = [run(&ptw2, &sk, &sxe, &sxa), run(ptw, &sk2, &sxe, &sxa), run(ptw, &sk, &flip_seed(&sxe), &sxa), run(ptw, &sk, &sxe, &flip_seed(&sxa))];
            // LWE layout: word 0 of each limb is the body, words 1..=n the mask
            let split = |c: &Vec<i128>| -> (Vec<i128>, Vec<i128>) {
                let (mut m, mut bd) = (vec![], vec![]);
                for j in 0..size { bd.push(c[j * (n + 1)]); m.extend_from_slice(&c[j * (n + 1) + 1..(j + 1) * (n + 1)]); }
                (m, bd)
            };
            let (m0, b0) = split(&c0);
            let mut flags = vec![(c0 == c0b) as i128];
            for c in &cs { let (m, bd) = split(c); flags.push((m == m0) as i128); flags.push((bd == b0) as i128); }
            let s: Vec<i128> = sk.raw().iter().map(|x| *x as i128).collect();
            let s2: Vec<i128> = sk2.raw().iter().map(|x| *x as i128).collect();
            let e = replay_error(&module, 1, b, size, noise, &mut Source::new(sxe));
            let e2 = replay_error(&module, 1, b, size, noise, &mut Source::new(flip_seed(&sxe)));
            return (vec![ptw2, s, s2, raw_u64(&sxa, size * (n + 1)), raw_u64(&flip_seed(&sxa), size * (n + 1)), to128(&e), to128(&e2)],
                    vec![flags, c0]);
        }
        let module: Module<BE> = Module::<BE>::new(n as u64);
        let li = GLWELayout { n: Degree(n as u32), base2k: Base2K(b as u32), k: TorusPrecision((size * b) as u32), rank: Rank(rank as u32) };
        let mut sc: ScratchOwned<BE> = garbage_scratch::<BE>(module.glwe_encrypt_sk_tmp_bytes(&li) + 4096);
        let (sk, s) = glwe_secret(n, rank, kind, param, &sxs);
        let (sk2, s2) = glwe_secret(n, rank, kind, param, &flip_seed(&sxs));
        let mut run = |ptw: &[i128], sk: &GLWESecret<Vec<u8>>, xe: &[u8; 32], xa: &[u8; 32]| -> Vec<i128> {
            let mut skp = module.glwe_secret_prepared_alloc(Rank(rank as u32));
            module.glwe_secret_prepare(&mut skp, sk);
            let mut pt = GLWEPlaintext::alloc(Degree(n as u32), Base2K(b as u32), TorusPrecision((psize * b) as u32));
            set_col(&mut pt.data, 0, ptw);
            let mut ct = GLWE::alloc_from_infos(&li);
            module.glwe_encrypt_sk(&mut ct, &pt, &skp, &noise, &mut Source::new(*xe), &mut Source::new(*xa), sc.borrow());
            all_cols(ct.data())
        };
        let c0 = run(ptw, &sk, &sxe, &sxa);
        let c0b = run(ptw, &sk, &sxe, &sxa);
        let cs = [run(&ptw2, &sk, &sxe, &sxa), run(ptw, &sk2, &sxe, &sxa), run(ptw, &sk, &flip_seed(&sxe), &sxa), run(ptw, &sk, &sxe, &flip_seed(&sxa))];
        let bw = size * n;
        let mut flags = vec![(c0 == c0b) as i128];
        for c in &cs { flags.push((c[bw..] == c0[bw..]) as i128); flags.push((c[..bw] == c0[..bw]) as i128); }
        let e = replay_error(&module, n, b, size, noise, &mut Source::new(sxe));
        let e2 = replay_error(&module, n, b, size, noise, &mut Source::new(flip_seed(&sxe)));
        (vec![ptw2, to128(&s), to128(&s2), raw_u64(&sxa, rank * size * n), raw_u64(&flip_seed(&sxa), rank * size * n), to128(&e), to128(&e2)],
         vec![flags, c0])
    })
}

/// an LWE secret of dimension nl <= n (ternary/binary as `kind`), its clear coefficients, and sigma_{-1}(zero-padded secret):
/// what lwe_switching_key / glwe_to_lwe / lwe_to_glwe key encryption use as GLWE polynomial
fn lwe_secret_as_glwe<BE: Backend>(module: &Module<BE>, n: usize, nl: usize, kind: i128, param: i128, seed: &[u8; 32]) -> (LWESecret<Vec<u8>>, Vec<i64>)
where Module<BE>: VecZnxAutomorphism {
    let mut sk = LWESecret::alloc(Degree(nl as u32));
    fill_lwe_secret(&mut sk, kind, param, &mut Source::new(*seed));
    let mut a: VecZnx<Vec<u8>> = VecZnx::alloc(n, 1, 1);
    a.at_mut(0, 0)[..nl].copy_from_slice(sk.raw());
    let mut r: VecZnx<Vec<u8>> = VecZnx::alloc(n, 1, 1);
    module.vec_znx_automorphism(-1, &mut r, 0, &a, 0);
    (sk, r.at(0, 0).to_vec())
}

/// cells of the idx-th GGSW inside a serialised BlindRotationKey (8 bytes distribution, u64 count, then GGSWs: 8 bytes + MatZnx
/// with a 48-byte header), in slot order (row, col), each cell = columns 0..rank limb-major
fn brk_cells(bytes: &[u8], idx: usize, n: usize, size: usize, rank: usize, dnum: usize) -> Vec<i128> {
    let cols = rank + 1;
    let mat = n * size * dnum * cols * cols * 8;
    let start = 16 + idx * (8 + 48 + mat) + 8 + 48;
    let w: Vec<i64> = bytes[start..start + mat].chunks_exact(8).map(|c| i64::from_le_bytes(c.try_into().unwrap())).collect();
    let blk = n * cols * size; // one (row, col_in) block: VecZnx(n, cols_out = cols, size), at(col, limb) = n*(limb*cols + col)
    let mut out = Vec::with_capacity(w.len());
    for row in 0..dnum { for col in 0..cols {
        let b0 = (row * cols + col) * blk;
        for c in 0..cols { for j in 0..size { let o = b0 + n * (j * cols + c); out.extend(w[o..o + n].iter().map(|x| *x as i128)); } }
    } }
    out
}

// ------------------------------------------------------------------ 6004 / 6005: standard gadget objects
struct Gd { be: i128, n: usize, b: usize, size: usize, rin: usize, rout: usize, dnum: usize, dsize: usize, nk: usize, kind: i128,
            x10: i128, sigma: f64, bound: f64, skind: i128, sparam: i128, idx: usize }
fn gd(p: &[i128]) -> Gd {
    let u = |i: usize| p[i] as usize;
    Gd { be: p[0], n: u(1), b: u(2), size: u(3), rin: u(4), rout: u(5), dnum: u(6), dsize: u(7), nk: u(8), kind: p[9], x10: p[10],
         sigma: p[11] as f64 / 1000.0, bound: p[12] as f64 / 1000.0, skind: p[13], sparam: p[14], idx: u(15) }
}
fn gseed(p: &[i128], i: usize) -> [u8; 32] { words_seed(&p[16 + 4 * i..20 + 4 * i]) }

fn gadget_case(code: i64, p: &[i128], msg: &[i128]) -> (Vec<Vec<i128>>, Vec<Vec<i128>>) {
    let h = gd(p);
    let (sxo, sxi, sxe, sxa) = (gseed(p, 0), gseed(p, 1), gseed(p, 2), gseed(p, 3));
    let noise = NoiseInfos::new(h.nk, h.sigma, h.bound).unwrap();
    let n = h.n;
    let (dn, b2, kk) = (Degree(n as u32), Base2K(h.b as u32), TorusPrecision((h.size * h.b) as u32));
    let (rk_in, rk_out, dnm, dsz) = (Rank(h.rin as u32), Rank(h.rout as u32), Dnum(h.dnum as u32), Dsize(h.dsize as u32));
    with_be!(h.be, BE, {
        let module: Module<BE> = Module::<BE>::new(n as u64);
        let mut sc: ScratchOwned<BE> = garbage_scratch::<BE>(1 << 22);
        let clen = h.rout * h.size * n;
        let polys = |flat: &[i64]| -> Vec<Vec<i64>> { flat.chunks(n).map(|c| c.to_vec()).collect() };
        if code == 6005 {
            let rank = h.rout;
            let cells = h.dnum * (rank + 1);
            if h.kind == 1 {
                // blind-rotation key (CGGI): GGSW i encrypts the constant polynomial s_lwe[i]; entry h.idx of n_lwe = rin
                use poulpy_bin_fhe::blind_rotation::{BlindRotationKey, BlindRotationKeyLayout, CGGI};
                let nl = h.rin;
                let lay = BlindRotationKeyLayout { n_glwe: dn, n_lwe: Degree(nl as u32), base2k: b2, k: kk, dnum: dnm, rank: rk_out };
                let mut run = |xs: &[u8; 32], xl: &[u8; 32], xe: &[u8; 32], xa: &[u8; 32]| -> (Vec<i128>, i64) {
                    let (sk, _) = glwe_secret(n, rank, h.skind, h.sparam, xs);
                    let mut skp = module.glwe_secret_prepared_alloc(rk_out);
                    module.glwe_secret_prepare(&mut skp, &sk);
                    let mut skl = LWESecret::alloc(Degree(nl as u32));
                    fill_lwe_secret(&mut skl, 2, 8, &mut Source::new(*xl));
                    let mut key = BlindRotationKey::<Vec<u8>, CGGI>::alloc(&lay);
                    key.encrypt_sk(&module, &skp, &skl, &noise, &mut Source::new(*xe), &mut Source::new(*xa), sc.borrow());
                    let by = ser(&key);
                    ((0..nl).flat_map(|i| brk_cells(&by, i, n, h.size, rank, h.dnum)).collect(), skl.raw()[h.idx])
                };
                let cw = (rank + 1) * h.size * n;
                let ent = |w: Vec<i128>| -> Vec<i128> { w[h.idx * cells * cw..(h.idx + 1) * cells * cw].to_vec() };
                let (whole, bit) = run(&sxo, &sxi, &sxe, &sxa);
                let c0 = ent(whole.clone());
                let mut flags = gadget_flags(&c0, &ent(run(&sxo, &sxi, &sxe, &sxa).0), &ent(run(&flip_seed(&sxo), &flip_seed(&sxi), &sxe, &sxa).0),
                                         &ent(run(&sxo, &sxi, &flip_seed(&sxe), &sxa).0), &ent(run(&sxo, &sxi, &sxe, &flip_seed(&sxa)).0), cells, h.rout, h.size, n);
                flags.push(masks_distinct(&whole, nl * cells, rank, h.size, n));
                let (_, s) = glwe_secret(n, rank, h.skind, h.sparam, &sxo);
                let ua = |seed: &[u8; 32]| -> Vec<i128> { raw_u64(seed, nl * cells * clen) };
                let errs = |seed: &[u8; 32]| -> Vec<i128> {
                    let mut xe = Source::new(*seed);
                    (0..nl * cells).flat_map(|_| to128(&replay_error(&module, n, h.b, h.size, noise, &mut xe))).collect()
                };
                let mut m = vec![0i128; n]; m[0] = bit as i128;
                return (vec![m, to128(&s), ua(&sxa), errs(&sxe), ua(&flip_seed(&sxa)), errs(&flip_seed(&sxe))], vec![c0, flags]);
            }
            let mut run = |msg: &[i128], xs: &[u8; 32], xe: &[u8; 32], xa: &[u8; 32]| -> Vec<i128> {
                let (sk, _) = glwe_secret(n, rank, h.skind, h.sparam, xs);
                let mut skp = module.glwe_secret_prepared_alloc(rk_out);
                module.glwe_secret_prepare(&mut skp, &sk);
                let mut m = ScalarZnx::alloc(n, 1);
                for (d, s) in m.at_mut(0, 0).iter_mut().zip(msg) { *d = *s as i64; }
                let mut g = GGSW::alloc(dn, b2, kk, rk_out, dnm, dsz);
                module.ggsw_encrypt_sk(&mut g, &m, &skp, &noise, &mut Source::new(*xe), &mut Source::new(*xa), sc.borrow());
                let mut w = vec![];
                for row in 0..h.dnum { for col in 0..=rank { w.extend(all_cols(g.at(row, col).data())); } }
                w
            };
            let mut msg2 = msg.to_vec(); msg2[0] = if msg2[0] >= 1 { msg2[0] - 1 } else { msg2[0] + 1 };
            let c0 = run(msg, &sxo, &sxe, &sxa);
            let mut flags = gadget_flags(&c0, &run(msg, &sxo, &sxe, &sxa), &run(&msg2, &sxo, &sxe, &sxa), &run(msg, &sxo, &flip_seed(&sxe), &sxa),
                                     &run(msg, &sxo, &sxe, &flip_seed(&sxa)), cells, h.rout, h.size, n);
            flags.push(masks_distinct(&c0, cells, h.rout, h.size, n));
            let (_, s) = glwe_secret(n, rank, h.skind, h.sparam, &sxo);
            let errs = |seed: &[u8; 32]| -> Vec<i128> { let mut xe = Source::new(*seed); (0..cells).flat_map(|_| to128(&replay_error(&module, n, h.b, h.size, noise, &mut xe))).collect() };
            return (vec![to128(&s), raw_u64(&sxa, cells * clen), errs(&sxe), raw_u64(&flip_seed(&sxa), cells * clen), errs(&flip_seed(&sxe))],
                    vec![c0, flags]);
        }
        let (rin, rout) = (h.rin, h.rout);
        let cells = h.dnum * rin;
        // one run of the standard key encryption: (cells in slot order, plaintext polynomials, clear s_out)
        let mut run = |msg: &[i128], xo: &[u8; 32], xi: &[u8; 32], xe: &[u8; 32], xa: &[u8; 32]| -> (Vec<i128>, Vec<Vec<i64>>, Vec<i64>) {
            let (sk_out, s_out_lib) = glwe_secret(n, rout, h.skind, h.sparam, xo);
            let (sk_in, s_in) = glwe_secret(n, rin, h.skind, h.sparam, xi);
            let dump = |g: &GGLWE<&[u8]>| -> Vec<i128> {
                let mut w = Vec::new();
                for row in 0..h.dnum { for col in 0..rin { w.extend(all_cols(g.at(row, col).data())); } }
                w
            };
            let (mut xe, mut xa) = (Source::new(*xe), Source::new(*xa));
            match h.kind {
                0 => {
                    let mut skp = module.glwe_secret_prepared_alloc(rk_out);
                    module.glwe_secret_prepare(&mut skp, &sk_out);
                    let mut pt = ScalarZnx::alloc(n, rin);
                    for c in 0..rin { for (d, s) in pt.at_mut(c, 0).iter_mut().zip(&msg[c * n..(c + 1) * n]) { *d = *s as i64; } }
                    let mut g = GGLWE::alloc(dn, b2, kk, rk_in, rk_out, dnm, dsz);
                    module.gglwe_encrypt_sk(&mut g, &pt, &skp, &noise, &mut xe, &mut xa, sc.borrow());
                    (dump(&g.to_ref()), msg.chunks(n).map(|c| v64(c)).collect(), s_out_lib)
                }
                1 => {
                    let mut g = GLWESwitchingKey::alloc(dn, b2, kk, rk_in, rk_out, dnm, dsz);
                    module.glwe_switching_key_encrypt_sk(&mut g, &sk_in, &sk_out, &noise, &mut xe, &mut xa, sc.borrow());
                    (dump(&g.to_ref()), polys(&s_in), s_out_lib)
                }
                2 => {
                    let gal = module.galois_element(h.x10 as i64);
                    let mut g = GLWEAutomorphismKey::alloc(dn, b2, kk, rk_out, dnm, dsz);
                    module.glwe_automorphism_key_encrypt_sk(&mut g, gal, &sk_out, &noise, &mut xe, &mut xa, sc.borrow());
                    let mut a: VecZnx<Vec<u8>> = VecZnx::alloc(n, rout, 1);
                    for c in 0..rout { a.at_mut(c, 0).copy_from_slice(&s_out_lib[c * n..(c + 1) * n]); }
                    let mut r: VecZnx<Vec<u8>> = VecZnx::alloc(n, rout, 1);
                    for c in 0..rout { module.vec_znx_automorphism(module.galois_element_inv(gal), &mut r, c, &a, c); }
                    (dump(&g.to_ref()), polys(&s_out_lib), (0..rout).flat_map(|c| r.at(c, 0).to_vec()).collect())
                }
                3 => {
                    let mut g = GLWETensorKey::alloc(dn, b2, kk, rk_out, dnm, dsz);
                    module.glwe_tensor_key_encrypt_sk(&mut g, &sk_out, &noise, &mut xe, &mut xa, sc.borrow());
                    let sp = polys(&s_out_lib);
                    let mut prods = Vec::new();
                    for i in 0..rout { for j in i..rout { prods.push(negamul(&sp[i], &sp[j])); } }
                    (dump(&g.to_ref()), prods, s_out_lib)
                }
                5 => { // LWE switching key: rank 1 -> 1, dsize 1, LWE dimensions x10 (in) and idx (out)
                    let (sl_in, p_in) = lwe_secret_as_glwe(&module, n, h.x10 as usize, h.skind, h.sparam, xi);
                    let (sl_out, p_out) = lwe_secret_as_glwe(&module, n, h.idx, h.skind, h.sparam, xo);
                    let mut g = LWESwitchingKey::alloc(dn, b2, kk, dnm);
                    module.lwe_switching_key_encrypt_sk(&mut g, &sl_in, &sl_out, &noise, &mut xe, &mut xa, sc.borrow());
                    (dump(&g.to_ref()), vec![p_in], p_out)
                }
                6 => { // GLWE -> LWE key: plaintext = the GLWE secret (rank_in columns), encrypted under sigma_{-1}(s_lwe) (rank 1)
                    let (sl, p_l) = lwe_secret_as_glwe(&module, n, h.idx, h.skind, h.sparam, xo);
                    let mut g = GLWEToLWEKey::alloc(dn, b2, kk, rk_in, dnm);
                    module.glwe_to_lwe_key_encrypt_sk(&mut g, &sl, &sk_in, &noise, &mut xe, &mut xa, sc.borrow());
                    (dump(&g.to_ref()), polys(&s_in), p_l)
                }
                7 => { // LWE -> GLWE key: plaintext = sigma_{-1}(s_lwe), encrypted under the GLWE secret (rank_out)
                    let (sl, p_l) = lwe_secret_as_glwe(&module, n, h.idx, h.skind, h.sparam, xi);
                    let mut skp = module.glwe_secret_prepared_alloc(rk_out);
                    module.glwe_secret_prepare(&mut skp, &sk_out);
                    let mut g = LWEToGLWEKey::alloc(dn, b2, kk, rk_out, dnm);
                    module.lwe_to_glwe_key_encrypt_sk(&mut g, &sl, &skp, &noise, &mut xe, &mut xa, sc.borrow());
                    (dump(&g.to_ref()), vec![p_l], s_out_lib)
                }
                _ => {
                    let mut g = GGLWEToGGSWKey::alloc(dn, b2, kk, rk_out, dnm, dsz);
                    GGLWEToGGSWKeyEncryptSk::gglwe_to_ggsw_key_encrypt_sk(&module, &mut g, &sk_out, &noise, &mut xe, &mut xa, sc.borrow());
                    let sp = polys(&s_out_lib);
                    ((0..rout).flat_map(|i| dump(&g.at(i).to_ref())).collect(), (0..rout).map(|j| negamul(&sp[h.idx], &sp[j])).collect(), s_out_lib)
                }
            }
        };
        let mut msg2 = msg.to_vec();
        if !msg2.is_empty() { msg2[0] = if msg2[0] >= 1 { msg2[0] - 1 } else { msg2[0] + 1 }; }
        // `run` returns the cells of the WHOLE object (all entries of a GGLWE->GGSW key); the record is about entry h.idx
        let entries = if h.kind == 4 { rout } else { 1 };
        let entry = if h.kind == 4 { h.idx } else { 0 };
        let cw = (rout + 1) * h.size * n;
        let ent = |w: Vec<i128>| -> Vec<i128> { w[entry * cells * cw..(entry + 1) * cells * cw].to_vec() };
        let (whole, ms, s_out) = run(msg, &sxo, &sxi, &sxe, &sxa);
        let c0 = ent(whole.clone());
        // "another plaintext": kind 0 another message, key material: other secrets (plaintext AND secret change)
        let other_pt = if h.kind == 0 { run(&msg2, &sxo, &sxi, &sxe, &sxa).0 } else { run(msg, &flip_seed(&sxo), &flip_seed(&sxi), &sxe, &sxa).0 };
        let mut flags = gadget_flags(&c0, &ent(run(msg, &sxo, &sxi, &sxe, &sxa).0), &ent(other_pt), &ent(run(msg, &sxo, &sxi, &flip_seed(&sxe), &sxa).0),
                                 &ent(run(msg, &sxo, &sxi, &sxe, &flip_seed(&sxa)).0), cells, rout, h.size, n);
        flags.push(masks_distinct(&whole, entries * cells, rout, h.size, n));
        // mask stream and errors of the WHOLE object: the model derives which part belongs to the entry
        let ua = |seed: &[u8; 32]| -> Vec<i128> { raw_u64(seed, entries * cells * clen) };
        let errs = |seed: &[u8; 32]| -> Vec<i128> {
            let mut xe = Source::new(*seed);
            (0..entries * cells).flat_map(|_| to128(&replay_error(&module, n, h.b, h.size, noise, &mut xe))).collect()
        };
        let msw: Vec<i128> = ms.iter().flat_map(|m| to128(m)).collect();
        (vec![msw, to128(&s_out), ua(&sxa), errs(&sxe), ua(&flip_seed(&sxa)), errs(&flip_seed(&sxe))], vec![c0, flags])
    })
}

/// 1 iff the mask columns of all `cells` cells (cell = (rout+1) columns of size*n words, body first) are pairwise distinct
fn masks_distinct(w: &[i128], cells: usize, rout: usize, size: usize, n: usize) -> i128 {
    let cw = (rout + 1) * size * n; let bw = size * n;
    let m: Vec<&[i128]> = (0..cells).map(|s| &w[s * cw + bw..(s + 1) * cw]).collect();
    for i in 0..cells { for j in 0..i { if m[i] == m[j] { return 0; } } }
    1
}

/// [deterministic; mask_eq(other plaintext); mask_eq(other error seed); body_eq(other error seed); mask_eq(other mask seed)]
fn gadget_flags(c0: &[i128], again: &[i128], cpt: &[i128], cxe: &[i128], cxa: &[i128], cells: usize, rout: usize, size: usize, n: usize) -> Vec<i128> {
    let cw = (rout + 1) * size * n; let bw = size * n;
    let masks = |c: &[i128]| -> Vec<i128> { (0..cells).flat_map(|s| c[s * cw + bw..(s + 1) * cw].to_vec()).collect() };
    let bodies = |c: &[i128]| -> Vec<i128> { (0..cells).flat_map(|s| c[s * cw..s * cw + bw].to_vec()).collect() };
    vec![(c0 == again) as i128, (masks(cpt) == masks(c0)) as i128, (masks(cxe) == masks(c0)) as i128,
         (bodies(cxe) == bodies(c0)) as i128, (masks(cxa) == masks(c0)) as i128]
}

// ------------------------------------------------------------------ 6007 / 6008: scheme-layer encryption entry points taking both sources
/// ps = [be, n, b, size, nk, log_delta, log_budget of the plaintext, value / plaintext class, seed_xs(4), seed_xe(4), seed_xa(4)]
/// 6007 CKKS `ckks_encrypt_sk` (rank 1), 6008 binary FHE `FheUint::<u32>::encrypt_sk` (rank ps[6])
/// out = [mask columns (1..rank, limb-major); [deterministic; mask_eq(other plaintext); mask_eq(other error seed);
///        body_eq(other error seed); mask_eq(other mask seed)]];  vs = [ua; e; ua'; e'] (raw mask stream and replayed errors of the two
/// mask / error seeds): the model predicts the mask from the stream of the MASK seed.
fn scheme_case(code: i64, p: &[i128]) -> (Vec<Vec<i128>>, Vec<Vec<i128>>) {
    let u = |i: usize| p[i] as usize;
    let (be, n, b, size, nk) = (p[0], u(1), u(2), u(3), u(4));
    let (sxs, sxe, sxa) = (words_seed(&p[8..12]), words_seed(&p[12..16]), words_seed(&p[16..20]));
    let noise = NoiseInfos::new(nk, 3.2, 19.2).unwrap();
    with_be!(be, BE, {
        let module: Module<BE> = Module::<BE>::new(n as u64);
        let mut sc: ScratchOwned<BE> = garbage_scratch::<BE>(1 << 22);
        let rank = if code == 6007 { 1 } else { u(6) };
        let (sk, _) = glwe_secret(n, rank, 0, 8, &sxs);
        let mut skp = module.glwe_secret_prepared_alloc(Rank(rank as u32));
        module.glwe_secret_prepare(&mut skp, &sk);
        let mut run = |alt: bool, xe: &[u8; 32], xa: &[u8; 32]| -> Vec<i128> {
            if code == 6007 {
                use poulpy_ckks::{CKKSMeta, layouts::{CKKSCiphertext, plaintext::CKKSPlaintextVecZnx}, leveled::api::CKKSEncrypt};
                let meta = CKKSMeta { log_delta: u(5), log_budget: u(6) };
                let mut pt = CKKSPlaintextVecZnx::alloc(Degree(n as u32), Base2K(b as u32), meta);
                let mut g = Rng::new(p[7] as u64 ^ alt as u64);
                let psz = pt.data.size();
                let w = message(&mut g, n, psz, b, 0);
                set_col(&mut pt.data, 0, &w);
                let mut ct = CKKSCiphertext::alloc(Degree(n as u32), TorusPrecision((size * b) as u32), Base2K(b as u32));
                // NOTE the argument order of this entry point: (source_xa, source_xe)
                module.ckks_encrypt_sk(&mut ct, &pt, &skp, &noise, &mut Source::new(*xa), &mut Source::new(*xe), sc.borrow()).unwrap();
                all_cols(ct.data())
            } else {
                use poulpy_bin_fhe::bdd_arithmetic::FheUint;
                let mut ct = FheUint::<Vec<u8>, u32>::alloc(Degree(n as u32), Base2K(b as u32), TorusPrecision((size * b) as u32), Rank(rank as u32));
                ct.encrypt_sk(&module, (p[7] as u32) ^ (alt as u32), &skp, &noise, &mut Source::new(*xe), &mut Source::new(*xa), sc.borrow());
                all_cols(ct.to_ref().data())
            }
        };
        let c0 = run(false, &sxe, &sxa);
        let bw = size * n;
        let cs = [run(false, &sxe, &sxa), run(true, &sxe, &sxa), run(false, &flip_seed(&sxe), &sxa), run(false, &sxe, &flip_seed(&sxa))];
        let flags = vec![(cs[0] == c0) as i128, (cs[1][bw..] == c0[bw..]) as i128, (cs[2][bw..] == c0[bw..]) as i128,
                         (cs[2][..bw] == c0[..bw]) as i128, (cs[3][bw..] == c0[bw..]) as i128];
        let e = |sd: &[u8; 32]| to128(&replay_error(&module, n, b, size, noise, &mut Source::new(*sd)));
        (vec![raw_u64(&sxa, rank * size * n), e(&sxe), raw_u64(&flip_seed(&sxa), rank * size * n), e(&flip_seed(&sxe))],
         vec![c0[bw..].to_vec(), flags])
    })
}

// ------------------------------------------------------------------ 6009: composite binary-FHE key generation from one error and one mask source
/// ps = [be, n, b, size, nk, kind, rank, n_lwe, dnum_atk, dnum_brk, dnum_tsk, dnum_ks_lwe, rank', dnum_ks_glwe, secret kind, param,
///       seed_xs(4), seed_xl(4), seed_xe(4), seed_xa(4)];  kind 0 `CircuitBootstrappingKey::encrypt_sk`, 1 `BDDKey::encrypt_sk` without
/// GLWE bridge, 2 with a GLWE bridge of rank rank' (its secret is drawn from the ERROR source first).
/// out = [mask columns of every cell in encryption order (segment, entry, slot); [deterministic; mask_eq(other secrets);
///        mask_eq(other error seed); body_eq(other error seed); mask_eq(other mask seed); masks pairwise distinct]]
/// vs = [ua; xe-draws; ua'; xe'-draws] (whole raw mask stream / everything replayed from the error source, for both seeds)
fn keygen_case(p: &[i128]) -> (Vec<Vec<i128>>, Vec<Vec<i128>>) {
    use poulpy_bin_fhe::bdd_arithmetic::{BDDEncryptionInfos, BDDKey, BDDKeyLayout};
    use poulpy_bin_fhe::blind_rotation::{BlindRotationKey, BlindRotationKeyLayout, CGGI};
    use poulpy_bin_fhe::circuit_bootstrapping::{CircuitBootstrappingEncryptionInfos, CircuitBootstrappingKey, CircuitBootstrappingKeyLayout};
    use std::io::Read;
    let u = |i: usize| p[i] as usize;
    let (be, n, b, size, nk, kind, rank, nl) = (p[0], u(1), u(2), u(3), u(4), p[5], u(6), u(7));
    let (da, db, dt, dk, rk2, dg, skind, sparam) = (u(8), u(9), u(10), u(11), u(12), u(13), p[14], p[15]);
    let sd = |i: usize| words_seed(&p[16 + 4 * i..20 + 4 * i]);
    let (sxs, sxl, sxe, sxa) = (sd(0), sd(1), sd(2), sd(3));
    let noise = NoiseInfos::new(nk, 3.2, 19.2).unwrap();
    let (dn, b2, kk, rk) = (Degree(n as u32), Base2K(b as u32), TorusPrecision((size * b) as u32), Rank(rank as u32));
    let brk_l = BlindRotationKeyLayout { n_glwe: dn, n_lwe: Degree(nl as u32), base2k: b2, k: kk, dnum: Dnum(db as u32), rank: rk };
    let atk_l = GLWEAutomorphismKeyLayout { n: dn, base2k: b2, k: kk, rank: rk, dnum: Dnum(da as u32), dsize: Dsize(1) };
    let tsk_l = GGLWEToGGSWKeyLayout { n: dn, base2k: b2, k: kk, rank: rk, dnum: Dnum(dt as u32), dsize: Dsize(1) };
    let cbt_l = CircuitBootstrappingKeyLayout { brk_layout: brk_l, atk_layout: atk_l, tsk_layout: tsk_l };
    let ksg_l = GLWESwitchingKeyLayout { n: dn, base2k: b2, k: kk, rank_in: rk, rank_out: Rank(rk2 as u32), dnum: Dnum(dg as u32), dsize: Dsize(1) };
    let ksl_l = GLWEToLWEKeyLayout { n: dn, base2k: b2, k: kk, rank_in: if kind == 2 { Rank(rk2 as u32) } else { rk }, dnum: Dnum(dk as u32) };
    let bdd_l = BDDKeyLayout { cbt_layout: cbt_l, ks_glwe_layout: if kind == 2 { Some(ksg_l) } else { None }, ks_lwe_layout: ksl_l };
    let cbt_e = CircuitBootstrappingEncryptionInfos { brk: noise, atk: noise, tsk: noise };
    let bdd_e = BDDEncryptionInfos { cbt: CircuitBootstrappingEncryptionInfos { brk: noise, atk: noise, tsk: noise }, ks_glwe: if kind == 2 { Some(noise) } else { None }, ks_lwe: noise };
    let natk = log2_ceil(n);
    with_be!(be, BE, {
        let module: Module<BE> = Module::<BE>::new(n as u64);
        let mut sc: ScratchOwned<BE> = garbage_scratch::<BE>(1 << 23);
        // one generation: (bodies, masks) of every cell, encryption order
        let mut run = |xs: &[u8; 32], xl: &[u8; 32], xe: &[u8; 32], xa: &[u8; 32]| -> (Vec<i128>, Vec<Vec<i128>>) {
            let (sk, _) = glwe_secret(n, rank, skind, sparam, xs);
            let mut skl = LWESecret::alloc(Degree(nl as u32));
            fill_lwe_secret(&mut skl, 2, 8, &mut Source::new(*xl));
            let (mut xe, mut xa) = (Source::new(*xe), Source::new(*xa));
            let bytes = if kind == 0 {
                let mut key = CircuitBootstrappingKey::<Vec<u8>, CGGI>::alloc_from_infos(&cbt_l);
                key.encrypt_sk(&module, &skl, &sk, &cbt_e, &mut xe, &mut xa, sc.borrow());
                ser(&key)
            } else {
                let mut key = BDDKey::<Vec<u8>, CGGI>::alloc_from_infos(&bdd_l);
                key.encrypt_sk(&module, &skl, &sk, &bdd_e, &mut xe, &mut xa, sc.borrow());
                ser(&key)
            };
            // the fields are private: read the parts back from the serialisation (brk, count, (galois element, atk)*, tsk, [tag, bridge], ks_lwe)
            let mut cur = std::io::Cursor::new(&bytes[..]);
            let mut brk = BlindRotationKey::<Vec<u8>, CGGI>::alloc(&brk_l);
            brk.read_from(&mut cur).unwrap();
            let mut w8 = [0u8; 8];
            cur.read_exact(&mut w8).unwrap();
            assert_eq!(u64::from_le_bytes(w8) as usize, natk, "number of automorphism keys");
            let (mut bodies, mut masks): (Vec<i128>, Vec<Vec<i128>>) = (vec![], vec![]);
            let bw = size * n;
            let push = |w: Vec<i128>, rout: usize, bodies: &mut Vec<i128>, masks: &mut Vec<Vec<i128>>| {
                for c in w.chunks((rout + 1) * bw) { bodies.extend_from_slice(&c[..bw]); masks.push(c[bw..].to_vec()); }
            };
            let dump = |g: &GGLWE<&[u8]>, dnum: usize, rin: usize| -> Vec<i128> {
                let mut w = Vec::new();
                for row in 0..dnum { for col in 0..rin { w.extend(all_cols(g.at(row, col).data())); } }
                w
            };
            let (mut atk_b, mut atk_m) = (vec![], vec![]);
            let mut last = i64::MIN;
            for _ in 0..natk {
                cur.read_exact(&mut w8).unwrap();
                let gal = i64::from_le_bytes(w8);
                assert!(gal > last, "automorphism keys are serialised by increasing Galois element"); last = gal;
                let mut a = GLWEAutomorphismKey::alloc(dn, b2, kk, rk, Dnum(da as u32), Dsize(1));
                a.read_from(&mut cur).unwrap();
                push(dump(&a.to_ref(), da, rank), rank, &mut atk_b, &mut atk_m);
            }
            let mut tsk = GGLWEToGGSWKey::alloc(dn, b2, kk, rk, Dnum(dt as u32), Dsize(1));
            tsk.read_from(&mut cur).unwrap();
            if kind != 0 {
                let mut t = [0u8; 1];
                cur.read_exact(&mut t).unwrap();
                assert_eq!(t[0] as i128, (kind == 2) as i128, "bridge tag");
                if kind == 2 {
                    let mut g = GLWESwitchingKey::alloc(dn, b2, kk, rk, Rank(rk2 as u32), Dnum(dg as u32), Dsize(1));
                    g.read_from(&mut cur).unwrap();
                    push(dump(&g.to_ref(), dg, rank), rk2, &mut bodies, &mut masks);
                }
                let rin = if kind == 2 { rk2 } else { rank };
                let mut g = GLWEToLWEKey::alloc(dn, b2, kk, Rank(rin as u32), Dnum(dk as u32));
                g.read_from(&mut cur).unwrap();
                push(dump(&g.to_ref(), dk, rin), 1, &mut bodies, &mut masks);
            }
            assert_eq!(cur.position() as usize, bytes.len(), "serialisation fully consumed");
            bodies.extend(atk_b); masks.extend(atk_m);
            let by = ser(&brk);
            for i in 0..nl { push(brk_cells(&by, i, n, size, rank, db), rank, &mut bodies, &mut masks); }
            for i in 0..rank { push(dump(&tsk.at(i).to_ref(), dt, rank), rank, &mut bodies, &mut masks); }
            (bodies, masks)
        };
        let c0 = run(&sxs, &sxl, &sxe, &sxa);
        let cs = [run(&sxs, &sxl, &sxe, &sxa), run(&flip_seed(&sxs), &flip_seed(&sxl), &sxe, &sxa),
                  run(&sxs, &sxl, &flip_seed(&sxe), &sxa), run(&sxs, &sxl, &sxe, &flip_seed(&sxa))];
        let mut distinct = 1i128;
        for i in 0..c0.1.len() { for j in 0..i { if c0.1[i] == c0.1[j] { distinct = 0; } } }
        let flags = vec![(cs[0] == c0) as i128, (cs[1].1 == c0.1) as i128, (cs[2].1 == c0.1) as i128, (cs[2].0 == c0.0) as i128,
                         (cs[3].1 == c0.1) as i128, distinct];
        let words: usize = c0.1.iter().map(|m| m.len()).sum();
        let cells = c0.1.len();
        let drawn = |seed: &[u8; 32]| -> Vec<i128> {
            let mut xe = Source::new(*seed);
            let mut out: Vec<i128> = vec![];
            if kind == 2 { for _ in 0..rk2 { out.extend(to128(&replay_scalar(n, 0, 8, &mut xe))); } }
            for _ in 0..cells { out.extend(to128(&replay_error(&module, n, b, size, noise, &mut xe))); }
            out
        };
        (vec![raw_u64(&sxa, words), drawn(&sxe), raw_u64(&flip_seed(&sxa), words), drawn(&flip_seed(&sxe))],
         vec![c0.1.concat(), flags])
    })
}

// ------------------------------------------------------------------ 6006: seed derivation of the compressed composite objects
/// (seeds in slot order, bytes consumed) of a serialised GGLWECompressed / GGSWCompressed starting at `skip`
fn parse_seeds(bytes: &[u8], skip: usize) -> (Vec<[u8; 32]>, usize) {
    let b = &bytes[skip..];
    let cnt = u32::from_le_bytes(b[16..20].try_into().unwrap()) as usize;
    let seeds = (0..cnt).map(|i| b[20 + 32 * i..52 + 32 * i].try_into().unwrap()).collect();
    let m = 20 + 32 * cnt;
    let len = u64::from_le_bytes(b[m + 40..m + 48].try_into().unwrap()) as usize;
    (seeds, skip + m + 48 + len)
}

/// kinds: 0 GGLWE 1 switching key 2 automorphism key 3 tensor key 4 GGLWE->GGSW key (rank_out entries) 8 GGSW
///        9 CGGI blind-rotation key (ps[4] entries).  Output: the seeds stored in the object (entry-major, slot order) and
/// [stored seeds pairwise distinct; masks of all decompressed cells pairwise distinct].
/// vs = [table seeds; table streams]: the ChaCha8 stream (first tlen words) of the root seed and, for the two-level objects, of
/// the first `entries` seeds drawn from it -- the model looks streams up by seed and decides itself which seed each entry gets.
fn seeds_case(p: &[i128]) -> (Vec<Vec<i128>>, Vec<Vec<i128>>) {
    let h = gd(p);
    let (sxo, sxi, sxe, sxa) = (gseed(p, 0), gseed(p, 1), gseed(p, 2), gseed(p, 3));
    let noise = NoiseInfos::new(h.nk, h.sigma, h.bound).unwrap();
    let n = h.n;
    let (dn, b2, kk) = (Degree(n as u32), Base2K(h.b as u32), TorusPrecision((h.size * h.b) as u32));
    let (rk_in, rk_out, dnm, dsz) = (Rank(h.rin as u32), Rank(h.rout as u32), Dnum(h.dnum as u32), Dsize(h.dsize as u32));
    let (rin, rout) = (h.rin, h.rout);
    with_be!(h.be, BE, {
        let module: Module<BE> = Module::<BE>::new(n as u64);
        let mut sc: ScratchOwned<BE> = garbage_scratch::<BE>(1 << 22);
        let (sk_out, _) = glwe_secret(n, rout, h.skind, h.sparam, &sxo);
        let (sk_in, _) = glwe_secret(n, rin, h.skind, h.sparam, &sxi);
        let mut skp = module.glwe_secret_prepared_alloc(rk_out);
        module.glwe_secret_prepare(&mut skp, &sk_out);
        let ggsw_like = h.kind >= 8;
        let cols = if ggsw_like { rout + 1 } else { rin };
        let cells = h.dnum * cols;
        let entries = match h.kind { 4 => rout, 9 => rin, _ => 1 };
        let dumpg = |g: &GGLWE<&[u8]>| -> Vec<i128> { let mut w = Vec::new(); for row in 0..h.dnum { for col in 0..rin { w.extend(all_cols(g.at(row, col).data())); } } w };
        let dumps = |g: &GGSW<Vec<u8>>| -> Vec<i128> { let mut w = Vec::new(); for row in 0..h.dnum { for col in 0..=rout { w.extend(all_cols(g.at(row, col).data())); } } w };
        // (serialised compressed object, offset of its first GGLWE/GGSW-compressed entry, all decompressed cells)
        let (bytes, first, whole): (Vec<u8>, usize, Vec<i128>) = match h.kind {
            0 => {
                let mut pt = ScalarZnx::alloc(n, rin); for c in 0..rin { pt.fill_ternary_prob(c, 0.5, &mut Source::new(sxi)); }
                let mut cc = GGLWECompressed::alloc(dn, b2, kk, rk_in, rk_out, dnm, dsz);
                module.gglwe_compressed_encrypt_sk(&mut cc, &pt, &skp, sxa, &noise, &mut Source::new(sxe), sc.borrow());
                let mut g = GGLWE::alloc(dn, b2, kk, rk_in, rk_out, dnm, dsz); module.decompress_gglwe(&mut g, &cc);
                (ser(&cc), 0, dumpg(&g.to_ref()))
            }
            1 => {
                let mut kc = GLWESwitchingKeyCompressed::alloc(dn, b2, kk, rk_in, rk_out, dnm, dsz);
                module.glwe_switching_key_compressed_encrypt_sk(&mut kc, &sk_in, &sk_out, sxa, &noise, &mut Source::new(sxe), sc.borrow());
                let mut g = GLWESwitchingKey::alloc(dn, b2, kk, rk_in, rk_out, dnm, dsz); module.decompress_glwe_switching_key(&mut g, &kc);
                (ser(&kc), 8, dumpg(&g.to_ref()))
            }
            2 => {
                let gal = module.galois_element(h.x10 as i64);
                let mut kc = GLWEAutomorphismKeyCompressed::alloc(dn, b2, kk, rk_out, dnm, dsz);
                module.glwe_automorphism_key_compressed_encrypt_sk(&mut kc, gal, &sk_out, sxa, &noise, &mut Source::new(sxe), sc.borrow());
                let mut g = GLWEAutomorphismKey::alloc(dn, b2, kk, rk_out, dnm, dsz); module.decompress_automorphism_key(&mut g, &kc);
                (ser(&kc), 8, dumpg(&g.to_ref()))
            }
            3 => {
                let mut kc = GLWETensorKeyCompressed::alloc(dn, b2, kk, rk_out, dnm, dsz);
                module.glwe_tensor_key_compressed_encrypt_sk(&mut kc, &sk_out, sxa, &noise, &mut Source::new(sxe), sc.borrow());
                let mut g = GLWETensorKey::alloc(dn, b2, kk, rk_out, dnm, dsz); module.decompress_tensor_key(&mut g, &kc);
                (ser(&kc), 0, dumpg(&g.to_ref()))
            }
            4 => {
                let mut kc = GGLWEToGGSWKeyCompressed::alloc(dn, b2, kk, rk_out, dnm, dsz);
                GGLWEToGGSWKeyCompressedEncryptSk::gglwe_to_ggsw_key_encrypt_sk(&module, &mut kc, &sk_out, sxa, &noise, &mut Source::new(sxe), sc.borrow());
                let mut g = GGLWEToGGSWKey::alloc(dn, b2, kk, rk_out, dnm, dsz); module.decompress_gglwe_to_ggsw_key(&mut g, &kc);
                (ser(&kc), 8, (0..rout).flat_map(|i| dumpg(&g.at(i).to_ref())).collect())
            }
            8 => {
                let mut m = ScalarZnx::alloc(n, 1); m.fill_ternary_prob(0, 0.5, &mut Source::new(sxi));
                let mut gc = GGSWCompressed::alloc(dn, b2, kk, rk_out, dnm, dsz);
                module.ggsw_compressed_encrypt_sk(&mut gc, &m, &skp, sxa, &noise, &mut Source::new(sxe), sc.borrow());
                let mut g = GGSW::alloc(dn, b2, kk, rk_out, dnm, dsz); module.decompress_ggsw(&mut g, &gc);
                (ser(&gc), 0, dumps(&g))
            }
            _ => {
                use poulpy_bin_fhe::blind_rotation::{BlindRotationKeyCompressed, BlindRotationKeyCompressedEncryptSk, BlindRotationKeyLayout, CGGI};
                let lay = BlindRotationKeyLayout { n_glwe: dn, n_lwe: Degree(rin as u32), base2k: b2, k: kk, dnum: dnm, rank: rk_out };
                let mut skl = LWESecret::alloc(Degree(rin as u32)); fill_lwe_secret(&mut skl, 2, 8, &mut Source::new(sxi));
                let mut key = BlindRotationKeyCompressed::<Vec<u8>, CGGI>::alloc(&lay);
                module.blind_rotation_key_compressed_encrypt_sk(&mut key, &skp, &skl, sxa, &noise, &mut Source::new(sxe), sc.borrow());
                let all = ser(&key);
                let mut w = Vec::new(); let mut off = 16;
                for _ in 0..rin {
                    let end = parse_seeds(&all, off).1;
                    let mut gc = GGSWCompressed::alloc(dn, b2, kk, rk_out, dnm, dsz); gc.read_from(&mut &all[off..end]).unwrap();
                    let mut g = GGSW::alloc(dn, b2, kk, rk_out, dnm, dsz); module.decompress_ggsw(&mut g, &gc);
                    w.extend(dumps(&g)); off = end;
                }
                (all, 16, w)
            }
        };
        let mut stored: Vec<[u8; 32]> = vec![]; let mut off = first;
        for _ in 0..entries { let (sd, end) = parse_seeds(&bytes, off); assert_eq!(sd.len(), cells); stored.extend(sd); off = end; }
        let mut sdist = 1i128;
        for i in 0..stored.len() { for j in 0..i { if stored[i] == stored[j] { sdist = 0; } } }
        let flags = vec![sdist, masks_distinct(&whole, entries * cells, rout, h.size, n)];
        // stream table
        let tlen = 4 * cells.max(entries);
        let root_stream = raw_u64(&sxa, tlen);
        let mut tseeds: Vec<i128> = seed_words(&sxa); let mut tstreams = root_stream.clone();
        if entries > 1 || h.kind == 4 || h.kind == 9 {
            for i in 0..entries { let sd = words_seed(&root_stream[4 * i..4 * i + 4]); tseeds.extend(seed_words(&sd)); tstreams.extend(raw_u64(&sd, tlen)); }
        }
        (vec![tseeds, tstreams], vec![stored.iter().flat_map(|s| seed_words(s)).collect(), flags])
    })
}

// ------------------------------------------------------------------ 6020: statistics (support)
/// exact phase error of one ciphertext in units of limb `limb`: body + sum s_i*a_i - image, centred modulo 1.
/// cols: limb-major words per column; image: words of the expected plaintext image (size*n).  None = not an exact multiple.
fn phase_error(cols: &[Vec<i64>], s: &[Vec<i64>], image: &[i128], n: usize, b: usize, size: usize, limb: usize) -> Option<Vec<i128>> {
    let tot = size * b;
    assert!(tot <= 126);
    let mask: i128 = (1i128 << tot) - 1;
    let mut acc = vec![0i128; n];
    for j in 0..size {
        let mut limbv: Vec<i128> = cols[0][j * n..(j + 1) * n].iter().map(|x| *x as i128).collect();
        for (i, si) in s.iter().enumerate() {
            let pr = negamul128(si, &cols[i + 1][j * n..(j + 1) * n]);
            for k in 0..n { limbv[k] += pr[k]; }
        }
        let sh = ((size - 1 - j) * b) as u32;
        for k in 0..n { acc[k] = acc[k].wrapping_add((limbv[k] - image[j * n + k]).wrapping_shl(sh)) & mask; }
    }
    let sh = ((size - 1 - limb) * b) as u32;
    let mut out = Vec::with_capacity(n);
    for k in 0..n {
        let mut r = acc[k];
        if r >= 1i128 << (tot - 1) { r -= 1i128 << tot; }
        if sh > 0 && r & ((1i128 << sh) - 1) != 0 { return None; }
        out.push(r >> sh);
    }
    Some(out)
}

struct Stat { m: i128, s2: i128, maxabs: i128, bad: i128, mm: i128, top: Vec<i128>, low: Vec<i128>, tb: u32 }
impl Stat {
    fn new(b: usize) -> Self { let tb = b.min(6) as u32; Stat { m: 0, s2: 0, maxabs: 0, bad: 0, mm: 0, top: vec![0; 1 << tb], low: vec![0; 1 << tb], tb } }
    fn err(&mut self, e: Option<Vec<i128>>) {
        match e { None => self.bad += 1, Some(v) => for x in v { self.m += 1; self.s2 += x * x; self.maxabs = self.maxabs.max(x.abs()); } }
    }
    fn digits(&mut self, b: usize, ds: &[i64]) {
        for d in ds {
            let u = (*d as i128 + (1i128 << (b - 1))) as u128;
            if u >> b != 0 { self.bad += 1; continue; }
            self.mm += 1;
            self.top[(u >> (b as u32 - self.tb)) as usize] += 1;
            self.low[(u & ((1u128 << self.tb) - 1)) as usize] += 1;
        }
    }
}

fn stats_case(p: &[i128]) -> Vec<i128> {
    let u = |i: usize| p[i] as usize;
    let (be, layout, n, b, size, rank, nk, cts) = (p[0], p[1], u(2), u(3), u(4), u(5), u(6), u(8));
    let sigma = p[7] as f64 / 1000.0;
    let noise = NoiseInfos::new(nk, sigma, 6.0 * sigma).unwrap();
    let (limb, slog, eb) = ceil_bound(noise, b);
    let root = words_seed(&p[9..13]);
    let mut seeds = Source::new(root);
    let mut st = Stat::new(b);
    let split = |w: &[i128], cols: usize| -> Vec<Vec<i64>> { w.chunks(size * n).take(cols).map(|c| v64(c)).collect() };
    with_be!(be, BE, {
        let module: Module<BE> = Module::<BE>::new(if layout == 1 { 8 } else { n as u64 });
        let mut sc: ScratchOwned<BE> = garbage_scratch::<BE>(1 << 22);
        let (dn, b2, kk) = (Degree(n as u32), Base2K(b as u32), TorusPrecision((size * b) as u32));
        for _ in 0..cts {
            let (sxs, sxe, sxa) = (seeds.new_seed(), seeds.new_seed(), seeds.new_seed());
            match layout {
                0 | 4 => { // GLWE sk (4: through compressed encryption + decompression)
                    let (sk, s) = glwe_secret(n, rank, 0, 8, &sxs);
                    let mut skp = module.glwe_secret_prepared_alloc(Rank(rank as u32)); module.glwe_secret_prepare(&mut skp, &sk);
                    let mut pt = GLWEPlaintext::alloc(dn, b2, kk);
                    module.vec_znx_fill_uniform(b, &mut pt.data, 0, &mut Source::new(sxs));
                    let li = GLWELayout { n: dn, base2k: b2, k: kk, rank: Rank(rank as u32) };
                    let mut ct = GLWE::alloc_from_infos(&li);
                    if layout == 0 {
                        module.glwe_encrypt_sk(&mut ct, &pt, &skp, &noise, &mut Source::new(sxe), &mut Source::new(sxa), sc.borrow());
                    } else {
                        let mut cc = GLWECompressed::alloc_from_infos(&li);
                        module.glwe_compressed_encrypt_sk(&mut cc, &pt, &skp, sxa, &noise, &mut Source::new(sxe), sc.borrow());
                        module.decompress_glwe(&mut ct, &cc);
                    }
                    let cols = split(&all_cols(ct.data()), rank + 1);
                    let sp: Vec<Vec<i64>> = s.chunks(n).map(|c| c.to_vec()).collect();
                    st.err(phase_error(&cols, &sp, &col_words(&pt.data, 0), n, b, size, limb));
                    for c in 1..=rank { st.digits(b, &cols[c]); }
                }
                1 => { // LWE sk: n = LWE dimension, one error sample per ciphertext
                    let mut sk = LWESecret::alloc(dn); sk.fill_ternary_prob(0.5, &mut Source::new(sxs));
                    let mut pt = LWEPlaintext::alloc(b2, kk);
                    module.vec_znx_fill_uniform(b, pt.data_mut(), 0, &mut Source::new(sxs));
                    let mut ct = LWE::alloc(dn, b2, kk);
                    module.lwe_encrypt_sk(&mut ct, &pt, &sk, &noise, &mut Source::new(sxe), &mut Source::new(sxa), sc.borrow());
                    let w = col_words(ct.data(), 0);
                    let ptw = col_words(pt.data(), 0);
                    // as a degree-1 "GLWE": body_j + <a_j, s>
                    let mut body = vec![0i64; size]; let mut img = vec![0i128; size];
                    for j in 0..size {
                        let dot: i128 = (0..n).map(|t| w[j * (n + 1) + 1 + t] * sk.raw()[t] as i128).sum();
                        body[j] = (w[j * (n + 1)] + dot) as i64; img[j] = ptw[j];
                        let md: Vec<i64> = (0..n).map(|t| w[j * (n + 1) + 1 + t] as i64).collect();
                        st.digits(b, &md);
                    }
                    st.err(phase_error(&[body], &[], &img, 1, b, size, limb));
                }
                2 | 3 => { // GGLWE (2) / GGSW (3): dnum = size (dsize 1), every cell
                    let (sk, s) = glwe_secret(n, rank, 0, 8, &sxs);
                    let mut skp = module.glwe_secret_prepared_alloc(Rank(rank as u32)); module.glwe_secret_prepare(&mut skp, &sk);
                    let sp: Vec<Vec<i64>> = s.chunks(n).map(|c| c.to_vec()).collect();
                    let mut m = ScalarZnx::alloc(n, 1); m.fill_ternary_prob(0, 0.5, &mut Source::new(sxs));
                    let mv = m.at(0, 0).to_vec();
                    let dnum = size - 1;
                    let mut cells: Vec<(usize, usize, Vec<i128>)> = vec![];
                    if layout == 2 {
                        let mut g = GGLWE::alloc(dn, b2, kk, Rank(1), Rank(rank as u32), Dnum(dnum as u32), Dsize(1));
                        module.gglwe_encrypt_sk(&mut g, &m, &skp, &noise, &mut Source::new(sxe), &mut Source::new(sxa), sc.borrow());
                        for row in 0..dnum { cells.push((row, 0, all_cols(g.at(row, 0).data()))); }
                    } else {
                        let mut g = GGSW::alloc(dn, b2, kk, Rank(rank as u32), Dnum(dnum as u32), Dsize(1));
                        module.ggsw_encrypt_sk(&mut g, &m, &skp, &noise, &mut Source::new(sxe), &mut Source::new(sxa), sc.borrow());
                        for row in 0..dnum { for col in 0..=rank { cells.push((row, col, all_cols(g.at(row, col).data()))); } }
                    }
                    for (row, col, w) in cells {
                        let cols = split(&w, rank + 1);
                        let img_poly: Vec<i128> = if col == 0 { mv.iter().map(|x| *x as i128).collect() } else { negamul128(&sp[col - 1], &mv) };
                        let mut img = vec![0i128; size * n];
                        img[row * n..(row + 1) * n].copy_from_slice(&img_poly);
                        st.err(phase_error(&cols, &sp, &img, n, b, size, limb));
                        for c in 1..=rank { st.digits(b, &cols[c]); }
                    }
                }
                _ => panic!("c06: unknown layout"),
            }
        }
    });
    let q = |v: &Vec<i128>| -> i128 { v.iter().map(|x| x * x).sum() };
    vec![layout, st.m, st.s2, st.maxabs, p[7], slog, eb, st.mm, st.top.len() as i128, q(&st.top), st.low.len() as i128, q(&st.low), st.bad]
}

pub fn exec(r: &Rec) -> Out {
    let r2 = r.clone();
    guard(move || match r2.code {
        6001 | 6002 => two_fills(|| flip_case(r2.code, &r2.ps, &r2.vs[0]).1),
        6004 | 6005 => two_fills(|| gadget_case(r2.code, &r2.ps, &r2.vs[0]).1),
        6006 => two_fills(|| seeds_case(&r2.ps).1),
        6007 | 6008 => two_fills(|| scheme_case(r2.code, &r2.ps).1),
        6009 => two_fills(|| keygen_case(&r2.ps).1),
        6020 => vec![stats_case(&r2.ps)],
        _ => panic!("c06: unknown op"),
    })
}

fn log2_ceil(x: usize) -> usize { if x <= 1 { 0 } else { (usize::BITS - (x - 1).leading_zeros()) as usize } }

pub fn generate(tier: &str, seed: u64) -> Vec<Rec> {
    let mut rng = Rng::new(seed);
    let mut out = Vec::new();
    // ---- controlled seed changes
    let reps = if tier == "thorough" { 1200 } else { 160 };
    for it in 0..reps {
        let code = if it % 4 == 3 { 6002 } else { 6001 };
        let be = rng.range(1, 4) as i128;
        let n = if code == 6002 { rng.pick(&[1usize, 3, 8, 16, 33]) } else { 1usize << rng.range(3, 5) };
        let rank = if code == 6002 { 1 } else { rng.range(0, 3) as usize };
        let kind = rng.below(5) as i128;
        let (param, hw) = match kind {
            0 | 2 => { let p = rng.range(1, 16) as usize; (p, n) }
            1 | 3 => { let h = rng.range(0, n as i64) as usize; (h, h.max(1)) }
            _ => { let divs: Vec<usize> = (1..=n).filter(|d| n % d == 0).collect(); let d = rng.pick(&divs); (d, n / d) }
        };
        let bmax = if be <= 2 { (50 - log2_ceil(hw)).min(50) } else { 52 };
        let b = rng.range(1, bmax as i64) as usize;
        let size = rng.range(1, 4) as usize;
        let nk = rng.range(1, (size * b) as i64) as usize;
        let psize = rng.range(1, size as i64) as usize;
        let noise = NoiseInfos::new(nk, 3.2, 19.2).unwrap();
        let (limb, slog, eb) = ceil_bound(noise, b);
        let mut ps: Vec<i128> = vec![be, n as i128, b as i128, size as i128, rank as i128, nk as i128, psize as i128, b as i128,
            size as i128, b as i128, eb, limb as i128, slog, nk as i128, eb, 3200, 19200, kind, param as i128, rng.below(1 << 20) as i128];
        for _ in 0..3 { ps.extend(seed_words(&rng.bytes32())); }
        let cl = rng.below(5);
        let ptw = message(&mut rng, if code == 6002 { 1 } else { n }, psize, b, cl);
        let derived = std::panic::catch_unwind(|| flip_case(code, &ps, &ptw).0).unwrap_or_default();
        let mut vs = vec![ptw]; vs.extend(derived);
        // order expected by the model: [pt; pt'; s; s'; ua; ua'; e; e']
        out.push(Rec::new(code, ps, vs));
    }
    // ---- standard gadget objects: cells reproduced by the model, error_is_full on every cell
    let reps = if tier == "thorough" { 900 } else { 130 };
    for it in 0..reps {
        let (code, kind) = match it % 11 { 0 => (6005, 0), 1 => (6004, 0), 2 => (6005, 1), 3 => (6004, 1), 4 => (6004, 2), 5 => (6004, 3), 6 => (6004, 4),
                                           7 => (6004, 5), 8 => (6004, 6), 9 => (6004, 7), _ => (6004, 0) };
        let be = 1 + (it / 11) as i128 % 4;
        let n = 1usize << rng.range(3, 5);
        let rout = rng.range(1, 3) as usize;
        let mut rin = rng.range(1, 3) as usize;
        if kind == 2 || kind == 4 { rin = rout; }
        if kind == 3 { rin = rout * (rout + 1) / 2; }
        let skind = rng.below(5) as i128;
        let (sparam, hw) = match skind {
            0 | 2 => { let p = rng.range(1, 16) as usize; (p, n) }
            1 | 3 => { let hh = rng.range(1, n as i64) as usize; (hh, hh) }
            _ => { let divs: Vec<usize> = (1..=n).filter(|d| n % d == 0).collect(); let d = rng.pick(&divs); (d, n / d) }
        };
        let bmin = if kind >= 3 { log2_ceil(n) + 2 } else { 2 };
        let bmax = if be <= 2 { (50 - log2_ceil(hw)).min(50) } else { 52 };
        let b = rng.range(bmin as i64, bmax as i64) as usize;
        let lwe_key = code == 6004 && kind >= 5;
        let brk = code == 6005 && kind == 1;
        if lwe_key && kind != 7 { /* result is an LWE-dimension key: rank_out 1 */ }
        let (rin, rout) = match (code, kind) { (6004, 5) => (1, 1), (6004, 6) => (rin, 1), (6004, 7) => (1, rout), (6005, 1) => (rng.range(1, 6) as usize, rout), _ => (rin, rout) };
        let dsize = if lwe_key || brk { 1 } else { rng.range(1, 3) as usize };
        let dnum = rng.range(1, 3) as usize;
        let size = (dnum * dsize).max(dsize + 1) + rng.below(2) as usize;
        let nk = match rng.below(3) { 0 => size * b, _ => rng.range(1, (size * b) as i64) as usize };
        // x10: galois generator (kind 2) / LWE dimension of the input secret (kind 5); idx: entry (kind 4, BRK) / LWE dimension (kinds 5..7)
        let x10 = if lwe_key { rng.range(1, n as i64) as i128 } else { rng.range(-5, 5) as i128 };
        let idx = if kind == 4 && code == 6004 { rng.below(rout as u64) as i128 } else if lwe_key { rng.range(1, n as i64) as i128 }
                  else if brk { rng.below(rin as u64) as i128 } else { 0 };
        let (limb, slog, eb) = ceil_bound(NoiseInfos::new(nk, 3.2, 19.2).unwrap(), b);
        let (skind, sparam) = if lwe_key { (skind, if skind == 1 || skind == 3 { 1 } else if skind == 4 { 1 } else { sparam as i128 }) } else { (skind, sparam as i128) };
        let mut ps: Vec<i128> = vec![be, n as i128, b as i128, size as i128, rin as i128, rout as i128, dnum as i128, dsize as i128, nk as i128,
            kind, x10, 3200, 19200, skind, sparam, idx];
        for _ in 0..4 { ps.extend(seed_words(&rng.bytes32())); }
        ps.extend([eb, limb as i128, slog]);
        let msg: Vec<i128> = if code == 6005 { (0..n).map(|_| rng.range(-1, 1) as i128).collect() } else { (0..rin * n).map(|_| rng.range(-2, 2) as i128).collect() };
        let derived = std::panic::catch_unwind(|| gadget_case(code, &ps, &msg).0).unwrap_or_default();
        let mut vs = if (code == 6004 || brk) && !derived.is_empty() { vec![] } else { vec![msg.clone()] };
        vs.extend(derived);
        out.push(Rec::new(code, ps, vs));
    }
    // ---- scheme-layer entry points that take both sources: CKKS ckks_encrypt_sk, binary-FHE FheUint::encrypt_sk
    let reps = if tier == "thorough" { 400 } else { 80 };
    for it in 0..reps {
        let code = if it % 2 == 0 { 6007 } else { 6008 };
        let be = 1 + (it / 2) as i128 % 4;
        // CKKS rejects plaintext metadata that does not fit the ciphertext (Err / panic): draw again until the call is accepted
        for _attempt in 0..12 {
            let n = if code == 6008 { rng.pick(&[32usize, 64]) } else { 1usize << rng.range(3, 6) };
            let b = rng.range(10, if be <= 2 { 40 } else { 52 }) as usize;
            let size = rng.range(3, 5) as usize;
            let (nk, x5, x6) = if code == 6007 {
                let ld = rng.range(8, (2 * b) as i64 - 4) as usize;
                let nk = rng.range((ld + 4) as i64, (size * b) as i64) as usize;
                (nk, ld, rng.range(1, (nk - ld) as i64) as usize)
            } else { (rng.range(4, (size * b) as i64) as usize, 0, rng.range(0, 2) as usize) };
            let mut ps: Vec<i128> = vec![be, n as i128, b as i128, size as i128, nk as i128, x5 as i128, x6 as i128, rng.below(1 << 32) as i128];
            for _ in 0..3 { ps.extend(seed_words(&rng.bytes32())); }
            if let Ok(vs) = std::panic::catch_unwind(|| scheme_case(code, &ps).0) { out.push(Rec::new(code, ps, vs)); break; }
        }
    }
    // ---- composite binary-FHE key generation (circuit-bootstrapping key, BDD key with / without GLWE bridge)
    let reps = if tier == "thorough" { 120 } else { 24 };
    for it in 0..reps {
        let be = 1 + it as i128 % 4;
        let kind = (it / 4) as i128 % 3;
        let n = 1usize << rng.range(3, 4);
        let b = rng.range(10, if be <= 2 { 30 } else { 40 }) as usize;
        let size = rng.range(2, 3) as usize;
        let nk = rng.range(4, (size * b) as i64) as usize;
        let rank = rng.range(1, 2) as usize;
        let d = |rng: &mut Rng| rng.range(1, size as i64) as i128;
        let mut ps: Vec<i128> = vec![be, n as i128, b as i128, size as i128, nk as i128, kind, rank as i128, rng.range(2, 4) as i128,
                                     d(&mut rng), d(&mut rng), d(&mut rng), d(&mut rng), rng.range(1, 2) as i128, d(&mut rng), rng.pick(&[0i128, 2]), 8];
        for _ in 0..4 { ps.extend(seed_words(&rng.bytes32())); }
        let vs = keygen_case(&ps).0;
        out.push(Rec::new(6009, ps, vs));
    }
    // ---- seed derivation and pairwise-distinct masks of the compressed composite objects
    let reps = if tier == "thorough" { 420 } else { 84 };
    for it in 0..reps {
        let kind: i128 = [0, 1, 2, 3, 4, 8, 9][it % 7];
        let be = 1 + (it / 7) as i128 % 4;
        let n = 1usize << rng.range(3, 4);
        let rout = if kind == 4 { rng.range(2, 3) as usize } else { rng.range(1, 3) as usize };
        let rin = match kind { 2 | 4 => rout, 3 => rout * (rout + 1) / 2, 9 => rng.range(2, 5) as usize, _ => rng.range(1, 3) as usize };
        let b = rng.range(8, if be <= 2 { 40 } else { 52 }) as usize;
        let dsize = if kind == 9 { 1 } else { rng.range(1, 2) as usize };
        let dnum = rng.range(1, 3) as usize;
        let size = (dnum * dsize).max(dsize + 1);
        let nk = size * b - rng.range(0, b as i64 - 1) as usize;
        let mut ps: Vec<i128> = vec![be, n as i128, b as i128, size as i128, rin as i128, rout as i128, dnum as i128, dsize as i128, nk as i128,
            kind, rng.range(-5, 5) as i128, 3200, 19200, 0, 8, 0];
        for _ in 0..4 { ps.extend(seed_words(&rng.bytes32())); }
        let vs = std::panic::catch_unwind(|| seeds_case(&ps).0).unwrap_or_default();
        out.push(Rec::new(6006, ps, vs));
    }
    // ---- statistics: >= 2^14 coefficients per layout
    let layouts: &[(i128, usize, usize, usize, usize)] = &[   // (layout, n, b, size, rank)
        (0, 64, 17, 3, 1), (0, 64, 12, 4, 2), (0, 128, 40, 2, 3), (4, 64, 17, 3, 2), (1, 16, 13, 3, 1), (2, 64, 17, 4, 2), (3, 64, 15, 3, 1), (0, 64, 5, 6, 1)];
    for (li, &(layout, n, b, size, rank)) in layouts.iter().enumerate() {
        if tier != "thorough" && li >= 7 && false { continue; }
        for be in [1i128, 3] {
            let be = if tier == "thorough" || li % 2 == 0 { be } else { be + 1 };
            // noise on the last limb or on the one before it (k not a multiple of the radix in general)
            let nk = (size - (li % 2).min(size - 1)) * b - rng.range(0, b as i64 - 1) as usize;
            let sigma = rng.pick(&[3200i128, 3200, 8000, 100000]);
            let per_ct = match layout { 1 => 1, 2 => (size - 1) * n, 3 => (size - 1) * (rank + 1) * n, _ => n };
            let cts = (16384 + per_ct - 1) / per_ct;
            let mut ps: Vec<i128> = vec![be, layout, n as i128, b as i128, size as i128, rank as i128, nk as i128, sigma, cts as i128];
            ps.extend(seed_words(&rng.bytes32()));
            let stats = std::panic::catch_unwind(|| stats_case(&ps)).unwrap_or_default();
            out.push(Rec::new(6020, ps, vec![stats]));
        }
    }
    out
}

fn main() { poulpy_verif_harness::run_main(generate, exec) }
