//! C05: ciphertext multiplication (tensor / relinearise / mul_plain / mul_const) and the HAL convolution layer.
//!
//! Part 1 (opcodes 5001..5004), HAL convolution observed in the coefficient domain:
//!   header: be n | rcols rsize rcol | acols asize acol | bcols bsize bcol | pasz pbsz cnv_offset mask_a mask_b ci cj
//!   5001 cnv_prepare_left(mask_a) + cnv_prepare_right(mask_b) + cnv_apply_dft(cnv_offset, res, rcol, a, acol, b, bcol)
//!   5002 same preparation + cnv_pairwise_apply_dft(cnv_offset, res, rcol, a, b, ci, cj)
//!   5003 cnv_by_const_apply(cnv_offset, res_big, rcol, a, acol, b = vs[1])
//!   5004 cnv_prepare_self(mask_a) + cnv_apply_dft(cnv_offset, res, rcol, left, acol, right, bcol)
//!   inputs: vs[0] = a (VecZnx acols x asize), vs[1] = b (VecZnx bcols x bsize | constant limbs), vs[2] = prior content
//!   of the destination (coefficient domain; brought into the DFT domain with vec_znx_dft_apply for 5001/2/4, written as
//!   raw big words for 5003).  The WHOLE destination (every column) is brought back with vec_znx_idft_apply and dumped in
//!   flat order (limb j, column c at n*(j*rcols+c)), so that a write outside the selected column is visible.
//!   Each case runs twice with different garbage in scratch / prepared buffers / temporaries; flags = [same].
//!
//! Part 2, level 1 (opcodes 5101..5107), keyless core operations on ciphertext columns filled with given limb data:
//!   header: be n rank ab_base2k res_base2k a_k b_k res_k cnv_offset
//!   5101 glwe_tensor_apply   5102 glwe_tensor_apply_add_assign   5103 glwe_tensor_square_apply
//!   5104 glwe_mul_plain      5105 glwe_mul_plain_assign          5106 glwe_mul_const   5107 glwe_mul_const_assign
//!   vs[0] = a.data, vs[1] = b.data (ciphertext | plaintext | constant limbs), vs[2] = prior content of res.data
//!   output = [res.data ; flags [same]]
//!
//! Part 2, level 2 (opcodes 5201..5204), real keys: see `l2` below.
use poulpy_core::api::*;
use poulpy_core::layouts::*;
use poulpy_core::EncryptionLayout;
use poulpy_hal::api::*;
use poulpy_hal::layouts::*;
use poulpy_hal::source::Source;
use poulpy_verif_harness::hal::*;
use poulpy_verif_harness::rec::*;
use poulpy_verif_harness::with_be;

fn garbage(buf: &mut [u8], rng: &mut Rng) {
    for c in buf.chunks_mut(8) {
        let v = rng.next().to_le_bytes();
        let l = c.len();
        c.copy_from_slice(&v[..l]);
    }
}

fn big_words(bytes: &[u8], word: usize) -> Vec<i128> {
    if word == 8 {
        bytes.chunks_exact(8).map(|c| i64::from_le_bytes(c.try_into().unwrap()) as i128).collect()
    } else {
        bytes.chunks_exact(16).map(|c| i128::from_le_bytes(c.try_into().unwrap())).collect()
    }
}

fn phash(r: &Rec) -> u64 {
    r.ps.iter().fold(r.code as u64, |h, x| h.wrapping_mul(31).wrapping_add(*x as u64))
}

// ------------------------------------------------------------------------------------------------------------------
// Part 1: HAL convolution
// ------------------------------------------------------------------------------------------------------------------
fn hal_op(r: &Rec) -> Vec<Vec<i128>> {
    let p = &r.ps;
    let u = |i: usize| p[i] as usize;
    let (be, n) = (p[0], u(1));
    let (rcols, rsize, rcol) = (u(2), u(3), u(4));
    let (acols, asize, acol) = (u(5), u(6), u(7));
    let (bcols, bsize, bcol) = (u(8), u(9), u(10));
    let (pasz, pbsz, cnv_offset) = (u(11), u(12), u(13));
    let (mask_a, mask_b) = (p[14] as i64, p[15] as i64);
    let (ci, cj) = (u(16), u(17));
    let code = r.code;
    with_be!(be, BE, {
        let m = module::<BE>(n);
        let word = std::mem::size_of::<<BE as Backend>::ScalarBig>();
        let mut outs: Vec<Vec<i128>> = Vec::new();
        for run in 0..2u64 {
            let mut g = Rng::new(0xC05C05 ^ (run * 7919) ^ phash(r));
            let mut sc = scratch_filled::<BE>((1usize << 16) + n * 4096, g.next() as i64);
            let a = mk_vec_znx(n, acols, asize, asize, &v64(&r.vs[0]));
            let mut big = m.vec_znx_big_alloc(rcols, rsize);
            garbage(big.data_mut().as_mut(), &mut g);
            if code == 5003 {
                // prior content of the big destination: raw words
                {
                    let d: &mut [u8] = big.data_mut().as_mut();
                    for (i, x) in r.vs[2].iter().enumerate() {
                        if word == 8 { d[8 * i..8 * i + 8].copy_from_slice(&(*x as i64).to_le_bytes()); }
                        else { d[16 * i..16 * i + 16].copy_from_slice(&x.to_le_bytes()); }
                    }
                }
                m.cnv_by_const_apply(cnv_offset, &mut big, rcol, &a, acol, &v64(&r.vs[1]), sc.borrow());
            } else {
                let mut res_dft = m.vec_znx_dft_alloc(rcols, rsize);
                garbage(res_dft.data_mut().as_mut(), &mut g);
                let r0 = mk_vec_znx(n, rcols, rsize, rsize, &v64(&r.vs[2]));
                for c in 0..rcols { m.vec_znx_dft_apply(1, 0, &mut res_dft, c, &r0, c); }
                let mut a_prep = m.cnv_pvec_left_alloc(acols, pasz);
                garbage(a_prep.data_mut().as_mut(), &mut g);
                if code == 5004 {
                    let mut b_prep = m.cnv_pvec_right_alloc(acols, pasz);
                    garbage(b_prep.data_mut().as_mut(), &mut g);
                    m.cnv_prepare_self(&mut a_prep, &mut b_prep, &a, mask_a, sc.borrow());
                    m.cnv_apply_dft(cnv_offset, &mut res_dft, rcol, &a_prep, acol, &b_prep, bcol, sc.borrow());
                } else {
                    let b = mk_vec_znx(n, bcols, bsize, bsize, &v64(&r.vs[1]));
                    let mut b_prep = m.cnv_pvec_right_alloc(bcols, pbsz);
                    garbage(b_prep.data_mut().as_mut(), &mut g);
                    m.cnv_prepare_left(&mut a_prep, &a, mask_a, sc.borrow());
                    m.cnv_prepare_right(&mut b_prep, &b, mask_b, sc.borrow());
                    if code == 5001 {
                        m.cnv_apply_dft(cnv_offset, &mut res_dft, rcol, &a_prep, acol, &b_prep, bcol, sc.borrow());
                    } else {
                        m.cnv_pairwise_apply_dft(cnv_offset, &mut res_dft, rcol, &a_prep, &b_prep, ci, cj, sc.borrow());
                    }
                }
                for c in 0..rcols { m.vec_znx_idft_apply(&mut big, c, &res_dft, c, sc.borrow()); }
            }
            let bb: &[u8] = big.data().as_ref();
            let words = big_words(bb, word);
            outs.push(words[..n * rcols * rsize].to_vec());
        }
        let same = outs[0] == outs[1];
        vec![outs[0].clone(), vec![same as i128]]
    })
}


// ------------------------------------------------------------------------------------------------------------------
// Part 2, level 1: keyless core operations on given limb data
// ------------------------------------------------------------------------------------------------------------------
/// The declared `*_tmp_bytes` of these operations under-estimate what the calls take for many shapes (C12's subject);
/// the operations are run with this much extra scratch so that the arithmetic can be observed.
const SLACK: usize = 1 << 17;

fn fill_raw(dst: &mut [i64], src: &[i128]) {
    assert_eq!(dst.len(), src.len(), "flat size mismatch");
    for (d, s) in dst.iter_mut().zip(src) { *d = *s as i64; }
}

fn core_op(r: &Rec) -> Vec<Vec<i128>> {
    let p = &r.ps;
    let u = |i: usize| p[i] as usize;
    let (be, n, rank) = (p[0], u(1), u(2));
    let (ab, rb) = (u(3), u(4));
    let (a_k, b_k, res_k, cnv) = (u(5), u(6), u(7), u(8));
    let code = r.code;
    with_be!(be, BE, {
        let m = module::<BE>(n);
        let mut outs: Vec<Vec<i128>> = Vec::new();
        for run in 0..2u64 {
            let mut g = Rng::new(0xC05C0DE ^ (run * 7919) ^ phash(r));
            let fill = g.next() as i64;
            let out: Vec<i64> = match code {
                5101 | 5102 | 5103 => {
                    let mut a = GLWE::alloc((n as u32).into(), (ab as u32).into(), (a_k as u32).into(), (rank as u32).into());
                    fill_raw(a.data_mut().raw_mut(), &r.vs[0]);
                    let mut res = GLWETensor::alloc((n as u32).into(), (rb as u32).into(), (res_k as u32).into(), (rank as u32).into());
                    fill_raw(res.data_mut().raw_mut(), &r.vs[2]);
                    if code == 5103 {
                        let mut sc = scratch_filled::<BE>(m.glwe_tensor_square_apply_tmp_bytes(&res, &a) + SLACK, fill);
                        m.glwe_tensor_square_apply(cnv, &mut res, &a, a_k, sc.borrow());
                    } else {
                        let mut b = GLWE::alloc((n as u32).into(), (ab as u32).into(), (b_k as u32).into(), (rank as u32).into());
                        fill_raw(b.data_mut().raw_mut(), &r.vs[1]);
                        let mut sc = scratch_filled::<BE>(m.glwe_tensor_apply_tmp_bytes(&res, &a, &b) + SLACK, fill);
                        if code == 5101 { m.glwe_tensor_apply(cnv, &mut res, &a, a_k, &b, b_k, sc.borrow()); }
                        else { m.glwe_tensor_apply_add_assign(cnv, &mut res, &a, a_k, &b, b_k, sc.borrow()); }
                    }
                    res.data().raw().to_vec()
                }
                5104 => {
                    let mut a = GLWE::alloc((n as u32).into(), (ab as u32).into(), (a_k as u32).into(), (rank as u32).into());
                    fill_raw(a.data_mut().raw_mut(), &r.vs[0]);
                    let mut b = GLWEPlaintext::alloc((n as u32).into(), (ab as u32).into(), (b_k as u32).into());
                    fill_raw(b.data_mut().raw_mut(), &r.vs[1]);
                    let mut res = GLWE::alloc((n as u32).into(), (rb as u32).into(), (res_k as u32).into(), (rank as u32).into());
                    fill_raw(res.data_mut().raw_mut(), &r.vs[2]);
                    let mut sc = scratch_filled::<BE>(m.glwe_mul_plain_tmp_bytes(&res, &a, &b) + SLACK, fill);
                    m.glwe_mul_plain(cnv, &mut res, &a, a_k, &b, b_k, sc.borrow());
                    res.data().raw().to_vec()
                }
                5105 => {
                    // res (radix ab, effective precision a_k) *= b
                    let mut res = GLWE::alloc((n as u32).into(), (ab as u32).into(), (a_k as u32).into(), (rank as u32).into());
                    fill_raw(res.data_mut().raw_mut(), &r.vs[0]);
                    let mut b = GLWEPlaintext::alloc((n as u32).into(), (ab as u32).into(), (b_k as u32).into());
                    fill_raw(b.data_mut().raw_mut(), &r.vs[1]);
                    let bytes = { let rr = &res; m.glwe_mul_plain_tmp_bytes(rr, rr, &b) };
                    let mut sc = scratch_filled::<BE>(bytes + SLACK, fill);
                    m.glwe_mul_plain_assign(cnv, &mut res, a_k, &b, b_k, sc.borrow());
                    res.data().raw().to_vec()
                }
                5106 => {
                    let mut a = GLWE::alloc((n as u32).into(), (ab as u32).into(), (a_k as u32).into(), (rank as u32).into());
                    fill_raw(a.data_mut().raw_mut(), &r.vs[0]);
                    let b = v64(&r.vs[1]);
                    let mut res = GLWE::alloc((n as u32).into(), (rb as u32).into(), (res_k as u32).into(), (rank as u32).into());
                    fill_raw(res.data_mut().raw_mut(), &r.vs[2]);
                    let mut sc = scratch_filled::<BE>(m.glwe_mul_const_tmp_bytes(&res, &a, b.len()) + SLACK, fill);
                    m.glwe_mul_const(cnv, &mut res, &a, &b, sc.borrow());
                    res.data().raw().to_vec()
                }
                5107 => {
                    let mut res = GLWE::alloc((n as u32).into(), (ab as u32).into(), (a_k as u32).into(), (rank as u32).into());
                    fill_raw(res.data_mut().raw_mut(), &r.vs[0]);
                    let b = v64(&r.vs[1]);
                    let bytes = { let rr = &res; m.glwe_mul_const_tmp_bytes(rr, rr, b.len()) };
                    let mut sc = scratch_filled::<BE>(bytes + SLACK, fill);
                    m.glwe_mul_const_assign(cnv, &mut res, &b, sc.borrow());
                    res.data().raw().to_vec()
                }
                _ => panic!("c05: unknown op {}", code),
            };
            outs.push(to128(&out));
        }
        let same = outs[0] == outs[1];
        vec![outs[0].clone(), vec![same as i128]]
    })
}

pub fn exec(r: &Rec) -> Out {
    let r2 = r.clone();
    guard(move || if r2.code < 5100 { hal_op(&r2) } else { core_op(&r2) })
}

/// values with |x| < 2^bits, in classes: random, extreme with aligned signs, alternating, sparse
fn vals(rng: &mut Rng, cnt: usize, bits: u32) -> Vec<i128> {
    let class = rng.below(6);
    let m = 1i64 << bits;
    (0..cnt).map(|i| (match class {
        0 | 1 => rng.range(-m + 1, m - 1),
        2 => m - 1,
        3 => if i % 2 == 0 { m - 1 } else { -(m - 1) },
        4 => if rng.below(8) == 0 { rng.range(-m + 1, m - 1) } else { 0 },
        _ => -(m - 1),
    }) as i128).collect()
}

/// balanced digits of radix 2^b: random / extreme (-2^(b-1), 2^(b-1)-1) / sparse
fn digits(rng: &mut Rng, cnt: usize, b: u32) -> Vec<i128> {
    let class = rng.below(6);
    let h = 1i64 << (b - 1);
    (0..cnt).map(|i| (match class {
        0 | 1 | 2 => rng.range(-h, h - 1),
        3 => -h,
        4 => if i % 2 == 0 { h - 1 } else { -h },
        _ => if rng.below(4) == 0 { rng.range(-h, h - 1) } else { 0 },
    }) as i128).collect()
}

fn pick_mask(rng: &mut Rng, vbits: u32) -> i128 {
    match rng.below(4) {
        0 | 1 => -1,
        2 => ((!0i64) << rng.range(1, vbits as i64)) as i128,
        _ => ((!0i64) << (vbits - 1)) as i128,
    }
}

fn gen_hal(tier: &str, rng: &mut Rng, out: &mut Vec<Rec>) {
    let reps = if tier == "thorough" { 4000 } else { 520 };
    let codes = [5001i64, 5001, 5002, 5003, 5004, 5001, 5002, 5003];
    for it in 0..reps {
        let code = codes[it % codes.len()];
        let be = rng.range(1, 4) as i128;
        let logn = if tier == "thorough" && rng.below(30) == 0 { rng.range(6, 8) } else { rng.range(3, 5) };
        let n = 1usize << logn;
        let fft = be <= 2;
        let (asize, bsize) = (rng.range(1, 5) as usize, rng.range(1, 5) as usize);
        let acols = rng.range(1, 3) as usize;
        let bcols = if code == 5002 { acols } else { rng.range(1, 3) as usize };
        let rcols = rng.range(1, 2) as usize;
        let rcol = rng.below(rcols as u64) as usize;
        let (acol, bcol) = (rng.below(acols as u64) as usize, rng.below(if code == 5004 { acols } else { bcols } as u64) as usize);
        // prepared sizes: mostly the operand's own size, sometimes shorter / longer (mask lands on limb min(res, a) - 1)
        let pasz = match rng.below(5) { 0 => rng.range(1, asize as i64 + 1) as usize, _ => asize };
        let pbsz = if code == 5004 { pasz } else { match rng.below(5) { 0 => rng.range(1, bsize as i64 + 1) as usize, _ => bsize } };
        let (ea, eb) = (pasz, if code == 5003 { bsize } else { pbsz });
        let full = ea + eb;
        let rsize = match rng.below(4) { 0 => rng.range(1, full as i64 + 2) as usize, 1 => full, 2 => full.saturating_sub(1).max(1), _ => rng.range(1, full as i64) as usize };
        let cnv_offset = match rng.below(6) { 0 => 0, 1 => full, 2 => full + rng.range(1, 3) as usize, 3 => full - 1, _ => rng.range(0, full as i64) as usize };
        // magnitude domain: terms * n * 2^(2 vbits) < 2^50 for FFT64 ; NTT120: |result| < Q/2 ~ 2^119
        let terms = asize.min(bsize) as u32;
        let lt = 32 - terms.leading_zeros();
        let pair = if code == 5002 || code == 5004 { 2 } else { 0 };
        let vbits: u32 = if code == 5003 { if fft { 24 } else { 50 } } else if fft { (50 - logn as u32 - lt - pair) / 2 } else { 50 };
        let (ci, cj) = if code == 5002 { (rng.below(acols as u64) as usize, rng.below(acols as u64) as usize) } else { (0, 0) };
        let mask_a = if code == 5003 { -1 } else { pick_mask(rng, vbits) };
        let mask_b = if code == 5003 || code == 5004 { -1 } else { pick_mask(rng, vbits) };
        let mut vs = vec![vals(rng, n * acols * asize, vbits)];
        match code {
            5003 => vs.push(vals(rng, bsize, vbits)),
            5004 => vs.push(vec![]),
            _ => vs.push(vals(rng, n * bcols * bsize, vbits)),
        }
        vs.push(vals(rng, n * rcols * rsize, 40));
        let ps: Vec<i128> = vec![be, n as i128, rcols as i128, rsize as i128, rcol as i128, acols as i128, asize as i128, acol as i128,
            bcols as i128, bsize as i128, bcol as i128, pasz as i128, pbsz as i128, cnv_offset as i128, mask_a, mask_b, ci as i128, cj as i128];
        out.push(Rec::new(code, ps, vs));
    }
}


fn dceil(a: usize, b: usize) -> usize { a.div_ceil(b) }

/// effective precision with `size` limbs of radix b: a multiple of b (no mask) or not (mask path)
fn pick_k(rng: &mut Rng, size: usize, b: usize) -> usize {
    if b == 1 || rng.below(3) == 0 { size * b } else { (size - 1) * b + rng.range(1, b as i64 - 1) as usize }
}

fn gen_core(tier: &str, rng: &mut Rng, out: &mut Vec<Rec>) {
    let reps = if tier == "thorough" { 1500 } else { 230 };
    let codes = [5101i64, 5102, 5103, 5104, 5105, 5106, 5107, 5101, 5103, 5104, 5106];
    for it in 0..reps {
        let code = codes[it % codes.len()];
        let be = rng.range(1, 4) as i128;
        let fft = be <= 2;
        let logn = match rng.below(8) { 0 => 5, 1 | 2 => 4, _ => 3 };
        let n = 1usize << logn;
        let rank = if matches!(code, 5101 | 5102 | 5103) { rng.range(1, 2) as usize } else { rng.range(1, 3) as usize };
        let asz = rng.range(1, 3) as usize;
        let bsz = if code == 5103 { asz } else { rng.range(1, 3) as usize };
        let terms = asz.min(bsz) as u32;
        let lt = 32 - terms.leading_zeros();
        // magnitude domain: FFT64: 4 * terms * n * 2^(2(ab-1)) < 2^50 ; NTT120 has ~119 bits
        let ab_max: usize = if fft { ((50 - 2 - logn as u32 - lt) / 2 + 1) as usize } else { 40 };
        let ab_lo = if rng.below(6) == 0 { 2 } else { 6 };
        let ab = rng.range(ab_lo, ab_max as i64) as usize;
        let assign = matches!(code, 5105 | 5107);
        let rb = if assign || rng.below(3) == 0 { ab } else { rng.range(2.max(ab as i64 - 5), (ab as i64 + 5).min(50)) as usize };
        let a_k = pick_k(rng, asz, ab);
        let b_k = if code == 5103 { a_k } else { pick_k(rng, bsz, ab) };
        // result precision: smaller / equal / larger than the full product
        let full_bits = (asz + bsz) * ab;
        let res_k = if assign { a_k } else { match rng.below(4) { 0 => full_bits + rng.range(0, 2 * rb as i64) as usize, 1 => full_bits, _ => rng.range(1, full_bits as i64) as usize } };
        let rsz = dceil(res_k, rb);
        let cnv = match rng.below(10) { 0 => 0, 1 => ab, 2 => ab - 1, 3 => full_bits, 8 if matches!(code, 5101 | 5102 | 5103) => full_bits + ab + rng.range(0, 2 * ab as i64) as usize, 4 => rng.range(0, ab as i64) as usize, _ => rng.range(0, full_bits as i64 + ab as i64) as usize };
        let cols = rank + 1;
        let tcols = cols * (cols + 1) / 2;
        let ps: Vec<i128> = vec![be, n as i128, rank as i128, ab as i128, rb as i128, a_k as i128, b_k as i128, res_k as i128, cnv as i128];
        let a = digits(rng, n * cols * asz, ab as u32);
        let vs = match code {
            5101 | 5102 => vec![a, digits(rng, n * cols * bsz, ab as u32), digits(rng, n * tcols * rsz, rb as u32)],
            5103 => vec![a, vec![], digits(rng, n * tcols * rsz, rb as u32)],
            5104 => vec![a, digits(rng, n * bsz, ab as u32), digits(rng, n * cols * rsz, rb as u32)],
            5105 => vec![a, digits(rng, n * bsz, ab as u32), vec![]],
            5106 => vec![a, digits(rng, bsz, ab as u32), digits(rng, n * cols * rsz, rb as u32)],
            _ => vec![a, digits(rng, bsz, ab as u32), vec![]],
        };
        out.push(Rec::new(code, ps, vs));
    }
}

pub fn generate(tier: &str, seed: u64) -> Vec<Rec> {
    let mut rng = Rng::new(seed);
    let mut out = Vec::new();
    gen_hal(tier, &mut rng, &mut out);
    gen_core(tier, &mut rng, &mut out);
    out
}

fn main() { poulpy_verif_harness::run_main(generate, exec) }
