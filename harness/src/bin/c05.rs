//! C05: ciphertext multiplication (tensor / relinearise / mul_plain / mul_const) and the HAL convolution layer.
//!
//! Part 1 (opcodes 5001..5004), HAL convolution observed in the coefficient domain:
//!   header: be n | rcols rsize rcol | acols asize acol | bcols bsize bcol | pasz pbsz cnv_offset mask_a mask_b ci cj
//!   5001 cnv_prepare_left(mask_a) + cnv_prepare_right(mask_b) + cnv_apply_dft(cnv_offset, res, rcol, a, acol, b, bcol)
//!   5002 same preparation + cnv_pairwise_apply_dft(cnv_offset, res, rcol, a, b, ci, cj)
//!   5003 cnv_by_const_apply(cnv_offset, res_big, rcol, a, acol, b = vs[1])
//!   5004 cnv_prepare_self(mask_a) + cnv_apply_dft(cnv_offset, res, rcol, left, acol, right, bcol)
//!   inputs: vs[0] = a (VecZnx acols x asize), vs[1] = b (VecZnx bcols x bsize | constant limbs), vs[2] = prior content
//!   of the destination (coefficient domain; brought into the DFT domain with vec_znx_dft_apply for 5001/2/4, written as
//!   raw big words for 5003).  The WHOLE destination (every column) is brought back with vec_znx_idft_apply and dumped in
//!   flat order (limb j, column c at n*(j*rcols+c)), so that a write outside the selected column is visible.
//!   Each case runs twice with different garbage in scratch / prepared buffers / temporaries; flags = [same].
//!
//! Part 2, level 1 (opcodes 5101..5107), keyless core operations on ciphertext columns filled with given limb data:
//!   header: be n rank ab_base2k res_base2k a_k b_k res_k cnv_offset
//!   5101 glwe_tensor_apply   5102 glwe_tensor_apply_add_assign   5103 glwe_tensor_square_apply
//!   5104 glwe_mul_plain      5105 glwe_mul_plain_assign          5106 glwe_mul_const   5107 glwe_mul_const_assign
//!   vs[0] = a.data, vs[1] = b.data (ciphertext | plaintext | constant limbs), vs[2] = prior content of res.data
//!   output = [res.data ; flags [same]]
//!
//! Part 2, level 2 (opcodes 5201..5204), real keys: see `l2` below.
use poulpy_core::api::*;
use poulpy_core::layouts::*;
use poulpy_core::EncryptionLayout;
use poulpy_hal::api::*;
use poulpy_hal::layouts::*;
use poulpy_hal::source::Source;
use poulpy_verif_harness::hal::*;
use poulpy_verif_harness::rec::*;
use poulpy_verif_harness::with_be;

fn garbage(buf: &mut [u8], rng: &mut Rng) {
    for c in buf.chunks_mut(8) {
        let v = rng.next().to_le_bytes();
        let l = c.len();
        c.copy_from_slice(&v[..l]);
    }
}

fn big_words(bytes: &[u8], word: usize) -> Vec<i128> {
    if word == 8 {
        bytes.chunks_exact(8).map(|c| i64::from_le_bytes(c.try_into().unwrap()) as i128).collect()
    } else {
        bytes.chunks_exact(16).map(|c| i128::from_le_bytes(c.try_into().unwrap())).collect()
    }
}

fn phash(r: &Rec) -> u64 {
    r.ps.iter().fold(r.code as u64, |h, x| h.wrapping_mul(31).wrapping_add(*x as u64))
}

// ------------------------------------------------------------------------------------------------------------------
// Part 1: HAL convolution
// ------------------------------------------------------------------------------------------------------------------
fn hal_op(r: &Rec) -> Vec<Vec<i128>> {
    let p = &r.ps;
    let u = |i: usize| p[i] as usize;
    let (be, n) = (p[0], u(1));
    let (rcols, rsize, rcol) = (u(2), u(3), u(4));
    let (acols, asize, acol) = (u(5), u(6), u(7));
    let (bcols, bsize, bcol) = (u(8), u(9), u(10));
    let (pasz, pbsz, cnv_offset) = (u(11), u(12), u(13));
    let (mask_a, mask_b) = (p[14] as i64, p[15] as i64);
    let (ci, cj) = (u(16), u(17));
    let code = r.code;
    with_be!(be, BE, {
        let m = module::<BE>(n);
        let word = std::mem::size_of::<<BE as Backend>::ScalarBig>();
        let mut outs: Vec<Vec<i128>> = Vec::new();
        for run in 0..2u64 {
            let mut g = Rng::new(0xC05C05 ^ (run * 7919) ^ phash(r));
            let mut sc = scratch_filled::<BE>((1usize << 16) + n * 4096, g.next() as i64);
            let a = mk_vec_znx(n, acols, asize, asize, &v64(&r.vs[0]));
            let mut big = m.vec_znx_big_alloc(rcols, rsize);
            garbage(big.data_mut().as_mut(), &mut g);
            if code == 5003 {
                // prior content of the big destination: raw words
                {
                    let d: &mut [u8] = big.data_mut().as_mut();
                    for (i, x) in r.vs[2].iter().enumerate() {
                        if word == 8 { d[8 * i..8 * i + 8].copy_from_slice(&(*x as i64).to_le_bytes()); }
                        else { d[16 * i..16 * i + 16].copy_from_slice(&x.to_le_bytes()); }
                    }
                }
                m.cnv_by_const_apply(cnv_offset, &mut big, rcol, &a, acol, &v64(&r.vs[1]), sc.borrow());
            } else {
                let mut res_dft = m.vec_znx_dft_alloc(rcols, rsize);
                garbage(res_dft.data_mut().as_mut(), &mut g);
                let r0 = mk_vec_znx(n, rcols, rsize, rsize, &v64(&r.vs[2]));
                for c in 0..rcols { m.vec_znx_dft_apply(1, 0, &mut res_dft, c, &r0, c); }
                let mut a_prep = m.cnv_pvec_left_alloc(acols, pasz);
                garbage(a_prep.data_mut().as_mut(), &mut g);
                if code == 5004 {
                    let mut b_prep = m.cnv_pvec_right_alloc(acols, pasz);
                    garbage(b_prep.data_mut().as_mut(), &mut g);
                    m.cnv_prepare_self(&mut a_prep, &mut b_prep, &a, mask_a, sc.borrow());
                    m.cnv_apply_dft(cnv_offset, &mut res_dft, rcol, &a_prep, acol, &b_prep, bcol, sc.borrow());
                } else {
                    let b = mk_vec_znx(n, bcols, bsize, bsize, &v64(&r.vs[1]));
                    let mut b_prep = m.cnv_pvec_right_alloc(bcols, pbsz);
                    garbage(b_prep.data_mut().as_mut(), &mut g);
                    m.cnv_prepare_left(&mut a_prep, &a, mask_a, sc.borrow());
                    m.cnv_prepare_right(&mut b_prep, &b, mask_b, sc.borrow());
                    if code == 5001 {
                        m.cnv_apply_dft(cnv_offset, &mut res_dft, rcol, &a_prep, acol, &b_prep, bcol, sc.borrow());
                    } else {
                        m.cnv_pairwise_apply_dft(cnv_offset, &mut res_dft, rcol, &a_prep, &b_prep, ci, cj, sc.borrow());
                    }
                }
                for c in 0..rcols { m.vec_znx_idft_apply(&mut big, c, &res_dft, c, sc.borrow()); }
            }
            let bb: &[u8] = big.data().as_ref();
            let words = big_words(bb, word);
            outs.push(words[..n * rcols * rsize].to_vec());
        }
        let same = outs[0] == outs[1];
        vec![outs[0].clone(), vec![same as i128]]
    })
}


// ------------------------------------------------------------------------------------------------------------------
// Part 2, level 1: keyless core operations on given limb data
// ------------------------------------------------------------------------------------------------------------------
/// Extra scratch beyond the declared `*_tmp_bytes`: none (the size queries were repaired in ff1224e; before that the
/// declared sizes under-estimated what the calls take and 128 KiB of slack were needed).
const SLACK: usize = 0;

fn fill_raw(dst: &mut [i64], src: &[i128]) {
    assert_eq!(dst.len(), src.len(), "flat size mismatch");
    for (d, s) in dst.iter_mut().zip(src) { *d = *s as i64; }
}

fn core_op(r: &Rec) -> Vec<Vec<i128>> {
    let p = &r.ps;
    let u = |i: usize| p[i] as usize;
    let (be, n, rank) = (p[0], u(1), u(2));
    let (ab, rb) = (u(3), u(4));
    let (a_k, b_k, res_k, cnv) = (u(5), u(6), u(7), u(8));
    let code = r.code;
    with_be!(be, BE, {
        let m = module::<BE>(n);
        let mut outs: Vec<Vec<i128>> = Vec::new();
        for run in 0..2u64 {
            let mut g = Rng::new(0xC05C0DE ^ (run * 7919) ^ phash(r));
            let fill = g.next() as i64;
            let out: Vec<i64> = match code {
                5101 | 5102 | 5103 => {
                    let mut a = GLWE::alloc((n as u32).into(), (ab as u32).into(), (a_k as u32).into(), (rank as u32).into());
                    fill_raw(a.data_mut().raw_mut(), &r.vs[0]);
                    let mut res = GLWETensor::alloc((n as u32).into(), (rb as u32).into(), (res_k as u32).into(), (rank as u32).into());
                    fill_raw(res.data_mut().raw_mut(), &r.vs[2]);
                    if code == 5103 {
                        let mut sc = scratch_filled::<BE>(m.glwe_tensor_square_apply_tmp_bytes(&res, &a) + SLACK, fill);
                        m.glwe_tensor_square_apply(cnv, &mut res, &a, a_k, sc.borrow());
                    } else {
                        let mut b = GLWE::alloc((n as u32).into(), (ab as u32).into(), (b_k as u32).into(), (rank as u32).into());
                        fill_raw(b.data_mut().raw_mut(), &r.vs[1]);
                        let mut sc = scratch_filled::<BE>(m.glwe_tensor_apply_tmp_bytes(&res, &a, &b) + SLACK, fill);
                        if code == 5101 { m.glwe_tensor_apply(cnv, &mut res, &a, a_k, &b, b_k, sc.borrow()); }
                        else { m.glwe_tensor_apply_add_assign(cnv, &mut res, &a, a_k, &b, b_k, sc.borrow()); }
                    }
                    res.data().raw().to_vec()
                }
                5104 => {
                    let mut a = GLWE::alloc((n as u32).into(), (ab as u32).into(), (a_k as u32).into(), (rank as u32).into());
                    fill_raw(a.data_mut().raw_mut(), &r.vs[0]);
                    let mut b = GLWEPlaintext::alloc((n as u32).into(), (ab as u32).into(), (b_k as u32).into());
                    fill_raw(b.data_mut().raw_mut(), &r.vs[1]);
                    let mut res = GLWE::alloc((n as u32).into(), (rb as u32).into(), (res_k as u32).into(), (rank as u32).into());
                    fill_raw(res.data_mut().raw_mut(), &r.vs[2]);
                    let mut sc = scratch_filled::<BE>(m.glwe_mul_plain_tmp_bytes(&res, &a, &b) + SLACK, fill);
                    m.glwe_mul_plain(cnv, &mut res, &a, a_k, &b, b_k, sc.borrow());
                    res.data().raw().to_vec()
                }
                5105 => {
                    // res (radix ab, effective precision a_k) *= b
                    let mut res = GLWE::alloc((n as u32).into(), (ab as u32).into(), (a_k as u32).into(), (rank as u32).into());
                    fill_raw(res.data_mut().raw_mut(), &r.vs[0]);
                    let mut b = GLWEPlaintext::alloc((n as u32).into(), (ab as u32).into(), (b_k as u32).into());
                    fill_raw(b.data_mut().raw_mut(), &r.vs[1]);
                    let bytes = { let rr = &res; m.glwe_mul_plain_tmp_bytes(rr, rr, &b) };
                    let mut sc = scratch_filled::<BE>(bytes + SLACK, fill);
                    m.glwe_mul_plain_assign(cnv, &mut res, a_k, &b, b_k, sc.borrow());
                    res.data().raw().to_vec()
                }
                5106 => {
                    let mut a = GLWE::alloc((n as u32).into(), (ab as u32).into(), (a_k as u32).into(), (rank as u32).into());
                    fill_raw(a.data_mut().raw_mut(), &r.vs[0]);
                    let b = v64(&r.vs[1]);
                    let mut res = GLWE::alloc((n as u32).into(), (rb as u32).into(), (res_k as u32).into(), (rank as u32).into());
                    fill_raw(res.data_mut().raw_mut(), &r.vs[2]);
                    let mut sc = scratch_filled::<BE>(m.glwe_mul_const_tmp_bytes(&res, &a, b.len()) + SLACK, fill);
                    m.glwe_mul_const(cnv, &mut res, &a, &b, sc.borrow());
                    res.data().raw().to_vec()
                }
                5107 => {
                    let mut res = GLWE::alloc((n as u32).into(), (ab as u32).into(), (a_k as u32).into(), (rank as u32).into());
                    fill_raw(res.data_mut().raw_mut(), &r.vs[0]);
                    let b = v64(&r.vs[1]);
                    let bytes = { let rr = &res; m.glwe_mul_const_tmp_bytes(rr, rr, b.len()) };
                    let mut sc = scratch_filled::<BE>(bytes + SLACK, fill);
                    m.glwe_mul_const_assign(cnv, &mut res, &b, sc.borrow());
                    res.data().raw().to_vec()
                }
                _ => panic!("c05: unknown op {}", code),
            };
            outs.push(to128(&out));
        }
        let same = outs[0] == outs[1];
        vec![outs[0].clone(), vec![same as i128]]
    })
}

// ------------------------------------------------------------------------------------------------------------------
// Part 2, level 2: real keys.  The secret, the ciphertexts and every key-dependent result are OUTPUTS of the record
// (the oracle decrypts by itself with the exact products of the model).
//   header: be n rank ab rb a_k b_k res_k cnv mode | kb dsize dnum k_tsk relb rel_k | seed
//   5201 tensor (mode 0 apply, 1 add_assign, 2 square) + glwe_tensor_decrypt + glwe_tensor_relinearize + glwe_decrypt
//        vs = [pt_a limbs, pt_b limbs, prior tensor]      outs = [sk, a.data, b.data, tensor.data, pt_tensor, relin.data, pt_relin, flags, tensor key]
//   5202 mul_plain (mode 0) / mul_plain_assign (mode 1) + glwe_decrypt
//   5203 mul_const (mode 0) / mul_const_assign (mode 1) + glwe_decrypt
//        vs = [pt_a limbs, b (plaintext limbs | constant limbs), prior res]   outs = [sk, a.data, res.data, pt_res, flags]
// ------------------------------------------------------------------------------------------------------------------
fn l2_op(r: &Rec) -> Vec<Vec<i128>> {
    let p = &r.ps;
    let u = |i: usize| p[i] as usize;
    let (be, n, rank) = (p[0], u(1), u(2));
    let (ab, rb) = (u(3), u(4));
    let (a_k, b_k, res_k, cnv, mode) = (u(5), u(6), u(7), u(8), u(9));
    let (kb, dsize, dnum, k_tsk, relb, rel_k) = (u(10), u(11), u(12), u(13), u(14), u(15));
    let seed = p[16] as u64;
    let code = r.code;
    let d = |x: usize| -> u32 { x as u32 };
    with_be!(be, BE, {
        let m = module::<BE>(n);
        let mut g = Rng::new(seed);
        let xs_seed = g.bytes32();
        let (mut source_xs, mut source_xe, mut source_xa) = (Source::new(xs_seed), Source::new(g.bytes32()), Source::new(g.bytes32()));
        // secret (and an identical copy whose coefficients can be read)
        let mut sk = GLWESecret::alloc(d(n).into(), d(rank).into());
        let mut sk_copy = ScalarZnx::alloc(n, rank);
        {
            let mut s2 = Source::new(xs_seed);
            sk.fill_ternary_prob(0.5, &mut source_xs);
            for i in 0..rank { sk_copy.fill_ternary_prob(i, 0.5, &mut s2); }
        }
        let sk_words: Vec<i128> = to128(sk_copy.raw());
        let mut sk_dft = m.glwe_secret_prepared_alloc_from_infos(&sk);
        m.glwe_secret_prepare(&mut sk_dft, &sk);
        let mut big_sc = scratch_filled::<BE>(1 << 22, 0);

        let in_a = EncryptionLayout::new_from_default_sigma(GLWELayout { n: d(n).into(), base2k: d(ab).into(), k: d(a_k).into(), rank: d(rank).into() }).unwrap();
        let in_b = EncryptionLayout::new_from_default_sigma(GLWELayout { n: d(n).into(), base2k: d(ab).into(), k: d(b_k).into(), rank: d(rank).into() }).unwrap();
        let mut pt_a = GLWEPlaintext::alloc(d(n).into(), d(ab).into(), d(a_k).into());
        fill_raw(pt_a.data_mut().raw_mut(), &r.vs[0]);
        let mut a = GLWE::alloc(d(n).into(), d(ab).into(), d(a_k).into(), d(rank).into());
        m.glwe_encrypt_sk(&mut a, &pt_a, &sk_dft, &in_a, &mut source_xe, &mut source_xa, big_sc.borrow());
        let a_words = to128(a.data().raw());

        // three runs: scratch filled with two different garbage words, then with zeros; the reported output is the
        // zero-scratch one, the flag says whether all three agree
        let run_twice = |f: &mut dyn FnMut(i64) -> Vec<i64>| -> (Vec<i64>, bool) {
            let mut gg = Rng::new(seed ^ 0x5EED);
            let o1 = f(gg.next() as i64);
            let o2 = f(gg.next() as i64);
            let o3 = f(0);
            let same = o1 == o2 && o2 == o3;
            (o3, same)
        };

        match code {
            5201 => {
                let mut b = GLWE::alloc(d(n).into(), d(ab).into(), d(b_k).into(), d(rank).into());
                if mode != 2 {
                    let mut pt_b = GLWEPlaintext::alloc(d(n).into(), d(ab).into(), d(b_k).into());
                    fill_raw(pt_b.data_mut().raw_mut(), &r.vs[1]);
                    m.glwe_encrypt_sk(&mut b, &pt_b, &sk_dft, &in_b, &mut source_xe, &mut source_xa, big_sc.borrow());
                }
                let b_words = if mode == 2 { vec![] } else { to128(b.data().raw()) };
                let mut res = GLWETensor::alloc(d(n).into(), d(rb).into(), d(res_k).into(), d(rank).into());
                let (t_words, same) = run_twice(&mut |fill: i64| {
                    fill_raw(res.data_mut().raw_mut(), &r.vs[2]);
                    if mode == 2 {
                        let mut sc = scratch_filled::<BE>(m.glwe_tensor_square_apply_tmp_bytes(&res, &a) + SLACK, fill);
                        m.glwe_tensor_square_apply(cnv, &mut res, &a, a_k, sc.borrow());
                    } else {
                        let mut sc = scratch_filled::<BE>(m.glwe_tensor_apply_tmp_bytes(&res, &a, &b) + SLACK, fill);
                        if mode == 0 { m.glwe_tensor_apply(cnv, &mut res, &a, a_k, &b, b_k, sc.borrow()); }
                        else { m.glwe_tensor_apply_add_assign(cnv, &mut res, &a, a_k, &b, b_k, sc.borrow()); }
                    }
                    res.data().raw().to_vec()
                });
                // decrypt the tensor with (1, s, s (x) s)
                let mut sk_tensor = GLWESecretTensor::alloc(d(n).into(), d(rank).into());
                m.glwe_secret_tensor_prepare(&mut sk_tensor, &sk, big_sc.borrow());
                let mut sk_tensor_prep = m.glwe_secret_tensor_prepared_alloc(d(rank).into());
                m.glwe_secret_tensor_prepared_prepare(&mut sk_tensor_prep, &sk_tensor);
                let mut pt_t = GLWEPlaintext::alloc(d(n).into(), d(rb).into(), d(res_k).into());
                m.glwe_tensor_decrypt(&res, &mut pt_t, &sk_dft, &sk_tensor_prep, big_sc.borrow());
                // relinearise
                let tsk_infos = EncryptionLayout::new_from_default_sigma(GLWETensorKeyLayout {
                    n: d(n).into(), base2k: d(kb).into(), k: d(k_tsk).into(), rank: d(rank).into(), dnum: d(dnum).into(), dsize: Dsize(d(dsize)),
                }).unwrap();
                let mut tsk = GLWETensorKey::alloc_from_infos(&tsk_infos);
                m.glwe_tensor_key_encrypt_sk(&mut tsk, &sk, &tsk_infos, &mut source_xe, &mut source_xa, big_sc.borrow());
                let mut tsk_prep = m.alloc_tensor_key_prepared_from_infos(&tsk_infos);
                m.prepare_tensor_key(&mut tsk_prep, &tsk, big_sc.borrow());
                let mut relin = GLWE::alloc(d(n).into(), d(relb).into(), d(rel_k).into(), d(rank).into());
                let (rl_words, same2) = run_twice(&mut |fill: i64| {
                    for x in relin.data_mut().raw_mut().iter_mut() { *x = fill; }
                    let mut sc = scratch_filled::<BE>(m.glwe_tensor_relinearize_tmp_bytes(&relin, &res, &tsk_infos) + SLACK, fill);
                    m.glwe_tensor_relinearize(&mut relin, &res, &tsk_prep, tsk_prep.size(), sc.borrow());
                    relin.data().raw().to_vec()
                });
                let mut pt_r = GLWEPlaintext::alloc(d(n).into(), d(relb).into(), d(rel_k).into());
                m.glwe_decrypt(&relin, &mut pt_r, &sk_dft, big_sc.borrow());
                // the tensor key before preparation, in the order of the model's pmat_of_flat (see relin_op)
                let mut key_words: Vec<i128> = Vec::new();
                {
                    let g = tsk.to_ref();
                    let pairs = (rank * (rank + 1) / 2).max(1);
                    for row in 0..dnum { for ci in 0..pairs {
                        let ct = g.at(row, ci);
                        let v = ct.data();
                        for j in 0..v.size() { for c in 0..v.cols() { key_words.extend(v.at(c, j).iter().map(|x| *x as i128)); } }
                    } }
                }
                vec![sk_words, a_words, b_words, to128(&t_words), to128(pt_t.data().raw()), to128(&rl_words), to128(pt_r.data().raw()),
                     vec![same as i128, same2 as i128], key_words]
            }
            5202 | 5203 => {
                let assign = mode == 1;
                let (o_b, o_k) = if assign { (ab, a_k) } else { (rb, res_k) };
                let mut res = GLWE::alloc(d(n).into(), d(o_b).into(), d(o_k).into(), d(rank).into());
                let mut pt_b = GLWEPlaintext::alloc(d(n).into(), d(ab).into(), d(b_k).into());
                let bconst = v64(&r.vs[1]);
                if code == 5202 { fill_raw(pt_b.data_mut().raw_mut(), &r.vs[1]); }
                let (r_words, same) = run_twice(&mut |fill: i64| {
                    if assign { res.data_mut().raw_mut().copy_from_slice(a.data().raw()); } else { fill_raw(res.data_mut().raw_mut(), &r.vs[2]); }
                    match (code, assign) {
                        (5202, false) => { let mut sc = scratch_filled::<BE>(m.glwe_mul_plain_tmp_bytes(&res, &a, &pt_b) + SLACK, fill);
                                           m.glwe_mul_plain(cnv, &mut res, &a, a_k, &pt_b, b_k, sc.borrow()); }
                        (5202, true) => { let bytes = { let rr = &res; m.glwe_mul_plain_tmp_bytes(rr, rr, &pt_b) };
                                          let mut sc = scratch_filled::<BE>(bytes + SLACK, fill);
                                          m.glwe_mul_plain_assign(cnv, &mut res, a_k, &pt_b, b_k, sc.borrow()); }
                        (_, false) => { let mut sc = scratch_filled::<BE>(m.glwe_mul_const_tmp_bytes(&res, &a, bconst.len()) + SLACK, fill);
                                        m.glwe_mul_const(cnv, &mut res, &a, &bconst, sc.borrow()); }
                        (_, true) => { let bytes = { let rr = &res; m.glwe_mul_const_tmp_bytes(rr, rr, bconst.len()) };
                                       let mut sc = scratch_filled::<BE>(bytes + SLACK, fill);
                                       m.glwe_mul_const_assign(cnv, &mut res, &bconst, sc.borrow()); }
                    }
                    res.data().raw().to_vec()
                });
                let mut pt_r = GLWEPlaintext::alloc(d(n).into(), d(o_b).into(), d(o_k).into());
                m.glwe_decrypt(&res, &mut pt_r, &sk_dft, big_sc.borrow());
                vec![sk_words, a_words, to128(&r_words), to128(pt_r.data().raw()), vec![same as i128]]
            }
            _ => panic!("c05: unknown op {}", code),
        }
    })
}

// ------------------------------------------------------------------------------------------------------------------
// Part 2, level 1: glwe_tensor_relinearize on given limb data (opcode 5108)
//   header: be n rank ab kb rb a_size res_size dsize dnum msize
//   vs[0] = tensor.data (radix ab, a_size limbs), vs[1] = tensor key BEFORE preparation, in the order of the model's
//   Gadget.pmat_of_flat (as harness/src/ks_common.rs::mat_dump): for row, for input column ci : the GLWE (row, ci) limb-major
//   output = [res.data (radix rb, res_size limbs) ; flags [same]]
// ------------------------------------------------------------------------------------------------------------------
fn relin_op(r: &Rec) -> Vec<Vec<i128>> {
    let p = &r.ps;
    let u = |i: usize| p[i] as usize;
    let (be, n, rank) = (p[0], u(1), u(2));
    let (ab, kb, rb) = (u(3), u(4), u(5));
    let (a_size, res_size, dsize, dnum, msize) = (u(6), u(7), u(8), u(9), u(10));
    let d = |x: usize| -> u32 { x as u32 };
    with_be!(be, BE, {
        let m = module::<BE>(n);
        let cols = rank + 1;
        let pairs = (rank * (rank + 1) / 2).max(1);
        let mut t = GLWETensor::alloc(d(n).into(), d(ab).into(), d(a_size * ab).into(), d(rank).into());
        fill_raw(t.data_mut().raw_mut(), &r.vs[0]);
        let lay = GLWETensorKeyLayout { n: d(n).into(), base2k: d(kb).into(), k: d(msize * kb).into(), rank: d(rank).into(), dnum: d(dnum).into(), dsize: Dsize(d(dsize)) };
        let mut tsk = GLWETensorKey::alloc_from_infos(&lay);
        {
            let mut g = tsk.to_mut();
            let mut it = r.vs[1].iter();
            for row in 0..dnum { for ci in 0..pairs {
                let mut ct = g.at_mut(row, ci);
                for j in 0..msize { for c in 0..cols {
                    for x in ct.data_mut().at_mut(c, j).iter_mut() { *x = *it.next().expect("key data too short") as i64; }
                } }
            } }
            assert!(it.next().is_none(), "key data too long");
        }
        let mut big_sc = scratch_filled::<BE>(1 << 22, 0);
        let mut tsk_prep = m.alloc_tensor_key_prepared_from_infos(&lay);
        m.prepare_tensor_key(&mut tsk_prep, &tsk, big_sc.borrow());
        let mut res = GLWE::alloc(d(n).into(), d(rb).into(), d(res_size * rb).into(), d(rank).into());
        let mut outs: Vec<Vec<i64>> = Vec::new();
        for run in 0..2u64 {
            let mut g = Rng::new(0xC05E11 ^ (run * 7919) ^ phash(r));
            let fill = g.next() as i64;
            for x in res.data_mut().raw_mut().iter_mut() { *x = fill; }
            let mut sc = scratch_filled::<BE>(m.glwe_tensor_relinearize_tmp_bytes(&res, &t, &lay) + SLACK, fill);
            m.glwe_tensor_relinearize(&mut res, &t, &tsk_prep, tsk_prep.size(), sc.borrow());
            outs.push(res.data().raw().to_vec());
        }
        let same = outs[0] == outs[1];
        vec![to128(&outs[0]), vec![same as i128]]
    })
}

pub fn exec(r: &Rec) -> Out {
    let r2 = r.clone();
    guard(move || if r2.code < 5100 { hal_op(&r2) } else if r2.code == 5108 { relin_op(&r2) } else if r2.code < 5200 { core_op(&r2) } else { l2_op(&r2) })
}

/// values with |x| < 2^bits, in classes: random, extreme with aligned signs, alternating, sparse
fn vals(rng: &mut Rng, cnt: usize, bits: u32) -> Vec<i128> {
    let class = rng.below(6);
    let m = 1i64 << bits;
    (0..cnt).map(|i| (match class {
        0 | 1 => rng.range(-m + 1, m - 1),
        2 => m - 1,
        3 => if i % 2 == 0 { m - 1 } else { -(m - 1) },
        4 => if rng.below(8) == 0 { rng.range(-m + 1, m - 1) } else { 0 },
        _ => -(m - 1),
    }) as i128).collect()
}

/// balanced digits of radix 2^b: random / extreme (-2^(b-1), 2^(b-1)-1) / sparse
fn digits(rng: &mut Rng, cnt: usize, b: u32) -> Vec<i128> {
    let class = rng.below(6);
    let h = 1i64 << (b - 1);
    (0..cnt).map(|i| (match class {
        0 | 1 | 2 => rng.range(-h, h - 1),
        3 => -h,
        4 => if i % 2 == 0 { h - 1 } else { -h },
        _ => if rng.below(4) == 0 { rng.range(-h, h - 1) } else { 0 },
    }) as i128).collect()
}

fn pick_mask(rng: &mut Rng, vbits: u32) -> i128 {
    match rng.below(4) {
        0 | 1 => -1,
        2 => ((!0i64) << rng.range(1, vbits as i64)) as i128,
        _ => ((!0i64) << (vbits - 1)) as i128,
    }
}

fn gen_hal(tier: &str, rng: &mut Rng, out: &mut Vec<Rec>) {
    let reps = if tier == "thorough" { 4000 } else { 520 };
    let codes = [5001i64, 5001, 5002, 5003, 5004, 5001, 5002, 5003];
    for it in 0..reps {
        let code = codes[it % codes.len()];
        let be = rng.range(1, 4) as i128;
        let logn = if tier == "thorough" && rng.below(30) == 0 { rng.range(6, 8) } else { rng.range(3, 5) };
        let n = 1usize << logn;
        let fft = be <= 2;
        let (asize, bsize) = (rng.range(1, 5) as usize, rng.range(1, 5) as usize);
        let acols = rng.range(1, 3) as usize;
        let bcols = if code == 5002 { acols } else { rng.range(1, 3) as usize };
        let rcols = rng.range(1, 2) as usize;
        let rcol = rng.below(rcols as u64) as usize;
        let (acol, bcol) = (rng.below(acols as u64) as usize, rng.below(if code == 5004 { acols } else { bcols } as u64) as usize);
        // prepared sizes: mostly the operand's own size, sometimes shorter / longer (mask lands on limb min(res, a) - 1)
        // (a prepared operand with MORE limbs than its source exercises the zero-fill of the padding limbs inside every block)
        let pasz = match rng.below(6) { 0 => rng.range(1, asize as i64 + 1) as usize, 1 => asize + rng.range(1, 2) as usize, _ => asize };
        let pbsz = if code == 5004 { pasz } else { match rng.below(6) { 0 => rng.range(1, bsize as i64 + 1) as usize, 1 => bsize + rng.range(1, 2) as usize, _ => bsize } };
        let (ea, eb) = (pasz, if code == 5003 { bsize } else { pbsz });
        let full = ea + eb;
        let rsize = match rng.below(4) { 0 => rng.range(1, full as i64 + 2) as usize, 1 => full, 2 => full.saturating_sub(1).max(1), _ => rng.range(1, full as i64) as usize };
        let cnv_offset = match rng.below(6) { 0 => 0, 1 => full, 2 => full + rng.range(1, 3) as usize, 3 => full - 1, _ => rng.range(0, full as i64) as usize };
        // magnitude domain: terms * n * 2^(2 vbits) < 2^50 for FFT64 ; NTT120: |result| < Q/2 ~ 2^119
        let terms = asize.min(bsize) as u32;
        let lt = 32 - terms.leading_zeros();
        let pair = if code == 5002 || code == 5004 { 2 } else { 0 };
        let vbits: u32 = if code == 5003 { if fft { 24 } else { 50 } } else if fft { (50 - logn as u32 - lt - pair) / 2 } else { 50 };
        let (ci, cj) = if code == 5002 { (rng.below(acols as u64) as usize, rng.below(acols as u64) as usize) } else { (0, 0) };
        let mask_a = if code == 5003 { -1 } else { pick_mask(rng, vbits) };
        let mask_b = if code == 5003 || code == 5004 { -1 } else { pick_mask(rng, vbits) };
        let mut vs = vec![vals(rng, n * acols * asize, vbits)];
        match code {
            5003 => {
                // constants with zero limbs in front of / between non-zero ones in half of the records (sparse constants take
                // their own paths in the vectorised kernels)
                let mut c = vals(rng, bsize, vbits);
                if rng.below(2) == 0 { for x in c.iter_mut() { if rng.below(2) == 0 { *x = 0; } } }
                vs.push(c)
            }
            5004 => vs.push(vec![]),
            _ => vs.push(vals(rng, n * bcols * bsize, vbits)),
        }
        vs.push(vals(rng, n * rcols * rsize, 40));
        let ps: Vec<i128> = vec![be, n as i128, rcols as i128, rsize as i128, rcol as i128, acols as i128, asize as i128, acol as i128,
            bcols as i128, bsize as i128, bcol as i128, pasz as i128, pbsz as i128, cnv_offset as i128, mask_a, mask_b, ci as i128, cj as i128];
        out.push(Rec::new(code, ps, vs));
    }
    // multiplication by a constant whose limbs are sparse: zero limbs in front of and between non-zero ones, every backend,
    // several offsets (a kernel that skips zero limbs must still advance through the operand)
    let pats: [&[i128]; 7] = [&[5, 0, 7], &[0, 11], &[0, 0, -3, 0, 1], &[9, 0, 0, 4], &[0, -2, 0], &[1, 0], &[0, 0, 0, 6]];
    for be in 1..=4i128 {
        for (pi, pat) in pats.iter().enumerate() {
            for (asize, n) in [(2usize, 8usize), (4, 16), (3, 32)] {
                if tier != "thorough" && (pi + asize) % 2 == 1 && n != 8 { continue; }
                let bsize = pat.len();
                let full = asize + bsize;
                for cnv_offset in [0usize, 1, full / 2] {
                    let rsize = full;
                    let vs = vec![vals(rng, n * asize, 20), pat.to_vec(), vals(rng, n * rsize, 40)];
                    let ps: Vec<i128> = vec![be, n as i128, 1, rsize as i128, 0, 1, asize as i128, 0, 1, bsize as i128, 0,
                        asize as i128, bsize as i128, cnv_offset as i128, -1, -1, 0, 0];
                    out.push(Rec::new(5003, ps, vs));
                }
            }
        }
    }
}


fn dceil(a: usize, b: usize) -> usize { a.div_ceil(b) }

/// effective precision with `size` limbs of radix b: a multiple of b (no mask) or not (mask path)
fn pick_k(rng: &mut Rng, size: usize, b: usize) -> usize {
    if b == 1 || rng.below(3) == 0 { size * b } else { (size - 1) * b + rng.range(1, b as i64 - 1) as usize }
}

fn gen_core(tier: &str, rng: &mut Rng, out: &mut Vec<Rec>) {
    let reps = if tier == "thorough" { 1500 } else { 230 };
    let codes = [5101i64, 5102, 5103, 5104, 5105, 5106, 5107, 5101, 5103, 5104, 5106];
    for it in 0..reps {
        let code = codes[it % codes.len()];
        let be = rng.range(1, 4) as i128;
        let fft = be <= 2;
        let logn = match rng.below(8) { 0 => 5, 1 | 2 => 4, _ => 3 };
        let n = 1usize << logn;
        let rank = if matches!(code, 5101 | 5102 | 5103) { rng.range(1, 2) as usize } else { rng.range(1, 3) as usize };
        let asz = rng.range(1, 3) as usize;
        let bsz = if code == 5103 { asz } else { rng.range(1, 3) as usize };
        let terms = asz.min(bsz) as u32;
        let lt = 32 - terms.leading_zeros();
        // magnitude domain: FFT64: 4 * terms * n * 2^(2(ab-1)) < 2^50 ; NTT120 has ~119 bits
        let ab_max: usize = if fft { ((50 - 2 - logn as u32 - lt) / 2 + 1) as usize } else { 40 };
        let ab_lo = if rng.below(6) == 0 { 2 } else { 6 };
        let ab = rng.range(ab_lo, ab_max as i64) as usize;
        let assign = matches!(code, 5105 | 5107);
        let rb = if assign || rng.below(3) == 0 { ab } else { rng.range(2.max(ab as i64 - 5), (ab as i64 + 5).min(50)) as usize };
        let a_k = pick_k(rng, asz, ab);
        let b_k = if code == 5103 { a_k } else { pick_k(rng, bsz, ab) };
        // result precision: smaller / equal / larger than the full product
        let full_bits = (asz + bsz) * ab;
        let res_k = if assign { a_k } else { match rng.below(4) { 0 => full_bits + rng.range(0, 2 * rb as i64) as usize, 1 => full_bits, _ => rng.range(1, full_bits as i64) as usize } };
        let rsz = dceil(res_k, rb);
        // offsets beyond (a.size + b.size + 1) * base2k make `a.size() + b.size() - cnv_offset_hi` underflow (debug builds panic): not generated
        let cnv = match rng.below(10) { 0 => 0, 1 => ab, 2 => ab - 1, 3 => full_bits, 4 => rng.range(0, ab as i64) as usize, _ => rng.range(0, full_bits as i64 + ab as i64) as usize };
        let cols = rank + 1;
        let tcols = cols * (cols + 1) / 2;
        let ps: Vec<i128> = vec![be, n as i128, rank as i128, ab as i128, rb as i128, a_k as i128, b_k as i128, res_k as i128, cnv as i128];
        let a = digits(rng, n * cols * asz, ab as u32);
        let vs = match code {
            5101 | 5102 => vec![a, digits(rng, n * cols * bsz, ab as u32), digits(rng, n * tcols * rsz, rb as u32)],
            5103 => vec![a, vec![], digits(rng, n * tcols * rsz, rb as u32)],
            5104 => vec![a, digits(rng, n * bsz, ab as u32), digits(rng, n * cols * rsz, rb as u32)],
            5105 => vec![a, digits(rng, n * bsz, ab as u32), vec![]],
            5106 => vec![a, digits(rng, bsz, ab as u32), digits(rng, n * cols * rsz, rb as u32)],
            _ => vec![a, digits(rng, bsz, ab as u32), vec![]],
        };
        out.push(Rec::new(code, ps, vs));
    }
}

fn gen_l2(tier: &str, rng: &mut Rng, out: &mut Vec<Rec>) {
    let reps = if tier == "thorough" { 900 } else { 130 };
    let codes = [5201i64, 5201, 5201, 5202, 5203, 5201, 5202, 5203];
    for it in 0..reps {
        let code = codes[it % codes.len()];
        let be = rng.range(1, 4) as i128;
        let fft = be <= 2;
        let logn = match rng.below(8) { 0 => 5, 1 | 2 => 4, _ => 3 };
        let n = 1usize << logn;
        let rank = rng.range(1, 2) as usize;
        let mode = if code == 5201 { rng.below(3) as usize } else { rng.below(2) as usize };
        let asz = rng.range(2, 4) as usize;
        let bsz = if code == 5201 && mode == 2 { asz } else { rng.range(1, 3) as usize };
        let terms = asz.min(bsz) as u32;
        let lt = 32 - terms.leading_zeros();
        let ab_max: usize = if fft { ((50 - 2 - logn as u32 - lt) / 2 + 1) as usize } else { 30 };
        let ab = rng.range(8, ab_max as i64) as usize;
        let assign = code != 5201 && mode == 1;
        let rb = if assign || rng.below(3) == 0 { ab } else { rng.range(6.max(ab as i64 - 4), (ab as i64 + 4).min(if fft { 22 } else { 34 })) as usize };
        let a_k = pick_k(rng, asz, ab);
        let b_k = if code == 5201 && mode == 2 { a_k } else { pick_k(rng, bsz, ab) };
        let full_bits = (asz + bsz) * ab;
        let res_k = if assign { a_k } else { match rng.below(3) { 0 => full_bits + rng.range(0, rb as i64) as usize, 1 => a_k.max(rb), _ => rng.range(rb as i64, full_bits as i64) as usize } };
        let rsz = dceil(res_k, rb);
        // offsets: the product of two torus elements needs cnv >= the message scale to be visible; every value is legal
        let cnv = match rng.below(6) { 0 => 0, 1 => ab, 2 => 2 * ab, 3 => rng.range(0, ab as i64) as usize, _ => rng.range(0, (bsz * ab + ab) as i64) as usize };
        // relinearisation key: radix kb (equal to / different from the tensor's), dsize 1..3, enough digits for the tensor
        let kb = if rng.below(2) == 0 { rb } else { rng.range(6, if fft { 16 } else { 24 }) as usize };
        let kb = if fft { kb.min(16) } else { kb };
        let dsize = rng.range(1, 3) as usize;
        let tk = rsz * rb;
        let dnum = match rng.below(4) { 0 => dceil(tk, kb * dsize).saturating_sub(1).max(1), _ => dceil(tk, kb * dsize) };
        let k_tsk = tk + kb * dsize;
        let relb = if rng.below(2) == 0 { kb } else { rb };
        let rel_k = match rng.below(3) { 0 => tk, 1 => tk + relb, _ => rng.range(relb as i64, tk as i64) as usize };
        let cols = rank + 1;
        let tcols = cols * (cols + 1) / 2;
        let seed = rng.next() >> 1;
        let ps: Vec<i128> = vec![be, n as i128, rank as i128, ab as i128, rb as i128, a_k as i128, b_k as i128, res_k as i128, cnv as i128, mode as i128,
            kb as i128, dsize as i128, dnum as i128, k_tsk as i128, relb as i128, rel_k as i128, seed as i128];
        let pt_a = digits(rng, n * asz, ab as u32);
        let vs = match code {
            5201 => vec![pt_a, if mode == 2 { vec![] } else { digits(rng, n * bsz, ab as u32) }, digits(rng, n * tcols * rsz, rb as u32)],
            5202 => vec![pt_a, digits(rng, n * bsz, ab as u32), if assign { vec![] } else { digits(rng, n * cols * rsz, rb as u32) }],
            _ => vec![pt_a, digits(rng, bsz, ab as u32), if assign { vec![] } else { digits(rng, n * cols * rsz, rb as u32) }],
        };
        out.push(Rec::new(code, ps, vs));
    }
}

fn gen_relin(tier: &str, rng: &mut Rng, out: &mut Vec<Rec>) {
    let reps = if tier == "thorough" { 500 } else { 70 };
    for _ in 0..reps {
        let be = rng.range(1, 4) as i128;
        let fft = be <= 2;
        let logn = match rng.below(8) { 0 => 5, 1 | 2 => 4, _ => 3 };
        let n = 1usize << logn;
        let rank = rng.range(1, 2) as usize;
        let cols = rank + 1;
        let pairs = rank * (rank + 1) / 2;
        let tcols = cols * (cols + 1) / 2;
        let dsize = rng.range(1, 3) as usize;
        let a_size = rng.range(1, 4) as usize;
        let ab = rng.range(6, 18) as usize;
        let same = rng.below(2) == 0;
        // a_dft_size limbs of radix kb ; dnum rows of dsize limbs: fewer / exactly / more than the tensor has
        let kb_try = if same { ab } else { rng.range(6, 18) as usize };
        let adft = dceil(a_size * ab, kb_try);
        let need = dceil(adft, dsize);
        let dnum = match rng.below(4) { 0 => need.saturating_sub(1).max(1), 1 => need + 1, _ => need };
        // magnitude domain of FFT64: dsize * dnum * pairs * n * 2^(2(kb-1)) < 2^50
        let terms = (dsize * dnum * pairs * n) as u32;
        let lt = 32 - terms.leading_zeros();
        let kb_max = if fft { ((50 - lt) / 2 + 1) as usize } else { 24 };
        let kb = if same { ab.min(kb_max) } else { kb_try.min(kb_max) };
        let ab = if same { kb } else { ab };
        let msize = (dnum * dsize).max(dsize + 1) + match rng.below(3) { 0 => 0, 1 => 1, _ => dsize };
        let rb = match rng.below(3) { 0 => kb, 1 => ab, _ => rng.range(6, 20) as usize };
        let res_size = rng.range(1, (msize as i64).min(5)) as usize;
        let ps: Vec<i128> = vec![be, n as i128, rank as i128, ab as i128, kb as i128, rb as i128, a_size as i128, res_size as i128,
                                 dsize as i128, dnum as i128, msize as i128];
        let vs = vec![digits(rng, n * tcols * a_size, ab as u32), digits(rng, n * dnum * pairs * cols * msize, kb as u32)];
        out.push(Rec::new(5108, ps, vs));
    }
}

pub fn generate(tier: &str, seed: u64) -> Vec<Rec> {
    let mut rng = Rng::new(seed);
    let mut out = Vec::new();
    if let Some(t) = tier.strip_prefix("l2-") { gen_l2(t, &mut rng, &mut out); return out; }
    gen_hal(tier, &mut rng, &mut out);
    gen_core(tier, &mut rng, &mut out);
    gen_relin(tier, &mut rng, &mut out);
    out
}

fn main() { poulpy_verif_harness::run_main(generate, exec) }
