//! C02: noise-free GLWE / GGSW operations of poulpy-core through the public api traits of Module<BE>.
//! Ciphertexts are NOT encryptions: every column holds random limb data (the property is keyless); a random
//! ternary secret travels with each record for the oracle.
//!
//! 20xx (xx = 1..19, one call):  ps = be n scr k | rb rrank rsize | ab arank asize | bb brank bsize | srank
//!                               vs = res ; a ; b ; secret          out = res'
//! 2020 / 2021 maybe_cross_normalize_to_ref / _to_mut (input = a, k = target radix): out = [base2k rank size] ; data
//! 2022 / 2023 ggsw_rotate / ggsw_rotate_assign: ps = be n scr k | rb rrank rsize rdnum rdsize | ab ... | srank   vs = res ; a ; secret
//! 2030 / 2031 straight-line programs: ps = be n scr base2k nregs nops srank | (rank size)*nregs | (opc d x y k)*nops
//!                               vs = regs... ; secret               out = regs'... (2030) | destination register after every step (2031)
use poulpy_core::api::*;
use poulpy_core::layouts::{Base2K, Degree, Dnum, Dsize, GGSW, GLWE, GLWEInfos, LWEInfos, Rank, TorusPrecision};
use poulpy_hal::api::{ScratchOwnedAlloc, ScratchOwnedBorrow};
use poulpy_hal::layouts::{Scratch, ScratchOwned, ZnxView, ZnxViewMut};
use poulpy_verif_harness::hal::module;
use poulpy_verif_harness::rec::*;
use poulpy_verif_harness::with_be;

fn mk_glwe(n: usize, b: usize, rank: usize, size: usize, flat: &[i128]) -> GLWE<Vec<u8>> {
    let mut g = GLWE::alloc(Degree(n as u32), Base2K(b as u32), TorusPrecision((b * size) as u32), Rank(rank as u32));
    assert_eq!(g.size(), size, "harness: size");
    let raw: &mut [i64] = g.data_mut().raw_mut();
    assert_eq!(raw.len(), flat.len(), "harness: flat length");
    for (d, s) in raw.iter_mut().zip(flat.iter()) { *d = *s as i64; }
    g
}
fn dump_glwe(g: &GLWE<Vec<u8>>) -> Vec<i128> { g.data().raw().iter().map(|x| *x as i128).collect() }

fn mk_ggsw(n: usize, b: usize, rank: usize, size: usize, dnum: usize, dsize: usize, flat: &[i128]) -> GGSW<Vec<u8>> {
    let mut g = GGSW::alloc(Degree(n as u32), Base2K(b as u32), TorusPrecision((b * size) as u32), Rank(rank as u32), Dnum(dnum as u32), Dsize(dsize as u32));
    let len = n * (rank + 1) * size;
    assert_eq!(flat.len(), len * dnum * (rank + 1), "harness: ggsw flat length");
    for r in 0..dnum { for c in 0..rank + 1 {
        let mut e = g.at_mut(r, c);
        let raw: &mut [i64] = e.data_mut().raw_mut();
        assert_eq!(raw.len(), len);
        let off = (r * (rank + 1) + c) * len;
        for (d, s) in raw.iter_mut().zip(flat[off..off + len].iter()) { *d = *s as i64; }
    } }
    g
}
fn dump_ggsw(g: &GGSW<Vec<u8>>, rank: usize, dnum: usize) -> Vec<i128> {
    let mut out = Vec::new();
    for r in 0..dnum { for c in 0..rank + 1 { out.extend(g.at(r, c).data().raw().iter().map(|x| *x as i128)); } }
    out
}

macro_rules! apply_op {
    ($m:expr, $opc:expr, $k:expr, $res:expr, $a:expr, $b:expr, $s:expr) => {
        match $opc {
            1 => $m.glwe_add_into($res, $a, $b),
            2 => $m.glwe_add_assign($res, $a),
            3 => $m.glwe_sub($res, $a, $b),
            4 => $m.glwe_sub_assign($res, $a),
            5 => $m.glwe_sub_negate_assign($res, $a),
            6 => $m.glwe_negate($res, $a),
            7 => $m.glwe_negate_assign($res),
            8 => $m.glwe_copy($res, $a),
            9 => $m.glwe_rotate($k as i64, $res, $a),
            10 => $m.glwe_rotate_assign($k as i64, $res, $s),
            11 => $m.glwe_mul_xp_minus_one($k as i64, $res, $a),
            12 => $m.glwe_mul_xp_minus_one_assign($k as i64, $res, $s),
            13 => $m.glwe_rsh($k as usize, $res, $s),
            14 => $m.glwe_lsh_assign($res, $k as usize, $s),
            15 => $m.glwe_lsh($res, $a, $k as usize, $s),
            16 => $m.glwe_lsh_add($res, $a, $k as usize, $s),
            17 => $m.glwe_lsh_sub($res, $a, $k as usize, $s),
            18 => $m.glwe_normalize($res, $a, $s),
            19 => $m.glwe_normalize_assign($res, $s),
            _ => panic!("c02: unknown opcode {}", $opc),
        }
    };
}

/// scratch window of exactly `scr` bytes (aligned start), pre-filled with a pattern
macro_rules! scratch_window {
    ($BE:ty, $big:ident, $win:ident, $scr:expr) => {
        let mut $big = ScratchOwned::<$BE>::alloc(($scr as usize).max(64) + 128);
        let $win: &mut Scratch<$BE> = {
            let sc: &mut Scratch<$BE> = $big.borrow();
            for (i, b) in sc.data.iter_mut().enumerate() { *b = [0xa5u8, 0x5a, 0x3c, 0xc3, 0x96, 0x69, 0x0f, 0x70][i % 8]; }
            sc.split_at_mut($scr as usize).0
        };
    };
}

fn op(r: &Rec) -> Vec<Vec<i128>> {
    let p = &r.ps;
    let u = |i: usize| p[i] as usize;
    let (be, n, scr, k) = (p[0], u(1), p[2], p[3]);
    let code = r.code;
    with_be!(be, BE, {
        let m = module::<BE>(n);
        scratch_window!(BE, big, win, scr);
        match code {
            2001..=2019 => {
                let opc = code - 2000;
                let mut res = mk_glwe(n, u(4), u(5), u(6), &r.vs[0]);
                let a = mk_glwe(n, u(7).max(1), u(8), u(9).max(if r.vs[1].is_empty() { 0 } else { 1 }), &r.vs[1]);
                let b = mk_glwe(n, u(10).max(1), u(11), u(12).max(if r.vs[2].is_empty() { 0 } else { 1 }), &r.vs[2]);
                apply_op!(m, opc, k, &mut res, &a, &b, win);
                vec![dump_glwe(&res)]
            }
            2020 => {
                let a = mk_glwe(n, u(7), u(8), u(9), &r.vs[1]);
                let mut slot: Option<GLWE<&mut [u8]>> = None;
                let (out, _rest) = m.glwe_maybe_cross_normalize_to_ref(&a, k as usize, &mut slot, win);
                vec![vec![out.base2k().0 as i128, out.rank().0 as i128, out.size() as i128],
                     out.data().raw().iter().map(|x| *x as i128).collect()]
            }
            2021 => {
                let mut a = mk_glwe(n, u(7), u(8), u(9), &r.vs[1]);
                let mut slot: Option<GLWE<&mut [u8]>> = None;
                let (out, _rest) = m.glwe_maybe_cross_normalize_to_mut(&mut a, k as usize, &mut slot, win);
                vec![vec![out.base2k().0 as i128, out.rank().0 as i128, out.size() as i128],
                     out.data().raw().iter().map(|x| *x as i128).collect()]
            }
            2022 => {
                let mut res = mk_ggsw(n, u(4), u(5), u(6), u(7), u(8), &r.vs[0]);
                let a = mk_ggsw(n, u(9), u(10), u(11), u(12), u(13), &r.vs[1]);
                m.ggsw_rotate(k as i64, &mut res, &a);
                vec![dump_ggsw(&res, u(5), u(7))]
            }
            2023 => {
                let mut res = mk_ggsw(n, u(4), u(5), u(6), u(7), u(8), &r.vs[0]);
                m.ggsw_rotate_assign(k as i64, &mut res, win);
                vec![dump_ggsw(&res, u(5), u(7))]
            }
            2030 | 2031 => {
                let b2k = u(3);
                let (nregs, nops) = (u(4), u(5));
                let mut regs: Vec<GLWE<Vec<u8>>> = (0..nregs).map(|i| mk_glwe(n, b2k, u(7 + 2 * i), u(8 + 2 * i), &r.vs[i])).collect();
                let base = 7 + 2 * nregs;
                let mut trace: Vec<Vec<i128>> = Vec::new();
                for t in 0..nops {
                    let (opc, d, x, y, kk) = (p[base + 5 * t] as i64, u(base + 5 * t + 1), u(base + 5 * t + 2), u(base + 5 * t + 3), p[base + 5 * t + 4]);
                    let a = regs[x].clone();
                    let b = regs[y].clone();
                    let res = &mut regs[d];
                    apply_op!(m, opc, kk, res, &a, &b, win);
                    trace.push(dump_glwe(&regs[d]));
                }
                // 2030: the final register file; 2031: the destination register after every step
                if code == 2030 { regs.iter().map(dump_glwe).collect() } else { trace }
            }
            _ => panic!("c02: unknown op {}", code),
        }
    })
}

pub fn exec(r: &Rec) -> Out {
    let r2 = r.clone();
    guard(move || op(&r2))
}

// ------------------------------------------------------------------------------------------------ generators

/// limb data: mostly normalised digits, sometimes un-normalised within `slack` bits of headroom, sometimes boundary values
fn limb_vals(rng: &mut Rng, cnt: usize, b: i64, slack: i64) -> Vec<i128> {
    let class = rng.below(6);
    let half = 1i64 << (b - 1);
    (0..cnt).map(|_| {
        (match class {
            0 | 1 | 5 => rng.range(-half, half - 1),
            2 => rng.pick(&[-half, half - 1, 0, -1, 1]),
            3 => { let hb = (b + rng.range(0, slack)).min(56); rng.range(-(1i64 << hb), 1i64 << hb) }
            _ => rng.pick(&[half, -half - 1, 2 * half, -2 * half, 3 * half + 1, 0]),
        }) as i128
    }).collect()
}
fn ternary(rng: &mut Rng, cnt: usize) -> Vec<i128> { (0..cnt).map(|_| rng.range(-1, 1) as i128).collect() }

fn pick_k_rot(rng: &mut Rng, n: usize) -> i128 {
    let n = n as i64;
    match rng.below(8) {
        0 => rng.pick(&[0, 1, -1, n - 1, -(n - 1), n, -n, n + 1, -(n + 1), 2 * n, -2 * n, 2 * n + 1, -(2 * n + 1), 3 * n, -3 * n, 4 * n + 3]) as i128,
        1 => rng.pick(&[i64::MAX, i64::MIN, i64::MIN + 1, i64::MAX - 1, 1 << 62, -(1 << 62)]) as i128,
        2 => rng.i64() as i128,
        _ => rng.range(-4 * n, 4 * n) as i128,
    }
}
fn pick_b(rng: &mut Rng) -> i64 { if rng.below(3) == 0 { rng.range(1, 6) } else { rng.range(7, 50) } }
fn pick_n(rng: &mut Rng) -> usize { rng.pick(&[8usize, 8, 8, 16, 16, 32]) }

struct Opnd { b: i64, rank: usize, size: usize, data: Vec<i128> }
fn opnd(rng: &mut Rng, n: usize, b: i64, rank: usize, size: usize, slack: i64) -> Opnd {
    Opnd { b, rank, size, data: limb_vals(rng, n * (rank + 1) * size, b, slack) }
}
fn none() -> Opnd { Opnd { b: 0, rank: 0, size: 0, data: vec![] } }

fn single(rng: &mut Rng, code: i64, be: i128) -> Rec {
    let opc = code - 2000;
    let n = pick_n(rng);
    let b = pick_b(rng);
    let r = rng.range(0, 3) as usize;
    let (rs, az, bz) = (rng.range(1, 5) as usize, rng.range(1, 5) as usize, rng.range(1, 5) as usize);
    let other = |rng: &mut Rng, r: usize| -> usize { let mut x = rng.range(0, 3) as usize; if x == r { x = (x + 1) % 4; } x };
    let invalid = rng.below(16) == 0;
    // ranks of (res, a, b)
    let (rr, ar, br) = match opc {
        1 | 3 => if invalid { (r, other(rng, r), rng.range(0, 3) as usize) } else { match rng.below(4) { 0 => (r, 0, r), 1 => (r, r, 0), 2 => (0, 0, 0), _ => (r, r, r) } },
        2 | 15 | 16 | 17 => if invalid { (r.min(2), r.min(2) + 1, 0) } else { match rng.below(3) { 0 => (r, 0, 0), 1 => (r, rng.range(0, r as i64) as usize, 0), _ => (r, r, 0) } },
        4 | 5 | 8 | 9 => if invalid { (r, other(rng, r).max(1), 0) } else if rng.below(3) == 0 { (r, 0, 0) } else { (r, r, 0) },
        6 | 11 | 18 => if invalid { (r, other(rng, r), 0) } else { (r, r, 0) },
        _ => (r, r, 0),
    };
    let slack = 4;
    let ab = match opc {
        18 => if rng.below(3) > 0 { pick_b(rng) } else { b },
        6 => if rng.below(12) == 0 { pick_b(rng) } else { b },
        1 | 2 | 3 | 4 | 5 | 15 | 16 | 17 => if rng.below(24) == 0 { b + 1 } else { b },
        _ => b,
    };
    let res = opnd(rng, n, b, rr, rs, slack);
    let has_a = !matches!(opc, 7 | 10 | 12 | 13 | 14 | 19);
    let has_b = matches!(opc, 1 | 3);
    let a = if has_a { opnd(rng, n, ab, ar, az, slack) } else { none() };
    let bbase = if rng.below(24) == 0 { b + 1 } else { b };
    let bb = if has_b { opnd(rng, n, bbase, br, bz, slack) } else { none() };
    let k: i128 = match opc {
        9..=12 => pick_k_rot(rng, n),
        13..=17 => { let m = rs.max(if has_a { az } else { 0 }) as i64; rng.range(0, (m + 2) * b) as i128 }
        _ => 0,
    };
    let tmp = (match opc { 10 | 12 => n * 8, 13..=17 => 2 * n * 8, 18 | 19 => 3 * n * 8, _ => 0 }) as i128;
    let extra = 64 * rng.range(1, 8) as i128;
    let scr = match rng.below(10) { 0 => tmp, 1 => (tmp - 8).max(0), _ => tmp + extra };
    let srank = rr.max(ar).max(br);
    let sec = ternary(rng, srank * n);
    Rec::new(code, vec![be, n as i128, scr, k,
                        res.b as i128, res.rank as i128, res.size as i128,
                        a.b as i128, a.rank as i128, a.size as i128,
                        bb.b as i128, bb.rank as i128, bb.size as i128, srank as i128],
             vec![res.data, a.data, bb.data, sec])
}

fn cross(rng: &mut Rng, code: i64, be: i128) -> Rec {
    let n = pick_n(rng);
    let ab = pick_b(rng);
    let target = if rng.below(4) == 0 { ab } else { pick_b(rng) };
    let (ar, az) = (rng.range(0, 3) as usize, rng.range(1, 5) as usize);
    let a = opnd(rng, n, ab, ar, az, 4);
    let size2 = ((az as i64 * ab) + target - 1) / target;
    let scr = (n * (ar + 1) * size2 as usize * 8 + 3 * n * 8 + 64 * rng.range(0, 4) as usize) as i128;
    let sec = ternary(rng, ar * n);
    Rec::new(code, vec![be, n as i128, scr, target as i128, 0, 0, 0, a.b as i128, a.rank as i128, a.size as i128, 0, 0, 0, ar as i128],
             vec![vec![], a.data, vec![], sec])
}

fn ggsw(rng: &mut Rng, code: i64, be: i128) -> Rec {
    let n = pick_n(rng);
    let b = pick_b(rng);
    let rank = rng.range(0, 3) as usize;
    let invalid = rng.below(12) == 0;
    let adnum = rng.range(1, 3) as usize;
    let rdnum = if invalid && rng.below(2) == 0 { adnum + 1 } else { rng.range(1, adnum as i64) as usize };
    let arank = if invalid && rdnum <= adnum { (rank + 1) % 4 } else { rank };
    let rsize = rdnum.max(2) + rng.below(3) as usize;
    let asize = adnum.max(2) + rng.below(3) as usize;
    let k = pick_k_rot(rng, n);
    let tmp = (n * 8) as i128;
    let scr = if code == 2023 { match rng.below(8) { 0 => tmp, 1 => tmp - 8, _ => tmp + 128 } } else { 64 };
    let rdat = limb_vals(rng, n * (rank + 1) * rsize * rdnum * (rank + 1), b, 4);
    let sec = ternary(rng, rank.max(arank) * n);
    if code == 2022 {
        let adat = limb_vals(rng, n * (arank + 1) * asize * adnum * (arank + 1), b, 4);
        Rec::new(code, vec![be, n as i128, scr, k, b as i128, rank as i128, rsize as i128, rdnum as i128, 1,
                            b as i128, arank as i128, asize as i128, adnum as i128, 1, rank.max(arank) as i128], vec![rdat, adat, sec])
    } else {
        Rec::new(code, vec![be, n as i128, scr, k, b as i128, rank as i128, rsize as i128, rdnum as i128, 1,
                            0, 0, 0, 0, 0, rank as i128], vec![rdat, sec])
    }
}

/// random straight-line program of length <= 12 over 4 registers (ranks r, r, 0, r; independent sizes), admissible steps only
fn program(rng: &mut Rng, code: i64, be: i128) -> Rec {
    let n = pick_n(rng);
    let b = if code == 2031 { pick_b(rng).clamp(4, 40) } else { pick_b(rng).max(4) };
    let r = rng.range(0, 3) as usize;
    let ranks = [r, r, 0usize, r];
    let nregs = 4usize;
    let sizes: Vec<usize> = (0..nregs).map(|_| rng.range(1, 4) as usize).collect();
    let nops = rng.range(1, 12) as usize;
    let mut ps: Vec<i128> = vec![be, n as i128, 4096, b as i128, nregs as i128, nops as i128, r as i128];
    for i in 0..nregs { ps.push(ranks[i] as i128); ps.push(sizes[i] as i128); }
    let full: Vec<usize> = (0..nregs).filter(|i| ranks[*i] == r).collect();
    for _ in 0..nops {
        let opc: i64 = if code == 2030 { rng.range(1, 12) } else { rng.range(1, 19) };
        let d = if matches!(opc, 6 | 11 | 18) { rng.pick(&full) } else { rng.below(nregs as u64) as usize };
        let any = |rng: &mut Rng| rng.below(nregs as u64) as usize;
        // sources compatible with the rank assertions of the call
        let (x, y) = match opc {
            1 | 3 => {
                if ranks[d] == 0 { (2, 2) } else { let x = any(rng); let y = if ranks[x] == 0 { rng.pick(&full) } else { any(rng) }; (x, y) }
            }
            2 | 4 | 5 | 8 | 9 | 15 | 16 | 17 => { let x = if ranks[d] == 0 && r > 0 { 2 } else { any(rng) }; (x, 0) }   // source of equal or lower (0) rank
            6 | 11 | 18 => (rng.pick(&full), 0),
            _ => (0, 0),
        };
        let kk: i128 = match opc { 9..=12 => pick_k_rot(rng, n), 13..=17 => rng.range(0, 2 * b) as i128, _ => 0 };
        ps.extend([opc as i128, d as i128, x as i128, y as i128, kk]);
    }
    let mut vs: Vec<Vec<i128>> = (0..nregs).map(|i| {
        let cnt = n * (ranks[i] + 1) * sizes[i];
        if code == 2030 { (0..cnt).map(|_| rng.range(-(1i64 << 38), 1i64 << 38) as i128).collect() } else { limb_vals(rng, cnt, b, 2) }
    }).collect();
    vs.push(ternary(rng, r * n));
    Rec::new(code, ps, vs)
}

pub fn generate(tier: &str, seed: u64) -> Vec<Rec> {
    let mut rng = Rng::new(seed);
    let mut out = Vec::new();
    let reps = if tier == "thorough" { 900 } else { 170 };
    for it in 0..reps {
        for code in 2001..=2019i64 {
            let be = 1 + ((it + code as usize) % 4) as i128;
            out.push(single(&mut rng, code, be));
        }
        for code in [2020i64, 2021] { out.push(cross(&mut rng, code, 1 + (it % 4) as i128)); }
        for code in [2022i64, 2023] { out.push(ggsw(&mut rng, code, 1 + ((it + 1) % 4) as i128)); }
        for _ in 0..3 { out.push(program(&mut rng, 2030, 1 + ((it + 2) % 4) as i128)); }
        out.push(program(&mut rng, 2031, 1 + ((it + 3) % 4) as i128));
    }
    out
}

fn main() { poulpy_verif_harness::run_main(generate, exec) }
