//! C09: coefficient-domain ring operations on flat buffers, through the public HAL API of Module<BE>.
//! header: be | rn rcols rsize rmax rcol | an acols asize amax acol | bn bcols bsize bmax bcol | extra...
use poulpy_hal::api::*;
use poulpy_verif_harness::hal::*;
use poulpy_verif_harness::rec::*;
use poulpy_verif_harness::with_be;

#[path = "../c09_big.rs"]
mod c09_big;

#[derive(Clone, Copy)]
struct Sh { n: usize, cols: usize, size: usize, max: usize, col: usize }
fn sh(p: &[i128], k: usize) -> Sh {
    let u = |i: usize| p[i] as usize;
    Sh { n: u(1 + 5 * k), cols: u(2 + 5 * k), size: u(3 + 5 * k), max: u(4 + 5 * k), col: u(5 + 5 * k) }
}

fn op(r: &Rec) -> Vec<Vec<i128>> {
    if (9100..9200).contains(&r.code) { return c09_big::op(r); }
    let p = &r.ps;
    let be = p[0];
    let (rs, sa, sb) = (sh(p, 0), sh(p, 1), sh(p, 2));
    let ex = |i: usize| p[16 + i];
    let code = r.code;
    let vz = |s: Sh, d: &Vec<i128>| mk_vec_znx(s.n, s.cols, s.max, s.size, &v64(d));
    with_be!(be, BE, {
        let nmod = if code == 9021 || code == 9023 { sa.n } else { rs.n };
        let m = module::<BE>(nmod.max(1));
        let fill = if code == 9019 { ex(1) as i64 } else { 0x3c3c3c3c3c3c3c3c_u64 as i64 };
        let mut sc = scratch_filled::<BE>(8 * nmod.max(8) * 4, fill);
        let s = sc.borrow();
        if code == 9023 {
            // split into parts of different limb counts (ex(i) = active size of part i, capacity rs.max)
            let a = vz(sa, &r.vs[0]);
            let mut parts: Vec<_> = r.vs[1..].iter().enumerate().map(|(i, d)| mk_vec_znx(rs.n, rs.cols, rs.max, ex(i) as usize, &v64(d))).collect();
            m.vec_znx_split_ring(&mut parts, rs.col, &a, sa.col, s);
            return parts.iter().map(|x| to128(&dump_vec_znx(x))).collect();
        }
        if code == 9021 {
            let a = vz(sa, &r.vs[0]);
            let mut parts: Vec<_> = r.vs[1..].iter().map(|d| vz(rs, d)).collect();
            m.vec_znx_split_ring(&mut parts, rs.col, &a, sa.col, s);
            return parts.iter().map(|x| to128(&dump_vec_znx(x))).collect();
        }
        let mut res = vz(rs, &r.vs[0]);
        if code == 9024 {
            let parts: Vec<_> = r.vs[1..].iter().enumerate().map(|(i, d)| mk_vec_znx(sa.n, sa.cols, sa.max, ex(i) as usize, &v64(d))).collect();
            m.vec_znx_merge_rings(&mut res, rs.col, &parts, sa.col, s);
            return vec![to128(&dump_vec_znx(&res))];
        }
        if code == 9022 {
            let parts: Vec<_> = r.vs[1..].iter().map(|d| vz(sa, d)).collect();
            m.vec_znx_merge_rings(&mut res, rs.col, &parts, sa.col, s);
            return vec![to128(&dump_vec_znx(&res))];
        }
        let scalar_a = matches!(code, 9008 | 9009 | 9010 | 9011);
        let a = if r.vs.len() > 1 && !scalar_a { Some(vz(sa, &r.vs[1])) } else { None };
        let asc = if scalar_a { Some(mk_scalar_znx(sa.n, sa.cols, &v64(&r.vs[1]))) } else { None };
        let b = if r.vs.len() > 2 { Some(vz(sb, &r.vs[2])) } else { None };
        match code {
            9001 => m.vec_znx_add_into(&mut res, rs.col, a.as_ref().unwrap(), sa.col, b.as_ref().unwrap(), sb.col),
            9002 => m.vec_znx_add_assign(&mut res, rs.col, a.as_ref().unwrap(), sa.col),
            9003 => m.vec_znx_sub(&mut res, rs.col, a.as_ref().unwrap(), sa.col, b.as_ref().unwrap(), sb.col),
            9004 => m.vec_znx_sub_assign(&mut res, rs.col, a.as_ref().unwrap(), sa.col),
            9005 => m.vec_znx_sub_negate_assign(&mut res, rs.col, a.as_ref().unwrap(), sa.col),
            9006 => m.vec_znx_negate(&mut res, rs.col, a.as_ref().unwrap(), sa.col),
            9007 => m.vec_znx_negate_assign(&mut res, rs.col),
            9008 => m.vec_znx_add_scalar_into(&mut res, rs.col, asc.as_ref().unwrap(), sa.col, b.as_ref().unwrap(), sb.col, ex(0) as usize),
            9009 => m.vec_znx_add_scalar_assign(&mut res, rs.col, ex(0) as usize, asc.as_ref().unwrap(), sa.col),
            9010 => m.vec_znx_sub_scalar(&mut res, rs.col, asc.as_ref().unwrap(), sa.col, b.as_ref().unwrap(), sb.col, ex(0) as usize),
            9011 => m.vec_znx_sub_scalar_assign(&mut res, rs.col, ex(0) as usize, asc.as_ref().unwrap(), sa.col),
            9012 => m.vec_znx_copy(&mut res, rs.col, a.as_ref().unwrap(), sa.col),
            9013 => m.vec_znx_zero(&mut res, rs.col),
            9014 => m.vec_znx_rotate(ex(0) as i64, &mut res, rs.col, a.as_ref().unwrap(), sa.col),
            9015 => m.vec_znx_rotate_assign(ex(0) as i64, &mut res, rs.col, s),
            9016 => m.vec_znx_mul_xp_minus_one(ex(0) as i64, &mut res, rs.col, a.as_ref().unwrap(), sa.col),
            9017 => m.vec_znx_mul_xp_minus_one_assign(ex(0) as i64, &mut res, rs.col, s),
            9018 => m.vec_znx_automorphism(ex(0) as i64, &mut res, rs.col, a.as_ref().unwrap(), sa.col),
            9019 => m.vec_znx_automorphism_assign(ex(0) as i64, &mut res, rs.col, s),
            9020 => m.vec_znx_switch_ring(&mut res, rs.col, a.as_ref().unwrap(), sa.col),
            _ => panic!("c09: unknown op {}", code),
        }
        vec![to128(&dump_vec_znx(&res))]
    })
}

pub fn exec(r: &Rec) -> Out {
    let r2 = r.clone();
    guard(move || op(&r2))
}

fn words(rng: &mut Rng, cnt: usize) -> Vec<i128> {
    let class = rng.below(4);
    (0..cnt).map(|_| match class { 0 => rng.range(-1000, 1000) as i128, 1 => rng.i64() as i128, _ => rng.val64(40) as i128 }).collect()
}

pub fn generate(tier: &str, seed: u64) -> Vec<Rec> {
    let mut rng = Rng::new(seed);
    let mut out = Vec::new();
    let reps = if tier == "thorough" { 20000 } else { 2500 };
    for _ in 0..reps {
        let code = 9001 + rng.below(22) as i64;
        let be = rng.range(1, 4) as i128;
        let logn = if tier == "thorough" && rng.below(20) == 0 { rng.range(5, 9) } else { rng.range(0, 4) };
        let n = 1usize << logn;
        let mk = |rng: &mut Rng, n: usize| { let cols = rng.range(1, 3) as usize; let size = rng.range(1, 5) as usize; let max = size + rng.below(2) as usize; let col = rng.below(cols as u64) as usize; (n, cols, size, max, col) };
        let mut rs = mk(&mut rng, n); let mut sa = mk(&mut rng, n); let sb = mk(&mut rng, n);
        let mut extra: Vec<i128> = vec![];
        let mut vs: Vec<Vec<i128>> = vec![];
        match code {
            9008 | 9010 => { sa.2 = 1; sa.3 = 1; extra.push(rng.below(rs.2.min(sb.2) as u64) as i128); }
            9009 | 9011 => { sa.2 = 1; sa.3 = 1; extra.push(rng.below(rs.2 as u64) as i128); }
            9014..=9017 => { let k = rng.range(-4 * n as i64, 4 * n as i64); extra.push(if rng.below(16) == 0 { rng.i64() as i128 } else { k as i128 }); }
            9018 | 9019 => { let g = rng.range(-4 * n as i64, 4 * n as i64) | 1; extra.push(g as i128); extra.push(rng.pick(&[0i64, 5, -9]) as i128); }
            9020 => { let ratio = 1usize << rng.range(0, 4); if rng.below(2) == 0 { sa.0 = n * ratio } else { rs.0 = n * ratio } }
            9021 => { let ratio = 1usize << rng.range(1, 4); sa.0 = n * ratio; rs.0 = n;
                      vs.push(words(&mut rng, sa.0 * sa.1 * sa.3));
                      for _ in 0..ratio { vs.push(words(&mut rng, rs.0 * rs.1 * rs.3)); } }
            9022 => { let ratio = 1usize << rng.range(1, 4); rs.0 = n * ratio; sa.0 = n;
                      vs.push(words(&mut rng, rs.0 * rs.1 * rs.3));
                      for _ in 0..ratio { vs.push(words(&mut rng, sa.0 * sa.1 * sa.3)); } }
            _ => {}
        }
        if vs.is_empty() {
            vs.push(words(&mut rng, rs.0 * rs.1 * rs.3));
            vs.push(words(&mut rng, sa.0 * sa.1 * sa.3));
            vs.push(words(&mut rng, sb.0 * sb.1 * sb.3));
        }
        let mut ps = vec![be];
        for s in [rs, sa, sb] { ps.extend([s.0 as i128, s.1 as i128, s.2 as i128, s.3 as i128, s.4 as i128]); }
        ps.extend(extra);
        out.push(Rec::new(code, ps, vs));
    }
    // split / merge with parts of DIFFERENT limb counts (the bound of one part must not be taken for another)
    let reps2 = if tier == "thorough" { 600 } else { 120 };
    for it in 0..reps2 {
        let code = 9023 + (it % 2) as i64;
        let be = rng.range(1, 4) as i128;
        let n = 1usize << rng.range(0, 3);
        let ratio = 1usize << rng.range(1, 3);
        let mk = |rng: &mut Rng, n: usize| { let cols = rng.range(1, 3) as usize; let max = rng.range(2, 5) as usize; let size = rng.range(1, max as i64) as usize; let col = rng.below(cols as u64) as usize; (n, cols, size, max, col) };
        let (big, small) = (mk(&mut rng, n * ratio), mk(&mut rng, n));
        let sizes: Vec<i128> = (0..ratio).map(|_| rng.range(1, small.3 as i64) as i128).collect();
        let (rs, sa) = if code == 9023 { (small, big) } else { (big, small) };
        let mut vs = vec![words(&mut rng, big.0 * big.1 * big.3)];
        for _ in 0..ratio { vs.push(words(&mut rng, small.0 * small.1 * small.3)); }
        let mut ps = vec![be];
        for s in [rs, sa, small] { ps.extend([s.0 as i128, s.1 as i128, s.2 as i128, s.3 as i128, s.4 as i128]); }
        ps.extend(sizes);
        out.push(Rec::new(code, ps, vs));
    }
    c09_big::generate(tier, &mut rng, &mut out);
    out
}

/// automorphisms and rotations at large ring degrees (2^13..2^16), Galois elements of both residues mod 4: used by C10 as
/// flag-only cross-backend records (the list-based model is quadratic in N, so these are not part of C09's own stream)
pub fn generate_large(tier: &str, rng: &mut Rng, out: &mut Vec<Rec>) {
    for logn in 13..=16u32 {
        let n = 1usize << logn;
        for (k, g) in [-1i64, 3, 5, -5, 7, (2 * n as i64) - 1, n as i64 + 1, n as i64 - 1].iter().enumerate() {
            if tier != "thorough" && (k + logn as usize) % 2 == 1 && logn != 16 { continue; }
            for code in [9018i64, 9019, 9014] {
                let s = (n, 1usize, 1usize, 1usize, 0usize);
                let mut ps = vec![0i128];
                for sh in [s, s, s] { ps.extend([sh.0 as i128, sh.1 as i128, sh.2 as i128, sh.3 as i128, sh.4 as i128]); }
                ps.extend([*g as i128, 0]);
                out.push(Rec::new(code, ps, vec![words(rng, n), words(rng, n), words(rng, n)]));
            }
        }
    }
}

fn main() { poulpy_verif_harness::run_main(generate, exec) }
