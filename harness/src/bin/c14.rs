//! C14: lookup tables (clear path), mod_switch_2n, and CGGI blind rotation (blind path) of poulpy-bin-fhe.
//!
//! OBSERVATION OF THE TABLE LIMBS.  `LookupTable { data, rot_dir, base2k, k, drift }` has only pub(crate) fields and no
//! public getter returns the limbs (nor `drift`).  What IS public: `LookupTable::{alloc,set,extension_factor,domain_size,
//! rotation_direction,set_rotation_direction}`, the infos trait (n, k, base2k, size) and -- through the public trait
//! `LookupTableFactory` -- `Module::lookup_table_rotate(k, &mut lut)`.  Until a `#[cfg(poulpy_verif)]` accessor exists the
//! limbs are read through the hook accessors (cargo feature `c14hook`) or, without the feature, through `peek`: a field-for-field mirror struct (same field types, same order => same layout under the
//! same rustc without -Zrandomize-layout), guarded at run time by size/align and by cross-checking every public getter;
//! op 14010 (blind rotation with a zero mask: exact, noise free, no decryption) reads the same limbs through the public
//! API only and so validates the mirror on every run.
//!
//! records
//!   14001 set              ps=[be N ext base2k k_lut kmsg]        vs=[f]        -> [data_0 .. data_{ext-1} (limb-major flat), [drift]]
//!   14002 set;rotate(k)    ps=[be N ext base2k k_lut kmsg]        vs=[f, ks]    -> for each k: data_0 .. data_{ext-1} of a fresh table rotated by k
//!   14003 set;rotate sweep ps=[be N ext base2k k_lut kmsg]        vs=[f, ks]    -> for each k: the limbs of coefficient 0 of data_0
//!   14004 mod_switch_2n    ps=[n2 base2k size dir]                vs=[limb_0..] -> [res]
//!   14005 history          ps=[be N ext base2k k_lut]             vs=[events, [kmsg f..]..] -> [data_0 .. data_{ext-1}, [drift], [rot_dir]]
//!                          events = [kind arg ...]: kind 0 set_rotation_direction(arg 0 Left / 1 Right), kind 1 set(vs[arg])
//!   14021 blind, history   ps=BP (dir field unused)               vs=[f (unused), lwe, sk_lwe, events, [kmsg f..]..] -> as 14020
//!   14010 blind, raw       ps=BP                                  vs=[f, lwe (limb-major flat), sk_lwe] -> [res col 0.. (limb-major flat)]
//!   14020 blind, decrypted ps=BP                                  vs=[f, lwe, sk_lwe] -> [lwe_2n, round_F(decrypt(res))]
//!   BP = [be N ext block n_lwe base2k k_lwe k_brk rows k_lut k_res rank kmsg dir dist key_seed x p]
//!        dist: 0 BinaryBlock(block) 1 BinaryFixed(n_lwe/2) 2 BinaryProb(0.5) 3 ZERO ; dir: 0 Left 1 Right
//!   round_F: the decrypted plaintext (all k_res limbs) as an integer, rounded half-up to F = lut.size()*base2k bits
//!            (the precision of the table = "all limbs above the noise floor": the comparison is exact iff the noise is
//!            below 2^-(F+1)), reduced to the balanced residue mod 2^F.
use poulpy_bin_fhe::blind_rotation::{
    BlindRotationKey, BlindRotationKeyEncryptSk, BlindRotationKeyLayout, BlindRotationKeyPrepared, CGGI, LookUpTableLayout,
    LookUpTableRotationDirection, LookupTable, LookupTableFactory, LookupTableInfos, mod_switch_2n,
};
use poulpy_core::EncryptionLayout;
use poulpy_core::api::*;
use poulpy_core::layouts::{
    Base2K, Degree, Dnum, GLWE, GLWELayout, GLWEPlaintext, GLWESecret, GLWESecretPreparedFactory, LWE, LWELayout,
    LWEPlaintext, LWESecret, LWEToRef, Rank, TorusPrecision, prepared::GLWESecretPrepared,
};
use poulpy_hal::api::{ScratchOwnedAlloc, ScratchOwnedBorrow};
use poulpy_hal::layouts::{Backend, DeviceBuf, Module, ScratchOwned, VecZnx, ZnxInfos, ZnxView, ZnxViewMut};
use poulpy_hal::source::Source;
use poulpy_verif_harness::hal::*;
use poulpy_verif_harness::rec::*;
use poulpy_verif_harness::with_be;
use std::any::Any;
use std::cell::RefCell;
use std::collections::HashMap;
use std::rc::Rc;

// ------------------------------------------------------------------------------------------------------------
// reading the table
// ------------------------------------------------------------------------------------------------------------
#[allow(dead_code)]
struct LutMirror {
    data: Vec<VecZnx<Vec<u8>>>,
    rot_dir: LookUpTableRotationDirection,
    base2k: Base2K,
    k: TorusPrecision,
    drift: usize,
}

#[allow(dead_code)]
fn peek(lut: &LookupTable) -> &LutMirror {
    assert_eq!(std::mem::size_of::<LutMirror>(), std::mem::size_of::<LookupTable>());
    assert_eq!(std::mem::align_of::<LutMirror>(), std::mem::align_of::<LookupTable>());
    let m: &LutMirror = unsafe { &*(lut as *const LookupTable as *const LutMirror) };
    assert_eq!(m.data.len(), lut.extension_factor());
    assert_eq!(m.base2k, LookupTableInfos::base2k(lut));
    assert_eq!(m.k, LookupTableInfos::k(lut));
    assert_eq!(m.data[0].n() * m.data.len(), lut.domain_size());
    assert_eq!(m.data[0].size(), LookupTableInfos::size(lut));
    m
}

fn flat(v: &VecZnx<Vec<u8>>, col: usize) -> Vec<i128> {
    let mut w = Vec::with_capacity(v.size() * v.n());
    for j in 0..v.size() {
        w.extend(v.at(col, j).iter().map(|x| *x as i128));
    }
    w
}

/// the ext polynomials and drift of a table: through the guarded accessors when the harness is built with the
/// cargo feature `c14hook` (needs /repo's `#[cfg(poulpy_verif)] LookupTable::{verif_limbs, verif_drift}`), through the
/// layout mirror otherwise
#[cfg(feature = "c14hook")]
fn lut_parts(lut: &LookupTable) -> (&[VecZnx<Vec<u8>>], usize) {
    (lut.verif_limbs(), lut.verif_drift())
}
#[cfg(not(feature = "c14hook"))]
fn lut_parts(lut: &LookupTable) -> (&[VecZnx<Vec<u8>>], usize) {
    let m = peek(lut);
    (&m.data[..], m.drift)
}

fn dump_lut(lut: &LookupTable) -> Vec<Vec<i128>> {
    let (data, drift) = lut_parts(lut);
    let mut out: Vec<Vec<i128>> = data.iter().map(|v| flat(v, 0)).collect();
    out.push(vec![drift as i128]);
    out
}

fn mk_lut<M: LookupTableFactory>(m: &M, n: usize, ext: usize, base2k: u32, k_lut: u32, kmsg: usize, f: &[i64]) -> LookupTable {
    let infos = LookUpTableLayout { n: Degree(n as u32), extension_factor: ext, k: TorusPrecision(k_lut), base2k: Base2K(base2k) };
    let mut lut = LookupTable::alloc(&infos);
    lut.set(m, f, kmsg);
    lut
}

/// a table after a configuration history: events = [kind, arg, ...]; kind 0: set_rotation_direction(arg: 0 Left, 1 Right);
/// kind 1: set(f, kmsg) with [kmsg, f...] = vs[arg]
fn lut_history<M: LookupTableFactory>(m: &M, n: usize, ext: usize, base2k: u32, k_lut: u32, events: &[i128], vs: &[Vec<i128>]) -> LookupTable {
    let infos = LookUpTableLayout { n: Degree(n as u32), extension_factor: ext, k: TorusPrecision(k_lut), base2k: Base2K(base2k) };
    let mut lut = LookupTable::alloc(&infos);
    for ev in events.chunks_exact(2) {
        if ev[0] == 0 {
            lut.set_rotation_direction(if ev[1] == 0 { LookUpTableRotationDirection::Left } else { LookUpTableRotationDirection::Right });
        } else {
            let tb = &vs[ev[1] as usize];
            lut.set(m, &v64(&tb[1..]), tb[0] as usize);
        }
    }
    lut
}
fn dir_code(lut: &LookupTable) -> i128 {
    match lut.rotation_direction() { LookUpTableRotationDirection::Left => 0, LookUpTableRotationDirection::Right => 1 }
}

// ------------------------------------------------------------------------------------------------------------
// blind path: keys
// ------------------------------------------------------------------------------------------------------------
#[derive(Clone, Copy, Debug)]
struct Bp {
    be: i128, n: usize, ext: usize, block: usize, n_lwe: usize, base2k: u32, k_lwe: u32, k_brk: u32, rows: u32,
    k_lut: u32, k_res: u32, rank: u32, kmsg: usize, dir: i128, dist: i128, key_seed: u64, x: i64, p: usize, b_lwe: u32,
}
fn bp(p: &[i128]) -> Bp {
    Bp { be: p[0], n: p[1] as usize, ext: p[2] as usize, block: p[3] as usize, n_lwe: p[4] as usize, base2k: p[5] as u32,
         k_lwe: p[6] as u32, k_brk: p[7] as u32, rows: p[8] as u32, k_lut: p[9] as u32, k_res: p[10] as u32, rank: p[11] as u32,
         kmsg: p[12] as usize, dir: p[13], dist: p[14], key_seed: p[15] as u64, x: p[16] as i64, p: p[17] as usize, b_lwe: p[18] as u32 }
}
impl Bp {
    fn ps(&self) -> Vec<i128> {
        vec![self.be, self.n as i128, self.ext as i128, self.block as i128, self.n_lwe as i128, self.base2k as i128, self.k_lwe as i128,
             self.k_brk as i128, self.rows as i128, self.k_lut as i128, self.k_res as i128, self.rank as i128, self.kmsg as i128,
             self.dir, self.dist, self.key_seed as i128, self.x as i128, self.p as i128, self.b_lwe as i128]
    }
    fn key_id(&self) -> Vec<i128> {
        vec![self.be, self.n as i128, self.block as i128, self.n_lwe as i128, self.base2k as i128, self.k_brk as i128, self.rows as i128,
             self.k_res as i128, self.rank as i128, self.dist, self.key_seed as i128, self.ext.min(2) as i128]
    }
    fn glwe_layout(&self) -> GLWELayout {
        GLWELayout { n: Degree(self.n as u32), base2k: Base2K(self.base2k), k: TorusPrecision(self.k_res), rank: Rank(self.rank) }
    }
    fn lwe_layout(&self) -> LWELayout {
        LWELayout { n: Degree(self.n_lwe as u32), k: TorusPrecision(self.k_lwe), base2k: Base2K(self.b_lwe) }
    }
    fn brk_layout(&self) -> BlindRotationKeyLayout {
        BlindRotationKeyLayout { n_glwe: Degree(self.n as u32), n_lwe: Degree(self.n_lwe as u32), base2k: Base2K(self.base2k),
                                 k: TorusPrecision(self.k_brk), dnum: Dnum(self.rows), rank: Rank(self.rank) }
    }
}

fn seed32(s: u64, tag: u8) -> [u8; 32] {
    let mut b = [tag; 32];
    b[..8].copy_from_slice(&s.to_le_bytes());
    b
}

struct KeySet<BE: Backend> {
    module: Module<BE>,
    sk_glwe: GLWESecretPrepared<DeviceBuf<BE>, BE>,
    sk_lwe: LWESecret<Vec<u8>>,
    brk: BlindRotationKeyPrepared<DeviceBuf<BE>, CGGI, BE>,
    scratch: RefCell<ScratchOwned<BE>>,
}

thread_local! {
    static KEYS: RefCell<HashMap<Vec<i128>, Rc<dyn Any>>> = RefCell::new(HashMap::new());
}

macro_rules! keyset {
    ($BE:ident, $c:expr) => {{
        let c: &Bp = $c;
        let id = c.key_id();
        let hit: Option<Rc<dyn Any>> = KEYS.with(|k| k.borrow().get(&id).cloned());
        let rc: Rc<dyn Any> = match hit {
            Some(r) => r,
            None => {
                let module: Module<$BE> = module::<$BE>(c.n);
                let brk_infos = EncryptionLayout::new_from_default_sigma(c.brk_layout()).unwrap();
                let glwe_infos = c.glwe_layout();
                let mut source_xs = Source::new(seed32(c.key_seed, 1));
                let mut source_xe = Source::new(seed32(c.key_seed, 2));
                let mut source_xa = Source::new(seed32(c.key_seed, 3));
                let mut sk_glwe: GLWESecret<Vec<u8>> = GLWESecret::alloc_from_infos(&glwe_infos);
                sk_glwe.fill_ternary_prob(0.5, &mut source_xs);
                let mut sk_glwe_dft = module.glwe_secret_prepared_alloc_from_infos(&glwe_infos);
                module.glwe_secret_prepare(&mut sk_glwe_dft, &sk_glwe);
                let mut sk_lwe: LWESecret<Vec<u8>> = LWESecret::alloc(Degree(c.n_lwe as u32));
                match c.dist {
                    0 => sk_lwe.fill_binary_block(c.block, &mut source_xs),
                    1 => sk_lwe.fill_binary_hw(c.n_lwe / 2, &mut source_xs),
                    2 => sk_lwe.fill_binary_prob(0.5, &mut source_xs),
                    3 => sk_lwe.fill_zero(),
                    _ => panic!("bad dist"),
                }
                let bytes = BlindRotationKey::<Vec<u8>, CGGI>::encrypt_sk_tmp_bytes(&module, &brk_infos)
                    .max(BlindRotationKeyPrepared::<DeviceBuf<$BE>, CGGI, $BE>::execute_tmp_bytes(&module, c.block, 8, &glwe_infos, &brk_infos))
                    .max(1 << 20);
                let mut scratch: ScratchOwned<$BE> = ScratchOwned::<$BE>::alloc(bytes);
                let mut brk: BlindRotationKey<Vec<u8>, CGGI> = BlindRotationKey::<Vec<u8>, CGGI>::alloc(&brk_infos);
                module.blind_rotation_key_encrypt_sk(&mut brk, &sk_glwe_dft, &sk_lwe, &brk_infos, &mut source_xe, &mut source_xa, scratch.borrow());
                let mut brk_prepared: BlindRotationKeyPrepared<DeviceBuf<$BE>, CGGI, $BE> = BlindRotationKeyPrepared::alloc(&module, &brk);
                brk_prepared.prepare(&module, &brk, scratch.borrow());
                let ks: KeySet<$BE> = KeySet { module, sk_glwe: sk_glwe_dft, sk_lwe, brk: brk_prepared, scratch: RefCell::new(scratch) };
                let rc: Rc<dyn Any> = Rc::new(ks);
                KEYS.with(|k| {
                    let mut k = k.borrow_mut();
                    if k.len() >= 6 { k.clear(); }
                    k.insert(id, rc.clone());
                });
                rc
            }
        };
        rc.downcast::<KeySet<$BE>>().ok().expect("key cache type")
    }};
}

fn sk_lwe_of(c: &Bp) -> Vec<i64> {
    with_be!(c.be, BE, { let ks = keyset!(BE, c); ks.sk_lwe.raw().to_vec() })
}

/// fresh encryption of x on p+1 bits (one padding bit), as the crate's own test does
fn fresh_lwe(c: &Bp, enc_seed: u64) -> Vec<i128> {
    with_be!(c.be, BE, {
        let ks = keyset!(BE, c);
        let lwe_infos = EncryptionLayout::new_from_default_sigma(c.lwe_layout()).unwrap();
        let mut lwe: LWE<Vec<u8>> = LWE::alloc_from_infos(&lwe_infos);
        let mut pt: LWEPlaintext<Vec<u8>> = LWEPlaintext::alloc_from_infos(&lwe_infos);
        pt.encode_i64(c.x, TorusPrecision(c.p as u32 + 1));
        let mut xe = Source::new(seed32(enc_seed, 5));
        let mut xa = Source::new(seed32(enc_seed, 6));
        ks.module.lwe_encrypt_sk(&mut lwe, &pt, &ks.sk_lwe, &lwe_infos, &mut xe, &mut xa, ks.scratch.borrow_mut().borrow());
        flat(lwe.data(), 0)
    })
}

fn blind(c: &Bp, r: &Rec) -> Vec<Vec<i128>> {
    with_be!(c.be, BE, {
        let ks = keyset!(BE, c);
        let m = &ks.module;
        assert_eq!(v64(&r.vs[2]), ks.sk_lwe.raw().to_vec(), "record's sk_lwe is not the one derived from key_seed");
        let lut = if r.code == 14021 {
            lut_history(m, c.n, c.ext, c.base2k, c.k_lut, &r.vs[3], &r.vs)
        } else {
            let mut lut = mk_lut(m, c.n, c.ext, c.base2k, c.k_lut, c.kmsg, &v64(&r.vs[0]));
            if c.dir == 1 { lut.set_rotation_direction(LookUpTableRotationDirection::Right); }
            lut
        };
        let lwe_infos = c.lwe_layout();
        let mut lwe: LWE<Vec<u8>> = LWE::alloc_from_infos(&lwe_infos);
        let sz = lwe.data().size();
        let w = c.n_lwe + 1;
        assert_eq!(r.vs[1].len(), sz * w);
        for j in 0..sz {
            lwe.data_mut().at_mut(0, j).copy_from_slice(&v64(&r.vs[1][j * w..(j + 1) * w]));
        }
        let glwe_infos = c.glwe_layout();
        let mut res: GLWE<Vec<u8>> = GLWE::alloc_from_infos(&glwe_infos);
        let mut sc = ks.scratch.borrow_mut();
        ks.brk.execute(m, &mut res, &lwe, &lut, sc.borrow());
        if r.code == 14010 {
            return (0..=c.rank as usize).map(|i| flat(res.data(), i)).collect();
        }
        let mut pt: GLWEPlaintext<Vec<u8>> = GLWEPlaintext::alloc_from_infos(&glwe_infos);
        m.glwe_decrypt(&res, &mut pt, &ks.sk_glwe, sc.borrow());
        let mut lwe_2n = vec![0i64; w];
        mod_switch_2n(2 * lut.domain_size(), &mut lwe_2n, &lwe.to_ref(), lut.rotation_direction());
        // round to F = lut.size()*base2k bits
        let b = c.base2k as u32;
        let rs = pt.data().size() as u32;
        let ls = LookupTableInfos::size(&lut) as u32;
        assert!(rs >= ls && rs * b <= 120);
        let sh = (rs - ls) * b;
        let fbits = ls * b;
        let rounded: Vec<i128> = (0..c.n).map(|i| {
            let mut v: i128 = 0;
            for j in 0..rs as usize { v = (v << b) + pt.data().at(0, j)[i] as i128; }
            let q = if sh == 0 { v } else { (v + (1i128 << (sh - 1))) >> sh };
            let md = 1i128 << fbits;
            let t = ((q % md) + md) % md;
            if t >= md / 2 { t - md } else { t }
        }).collect();
        vec![to128(&lwe_2n), rounded]
    })
}

fn op(r: &Rec) -> Vec<Vec<i128>> {
    let p = &r.ps;
    match r.code {
        14001 | 14002 | 14003 => {
            let (be, n, ext, base2k, k_lut, kmsg) = (p[0], p[1] as usize, p[2] as usize, p[3] as u32, p[4] as u32, p[5] as usize);
            with_be!(be, BE, {
                let m = module::<BE>(n);
                let f = v64(&r.vs[0]);
                if r.code == 14002 {
                    return r.vs[1].iter().flat_map(|k| {
                        let mut lut = mk_lut(&m, n, ext, base2k, k_lut, kmsg, &f);
                        m.lookup_table_rotate(*k as i64, &mut lut);
                        let mut d = dump_lut(&lut); d.pop(); d
                    }).collect();
                }
                if r.code == 14003 {
                    return r.vs[1].iter().map(|k| {
                        let mut lut = mk_lut(&m, n, ext, base2k, k_lut, kmsg, &f);
                        m.lookup_table_rotate(*k as i64, &mut lut);
                        let d = &lut_parts(&lut).0[0];
                        (0..d.size()).map(|j| d.at(0, j)[0] as i128).collect()
                    }).collect();
                }
                let lut = mk_lut(&m, n, ext, base2k, k_lut, kmsg, &f);
                dump_lut(&lut)
            })
        }
        14004 => {
            let (n2, base2k, size, dir) = (p[0] as usize, p[1] as u32, p[2] as usize, p[3]);
            let len = r.vs[0].len();
            let mut lwe: LWE<Vec<u8>> = LWE::alloc(Degree(len as u32 - 1), Base2K(base2k), TorusPrecision(base2k * size as u32));
            assert_eq!(lwe.data().size(), size);
            for j in 0..size {
                lwe.data_mut().at_mut(0, j).copy_from_slice(&v64(&r.vs[j]));
            }
            let mut res = vec![0i64; len];
            let d = if dir == 0 { LookUpTableRotationDirection::Left } else { LookUpTableRotationDirection::Right };
            mod_switch_2n(n2, &mut res, &lwe.to_ref(), d);
            vec![to128(&res)]
        }
        14005 => {
            let (be, n, ext, base2k, k_lut) = (p[0], p[1] as usize, p[2] as usize, p[3] as u32, p[4] as u32);
            with_be!(be, BE, {
                let m = module::<BE>(n);
                let lut = lut_history(&m, n, ext, base2k, k_lut, &r.vs[0], &r.vs);
                let mut out = dump_lut(&lut);
                out.push(vec![dir_code(&lut)]);
                out
            })
        }
        14010 | 14020 | 14021 => blind(&bp(p), r),
        _ => panic!("c14: unknown op"),
    }
}

pub fn exec(r: &Rec) -> Out {
    let r2 = r.clone();
    guard(move || op(&r2))
}

fn test_params(be: i128) -> Bp {
    // the parameters of poulpy-bin-fhe/src/blind_rotation/tests/test_suite/generic_blind_rotation.rs
    Bp { be, n: 512, ext: 1, block: 1, n_lwe: 224, base2k: 19, k_lwe: 24, k_brk: 57, rows: 2, k_lut: 19, k_res: 38, rank: 1,
         kmsg: 5, dir: 0, dist: 0, key_seed: 1, x: 0, p: 4, b_lwe: 19 }
}
fn alt_params(be: i128) -> Bp {
    // a second LWE dimension / radix combination (LWE radix different from the GLWE radix, as circuit bootstrapping uses)
    Bp { be, n: 256, ext: 1, block: 1, n_lwe: 96, base2k: 17, k_lwe: 28, k_brk: 51, rows: 2, k_lut: 17, k_res: 34, rank: 1,
         kmsg: 5, dir: 0, dist: 0, key_seed: 1, x: 0, p: 4, b_lwe: 14 }
}
fn tiny_params(be: i128, n: usize) -> Bp {
    Bp { be, n, ext: 1, block: 1, n_lwe: 2, base2k: 19, k_lwe: 19, k_brk: 57, rows: 2, k_lut: 19, k_res: 38, rank: 1,
         kmsg: 5, dir: 0, dist: 0, key_seed: 3, x: 0, p: 4, b_lwe: 19 }
}

/// LWE ciphertext (one significant limb, the others zero) whose mod-switched image is exactly `l2n` (direction applied);
/// requires lwe radix > log2(2N ext) + 1 (first branch of mod_switch_2n)
fn crafted_lwe(c: &Bp, l2n: &[i64]) -> Vec<i128> {
    let n2 = (2 * c.n * c.ext) as i64;
    let diff = c.b_lwe as i64 - n2.trailing_zeros() as i64;
    assert!(diff >= 1);
    let size = (c.k_lwe as usize).div_ceil(c.b_lwe as usize);
    let w = c.n_lwe + 1;
    let mut lwe = vec![0i128; size * w];
    for (i, v) in l2n.iter().enumerate() {
        let mut v = ((*v % n2) + n2) % n2;
        if c.dir == 0 { if v > n2 / 2 { v -= n2 } } else if v >= n2 / 2 { v -= n2 }
        lwe[i] = (if c.dir == 0 { -v } else { v } << diff) as i128;
    }
    lwe
}

fn rand_f(rng: &mut Rng, len: usize, kmsg: usize, b: usize) -> Vec<i128> {
    let rem = kmsg % b;
    let bits = (kmsg + 1).min(62 - rem) as u32;
    let dict: Vec<i64> = vec![0, 1, -1, (1i64 << (kmsg.min(61 - rem) - 1)) - 1, -(1i64 << (kmsg.min(61 - rem) - 1)), 1i64 << (kmsg.min(61 - rem) - 1),
                              if rem > 0 { -(1i64 << (rem - 1)) } else { -(1i64 << (b.min(60) - 1)) },
                              if rem > 0 { 1i64 << (rem - 1) } else { 1i64 << (b.min(60) - 1) }];
    (0..len).map(|_| match rng.below(4) {
        0 => rng.pick(&dict) as i128,
        _ => { let m = (1i64 << bits) - 1; ((rng.i64() & m) - (1i64 << (bits - 1))) as i128 }
    }).collect()
}

pub fn generate(tier: &str, seed: u64) -> Vec<Rec> {
    let thorough = tier == "thorough";
    let mut rng = Rng::new(seed);
    let mut out: Vec<Rec> = vec![];
    let mut be_rr = 0i128;
    let mut next_be = || { be_rr = be_rr % 4 + 1; be_rr };

    // ---------------- clear path ----------------
    // (base2k, k_lut, kmsg): small and large radices, message in the first / a lower limb, scale 1 and > 1, one-limb tables
    let radices: [(usize, usize, usize); 7] = [(4, 8, 3), (3, 9, 5), (5, 5, 5), (17, 34, 20), (19, 19, 5), (20, 40, 21), (31, 62, 31)];
    for n in [8usize, 16, 32] {
        for ext in [1usize, 2, 4, 8] {
            let domain = n * ext;
            let t = (2 * domain) as i64;
            for (ri, (b, klut, kmsg)) in radices.iter().enumerate() {
                let mut lens: Vec<usize> = (0..=n.trailing_zeros()).map(|i| 1usize << i).collect(); // every divisor of the domain that set() accepts (len <= N)
                if ri % 3 == 0 { lens.extend([3usize, 5, 6, 7, n + 1, 2 * n, 0]); }           // non-dividing / rejected lengths: correspondence only
                for len in lens {
                    let be = next_be();
                    let f = rand_f(&mut rng, len, *kmsg, *b);
                    let ps = vec![be, n as i128, ext as i128, *b as i128, *klut as i128, *kmsg as i128];
                    out.push(Rec::new(14001, ps.clone(), vec![f.clone()]));
                    let stp = if len == 0 { 0 } else { (domain + len / 2) / len };
                    if len == 0 || len > n || len * stp > domain { continue; }
                    // sweep: every k in [-2N ext, 2N ext) (both directions), a few beyond, and the i64 extremes
                    let full_sweep = thorough || (n == 8 && ri != 2 && ri != 5 && ri != 6) || (ri == 4 && (n == 16 || ext <= 2));
                    let mut ks: Vec<i128> = if full_sweep { (-t..t).map(|k| k as i128).collect() }
                                            else { (0..24).map(|_| rng.range(-t, t - 1) as i128).collect() };
                    ks.extend([-t - 1, -t - 3, t, t + 5, 3 * t + 1, -5 * t - 2, i64::MIN, i64::MAX, i64::MIN + 1, 1 << 62, -(1 << 62) - 7].map(|k| k as i128));
                    out.push(Rec::new(14003, ps.clone(), vec![f.clone(), ks]));
                    // full dumps after a rotation: all j at N = 8 (and everywhere in the thorough tier), a sample otherwise
                    let js: Vec<i64> = if (n == 8 && (ri == 0 || (ri == 3 && ext <= 2))) || (thorough && n * ext <= 64) { (0..t).collect() }
                                       else { let mut v: Vec<i64> = (0..6).map(|_| rng.range(-t, t - 1)).collect(); v.extend([1, -1, t - 1, i64::MIN]); v };
                    out.push(Rec::new(14002, ps.clone(), vec![f.clone(), js.iter().map(|j| *j as i128).collect()]));
                }
            }
        }
    }

    // ---------------- configuration histories: every order of set_rotation_direction(L|R) / set(f1) / set(f2) ----------------
    {
        // alphabet: 0 = dir Left, 1 = dir Right, 2 = set(table 1), 3 = set(table 2); all words of length <= 3, sampled words of length 4..5
        let mut words: Vec<Vec<u8>> = vec![vec![]];
        for len in 1..=3usize { for w in 0..4usize.pow(len as u32) { words.push((0..len).map(|i| ((w >> (2 * i)) & 3) as u8).collect()); } }
        for _ in 0..(if thorough { 200 } else { 40 }) { let len = 4 + rng.below(2) as usize; words.push((0..len).map(|_| rng.below(4) as u8).collect()); }
        for (n, ext, b, klut, k1, k2) in [(8usize, 1usize, 4usize, 8usize, 3usize, 6usize), (8, 2, 19, 19, 5, 3), (16, 4, 5, 10, 7, 4)] {
            for w in &words {
                let f1 = rand_f(&mut rng, 4, k1, b);
                let f2 = rand_f(&mut rng, 8, k2, b);
                let mut t1 = vec![k1 as i128]; t1.extend(f1);
                let mut t2 = vec![k2 as i128]; t2.extend(f2);
                let events: Vec<i128> = w.iter().flat_map(|c| match c { 0 => [0i128, 0], 1 => [0, 1], 2 => [1, 1], _ => [1, 2] }).collect();
                out.push(Rec::new(14005, vec![next_be(), n as i128, ext as i128, b as i128, klut as i128], vec![events, t1, t2]));
            }
        }
        // blind path: execute and decrypt after the history, a few messages
        for (block, ext) in [(1usize, 1usize), (2, 1), (2, 2)] {
            for w in &words {
                if !w.iter().any(|c| *c >= 2) { continue; }
                if !thorough && w.len() > 3 && rng.below(2) == 0 { continue; }
                let mut c = tiny_params(1, 8);
                c.block = block; c.ext = ext; c.dist = 0; c.n_lwe = 3 * block; c.p = 2; c.kmsg = 3;
                let mut sk = sk_lwe_of(&c);
                while sk.iter().sum::<i64>() == 0 { c.key_seed += 1; sk = sk_lwe_of(&c); }
                // the direction requested last decides how the ciphertext is built (sign of the phase), nothing else
                c.dir = w.iter().rev().find(|c| **c < 2).map(|c| *c as i128).unwrap_or(0);
                let t = (2 * c.n * c.ext) as i64;
                let mut t1 = vec![3i128]; t1.extend([1i128, 3, 0, 2]);
                let mut t2 = vec![3i128]; t2.extend([2i128, 0, 3, 1]);
                let events: Vec<i128> = w.iter().flat_map(|c| match c { 0 => [0i128, 0], 1 => [0, 4], 2 => [1, 4], _ => [1, 5] }).collect();
                let events: Vec<i128> = events.chunks(2).flat_map(|e| if e[0] == 0 { [0, if e[1] == 0 { 0 } else { 1 }] } else { [1, e[1]] }).collect();
                for x in [1i64, 2, 5] {
                    let mut l2n: Vec<i64> = (0..=c.n_lwe).map(|_| rng.range(-t / 2 + 1, t / 2 - 1)).collect();
                    let sum: i64 = (0..c.n_lwe).map(|i| l2n[i + 1] * sk[i]).sum();
                    let target = if c.dir == 0 { -(x * t / 8) } else { x * t / 8 };
                    l2n[0] = target - sum;
                    c.x = x;
                    out.push(Rec::new(14021, c.ps(), vec![vec![], crafted_lwe(&c, &l2n), to128(&sk), events.clone(), t1.clone(), t2.clone()]));
                }
            }
        }
    }

    // ---------------- mod_switch_2n ----------------
    for n2 in [2i128, 4, 8, 16, 32, 64] {
        for b in 1..=7usize {
            for dir in [0i128, 1] {
                let log2n = (128 - (n2 - 1).leading_zeros()) as usize + 1;
                let need = if b > log2n { 1 } else { log2n.div_ceil(b) };
                let mut sizes = vec![need.saturating_sub(1).max(1), need, need + 1]; sizes.dedup();
                for size in sizes {
                    let lo = -(1i64 << (b - 1)); let hi = 1i64 << (b - 1);
                    let mut limbs: Vec<Vec<i128>> = vec![vec![]; size];
                    for x0 in lo..hi {
                        let others: Vec<i64> = if b <= 4 { (lo..hi).collect() } else { (0..8).map(|_| rng.range(lo, hi - 1)).collect() };
                        for x1 in others {
                            limbs[0].push(x0 as i128);
                            for (j, l) in limbs.iter_mut().enumerate().skip(1) { l.push(if j == 1 { x1 as i128 } else { rng.range(lo, hi - 1) as i128 }); }
                        }
                    }
                    if limbs[0].len() < 2 { for l in limbs.iter_mut() { let x = l[0]; l.push(x); } }
                    out.push(Rec::new(14004, vec![n2, b as i128, size as i128, dir], limbs));
                }
            }
        }
    }
    for (n2, b) in [(1024i128, 19usize), (1024, 12), (1024, 11), (1024, 10), (2048, 13), (4096, 13), (8192, 19), (1 << 20, 22), (1 << 20, 20), (16, 62), (1024, 63)] {
        for dir in [0i128, 1] {
            let log2n = (128 - (n2 - 1).leading_zeros()) as usize + 1;
            let size = if b > log2n { 2 } else { log2n.div_ceil(b).max(2) };
            let h = 1i64 << (b - 1);
            let d = if b > log2n { b - (log2n - 1) } else { 1 };
            let mut dict: Vec<i64> = vec![0, 1, -1, h - 1, -h, -h + 1, 1 << (d - 1), (1 << (d - 1)) - 1, -(1 << (d - 1)), -(1 << (d - 1)) - 1, -(1 << (d - 1)) + 1,
                                          3 << (d - 1), -(3 << (d - 1)), h - (1 << (d - 1)), h - (1 << (d - 1)) - 1, -h + (1 << (d - 1))];
            for _ in 0..32 { dict.push(rng.range(-h, h - 1)); }
            let mut limbs: Vec<Vec<i128>> = vec![vec![]; size];
            for x0 in &dict { limbs[0].push(*x0 as i128); for l in limbs.iter_mut().skip(1) { l.push(rng.range(-h, h - 1) as i128); } }
            out.push(Rec::new(14004, vec![n2, b as i128, size as i128, dir], limbs.clone()));
            // limbs out of normal form (the rule does not speak about them; correspondence only)
            let mut l2 = limbs.clone();
            for (i, x) in [i64::MIN, i64::MAX, h, -h - 1, i64::MAX - 1].iter().enumerate() { l2[0][i] = *x as i128; }
            out.push(Rec::new(14004, vec![n2, b as i128, size as i128, dir], l2));
        }
    }

    // every combination of ALL limbs (not only the first two) for radix 1..3, 2..4 limbs, while the product stays <= 4096
    for n2 in [4i128, 16, 64, 256] {
        for b in 1..=3usize {
            for size in 2..=4usize {
                let per = 1usize << b;
                let total = per.pow(size as u32);
                if total > 4096 { continue; }
                for dir in [0i128, 1] {
                    let lo = -(1i64 << (b - 1));
                    let mut limbs: Vec<Vec<i128>> = vec![Vec::with_capacity(total.max(2)); size];
                    for idx in 0..total {
                        let mut r = idx;
                        for l in limbs.iter_mut() { l.push((lo + (r % per) as i64) as i128); r /= per; }
                    }
                    out.push(Rec::new(14004, vec![n2, b as i128, size as i128, dir], limbs));
                }
            }
        }
    }

    // ---------------- blind path, zero mask: exact on every limb, every index ----------------
    for n in [8usize, 16, 32] {
        for (ext, block, dist) in [(1usize, 1usize, 0i128), (1, 1, 1), (1, 1, 2), (1, 1, 3), (1, 3, 0), (2, 3, 0), (4, 1, 0), (8, 2, 0)] {
            for (b, klut, kres, kbrk, kmsg) in [(19u32, 19u32, 38u32, 57u32, 5usize), (17, 34, 51, 68, 20)] {
                for dir in [0i128, 1] {
                    let mut c = tiny_params(next_be(), n);
                    c.ext = ext; c.block = block; c.dist = dist; c.n_lwe = 2 * block.max(1); c.base2k = b; c.b_lwe = b; c.k_lwe = b;
                    c.k_lut = klut; c.k_res = kres; c.k_brk = kbrk; c.kmsg = kmsg; c.dir = dir; c.rows = kres / b;
                    let t = (2 * n * ext) as i64;
                    let len = 1usize << rng.below(n.trailing_zeros() as u64 + 1);
                    let f = rand_f(&mut rng, len, kmsg, b as usize);
                    let sk = to128(&sk_lwe_of(&c));
                    let idxs: Vec<i64> = if (n == 8 && b == 19 && dir == 0) || thorough { (0..t).collect() } else { let mut v: Vec<i64> = (0..10).map(|_| rng.range(0, t - 1)).collect(); v.extend([0, 1, t - 1, t / 2]); v };
                    for idx in idxs {
                        let mut l2n = vec![0i64; c.n_lwe + 1];
                        l2n[0] = idx;
                        out.push(Rec::new(14010, c.ps(), vec![f.clone(), crafted_lwe(&c, &l2n), sk.clone()]));
                    }
                }
            }
        }
    }

    // ---------------- blind path, real keys, every message ----------------
    // (dist, block, ext, keys, pmax) ; thorough: 3 keys, p = 1..5 everywhere
    let variants: [(i128, usize, usize, usize, usize); 10] = [(0, 1, 1, 2, 3), (1, 1, 1, 1, 2), (2, 1, 1, 1, 2), (3, 1, 1, 1, 2), (0, 7, 1, 2, 3),
                                                              (0, 4, 1, 1, 2), (0, 7, 2, 1, 3), (0, 7, 4, 1, 2), (0, 7, 8, 1, 1), (0, 1, 2, 1, 2)];
    for (set, base) in [test_params(0), alt_params(0)].iter().enumerate() {
        for (vi, (dist, block, ext, nkeys, pmax)) in variants.iter().enumerate() {
            if set == 1 && !(vi == 0 || vi == 1 || vi == 5 || vi == 7) { continue; }
            let block = if set == 1 && *block == 7 { 4 } else { *block };
            let nkeys = if thorough { 3 } else if set == 1 { 1 } else { *nkeys };
            let pmax = if thorough { 5 } else if set == 1 { 2 } else { *pmax };
            for key_seed in 1..=nkeys as u64 {
                for dir in [0i128, 1] {
                    for p in 1..=pmax {
                        let be = if set == 0 { [1i128, 2][(vi + p) % 2] } else { next_be() };
                        let mut c = *base;
                        c.be = be; c.dist = *dist; c.block = block; c.ext = *ext; c.key_seed = key_seed; c.dir = dir; c.p = p; c.kmsg = p + 1;
                        let f: Vec<i128> = (0..1usize << p).map(|_| rng.range(0, (1 << (p + 1)) - 1) as i128).collect();
                        let sk = to128(&sk_lwe_of(&c));
                        for x in 0..(1i64 << (p + 1)) {
                            c.x = x;
                            out.push(Rec::new(14020, c.ps(), vec![f.clone(), fresh_lwe(&c, rng.next()), sk.clone()]));
                        }
                    }
                }
            }
        }
    }

    // ---------------- blind path, real keys, boundary masks (noise-free ciphertexts with chosen mod-switched coefficients) ----------------
    for (dist, block, ext) in [(0i128, 1usize, 1usize), (0, 7, 1), (0, 7, 2), (0, 7, 4), (0, 7, 8), (0, 1, 4)] {
        for dir in [0i128, 1] {
            if !thorough && ext == 4 && block == 1 && dir == 1 { continue; }
            let mut c = test_params(if ext > 2 { 2 } else { 1 });
            c.dist = dist; c.block = block; c.ext = ext; c.dir = dir; c.p = 3; c.kmsg = 4;
            let t = (2 * c.n * c.ext) as i64;
            let e = ext as i64;
            let nn = c.n as i64;
            let f: Vec<i128> = (0..8).map(|i| (2 * i + 1) as i128).collect();
            let sk = sk_lwe_of(&c);
            let mut avals: Vec<i64> = if thorough || ext <= 2 {
                let mut v = vec![0, 1, -1, e, -e, t / 2, t / 2 - 1, -(t / 2) + 1, e * nn, e * nn + 1, e + 1, -e - 1, 2 * e - 1];
                for r in 1..e { v.extend([r, -r, t / 2 + r, e * (2 * nn - 1) + r]); }
                v
            } else if block == 1 { vec![1, -1, e, 2] }
            else if ext == 4 { vec![0, 1, -1, 3, -3, e, t / 2 + 1, e * (2 * nn - 1) + 1, e * nn + 1] }
            else { vec![1, -1, 7, -7, e, e * (2 * nn - 1) + 3] };
            avals.sort(); avals.dedup();
            let reps = if thorough { 3 } else { 1 };
            for av in avals {
                for _ in 0..reps {
                    // every mask coefficient random, except that those the key selects are `av` in a random subset
                    let mut l2n: Vec<i64> = (0..=c.n_lwe).map(|_| rng.range(-t / 2 + 1, t / 2 - 1)).collect();
                    for i in 0..c.n_lwe { if sk[i] == 1 && rng.below(3) != 0 { l2n[i + 1] = av; } }
                    let x = rng.range(0, 15);
                    let sum: i64 = (0..c.n_lwe).map(|i| l2n[i + 1] * sk[i]).sum();
                    let target = if dir == 0 { -(x * t / 16) } else { x * t / 16 };
                    l2n[0] = target - sum;
                    c.x = x;
                    out.push(Rec::new(14020, c.ps(), vec![f.clone(), crafted_lwe(&c, &l2n), to128(&sk)]));
                }
            }
        }
    }
    // set_xai_plus_y is pub(crate): its only use is the table x_pow_a[i] = X^i, i in [0, 2N), of a prepared BinaryBlock key.
    // Every entry is exercised here: small rings, real keys, every value a in [0, 2N ext) of the selected mask coefficients
    // (block-binary: x_pow_a[a]; extended: x_pow_a[a / ext] and x_pow_a[(a / ext + 1) mod 2N]), whole polynomial compared.
    for n in [8usize, 16] {
        for (block, ext) in [(2usize, 1usize), (2, 2), (3, 4)] {
            if !thorough && n == 16 && ext == 4 { continue; }
            for dir in [0i128, 1] {
                let mut c = tiny_params(if n == 8 { 1 } else { 2 }, n);
                c.block = block; c.ext = ext; c.dist = 0; c.n_lwe = 3 * block; c.dir = dir; c.p = 2; c.kmsg = 3;
                // a key that selects at least one coefficient
                let mut sk = sk_lwe_of(&c);
                while sk.iter().sum::<i64>() == 0 { c.key_seed += 1; sk = sk_lwe_of(&c); }
                let t = (2 * n * ext) as i64;
                let f: Vec<i128> = vec![1, 3, 0, 2];
                for a in 0..t {
                    let mut l2n: Vec<i64> = (0..=c.n_lwe).map(|_| rng.range(-t / 2 + 1, t / 2 - 1)).collect();
                    for i in 0..c.n_lwe { if sk[i] == 1 { l2n[i + 1] = a; } }
                    out.push(Rec::new(14020, c.ps(), vec![f.clone(), crafted_lwe(&c, &l2n), to128(&sk)]));
                }
            }
        }
    }
    // LWE radix at or below log2(2N ext) + 1: second branch of mod_switch_2n, end to end
    for b_lwe in [11u32, 8] {
        for dir in [0i128, 1] {
            for x in [0i64, 1, 5, 9] {
                let mut c = test_params(1);
                c.b_lwe = b_lwe; c.dir = dir; c.x = x; c.p = 3; c.kmsg = 4;
                let f: Vec<i128> = (0..8).map(|i| (2 * i + 1) as i128).collect();
                let sk = to128(&sk_lwe_of(&c));
                out.push(Rec::new(14020, c.ps(), vec![f, fresh_lwe(&c, rng.next()), sk]));
            }
        }
    }
    out
}

fn main() { poulpy_verif_harness::run_main(generate, exec) }
