//! C14 prototype (step 1): clear path + mod_switch
use poulpy_bin_fhe::blind_rotation::{
    LookUpTableLayout, LookUpTableRotationDirection, LookupTable, LookupTableFactory, LookupTableInfos, mod_switch_2n,
};
use poulpy_core::layouts::{Base2K, Degree, LWE, LWEToRef, TorusPrecision};
use poulpy_hal::layouts::{VecZnx, ZnxInfos, ZnxView, ZnxViewMut};
use poulpy_verif_harness::hal::*;
use poulpy_verif_harness::rec::*;
use poulpy_verif_harness::with_be;

#[allow(dead_code)]
struct LutMirror {
    data: Vec<VecZnx<Vec<u8>>>,
    rot_dir: LookUpTableRotationDirection,
    base2k: Base2K,
    k: TorusPrecision,
    drift: usize,
}

fn peek(lut: &LookupTable) -> &LutMirror {
    assert_eq!(std::mem::size_of::<LutMirror>(), std::mem::size_of::<LookupTable>());
    assert_eq!(std::mem::align_of::<LutMirror>(), std::mem::align_of::<LookupTable>());
    let m: &LutMirror = unsafe { &*(lut as *const LookupTable as *const LutMirror) };
    assert_eq!(m.data.len(), lut.extension_factor());
    assert_eq!(m.base2k, LookupTableInfos::base2k(lut));
    assert_eq!(m.k, LookupTableInfos::k(lut));
    m
}

fn dump_lut(lut: &LookupTable) -> Vec<Vec<i128>> {
    let m = peek(lut);
    let mut out: Vec<Vec<i128>> = m
        .data
        .iter()
        .map(|v| {
            let mut w = Vec::new();
            for j in 0..v.size() {
                w.extend(v.at(0, j).iter().map(|x| *x as i128));
            }
            w
        })
        .collect();
    out.push(vec![m.drift as i128]);
    out
}

fn op(r: &Rec) -> Vec<Vec<i128>> {
    let p = &r.ps;
    match r.code {
        14001 | 14002 => {
            let (be, n, ext, base2k, k_lut, kmsg) = (p[0], p[1] as usize, p[2] as usize, p[3] as u32, p[4] as u32, p[5] as usize);
            with_be!(be, BE, {
                let m = module::<BE>(n);
                let infos = LookUpTableLayout { n: Degree(n as u32), extension_factor: ext, k: TorusPrecision(k_lut), base2k: Base2K(base2k) };
                let mut lut = LookupTable::alloc(&infos);
                lut.set(&m, &v64(&r.vs[0]), kmsg);
                if r.code == 14002 {
                    m.lookup_table_rotate(p[6] as i64, &mut lut);
                }
                dump_lut(&lut)
            })
        }
        14004 => {
            let (n2, base2k, size, dir) = (p[0] as usize, p[1] as u32, p[2] as usize, p[3]);
            let len = r.vs[0].len();
            let mut lwe: LWE<Vec<u8>> = LWE::alloc(Degree(len as u32 - 1), Base2K(base2k), TorusPrecision(base2k * size as u32));
            assert_eq!(lwe.data().size(), size);
            for j in 0..size {
                lwe.data_mut().at_mut(0, j).copy_from_slice(&v64(&r.vs[j]));
            }
            let mut res = vec![0i64; len];
            let d = if dir == 0 { LookUpTableRotationDirection::Left } else { LookUpTableRotationDirection::Right };
            mod_switch_2n(n2, &mut res, &lwe.to_ref(), d);
            vec![to128(&res)]
        }
        _ => panic!("c14: unknown op"),
    }
}

pub fn exec(r: &Rec) -> Out {
    let r2 = r.clone();
    guard(move || op(&r2))
}

pub fn generate(_tier: &str, _seed: u64) -> Vec<Rec> {
    let mut out = vec![];
    out.push(Rec::new(14001, vec![1, 8, 2, 4, 8, 3], vec![vec![1, 2, 3, -1]]));
    out.push(Rec::new(14002, vec![1, 8, 2, 4, 8, 3, 1], vec![vec![1, 2, 3, -1]]));
    out.push(Rec::new(14002, vec![1, 8, 2, 4, 8, 3, -100], vec![vec![1, 2, 3, -1]]));
    for b in [4, 5, 6, 8] {
        out.push(Rec::new(14004, vec![16, b, 2, 1], vec![vec![-8, -7, -3, -1, 0, 1, 3, 7], vec![0, 1, 2, 3, 4, 5, 6, 7]]));
    }
    out
}

fn main() { poulpy_verif_harness::run_main(generate, exec) }
