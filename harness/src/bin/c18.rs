//! C18: serialisation.  The REAL `write_to` / `read_from` of every serialisable type, through in-memory
//! readers, on valid streams, every kind of damaged stream, and receivers of every relative size.
//!
//! Record layout (mirrored by coq/Model/C18Run.v):
//!   18001 READ       ps = [dbg rk tcode has_pre model | sh(10) | minfo(3)]   vs = [13::F ; 13::S0 ; 13::S]
//!                    out = [[oc woc_before woc_after acc] ; 13::dump_before ; 13::dump_after ; 15::raw_after]
//!   18002 WRITE      ps = [dbg tcode hdr...]                                 vs = [15::data]
//!                    out = [[woc] ; 13::bytes]
//!   18003 ROUNDTRIP  ps = [dbg rk tcode has_prex model has_prer | shx(10) | shr(10)]
//!                    vs = [13::Fx ; 13::SX ; 13::Fr ; 13::S0]
//!                    out = [[woc_x oc woc_after acc] ; 13::written ; 13::dump_after ; 15::raw_after]
//!   18005 CONSTRUCT  ps = [dbg tcode | sh(10)]   out = [[woc]]   (alloc + fill + write_to of a grid shape; 3 = the dump does not have the documented layout)
//!   18004 DIST       ps = [tag payload model]      out = [[woc oc tag' payload'] ; 13::bytes]
//! sh = [n base2k k rank_in rank_out dnum dsize nkeys aux fillseed]   (meaning per type: see `make`)
//! F = write_to of the freshly allocated object (fixes the capacities); S0 = optional first stream read into it.
//! The state of an object is observed through its own `write_to` (under catch_unwind: the words written before an
//! error or a panic are kept), for the HAL types also through the public fields / accessors (raw).
//! `acc` = 1 when the public accessors of the wrapper agree with the dump.
use poulpy_bin_fhe::bdd_arithmetic::{BDDKey, BDDKeyLayout};
use poulpy_bin_fhe::blind_rotation::{BlindRotationKey, BlindRotationKeyCompressed, BlindRotationKeyLayout, CGGI};
use poulpy_bin_fhe::circuit_bootstrapping::{CircuitBootstrappingKey, CircuitBootstrappingKeyLayout};
use poulpy_core::{Distribution, GetDistribution};
use poulpy_core::layouts::{
    Base2K, Degree, Dnum, Dsize, GGLWE, GGLWECompressed, GGLWECompressedSeed, GGLWEToGGSWKey, GGLWEToGGSWKeyCompressed,
    GGLWEToGGSWKeyLayout, GGSW, GGSWCompressed, GGSWCompressedSeed, GLWE, GLWEAutomorphismKey, GLWEAutomorphismKeyCompressed,
    GLWEAutomorphismKeyLayout, GLWECompressed, GLWECompressedSeed, GLWEPublicKey, GLWESwitchingKey, GLWESwitchingKeyCompressed,
    GLWESwitchingKeyLayout, GLWETensorKey, GLWETensorKeyCompressed, GLWEToLWEKey, GLWEToLWEKeyLayout,
    GLWEToLWESwitchingKeyCompressed, LWE, LWECompressed, LWEInfos, LWESwitchingKey, LWESwitchingKeyCompressed,
    LWEToGLWEKey, LWEToGLWEKeyCompressed, Rank, SetGaloisElement, TorusPrecision,
};
use poulpy_hal::layouts::{DataView, FillUniform, MatZnx, ReaderFrom, ScalarZnx, VecZnx, WriterTo, ZnxInfos};
use poulpy_hal::source::Source;
use poulpy_verif_harness::rec::*;
use std::io::{BufRead, Cursor, Read, Write};
use std::panic::{AssertUnwindSafe, catch_unwind};

// ------------------------------------------------------------------------------------------------
// allocator: while read_from runs, single requests above ALLOC_LIMIT are refused (-> handle_alloc_error -> abort),
// so that what `vec![[0u8; 32]; seed_len]` does with a count from the stream does not depend on the machine.
// Records run in a worker process; a worker that dies is restarted after the record that killed it.

use std::alloc::{GlobalAlloc, Layout, System};
use std::sync::atomic::{AtomicUsize, Ordering};
const ALLOC_LIMIT: usize = 131072; // = alloc_limit of coq/Model/C18Serial.v
static LIMIT: AtomicUsize = AtomicUsize::new(usize::MAX);
struct Limited;
unsafe impl GlobalAlloc for Limited {
    unsafe fn alloc(&self, l: Layout) -> *mut u8 {
        if l.size() > LIMIT.load(Ordering::Relaxed) { std::ptr::null_mut() } else { unsafe { System.alloc(l) } }
    }
    unsafe fn alloc_zeroed(&self, l: Layout) -> *mut u8 {
        if l.size() > LIMIT.load(Ordering::Relaxed) { std::ptr::null_mut() } else { unsafe { System.alloc_zeroed(l) } }
    }
    unsafe fn dealloc(&self, p: *mut u8, l: Layout) { unsafe { System.dealloc(p, l) } }
    unsafe fn realloc(&self, p: *mut u8, l: Layout, n: usize) -> *mut u8 {
        if n > LIMIT.load(Ordering::Relaxed) { std::ptr::null_mut() } else { unsafe { System.realloc(p, l, n) } }
    }
}
#[global_allocator]
static GLOBAL: Limited = Limited;

// ------------------------------------------------------------------------------------------------
// readers

/// delivers at most `k` bytes per call and uses the default `read_exact`: a failing read_exact has copied
/// what was available
struct Chunk<'a> {
    d: &'a [u8],
    pos: usize,
    k: usize,
}
impl<'a> Read for Chunk<'a> {
    fn read(&mut self, buf: &mut [u8]) -> std::io::Result<usize> {
        let m = buf.len().min(self.k).min(self.d.len() - self.pos);
        buf[..m].copy_from_slice(&self.d[self.pos..self.pos + m]);
        self.pos += m;
        Ok(m)
    }
}

fn read_rk<T: ReaderFrom>(x: &mut T, rk: i128, s: &[u8]) -> std::io::Result<()> {
    match rk {
        0 => x.read_from(&mut Cursor::new(s)),
        1 => x.read_from(&mut Chunk { d: s, pos: 0, k: 3 }),
        _ => {
            let mut r: &[u8] = s;
            x.read_from(&mut r)
        }
    }
}

// ------------------------------------------------------------------------------------------------
// object-safe view of a serialisable object

trait DynObj {
    fn dread(&mut self, rk: i128, s: &[u8]) -> std::io::Result<()>;
    fn dwrite(&self, w: &mut Vec<u8>) -> std::io::Result<()>;
    /// HAL types: header through public fields / accessors, then the whole buffer
    fn raw(&self) -> Vec<i128> {
        vec![]
    }
    /// (offset in the dump, width, value) triples obtained through public accessors
    fn acc(&self) -> Vec<(usize, usize, u64)> {
        vec![]
    }
    /// VecZnx / GLWE: reduce the active limb count below the allocation (max_size stays)
    fn set_active(&mut self, _size: usize) {}
    /// number of seeds held (compressed forms), to refuse dumping an absurd vector
    fn nseeds(&self) -> usize {
        0
    }
}

macro_rules! dyn_obj {
    ($t:ty) => {
        impl DynObj for $t {
            fn dread(&mut self, rk: i128, s: &[u8]) -> std::io::Result<()> { read_rk(self, rk, s) }
            fn dwrite(&self, w: &mut Vec<u8>) -> std::io::Result<()> { self.write_to(w) }
        }
    };
    ($t:ty, $($body:tt)*) => {
        impl DynObj for $t {
            fn dread(&mut self, rk: i128, s: &[u8]) -> std::io::Result<()> { read_rk(self, rk, s) }
            fn dwrite(&self, w: &mut Vec<u8>) -> std::io::Result<()> { self.write_to(w) }
            $($body)*
        }
    };
}

fn bytes128(b: &[u8]) -> Vec<i128> {
    b.iter().map(|x| *x as i128).collect()
}

dyn_obj!(VecZnx<Vec<u8>>,
    fn set_active(&mut self, size: usize) { self.size = size; }
    fn raw(&self) -> Vec<i128> {
        let mut v = vec![self.n as i128, self.cols as i128, self.size as i128, self.max_size() as i128];
        v.extend(bytes128(&self.data));
        v
    }
);
dyn_obj!(ScalarZnx<Vec<u8>>,
    fn raw(&self) -> Vec<i128> {
        let mut v = vec![self.n as i128, self.cols as i128];
        v.extend(bytes128(&self.data));
        v
    }
);
dyn_obj!(MatZnx<Vec<u8>>,
    fn raw(&self) -> Vec<i128> {
        let mut v = vec![self.n() as i128, self.size() as i128, self.rows() as i128, self.cols_in() as i128, self.cols_out() as i128];
        v.extend(bytes128(self.data()));
        v
    }
);
fn vec_acc(off: usize, d: &VecZnx<Vec<u8>>) -> Vec<(usize, usize, u64)> {
    vec![(off, 8, d.n as u64), (off + 8, 8, d.cols as u64), (off + 16, 8, d.size as u64), (off + 24, 8, d.max_size() as u64)]
}
fn mat_acc(off: usize, d: &MatZnx<Vec<u8>>) -> Vec<(usize, usize, u64)> {
    vec![(off, 8, d.n() as u64), (off + 8, 8, d.size() as u64), (off + 16, 8, d.rows() as u64), (off + 24, 8, d.cols_in() as u64), (off + 32, 8, d.cols_out() as u64)]
}
dyn_obj!(GLWE<Vec<u8>>,
    fn set_active(&mut self, size: usize) { self.data_mut().size = size; }
    fn acc(&self) -> Vec<(usize, usize, u64)> { let mut v = vec![(0, 4, self.base2k().0 as u64)]; v.extend(vec_acc(4, self.data())); v }
);
dyn_obj!(LWE<Vec<u8>>,
    fn acc(&self) -> Vec<(usize, usize, u64)> { let mut v = vec![(0, 4, self.base2k().0 as u64)]; v.extend(vec_acc(4, self.data())); v }
);
dyn_obj!(GLWECompressed<Vec<u8>>,
    fn acc(&self) -> Vec<(usize, usize, u64)> {
        let mut v = vec![(0, 4, self.base2k().0 as u64)];
        for (i, b) in self.seed().iter().enumerate() { v.push((8 + i, 1, *b as u64)); }
        v
    }
);
dyn_obj!(LWECompressed<Vec<u8>>,
    fn acc(&self) -> Vec<(usize, usize, u64)> { vec![(4, 4, self.base2k().0 as u64)] }
);
dyn_obj!(GGLWE<Vec<u8>>,
    fn acc(&self) -> Vec<(usize, usize, u64)> { let mut v = vec![(0, 4, self.base2k().0 as u64)]; v.extend(mat_acc(8, self.data())); v }
);
dyn_obj!(GGSW<Vec<u8>>,
    fn acc(&self) -> Vec<(usize, usize, u64)> { vec![(0, 4, self.base2k().0 as u64)] }
);
dyn_obj!(GGLWECompressed<Vec<u8>>,
    fn acc(&self) -> Vec<(usize, usize, u64)> { vec![(4, 4, self.base2k().0 as u64), (16, 4, self.seed().len() as u32 as u64)] }
    fn nseeds(&self) -> usize { self.seed().len() }
);
dyn_obj!(GGSWCompressed<Vec<u8>>,
    fn acc(&self) -> Vec<(usize, usize, u64)> { vec![(4, 4, self.base2k().0 as u64), (16, 4, self.seed().len() as u32 as u64)] }
    fn nseeds(&self) -> usize { self.seed().len() }
);
dyn_obj!(GLWESwitchingKey<Vec<u8>>, fn acc(&self) -> Vec<(usize, usize, u64)> { vec![(8, 4, self.base2k().0 as u64)] });
dyn_obj!(GLWEAutomorphismKey<Vec<u8>>,
    fn acc(&self) -> Vec<(usize, usize, u64)> { vec![(0, 8, self.p() as u64), (8, 4, self.base2k().0 as u64)] }
);
dyn_obj!(GLWETensorKey<Vec<u8>>, fn acc(&self) -> Vec<(usize, usize, u64)> { vec![(0, 4, self.base2k().0 as u64)] });
dyn_obj!(LWEToGLWEKey<Vec<u8>>, fn acc(&self) -> Vec<(usize, usize, u64)> { vec![(8, 4, self.base2k().0 as u64)] });
dyn_obj!(LWESwitchingKey<Vec<u8>>, fn acc(&self) -> Vec<(usize, usize, u64)> { vec![(8, 4, self.base2k().0 as u64)] });
dyn_obj!(GLWEToLWEKey<Vec<u8>>, fn acc(&self) -> Vec<(usize, usize, u64)> { vec![(8, 4, self.base2k().0 as u64)] });
dyn_obj!(GLWESwitchingKeyCompressed<Vec<u8>>, fn acc(&self) -> Vec<(usize, usize, u64)> { vec![(12, 4, self.base2k().0 as u64)] });
dyn_obj!(GLWEAutomorphismKeyCompressed<Vec<u8>>, fn acc(&self) -> Vec<(usize, usize, u64)> { vec![(12, 4, self.base2k().0 as u64)] });
dyn_obj!(GLWETensorKeyCompressed<Vec<u8>>, fn acc(&self) -> Vec<(usize, usize, u64)> { vec![(4, 4, self.base2k().0 as u64)] });
dyn_obj!(LWEToGLWEKeyCompressed<Vec<u8>>, fn acc(&self) -> Vec<(usize, usize, u64)> { vec![(12, 4, self.base2k().0 as u64)] });
dyn_obj!(LWESwitchingKeyCompressed<Vec<u8>>, fn acc(&self) -> Vec<(usize, usize, u64)> { vec![(12, 4, self.base2k().0 as u64)] });
dyn_obj!(GLWEToLWESwitchingKeyCompressed<Vec<u8>>, fn acc(&self) -> Vec<(usize, usize, u64)> { vec![(12, 4, self.base2k().0 as u64)] });
dyn_obj!(GLWEPublicKey<Vec<u8>>,
    fn acc(&self) -> Vec<(usize, usize, u64)> {
        let mut w = Vec::new();
        let _ = self.dist().write_to(&mut w);
        let mut v = vec![(8, 4, self.base2k().0 as u64)];
        if w.len() == 8 { v.push((0, 8, u64::from_le_bytes(w[..8].try_into().unwrap()))); }
        v
    }
);
dyn_obj!(GGLWEToGGSWKey<Vec<u8>>);
dyn_obj!(GGLWEToGGSWKeyCompressed<Vec<u8>>);
dyn_obj!(BlindRotationKey<Vec<u8>, CGGI>);
dyn_obj!(BlindRotationKeyCompressed<Vec<u8>, CGGI>);
dyn_obj!(CircuitBootstrappingKey<Vec<u8>, CGGI>);
dyn_obj!(BDDKey<Vec<u8>, CGGI>);

/// Galois elements used for automorphism keys: odd, mostly NEGATIVE (trace keys use -1; -5^k mod 2N are the conjugated rotations)
const GALOIS: &[i64] = &[-1, -5, -7, -25, 5, 25, -3, 3];

const ALL_TYPES: &[i128] = &[1, 2, 3, 10, 11, 12, 13, 14, 15, 16, 17, 18, 19, 20, 21, 22, 23, 24, 25, 26, 27, 28, 29, 30, 40, 41, 42, 43, 50, 51];

/// sh = [n base2k k rank_in rank_out dnum dsize nkeys aux fillseed]
/// HAL types: VecZnx (n, cols = rank_in, size = k, aux = active size + 1 or 0), ScalarZnx (n, cols = rank_in),
/// MatZnx (n, rows = dnum, cols_in = rank_in, cols_out = rank_out, size = k).
fn make(tcode: i128, sh: &[i128]) -> Box<dyn DynObj> {
    let u = |i: usize| sh[i] as usize;
    let (n, b, k) = (Degree(sh[0] as u32), Base2K(sh[1] as u32), TorusPrecision(sh[2] as u32));
    let (ri, ro, dn, ds) = (Rank(sh[3] as u32), Rank(sh[4] as u32), Dnum(sh[5] as u32), Dsize(sh[6] as u32));
    let mut src = Source::new([sh[9] as u8; 32]);
    macro_rules! filled {
        ($e:expr) => {{
            let mut o = $e;
            o.fill_uniform(50, &mut src);
            Box::new(o) as Box<dyn DynObj>
        }};
    }
    let brk_layout = BlindRotationKeyLayout { n_glwe: n, n_lwe: Degree(sh[7] as u32), base2k: b, k, dnum: dn, rank: ri };
    let cbk_layout = CircuitBootstrappingKeyLayout {
        brk_layout,
        atk_layout: GLWEAutomorphismKeyLayout { n, base2k: b, k, rank: ri, dnum: dn, dsize: ds },
        tsk_layout: GGLWEToGGSWKeyLayout { n, base2k: b, k, rank: ri, dnum: dn, dsize: ds },
    };
    match tcode {
        1 => {
            let mut o = VecZnx::alloc(u(0), u(3), u(2));
            o.fill_uniform(50, &mut src);
            Box::new(o)
        }
        2 => filled!(ScalarZnx::alloc(u(0), u(3))),
        3 => filled!(MatZnx::alloc(u(0), u(5), u(3), u(4), u(2))),
        10 => {
            let mut o = GLWE::alloc(n, b, k, ri);
            o.fill_uniform(50, &mut src);
            Box::new(o)
        }
        11 => filled!(LWE::alloc(n, b, k)),
        12 => filled!(GLWECompressed::alloc(n, b, k, ri)),
        13 => filled!(LWECompressed::alloc(b, k)),
        14 => filled!(GGLWE::alloc(n, b, k, ri, ro, dn, ds)),
        15 => filled!(GGSW::alloc(n, b, k, ri, dn, ds)),
        16 => filled!(GGLWECompressed::alloc(n, b, k, ri, ro, dn, ds)),
        17 => filled!(GGSWCompressed::alloc(n, b, k, ri, dn, ds)),
        18 => filled!(GLWESwitchingKey::alloc(n, b, k, ri, ro, dn, ds)),
        19 => {
            let mut o = GLWEAutomorphismKey::alloc(n, b, k, ri, dn, ds);
            o.fill_uniform(50, &mut src);
            if sh[8] > 0 { o.set_p(GALOIS[(sh[8] as usize - 1) % GALOIS.len()]); }
            Box::new(o)
        }
        20 => filled!(GLWETensorKey::alloc(n, b, k, ri, dn, ds)),
        21 => filled!(LWEToGLWEKey::alloc(n, b, k, ro, dn)),
        22 => filled!(LWESwitchingKey::alloc(n, b, k, dn)),
        23 => filled!(GLWEToLWEKey::alloc(n, b, k, ri, dn)),
        24 => filled!(GLWESwitchingKeyCompressed::alloc(n, b, k, ri, ro, dn, ds)),
        25 => {
            let mut o = GLWEAutomorphismKeyCompressed::alloc(n, b, k, ri, dn, ds);
            o.fill_uniform(50, &mut src);
            if sh[8] > 0 { o.set_p(GALOIS[(sh[8] as usize - 1) % GALOIS.len()]); }
            Box::new(o)
        }
        26 => filled!(GLWETensorKeyCompressed::alloc(n, b, k, ri, dn, ds)),
        27 => filled!(LWEToGLWEKeyCompressed::alloc(n, b, k, ro, dn)),
        28 => filled!(LWESwitchingKeyCompressed::alloc(n, b, k, dn)),
        29 => filled!(GLWEToLWESwitchingKeyCompressed::alloc(n, b, k, ri, dn)),
        30 => Box::new(GLWEPublicKey::alloc(n, b, k, ri)),
        40 => filled!(GGLWEToGGSWKey::alloc(n, b, k, ri, dn, ds)),
        41 => filled!(GGLWEToGGSWKeyCompressed::alloc(n, b, k, ri, dn, ds)),
        42 => filled!(BlindRotationKey::<Vec<u8>, CGGI>::alloc(&brk_layout)),
        43 => filled!(BlindRotationKeyCompressed::<Vec<u8>, CGGI>::alloc(&brk_layout)),
        50 => Box::new(CircuitBootstrappingKey::<Vec<u8>, CGGI>::alloc_from_infos(&cbk_layout)),
        51 => {
            let ksg = if sh[8] > 0 {
                Some(GLWESwitchingKeyLayout { n, base2k: b, k, rank_in: ri, rank_out: ri, dnum: dn, dsize: ds })
            } else {
                None
            };
            let layout = BDDKeyLayout {
                cbt_layout: cbk_layout,
                ks_glwe_layout: ksg,
                ks_lwe_layout: GLWEToLWEKeyLayout { n, base2k: b, k, rank_in: ri, dnum: dn },
            };
            Box::new(BDDKey::<Vec<u8>, CGGI>::alloc_from_infos(&layout))
        }
        _ => panic!("c18: unknown type code {tcode}"),
    }
}

fn valid_shape(tcode: i128, sh: &[i128]) -> bool {
    if sh.iter().take(9).any(|x| *x < 0) || sh[0] <= 0 { return false; }
    if tcode != 2 && sh[2] <= 0 { return false; }
    catch_unwind(AssertUnwindSafe(|| { let _ = make(tcode, sh); })).is_ok()
}

/// sh[8] (aux) of a VecZnx / GLWE: active limb count + 1, applied after the fresh dump F has been taken
fn apply_aux(tcode: i128, sh: &[i128], o: &mut dyn DynObj) {
    if (tcode == 1 || tcode == 10) && sh[8] > 0 { o.set_active(sh[8] as usize - 1); }
}

/// state of an object = what its own write_to emits (0 Ok, 1 Err, 2 panic; the bytes written so far)
fn dump(o: &dyn DynObj) -> (i128, Vec<u8>) {
    let mut w = Vec::new();
    if o.nseeds() > 1 << 16 {
        return (1, w);
    }
    let r = catch_unwind(AssertUnwindSafe(|| o.dwrite(&mut w)));
    match r {
        Ok(Ok(())) => (0, w),
        Ok(Err(_)) => (1, w),
        Err(_) => (2, w),
    }
}

fn rd(o: &mut dyn DynObj, rk: i128, s: &[u8]) -> Result<i128, String> {
    if std::env::var("C18_NOLIMIT").is_err() { LIMIT.store(ALLOC_LIMIT, Ordering::Relaxed); }
    let r = catch_unwind(AssertUnwindSafe(|| o.dread(rk, s)));
    LIMIT.store(usize::MAX, Ordering::Relaxed);
    match r {
        Ok(Ok(())) => Ok(0),
        Ok(Err(_)) => Ok(1),
        Err(p) => Err(panic_class(p)),
    }
}

fn acc_ok(o: &dyn DynObj, woc: i128, d: &[u8]) -> i128 {
    if woc == 2 {
        return 1;
    }
    for (off, w, val) in o.acc() {
        if off + w > d.len() {
            return 0;
        }
        let mut x = 0u64;
        for i in 0..w {
            x |= (d[off + i] as u64) << (8 * i);
        }
        if x != val {
            return 0;
        }
    }
    1
}

fn tagged(t: i128, b: &[u8]) -> Vec<i128> {
    let mut v = Vec::with_capacity(b.len() + 1);
    v.push(t);
    v.extend(b.iter().map(|x| *x as i128));
    v
}
fn untag(v: &[i128]) -> Vec<u8> {
    v.iter().skip(1).map(|x| *x as u8).collect()
}

// ------------------------------------------------------------------------------------------------
// exec

fn overflow_checks_on() -> bool {
    catch_unwind(|| std::hint::black_box(VecZnx::<Vec<u8>>::bytes_of(std::hint::black_box(usize::MAX), 2, 1))).is_err()
}

fn dist_of(tag: i128, payload: u64) -> Distribution {
    match tag {
        0 => Distribution::TernaryFixed(payload as usize),
        1 => Distribution::TernaryProb(f64::from_bits(payload)),
        2 => Distribution::BinaryFixed(payload as usize),
        3 => Distribution::BinaryProb(f64::from_bits(payload)),
        4 => Distribution::BinaryBlock(payload as usize),
        5 => Distribution::ZERO,
        _ => Distribution::NONE,
    }
}
fn dist_parts(d: &Distribution) -> (i128, i128) {
    match d {
        Distribution::TernaryFixed(v) => (0, *v as i128),
        Distribution::TernaryProb(p) => (1, p.to_bits() as i128),
        Distribution::BinaryFixed(v) => (2, *v as i128),
        Distribution::BinaryProb(p) => (3, p.to_bits() as i128),
        Distribution::BinaryBlock(v) => (4, *v as i128),
        Distribution::ZERO => (5, 0),
        Distribution::NONE => (6, 0),
    }
}

fn exec_inner(r: &Rec) -> Out {
    let p = &r.ps;
    match r.code {
        18001 | 18011 | 18012 | 18013 | 18014 => {
            let (rk, tcode, has_pre) = (p[1], p[2], p[3] != 0);
            let mut o = make(tcode, &p[5..15]);
            let (wf, f) = dump(&*o);
            if wf != 0 || f != untag(&r.vs[0]) {
                return Err("harness: fresh dump differs from the record".into());
            }
            apply_aux(tcode, &p[5..15], &mut *o);
            if has_pre {
                rd(&mut *o, rk, &untag(&r.vs[1])).map_err(|e| format!("pre:{e}"))?;
            }
            // the state before the call: the fresh dump when nothing was read first
            let (wb, db) = if has_pre { dump(&*o) } else { (0, vec![]) };
            let oc = rd(&mut *o, rk, &untag(&r.vs[2]))?;
            let (wa, da) = dump(&*o);
            let acc = acc_ok(&*o, wa, &da);
            let mut raw = vec![15];
            raw.extend(o.raw());
            Ok(vec![vec![oc, wb, wa, acc], tagged(13, &db), tagged(13, &da), raw])
        }
        18002 => {
            let tcode = p[1];
            let data = untag(&r.vs[0]);
            let u = |i: usize| p[2 + i] as usize;
            let res = catch_unwind(AssertUnwindSafe(|| {
                let mut w = Vec::new();
                let rr = match tcode {
                    // public fields: any state can be written down, also a header the buffer does not hold
                    // (from_data validates since /repo 2067fe8; MatZnx has private fields: only consistent shapes are generated)
                    1 => VecZnx { data: data.clone(), n: u(0), cols: u(1), size: u(2), max_size: u(3) }.write_to(&mut w),
                    2 => ScalarZnx { data: data.clone(), n: u(0), cols: u(1) }.write_to(&mut w),
                    _ => MatZnx::from_data(data.clone(), u(0), u(2), u(3), u(4), u(1)).write_to(&mut w),
                };
                (if rr.is_ok() { 0 } else { 1 }, w)
            }));
            match res {
                Ok((woc, w)) => Ok(vec![vec![woc], tagged(13, &w)]),
                Err(pn) => Err(panic_class(pn)),
            }
        }
        18003 | 18031 | 18032 | 18033 | 18034 | 18035 => {
            let (rk, tcode, has_prex, has_prer) = (p[1], p[2], p[3] != 0, p[5] != 0);
            let mut x = make(tcode, &p[6..16]);
            let (wf, fx) = dump(&*x);
            if wf != 0 || fx != untag(&r.vs[0]) {
                return Err("harness: fresh dump of x differs from the record".into());
            }
            apply_aux(tcode, &p[6..16], &mut *x);
            if has_prex {
                rd(&mut *x, rk, &untag(&r.vs[1])).map_err(|e| format!("prex:{e}"))?;
            }
            let mut o = make(tcode, &p[16..26]);
            let (wf, fr) = dump(&*o);
            if wf != 0 || fr != untag(&r.vs[2]) {
                return Err("harness: fresh dump of the receiver differs from the record".into());
            }
            apply_aux(tcode, &p[16..26], &mut *o);
            if has_prer {
                rd(&mut *o, rk, &untag(&r.vs[3])).map_err(|e| format!("prer:{e}"))?;
            }
            let (wx, sx) = dump(&*x);
            let oc = rd(&mut *o, rk, &sx)?;
            let (wa, da) = dump(&*o);
            let acc = acc_ok(&*o, wa, &da);
            let mut raw = vec![15];
            raw.extend(o.raw());
            Ok(vec![vec![wx, oc, wa, acc], tagged(13, &sx), tagged(13, &da), raw])
        }
        18004 => {
            let d = dist_of(p[0], p[1] as u64);
            let mut w = Vec::new();
            let woc = match catch_unwind(AssertUnwindSafe(|| d.write_to(&mut w))) {
                Ok(Ok(())) => 0,
                Ok(Err(_)) => 1,
                Err(pn) => return Err(panic_class(pn)),
            };
            let back = catch_unwind(AssertUnwindSafe(|| Distribution::read_from(&mut Cursor::new(&w[..]))));
            match back {
                Ok(Ok(d2)) => {
                    let (t, q) = dist_parts(&d2);
                    Ok(vec![vec![woc, 0, t, q], tagged(13, &w)])
                }
                Ok(Err(_)) => Ok(vec![vec![woc, 1, 0, 0], tagged(13, &w)]),
                Err(pn) => Err(panic_class(pn)),
            }
        }
        18005 => {
            // allocate, fill, write: a base shape of the grid must always be constructible and serialisable
            let o = make(p[1], &p[2..12]);
            let (woc, f) = dump(&*o);
            let walked = catch_unwind(AssertUnwindSafe(|| walk(p[1], &f))).is_ok();
            Ok(vec![vec![if woc == 0 && !walked { 3 } else { woc }]])
        }
        _ => Err(format!("c18: unknown op {}", r.code)),
    }
}

pub fn exec(r: &Rec) -> Out {
    match catch_unwind(AssertUnwindSafe(|| exec_inner(r))) {
        Ok(o) => o,
        Err(p) => Err(format!("harness:{}", panic_class(p))),
    }
}

// ------------------------------------------------------------------------------------------------
// the wire format as the generator sees it: slots of an honest dump

#[derive(Clone, Copy, PartialEq)]
enum FK { U32, U64, Seed, Seeds, Dist }
struct WS { f: &'static [FK], leaf: u8 }
const S_GLWE: WS = WS { f: &[FK::U32], leaf: 1 };
const S_GLWE_C: WS = WS { f: &[FK::U32, FK::U32, FK::Seed], leaf: 1 };
const S_GGLWE: WS = WS { f: &[FK::U32, FK::U32], leaf: 3 };
const S_GGLWE_C: WS = WS { f: &[FK::U32, FK::U32, FK::U32, FK::U32, FK::Seeds], leaf: 3 };
const S_KSK: WS = WS { f: &[FK::U32, FK::U32, FK::U32, FK::U32], leaf: 3 };
const S_ATK: WS = WS { f: &[FK::U64, FK::U32, FK::U32], leaf: 3 };
const S_KSK_C: WS = WS { f: &[FK::U32, FK::U32, FK::U32, FK::U32, FK::U32, FK::U32, FK::Seeds], leaf: 3 };
const S_ATK_C: WS = WS { f: &[FK::U64, FK::U32, FK::U32, FK::U32, FK::U32, FK::Seeds], leaf: 3 };
const S_PK: WS = WS { f: &[FK::Dist, FK::U32], leaf: 1 };
enum Sch { F(u8), W(&'static WS), K(&'static [FK], &'static WS), C, B }
fn schema(tcode: i128) -> Sch {
    match tcode {
        1 => Sch::F(1), 2 => Sch::F(2), 3 => Sch::F(3),
        10 | 11 => Sch::W(&S_GLWE), 12 | 13 => Sch::W(&S_GLWE_C),
        14 | 15 | 20 => Sch::W(&S_GGLWE), 16 | 17 | 26 => Sch::W(&S_GGLWE_C),
        18 | 21 | 22 | 23 => Sch::W(&S_KSK), 19 => Sch::W(&S_ATK),
        24 | 27 | 28 | 29 => Sch::W(&S_KSK_C), 25 => Sch::W(&S_ATK_C), 30 => Sch::W(&S_PK),
        40 => Sch::K(&[], &S_GGLWE), 41 => Sch::K(&[], &S_GGLWE_C),
        42 => Sch::K(&[FK::Dist], &S_GGLWE), 43 => Sch::K(&[FK::Dist], &S_GGLWE_C),
        50 => Sch::C, _ => Sch::B,
    }
}

/// kind: 1 wrapper u32, 2 wrapper u64, 3 seed, 4 seed count, 5 dist word, 6 leaf factor field, 7 leaf max_size,
/// 8 leaf len, 9 key count, 10 Galois element, 11 BDD tag, 12 data (w = length)
#[derive(Clone, Copy, Debug)]
struct Slot { off: usize, w: usize, kind: u8, leaf: usize }

fn le(b: &[u8], off: usize, w: usize) -> u64 {
    let mut x = 0u64;
    for i in 0..w { x |= (b[off + i] as u64) << (8 * i); }
    x
}
fn put(b: &mut [u8], off: usize, w: usize, v: u64) {
    for i in 0..w { b[off + i] = (v >> (8 * i)) as u8; }
}

struct Walker<'a> { b: &'a [u8], pos: usize, slots: Vec<Slot>, leaf: usize }
impl<'a> Walker<'a> {
    fn slot(&mut self, w: usize, kind: u8) -> u64 {
        let v = if w <= 8 { le(self.b, self.pos, w) } else { 0 };
        self.slots.push(Slot { off: self.pos, w, kind, leaf: self.leaf });
        self.pos += w;
        v
    }
    fn fields(&mut self, fs: &[FK]) {
        for f in fs {
            match f {
                FK::U32 => { self.slot(4, 1); }
                FK::U64 => { self.slot(8, 2); }
                FK::Seed => { self.slot(32, 3); }
                FK::Seeds => { let c = self.slot(4, 4); for _ in 0..c { self.slot(32, 3); } }
                FK::Dist => { self.slot(8, 5); }
            }
        }
    }
    fn flat(&mut self, k: u8) {
        let nh = match k { 1 => 4, 2 => 2, _ => 5 };
        for i in 0..nh { self.slot(8, if k == 1 && i == 3 { 7 } else { 6 }); }
        let len = self.slot(8, 8) as usize;
        self.slot(len, 12);
        self.leaf += 1;
    }
    fn wobj(&mut self, w: &WS) { self.fields(w.f); self.flat(w.leaf); }
    fn kseq(&mut self, pre: &[FK], w: &WS) { self.fields(pre); let c = self.slot(8, 9); for _ in 0..c { self.wobj(w); } }
    fn cbk(&mut self) {
        self.kseq(&[FK::Dist], &S_GGLWE);
        let c = self.slot(8, 9);
        for _ in 0..c { self.slot(8, 10); self.wobj(&S_ATK); }
        self.kseq(&[], &S_GGLWE);
    }
}
fn walk(tcode: i128, b: &[u8]) -> Vec<Slot> {
    let mut w = Walker { b, pos: 0, slots: vec![], leaf: 0 };
    match schema(tcode) {
        Sch::F(k) => w.flat(k),
        Sch::W(s) => w.wobj(s),
        Sch::K(pre, s) => w.kseq(pre, s),
        Sch::C => w.cbk(),
        Sch::B => {
            w.cbk();
            let t = w.slot(1, 11);
            if t == 1 { w.wobj(&S_KSK); }
            w.wobj(&S_KSK);
        }
    }
    assert_eq!(w.pos, b.len(), "c18: walker and dump disagree for type {tcode}");
    w.slots
}

// ------------------------------------------------------------------------------------------------
// generation

struct Gen { rng: Rng, out: Vec<Rec>, dbg: i128, model: i128, gal: usize }

fn base_shape(tcode: i128, variant: usize) -> Vec<i128> {
    // [n base2k k rank_in rank_out dnum dsize nkeys aux fillseed]
    match tcode {
        1 => [vec![2, 0, 3, 2, 0, 0, 0, 0, 0, 1], vec![4, 0, 2, 1, 0, 0, 0, 0, 0, 1], vec![1, 0, 4, 3, 0, 0, 0, 0, 3, 1]][variant % 3].clone(),
        2 => [vec![4, 0, 0, 2, 0, 0, 0, 0, 0, 1], vec![8, 0, 0, 1, 0, 0, 0, 0, 0, 1]][variant % 2].clone(),
        3 => [vec![2, 0, 2, 2, 2, 2, 0, 0, 0, 1], vec![4, 0, 3, 1, 2, 1, 0, 0, 0, 1]][variant % 2].clone(),
        10 => [vec![4, 8, 24, 1, 0, 0, 0, 0, 0, 1], vec![2, 12, 30, 2, 0, 0, 0, 0, 3, 1]][variant % 2].clone(),
        11 => vec![3, 8, 24, 0, 0, 0, 0, 0, 0, 1],
        12 => vec![4, 8, 24, 2, 0, 0, 0, 0, 0, 1],
        13 => vec![1, 8, 24, 0, 0, 0, 0, 0, 0, 1],
        14 | 16 | 18 | 24 => [vec![2, 8, 24, 2, 1, 2, 1, 0, 0, 1], vec![4, 8, 24, 1, 2, 1, 2, 0, 0, 1]][variant % 2].clone(),
        19 | 25 => { let mut v = [vec![2, 8, 24, 1, 1, 2, 1, 0, 0, 1], vec![2, 8, 24, 2, 2, 1, 2, 0, 0, 1]][variant % 2].clone(); v[8] = 1 + variant as i128; v }
        15 | 17 | 20 | 26 => [vec![2, 8, 24, 1, 1, 2, 1, 0, 0, 1], vec![2, 8, 24, 2, 2, 1, 2, 0, 0, 1]][variant % 2].clone(),
        21 | 27 => vec![2, 8, 24, 1, 2, 2, 1, 0, 0, 1],
        22 | 28 => vec![2, 8, 24, 1, 1, 2, 1, 0, 0, 1],
        23 | 29 => vec![2, 8, 24, 2, 1, 2, 1, 0, 0, 1],
        30 => vec![4, 8, 24, 1, 0, 0, 0, 0, 0, 1],
        40 | 41 => vec![2, 8, 24, 2, 2, 1, 1, 0, 0, 1],
        42 | 43 => vec![2, 8, 16, 1, 1, 1, 1, 3, 0, 1],
        50 => vec![4, 8, 16, 1, 1, 1, 1, 2, 0, 1],
        _ => vec![4, 8, 16, 1, 1, 1, 1, 2, (variant % 2) as i128, 1],
    }
}

fn nvariants(tcode: i128) -> usize {
    match tcode { 1 => 3, 19 | 25 => 4, 2 | 3 | 10 | 14..=18 | 20 | 24 | 26 | 51 => 2, _ => 1 }
}

/// same type, more capacity / less capacity / same capacity with other dimensions
fn resized(tcode: i128, sh: &[i128], how: i32) -> Vec<i128> {
    let mut s = sh.to_vec();
    s[9] = 2;
    match (tcode, how) {
        (_, 0) => {}
        (1, 1) => s[2] += 1,
        (1, -1) => s[2] -= 1,
        (1, 2) => { if s[0] % 2 == 0 { s[0] /= 2; s[3] *= 2; } else { s[0] *= 1; } }
        (2, 1) => s[3] += 1,
        (2, -1) => { if s[3] > 1 { s[3] -= 1 } else { s[0] /= 2 } }
        (2, 2) => { s[0] /= 2; s[3] *= 2; }
        (3, 1) => s[2] += 1,
        (3, -1) => s[2] -= 1,
        (3, 2) => { let t = s[3]; s[3] = s[4]; s[4] = t; }
        (_, 1) => { s[2] += s[1]; if tcode == 10 { s[8] = 0; } }          // one more limb
        (_, -1) => { s[2] -= s[1]; if tcode == 10 { s[8] = 0; } }         // one limb less
        (_, 2) => { s[0] *= 2; }                                          // larger ring
        _ => {}
    }
    s
}

impl Gen {
    /// fresh dump F of a library-allocated object (None if the library panics or refuses: the CONSTRUCT record of the shape reports it)
    fn fresh(tcode: i128, sh: &[i128], with_aux: bool) -> Option<Vec<u8>> {
        catch_unwind(AssertUnwindSafe(|| {
            let mut o = make(tcode, sh);
            if with_aux { apply_aux(tcode, sh, &mut *o); }
            let (w, f) = dump(&*o);
            if w != 0 { return None; }
            let _ = walk(tcode, &f);
            Some(f)
        })).ok().flatten()
    }

    /// (fresh dump F, an honest stream SX = F with every scalar field and every data byte replaced by valid random content).
    /// SX is built by the harness itself (field table `walk`), not by reading anything back through the library.
    fn honest(&mut self, tcode: i128, sh: &[i128]) -> Option<(Vec<u8>, Vec<u8>)> {
        let f = Self::fresh(tcode, sh, false)?;
        let mut sx = f.clone();
        for s in walk(tcode, &f) {
            match s.kind {
                1 => { let v = le(&f, s.off, 4); put(&mut sx, s.off, 4, if v == 0 { self.rng.below(5) } else { 1 + self.rng.below(40) }); }
                2 => { let g = GALOIS[self.gal % GALOIS.len()]; self.gal += 1; put(&mut sx, s.off, 8, g as u64); }
                3 => { for i in 0..32 { sx[s.off + i] = self.rng.next() as u8; } }
                5 => { let t = self.rng.pick(&[0u64, 1, 2, 3, 4, 5]);      // never NONE: the honest stream's dist differs from a fresh receiver's
                       let pay = match t { 0 | 2 | 4 => self.rng.below(1 << 20), 1 | 3 => (0.37f64 + self.rng.below(100) as f64).to_bits() >> 8, _ => 0 };
                       put(&mut sx, s.off, 8, (t << 56) | pay); }
                12 => { for i in 0..s.w { sx[s.off + i] = self.rng.next() as u8; } }
                _ => {}
            }
        }
        Some((f, sx))
    }

    fn construct_rec(&mut self, tcode: i128, sh: &[i128]) {
        let mut ps = vec![self.dbg, tcode];
        ps.extend_from_slice(sh);
        self.out.push(Rec::new(18005, ps, vec![]));
    }

    fn read_rec(&mut self, tcode: i128, rk: i128, sh: &[i128], f: &[u8], pre: Option<&[u8]>, s: &[u8], minfo: [i128; 3]) {
        let mut ps = vec![self.dbg, rk, tcode, pre.is_some() as i128, self.model];
        ps.extend_from_slice(sh);
        ps.extend_from_slice(&minfo);
        let vs = vec![tagged(13, f), tagged(13, pre.unwrap_or(&[])), tagged(13, s)];
        self.out.push(Rec::new(18001, ps, vs));
    }

    fn rt_rec(&mut self, tcode: i128, rk: i128, shx: &[i128], fx: &[u8], sx: Option<&[u8]>, shr: &[i128], fr: &[u8], s0: Option<&[u8]>) {
        let mut ps = vec![self.dbg, rk, tcode, sx.is_some() as i128, self.model, s0.is_some() as i128];
        ps.extend_from_slice(shx);
        ps.extend_from_slice(shr);
        let vs = vec![tagged(13, fx), tagged(13, sx.unwrap_or(&[])), tagged(13, fr), tagged(13, s0.unwrap_or(&[]))];
        self.out.push(Rec::new(18003, ps, vs));
    }

    fn dict(&mut self, kind: u8, v: u64, level: u8, tcode: i128) -> Vec<u64> {
        if level == 0 {
            return match kind {
                1 => vec![0, u32::MAX as u64],
                4 => vec![0, (v as u32).wrapping_add(1) as u64, 4097],
                11 => vec![0, 1, 2],
                _ => vec![0, 1 << 61, v.wrapping_add(1)],
            };
        }
        if kind == 4 && !matches!(tcode, 16 | 17 | 24) {
            return vec![0, 1, (v as u32).wrapping_add(1) as u64, (v as u32).wrapping_sub(1) as u64, 4097, u32::MAX as u64];
        }
        match kind {
            1 => vec![0, 1, 1 << 31, u32::MAX as u64, (v as u32).wrapping_add(1) as u64, (v as u32).wrapping_sub(1) as u64],
            4 => vec![0, 1, (v as u32).wrapping_add(1) as u64, (v as u32).wrapping_sub(1) as u64, 4096, 4097, 1 << 31, u32::MAX as u64],
            11 => vec![0, 1, 2, 255],
            2 | 10 => vec![0, 1, 1 << 63, u64::MAX, v.wrapping_add(1), v.wrapping_sub(1)],
            _ => vec![0, 1, 1 << 31, 1 << 61, u64::MAX, v.wrapping_add(1), v.wrapping_sub(1)],
        }
    }

    fn mutations(&mut self, tcode: i128, sh: &[i128], f: &[u8], pre: Option<&[u8]>, d: &[u8], level: u8) {
        let full = level == 2;
        let slots = walk(tcode, d);
        let nleaf = slots.iter().map(|s| s.leaf).max().unwrap_or(0) + 1;
        let keep_leaf = |l: usize| full || l == 0 || l + 1 == nleaf;
        // 1. every header / wrapper field replaced by the dictionary
        for s in &slots {
            if s.kind == 12 || s.kind == 3 { continue; }
            if matches!(s.kind, 6 | 7 | 8 | 1 | 2 | 4) && !keep_leaf(s.leaf) { continue; }
            if s.kind == 5 {
                let w = le(d, s.off, 8);
                for t in [7u64, 255, (w >> 56) ^ 1] {
                    let mut m = d.to_vec();
                    put(&mut m, s.off, 8, (t << 56) | (w & ((1 << 56) - 1)));
                    self.read_rec(tcode, 0, sh, f, pre, &m, [2, 5, t as i128]);
                }
                continue;
            }
            let v = le(d, s.off, s.w);
            for x in self.dict(s.kind, v, level, tcode) {
                if x == v { continue; }
                let mut m = d.to_vec();
                put(&mut m, s.off, s.w, x);
                let rk = if self.rng.below(4) == 0 { 1 } else { 0 };
                self.read_rec(tcode, rk, sh, f, pre, &m, [2, s.kind as i128, (x & 0xffff_ffff) as i128]);
            }
        }
        // 2. factor combinations whose product overflows usize (first and last leaf)
        for l in 0..nleaf {
            if !(l == 0 || l + 1 == nleaf) { continue; }
            let fs: Vec<Slot> = slots.iter().filter(|s| s.leaf == l && s.kind == 6).cloned().collect();
            let ln: Slot = *slots.iter().find(|s| s.leaf == l && s.kind == 8).unwrap();
            let vals: Vec<u64> = fs.iter().map(|s| le(d, s.off, 8)).collect();
            let mut combos: Vec<(Vec<u64>, u64)> = vec![];
            let ones = |k: usize, a: u64| { let mut v = vec![1u64; fs.len()]; v[k] = a; v };
            for k in 0..fs.len() { combos.push((ones(k, 1 << 61), 0)); }                      // 2^61 * 8 = 2^64 -> 0
            if fs.len() >= 2 {
                let mut v = vec![1u64; fs.len()]; v[0] = 1 << 32; v[1] = 1 << 29; combos.push((v, 0));  // 2^61 * 8
                let mut v = vec![1u64; fs.len()]; v[0] = 1 << 63; v[1] = 2; combos.push((v, 0));        // first product overflows
                let mut v = vals.clone(); v[0] = 1 << 63; v[1] = 4; combos.push((v, 0));
            }
            // the wrapped product equals the honest length: n' = n + 2^64 / (8 * other factors) when that is a power of two
            for k in 0..fs.len() {
                let others: u128 = vals.iter().enumerate().filter(|(i, _)| *i != k).map(|(_, x)| *x as u128).product::<u128>() * 8;
                if others > 0 && others.is_power_of_two() && others <= 1 << 63 {
                    let mut v = vals.clone();
                    v[k] = v[k].wrapping_add(((1u128 << 64) / others) as u64);
                    combos.push((v, le(d, ln.off, 8)));
                }
            }
            for (v, len) in combos {
                let mut m = d.to_vec();
                for (s, x) in fs.iter().zip(v.iter()) { put(&mut m, s.off, 8, *x); }
                put(&mut m, ln.off, 8, len);
                self.read_rec(tcode, 0, sh, f, pre, &m, [3, l as i128, 0]);
            }
        }
        // 3. truncation: every point up to the end of the first leaf header, every slot boundary +-1, a few inside data
        let first_data = slots.iter().find(|s| s.kind == 12).map(|s| s.off).unwrap_or(d.len());
        let mut cuts: Vec<usize> = (0..=first_data.min(d.len()).min(if level == 0 { 12 } else { 72 })).collect();
        for s in &slots {
            if s.kind == 3 && level < 2 { continue; }
            for c in [s.off.wrapping_sub(1), s.off, s.off + 1, s.off + s.w / 2] { if c < d.len() { cuts.push(c); } }
        }
        if d.len() > 0 { cuts.push(d.len() - 1); }
        cuts.sort();
        cuts.dedup();
        let maxcuts = [24usize, 60, 110][level as usize];
        if cuts.len() > maxcuts {
            let lim = first_data.min(24);
            let keep: Vec<usize> = cuts.iter().cloned().filter(|c| *c <= lim).collect();
            let mut rest: Vec<usize> = cuts.iter().cloned().filter(|c| *c > lim).collect();
            while keep.len() + rest.len() > maxcuts && !rest.is_empty() { let i = self.rng.below(rest.len() as u64) as usize; rest.remove(i); }
            cuts = keep; cuts.extend(rest);
        }
        for (i, c) in cuts.iter().enumerate() {
            let rk = [0, 1, 0, 2][i % 4];
            self.read_rec(tcode, rk, sh, f, pre, &d[..*c], [1, 0, *c as i128]);
        }
        // 4. byte flips
        for _ in 0..(if level == 0 { 2 } else { 6 }) {
            if d.is_empty() { break; }
            let i = self.rng.below(d.len() as u64) as usize;
            let mut m = d.to_vec();
            m[i] ^= 1 << self.rng.below(8);
            self.read_rec(tcode, 0, sh, f, pre, &m, [4, 0, i as i128]);
        }
        // 5. trailing garbage is left in the stream
        let mut m = d.to_vec();
        m.extend_from_slice(&[1, 2, 3]);
        self.read_rec(tcode, 0, sh, f, pre, &m, [5, 0, 0]);
    }

    fn for_type(&mut self, tcode: i128, tier: &str) {
        let nvar = nvariants(tcode);
        for variant in 0..nvar {
            let shx = base_shape(tcode, variant);
            // allocation + write_to of the shape itself is a record of its own (a base shape must always be constructible)
            self.construct_rec(tcode, &shx);
            let Some((fx, sx)) = self.honest(tcode, &shx) else { continue };
            let has_aux = (tcode == 1 || tcode == 10) && shx[8] > 0;
            let sxo: Option<&[u8]> = if has_aux { None } else { Some(&sx) };
            // the honest stream of x: SX itself (fields and data random), or the dump of the object with its active size reduced
            let d: Vec<u8> = if has_aux { match Self::fresh(tcode, &shx, true) { Some(d) => d, None => continue } } else { sx.clone() };
            let composite = tcode >= 40;
            for how in [0, 1, -1, 2] {
                if tcode == 13 && how == 2 { continue; }
                let shr = resized(tcode, &shx, how);
                if !valid_shape(tcode, &shr) { continue; }
                let Some(fr) = Self::fresh(tcode, &shr, false) else { continue };
                // a smaller honest object first, so that the receiver's dimensions differ from its capacity
                let small = resized(tcode, &shr, -1);
                let s0: Option<Vec<u8>> = if valid_shape(tcode, &small) && !(composite && how != 0) { self.honest(tcode, &small).map(|q| q.1) } else { None };
                for rk in [0, 1] {
                    self.rt_rec(tcode, rk, &shx, &fx, sxo, &shr, &fr, None);
                }
                if let Some(s0) = &s0 { self.rt_rec(tcode, 0, &shx, &fx, sxo, &shr, &fr, Some(s0)); }
                self.rt_rec(tcode, 2, &shx, &fx, None, &shr, &fr, None);
                let light = matches!(tcode, 20 | 21 | 22 | 23 | 26 | 27 | 28 | 29);
                let level: u8 = if tier == "thorough" { 2 } else if light { 0 } else if composite || variant > 0 { 1 } else { 2 };
                if how == 0 {
                    self.mutations(tcode, &shr, &fr, None, &d, level);
                } else if how == 1 && variant == 0 && (tier == "thorough" || matches!(tcode, 1 | 2 | 3 | 10 | 14 | 16)) {
                    let pre = s0.clone();
                    self.mutations(tcode, &shr, &fr, pre.as_deref(), &d, level.min(1));
                } else {
                    self.read_rec(tcode, 0, &shr, &fr, None, &d, [0, 0, 0]);
                    self.read_rec(tcode, 1, &shr, &fr, None, &d[..d.len() / 2], [1, 0, (d.len() / 2) as i128]);
                }
            }
        }
    }

    fn max_size_cases(&mut self) {
        // VecZnx / GLWE written with max_size > size into receivers of exactly `size` limbs, and tampered max_size
        for tcode in [1i128, 10] {
            let shx = if tcode == 1 { vec![2, 0, 5, 2, 0, 0, 0, 0, 4, 1] } else { vec![2, 8, 40, 1, 0, 0, 0, 0, 4, 1] };
            let shr = if tcode == 1 { vec![2, 0, 3, 2, 0, 0, 0, 0, 0, 2] } else { vec![2, 8, 24, 1, 0, 0, 0, 0, 0, 2] };
            self.construct_rec(tcode, &shx);
            let (Some(fx), Some(fr)) = (Self::fresh(tcode, &shx, false), Self::fresh(tcode, &shr, false)) else { continue };
            for rk in [0, 1] { self.rt_rec(tcode, rk, &shx, &fx, None, &shr, &fr, None); }
            self.read_rec(tcode, 0, &shr, &fr, None, &fx, [6, 7, 0]);
        }
    }

    fn write_cases(&mut self) {
        for tcode in [1i128, 2, 3] {
            let nh = match tcode { 1 => 4, 2 => 2, _ => 5 };
            for _ in 0..40 {
                let mut h: Vec<i128> = (0..nh).map(|_| self.rng.range(0, 3) as i128).collect();
                if tcode == 1 { h[3] = h[2] + self.rng.range(0, 2) as i128; }
                let exact: i128 = match tcode { 1 => h[0] * h[1] * h[2] * 8, 2 => h[0] * h[1] * 8, _ => h.iter().product::<i128>() * 8 };
                let len = match self.rng.below(4) { 0 => exact, 1 if tcode != 3 => (exact - 1 - self.rng.below(8) as i128).max(0), 2 => exact + 8 * self.rng.below(4) as i128, _ => exact };
                let data: Vec<u8> = (0..len).map(|_| self.rng.next() as u8).collect();
                let mut ps = vec![self.dbg, tcode];
                ps.extend(h);
                let mut dv = vec![15];
                dv.extend(bytes128(&data));
                self.out.push(Rec::new(18002, ps, vec![dv]));
            }
        }
    }

    fn dist_cases(&mut self) {
        for tag in 0..7i128 {
            let mut pays: Vec<u64> = vec![0, 1, 255, 256, (1 << 56) - 1, 1 << 56, (1 << 56) + 5, 3 << 56, 7 << 56, u64::MAX >> 1,
                                          0.5f64.to_bits(), 0.1f64.to_bits(), (2.0f64 / 3.0).to_bits(), 1.0f64.to_bits(), f64::INFINITY.to_bits(), (-0.25f64).to_bits()];
            for _ in 0..6 { pays.push(self.rng.next() >> self.rng.below(40)); }
            for _ in 0..4 { pays.push((self.rng.below(1 << 52) as f64 / (1u64 << 52) as f64).to_bits()); }
            for q in pays {
                if (tag == 1 || tag == 3) && f64::from_bits(q).is_nan() { continue; }
                self.out.push(Rec::new(18004, vec![tag, q as i128, self.model], vec![]));
            }
        }
    }
}

pub fn generate(tier: &str, seed: u64) -> Vec<Rec> {
    let model = match std::env::var("C18_MODEL").as_deref() { Ok("fixed") => 1, Ok("staged") => 2, _ => 0 };
    let mut g = Gen { rng: Rng::new(seed), out: vec![], dbg: overflow_checks_on() as i128, model, gal: 0 };
    for t in ALL_TYPES { g.for_type(*t, tier); }
    g.max_size_cases();
    g.write_cases();
    g.dist_cases();
    g.out
}

/// `probe <tcode> <seed_len>`: a compressed object reads a stream whose seed count is `seed_len` and nothing else;
/// prints `outcome seeds_after` (run in a separate process: the allocation may abort)
fn probe(args: &[String]) {
    let tcode: i128 = args[2].parse().unwrap();
    let cnt: u32 = args[3].parse().unwrap();
    let sh = base_shape(tcode, 0);
    let mut o = make(tcode, &sh);
    let f = dump(&*o).1;
    let slot = walk(tcode, &f).into_iter().find(|s| s.kind == 4).expect("no seed vector in this type");
    let mut s = f[..slot.off + 4].to_vec();
    put(&mut s, slot.off, 4, cnt as u64);
    let before = o.nseeds();
    let oc = rd(&mut *o, 0, &s);
    println!("probe tcode={tcode} seed_len={cnt} outcome={:?} seeds_before={before} seeds_after={}", oc, o.nseeds());
}

/// process the records of `inp` from index `start` on, one output line per record, flushed at once
fn worker(inp: &str, out: &str, start: usize) {
    let dbg = overflow_checks_on() as i128;
    let rd = std::io::BufReader::new(std::fs::File::open(inp).unwrap());
    let mut f = std::fs::OpenOptions::new().append(true).create(true).open(out).unwrap();
    for line in rd.lines().skip(start) {
        let line = line.unwrap();
        if let Some(mut r) = Rec::parse(&line) {
            // the build profile of THIS binary decides the arithmetic: the dbg flag of a replayed record is rewritten
            if r.code != 18004 && !r.ps.is_empty() { r.ps[0] = dbg; }
            let o = exec(&r);
            f.write_all(r.line(&o).as_bytes()).unwrap();
            f.write_all(b"\n").unwrap();
        } else {
            f.write_all(b"malformed\n").unwrap();
        }
    }
}

/// run workers until every input record has an output line; a record that kills its worker (abort) gets `PANIC:abort`
fn supervise(inp: &str, out: &str) {
    let _ = std::fs::remove_file(out);
    std::fs::File::create(out).unwrap();
    let inputs: Vec<String> = std::io::BufReader::new(std::fs::File::open(inp).unwrap()).lines().map(|l| l.unwrap()).collect();
    let me = std::env::current_exe().unwrap();
    let dbg = overflow_checks_on() as i128;
    loop {
        let done = std::io::BufReader::new(std::fs::File::open(out).unwrap()).lines().count();
        if done >= inputs.len() { break; }
        let st = std::process::Command::new(&me).args(["worker", inp, out, &done.to_string()]).stderr(std::process::Stdio::piped()).output().unwrap();
        let now = std::io::BufReader::new(std::fs::File::open(out).unwrap()).lines().count();
        if now >= inputs.len() { break; }
        if st.status.success() { panic!("c18: worker stopped early without failing"); }
        // the record at index `now` killed the worker
        let msg = String::from_utf8_lossy(&st.stderr).lines().find(|l| l.contains("memory allocation")).unwrap_or("").to_string();
        let mut f = std::fs::OpenOptions::new().append(true).open(out).unwrap();
        let line = match Rec::parse(&inputs[now]) {
            Some(mut r) => { if r.code != 18004 && !r.ps.is_empty() { r.ps[0] = dbg; } r.line(&Err(format!("abort {:?} {}", st.status.code(), msg))) }
            None => "malformed".to_string(),
        };
        writeln!(f, "{line}").unwrap();
    }
}

/// `zero`: a GGSW reads a stream whose base2k resp. dsize word is 0 (accepted), then a scratch-size query is made
fn probe_zero() {
    use poulpy_core::api::GLWEExternalProduct;
    use poulpy_core::layouts::GLWELayout;
    let sh = base_shape(15, 0);
    for (what, off) in [("base2k", 0usize), ("dsize", 4usize)] {
        let mut g = GGSW::alloc(Degree(sh[0] as u32), Base2K(sh[1] as u32), TorusPrecision(sh[2] as u32), Rank(sh[3] as u32), Dnum(sh[5] as u32), Dsize(sh[6] as u32));
        let mut w = Vec::new();
        g.write_to(&mut w).unwrap();
        put(&mut w, off, 4, 0);
        let oc = g.read_from(&mut Cursor::new(&w[..])).is_ok();
        let m = poulpy_verif_harness::hal::module::<poulpy_cpu_ref::FFT64Ref>(sh[0] as usize);
        let lay = GLWELayout { n: Degree(sh[0] as u32), base2k: Base2K(8), k: TorusPrecision(24), rank: Rank(sh[3] as u32) };
        let r = catch_unwind(AssertUnwindSafe(|| m.glwe_external_product_tmp_bytes(&lay, &lay, &g)));
        println!("zero {what}: read_from ok={oc}; glwe_external_product_tmp_bytes -> {:?}", r.map_err(panic_class));
    }
}

/// CONSTRUCT records of every base shape of the grid: built from the shape table only, no library call
fn fallback_list() -> Vec<Rec> {
    let mut out = vec![];
    for t in ALL_TYPES {
        for v in 0..nvariants(*t) {
            let mut ps = vec![0, *t];
            ps.extend(base_shape(*t, v));
            out.push(Rec::new(18005, ps, vec![]));
        }
    }
    out
}

/// writes the input records (no outputs) to `out`; returns their number
fn make_list(tier: &str, seed: &str, out: &str) -> usize {
    let me = std::env::current_exe().unwrap();
    let _ = std::fs::remove_file(out);
    let st = std::process::Command::new(&me).args(["genlist", tier, seed, out]).stderr(std::process::Stdio::null()).status();
    let ok = matches!(st, Ok(s) if s.success());
    if !ok {
        let mut f = std::io::BufWriter::new(std::fs::File::create(out).unwrap());
        for r in fallback_list() { writeln!(f, "{}", r.line(&Ok(vec![]))).unwrap(); }
    }
    std::io::BufReader::new(std::fs::File::open(out).unwrap()).lines().count()
}

fn main() {
    if std::env::var("C18_TRACE").is_err() { std::panic::set_hook(Box::new(|_| {})); }
    let args: Vec<String> = std::env::args().collect();
    let mode = args.get(1).map(|s| s.as_str()).unwrap_or("");
    match mode {
        // the record list is produced by a child process: whatever the library does while objects are allocated and
        // written for the inputs (panic, abort, signal), this process survives and falls back to the CONSTRUCT records
        // of the grid, which then fail one by one inside the guarded workers
        "genlist" => {
            if std::env::var("C18_SELFTEST_GENFAIL").is_ok() { std::process::abort(); }     // self-test of the fallback below
            let recs = generate(&args[2], args[3].parse().unwrap());
            let mut f = std::io::BufWriter::new(std::fs::File::create(&args[4]).unwrap());
            for r in &recs { writeln!(f, "{}", r.line(&Ok(vec![]))).unwrap(); }
        }
        "list" => { make_list(&args[2], &args[3], &args[4]); }
        "gen" => {
            let inp = format!("{}.in", args[4]);
            let n = make_list(&args[2], &args[3], &inp);
            supervise(&inp, &args[4]);
            let _ = std::fs::remove_file(&inp);
            eprintln!("harness: {} records", n);
        }
        "exec" => supervise(&args[2], &args[3]),
        "worker" => worker(&args[2], &args[3], args[4].parse().unwrap()),
        "probe" => probe(&args),
        "zero" => probe_zero(),
        _ => {
            eprintln!("usage: c18 gen <tier> <seed> <out> | list <tier> <seed> <out> | exec <in> <out> | probe <tcode> <seed_len>");
            std::process::exit(2);
        }
    }
}
