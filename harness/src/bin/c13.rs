//! C13: the statically compiled BDD circuit tables of poulpy-bin-fhe (11 u32 word operations), evaluated in
//! plain `bool` with exactly the slot discipline of `eval_level` (poulpy-bin-fhe/src/bdd_arithmetic/eval.rs).
//!
//! The tables `circuits::u32::<op>_codegen::OUTPUT_CIRCUITS` are pub(crate).  They are reached without any hook:
//! the public word-operation traits (`Add`, `Sub`, ...) take a *generic* module `M: ExecuteBDDCircuit2WTo1W<BE>`
//! and hand `&OUTPUT_CIRCUITS` to `M::execute_bdd_circuit_2w_to_1w_tmp_bytes`; `Spy` below implements that trait and
//! copies the table it is handed through the public `GetBitCircuitInfo` interface (`Identity` goes through
//! `ExecuteBDDCircuit1WTo1W::execute_bdd_circuit_1w_to_1w` the same way).
//!
//! records (op: add=1 sub=2 sll=3 srl=4 sra=5 slt=6 sltu=7 and=8 or=9 xor=10 identity=11)
//!   13200+op  ps=[] vs=[]            -> [[input_size, output_size], [max_inter_state, enc(node)...] per output bit]
//!                                       enc(None)=0 enc(Copy)=1 enc(Cmux(v,hi,lo)) = 2 + v + 2^16 hi + 2^32 lo
//!   13000+op  ps=[] vs=[a.., b..]    -> [[table word for every pair]]
//!   13100+op  ps=[n, sub_seed] vs=[] -> [[mismatch_count, first_a, first_b, first_got, first_expected]] vs native Rust op
//!   13300+op  (op <= 10)             -> [[1]] after one real homomorphic evaluation (public test_suite::test_bdd_<op>) passed
//!
//! testing only: `VERIF_C13_SRC=<dir>` replaces the compiled tables by a textual parse of `<dir>/*_codegen.rs`.
use poulpy_bin_fhe::bdd_arithmetic::{
    Add, And, BitSize, ExecuteBDDCircuit, ExecuteBDDCircuit1WTo1W, ExecuteBDDCircuit2WTo1W, FheUint, FheUintPrepared,
    GetBitCircuitInfo, GetGGSWBit, Identity, Node, Or, Sll, Slt, Sltu, Sra, Srl, Sub, UnsignedInteger, Xor,
};
use poulpy_core::ScratchTakeCore;
use poulpy_core::api::{GLWECopy, GLWEPacking};
use poulpy_core::layouts::{
    Base2K, Degree, Dnum, Dsize, GGLWEInfos, GGLWEPreparedToRef, GGSWInfos, GGSWLayout, GLWE, GLWEAutomorphismKeyHelper,
    GLWEAutomorphismKeyPrepared, GLWEInfos, GLWELayout, GLWEToMut, GetGaloisElement, Rank, TorusPrecision,
};
use poulpy_cpu_ref::FFT64Ref;
use poulpy_hal::api::{ModuleLogN, ModuleN, ModuleNew, ScratchOwnedAlloc, ScratchOwnedBorrow, VecZnxCopy, VecZnxZero};
use poulpy_hal::layouts::{DataMut, DataRef, DeviceBuf, Module, Scratch, ScratchOwned, VecZnxToMut, VecZnxToRef};
use poulpy_verif_harness::rec::*;
use std::collections::HashMap;
use std::sync::{Mutex, OnceLock};

type BE = FFT64Ref;

const OPS: [&str; 11] = ["add", "sub", "sll", "srl", "sra", "slt", "sltu", "and", "or", "xor", "identity"];
const OP_IDENTITY: usize = 11;

// ------------------------------------------------------------------------------------------------------------
// owned copy of a circuit table
// ------------------------------------------------------------------------------------------------------------

#[derive(Clone, Copy, Debug, PartialEq, Eq)]
enum Nd {
    Cmux(usize, usize, usize),
    Copy,
    None,
}

#[derive(Clone, Debug)]
struct Table {
    input_size: usize,
    output_size: usize,
    /// one (nodes, max_inter_state) per output bit, `output_size` of them
    circuits: Vec<(Vec<Nd>, usize)>,
}

fn copy_table<C: GetBitCircuitInfo>(c: &C) -> Table {
    let input_size = c.input_size();
    let output_size = c.output_size();
    let circuits = (0..output_size)
        .map(|bit| {
            let (nodes, st) = c.get_circuit(bit);
            let nds = nodes
                .iter()
                .map(|n| match n {
                    Node::Cmux(v, hi, lo) => Nd::Cmux(*v, *hi, *lo),
                    Node::Copy => Nd::Copy,
                    Node::None => Nd::None,
                })
                .collect();
            (nds, st)
        })
        .collect();
    Table { input_size, output_size, circuits }
}

// ------------------------------------------------------------------------------------------------------------
// Spy: a "module" whose only working methods record the circuit they are handed
// ------------------------------------------------------------------------------------------------------------

struct Spy {
    captured: Mutex<Option<Table>>,
}

impl Spy {
    fn new() -> Self { Spy { captured: Mutex::new(None) } }
    fn take(&self) -> Table { self.captured.lock().unwrap().take().expect("c13: spy captured nothing") }
}

impl ModuleN for Spy {
    fn n(&self) -> usize { 1024 }
}
impl ModuleLogN for Spy {}
impl VecZnxCopy for Spy {
    fn vec_znx_copy<R, A>(&self, _res: &mut R, _res_col: usize, _a: &A, _a_col: usize)
    where
        R: VecZnxToMut,
        A: VecZnxToRef,
    {
        unimplemented!("spy")
    }
}
impl VecZnxZero for Spy {
    fn vec_znx_zero<R>(&self, _res: &mut R, _res_col: usize)
    where
        R: VecZnxToMut,
    {
        unimplemented!("spy")
    }
}
impl GLWECopy for Spy {}
impl GLWEPacking<BE> for Spy {
    fn glwe_pack_galois_elements(&self) -> Vec<i64> { unimplemented!("spy") }
    fn glwe_pack_tmp_bytes<R, K>(&self, _res: &R, _key: &K) -> usize
    where
        R: GLWEInfos,
        K: GGLWEInfos,
    {
        unimplemented!("spy")
    }
    fn glwe_pack<R, A, K, H>(
        &self,
        _res: &mut R,
        _a: HashMap<usize, &mut A>,
        _log_gap_out: usize,
        _keys: &H,
        _scratch: &mut Scratch<BE>,
    ) where
        R: GLWEToMut + GLWEInfos,
        A: GLWEToMut + GLWEInfos,
        K: GGLWEPreparedToRef<BE> + GetGaloisElement + GGLWEInfos,
        H: GLWEAutomorphismKeyHelper<K, BE>,
    {
        unimplemented!("spy")
    }
}
impl ExecuteBDDCircuit<BE> for Spy {
    fn execute_bdd_circuit_tmp_bytes<R, G>(&self, _res_infos: &R, _state_size: usize, _ggsw_infos: &G) -> usize
    where
        R: GLWEInfos,
        G: GGSWInfos,
    {
        unimplemented!("spy")
    }
    fn execute_bdd_circuit_multi_thread<C, G, O>(
        &self,
        _threads: usize,
        _out: &mut [GLWE<O>],
        _inputs: &G,
        _circuit: &C,
        _scratch: &mut Scratch<BE>,
    ) where
        G: GetGGSWBit<BE> + BitSize,
        C: GetBitCircuitInfo,
        O: DataMut,
    {
        unimplemented!("spy")
    }
}
impl ExecuteBDDCircuit2WTo1W<BE> for Spy {
    fn execute_bdd_circuit_2w_to_1w_tmp_bytes<C, T, R, G, K, H>(&self, circuit: &C, _res_infos: &R, _ggsw_infos: &G, _key: &H) -> usize
    where
        C: GetBitCircuitInfo,
        T: UnsignedInteger,
        R: GLWEInfos,
        G: GGSWInfos,
        K: GGLWEPreparedToRef<BE> + GetGaloisElement + GGLWEInfos,
        H: GLWEAutomorphismKeyHelper<K, BE>,
    {
        *self.captured.lock().unwrap() = Some(copy_table(circuit));
        0
    }
}
impl ExecuteBDDCircuit1WTo1W<BE> for Spy {
    fn execute_bdd_circuit_1w_to_1w<R, C, A, K, H, T>(
        &self,
        _out: &mut FheUint<R, T>,
        circuit: &C,
        _a: &FheUintPrepared<A, T, BE>,
        _key: &H,
        _scratch: &mut Scratch<BE>,
    ) where
        T: UnsignedInteger,
        C: GetBitCircuitInfo,
        R: DataMut,
        A: DataRef,
        K: GGLWEPreparedToRef<BE> + GetGaloisElement + GGLWEInfos,
        H: GLWEAutomorphismKeyHelper<K, BE>,
        Scratch<BE>: ScratchTakeCore<BE>,
    {
        *self.captured.lock().unwrap() = Some(copy_table(circuit));
    }
}

type Keys = HashMap<i64, GLWEAutomorphismKeyPrepared<Vec<u8>, BE>>;

fn compiled_tables() -> Vec<Table> {
    const N: u32 = 64;
    let glwe_infos = GLWELayout { n: Degree(N), base2k: Base2K(13), k: TorusPrecision(26), rank: Rank(1) };
    let ggsw_infos = GGSWLayout { n: Degree(N), base2k: Base2K(13), k: TorusPrecision(39), rank: Rank(1), dnum: Dnum(2), dsize: Dsize(1) };
    let keys: Keys = HashMap::new(); // never consulted: the spy overrides do not touch the key helper
    let spy = Spy::new();
    let x: FheUint<Vec<u8>, u32> = FheUint::<Vec<u8>, u32>::alloc_from_infos(&glwe_infos);
    let mut out = Vec::with_capacity(11);
    macro_rules! two_word {
        ($tr:ident, $m:ident) => {{
            let _ = <FheUint<Vec<u8>, u32> as $tr<u32, BE>>::$m(&x, &spy, &glwe_infos, &ggsw_infos, &keys);
            out.push(spy.take());
        }};
    }
    two_word!(Add, add_tmp_bytes);
    two_word!(Sub, sub_tmp_bytes);
    two_word!(Sll, sll_tmp_bytes);
    two_word!(Srl, srl_tmp_bytes);
    two_word!(Sra, sra_tmp_bytes);
    two_word!(Slt, slt_tmp_bytes);
    two_word!(Sltu, sltu_tmp_bytes);
    two_word!(And, and_tmp_bytes);
    two_word!(Or, or_tmp_bytes);
    two_word!(Xor, xor_tmp_bytes);
    {
        // identity has no *_tmp_bytes: call the operation itself, the spy returns before touching any ciphertext
        let module: Module<BE> = Module::<BE>::new(N as u64);
        let a: FheUintPrepared<DeviceBuf<BE>, u32, BE> = FheUintPrepared::<DeviceBuf<BE>, u32, BE>::alloc_from_infos(&module, &ggsw_infos);
        let mut res: FheUint<Vec<u8>, u32> = FheUint::<Vec<u8>, u32>::alloc_from_infos(&glwe_infos);
        let mut scratch: ScratchOwned<BE> = ScratchOwned::<BE>::alloc(1 << 12);
        <FheUint<Vec<u8>, u32> as Identity<u32, BE>>::identity(&mut res, &spy, &a, &keys, scratch.borrow());
        out.push(spy.take());
    }
    out
}

// ------------------------------------------------------------------------------------------------------------
// testing only: textual parse of the generated sources
// ------------------------------------------------------------------------------------------------------------

/// removes `//` and (nested) `/* */` comments and every whitespace character
fn compact(src: &str) -> Vec<u8> {
    let b = src.as_bytes();
    let mut out = Vec::with_capacity(b.len());
    let mut i = 0;
    while i < b.len() {
        if b[i] == b'/' && i + 1 < b.len() && b[i + 1] == b'/' {
            while i < b.len() && b[i] != b'\n' { i += 1; }
        } else if b[i] == b'/' && i + 1 < b.len() && b[i + 1] == b'*' {
            let mut depth = 1;
            i += 2;
            while i < b.len() && depth > 0 {
                if b[i] == b'/' && i + 1 < b.len() && b[i + 1] == b'*' { depth += 1; i += 2; }
                else if b[i] == b'*' && i + 1 < b.len() && b[i + 1] == b'/' { depth -= 1; i += 2; }
                else { i += 1; }
            }
        } else if b[i].is_ascii_whitespace() {
            i += 1;
        } else {
            out.push(b[i]);
            i += 1;
        }
    }
    out
}

struct Scan<'a> {
    s: &'a [u8],
    p: usize,
    file: &'a str,
}

impl<'a> Scan<'a> {
    fn fail(&self, what: &str) -> ! {
        let end = (self.p + 40).min(self.s.len());
        panic!("c13 parse {}: expected {} at offset {} near '{}'", self.file, what, self.p, String::from_utf8_lossy(&self.s[self.p.min(end)..end]))
    }
    fn looking_at(&self, t: &str) -> bool { self.s[self.p..].starts_with(t.as_bytes()) }
    fn eat(&mut self, t: &str) -> bool {
        if self.looking_at(t) { self.p += t.len(); true } else { false }
    }
    fn expect(&mut self, t: &str) {
        if !self.eat(t) { self.fail(t) }
    }
    /// position just after the next occurrence of `t` at or after the cursor
    fn find(&mut self, t: &str) -> bool {
        let tb = t.as_bytes();
        let mut i = self.p;
        while i + tb.len() <= self.s.len() {
            if &self.s[i..i + tb.len()] == tb { self.p = i + tb.len(); return true; }
            i += 1;
        }
        false
    }
    /// decimal literal, `_` separators and an optional `usize` suffix tolerated
    fn number(&mut self) -> usize {
        let mut v: usize = 0;
        let mut any = false;
        while self.p < self.s.len() && (self.s[self.p].is_ascii_digit() || (any && self.s[self.p] == b'_')) {
            if self.s[self.p] != b'_' {
                v = v.checked_mul(10).and_then(|x| x.checked_add((self.s[self.p] - b'0') as usize)).unwrap_or_else(|| self.fail("number in range"));
            }
            any = true;
            self.p += 1;
        }
        if !any { self.fail("number") }
        self.eat("usize");
        v
    }
}

fn parse_table(file: &str, src: &str) -> Table {
    let s = compact(src);
    let mut sc = Scan { s: &s, p: 0, file };
    if !sc.find("INPUT_BITS:usize=") { sc.fail("INPUT_BITS") }
    let input_size = sc.number();
    sc.p = 0;
    if !sc.find("OUTPUT_BITS:usize=") { sc.fail("OUTPUT_BITS") }
    let output_size = sc.number();
    sc.p = 0;
    let mut circuits: Vec<(Vec<Nd>, usize)> = Vec::new();
    while sc.find("AnyBitCircuit::B") {
        if sc.p >= sc.s.len() || !sc.s[sc.p].is_ascii_digit() { continue; }
        let _k = sc.number();
        if !sc.eat("(BitCircuit::new(") { continue; } // a match arm or the enum declaration, not a table entry
        sc.expect("[");
        let mut nodes = Vec::new();
        loop {
            if sc.eat("]") { break; }
            if sc.eat("Node::Cmux(") {
                let v = sc.number();
                sc.expect(",");
                let hi = sc.number();
                sc.expect(",");
                let lo = sc.number();
                sc.eat(",");
                sc.expect(")");
                nodes.push(Nd::Cmux(v, hi, lo));
            } else if sc.eat("Node::Copy") {
                nodes.push(Nd::Copy);
            } else if sc.eat("Node::None") {
                nodes.push(Nd::None);
            } else {
                sc.fail("Node::Cmux / Node::Copy / Node::None / ]");
            }
            if !sc.eat(",") {
                sc.expect("]");
                break;
            }
        }
        sc.expect(",");
        let st = sc.number();
        sc.eat(",");
        sc.expect(")");
        circuits.push((nodes, st));
    }
    // the compiled table is only visible through get_circuit(0..output_size): same view here
    assert!(circuits.len() >= output_size, "c13 parse {}: {} circuits < OUTPUT_BITS {}", file, circuits.len(), output_size);
    circuits.truncate(output_size);
    Table { input_size, output_size, circuits }
}

fn parsed_tables(dir: &str) -> Vec<Table> {
    OPS.iter()
        .map(|op| {
            let name = if *op == "identity" { "identity_codgen.rs".to_string() } else { format!("{op}_codegen.rs") };
            let path = format!("{}/{}", dir.trim_end_matches('/'), name);
            let src = std::fs::read_to_string(&path).unwrap_or_else(|e| panic!("c13: cannot read {path}: {e}"));
            parse_table(&name, &src)
        })
        .collect()
}

static TABLES: OnceLock<Vec<Table>> = OnceLock::new();

fn table(op: usize) -> &'static Table {
    assert!((1..=11).contains(&op), "c13: unknown op {op}");
    let t = TABLES.get_or_init(|| match std::env::var("VERIF_C13_SRC") {
        Ok(dir) if !dir.is_empty() => parsed_tables(&dir),
        _ => compiled_tables(),
    });
    &t[op - 1]
}

// ------------------------------------------------------------------------------------------------------------
// evaluator: `eval_level` / `execute_bdd_circuit_multi_thread` (threads = 1) with ciphertexts replaced by lanes.
// `bool` is the plain evaluator; `u64` is 64 independent copies of it (one per bit position), used by the bulk
// records only.  Every index / slot / panic decision depends on the table alone, never on the lane values.
// ------------------------------------------------------------------------------------------------------------

trait Lane: Copy {
    const ZERO: Self;
    const ONE: Self;
    /// value selected by `s` between `hi` (s = 1) and `lo` (s = 0): cmux(res, t = hi, f = lo, s) = (t - f) * s + f
    fn mux(s: Self, hi: Self, lo: Self) -> Self;
}
impl Lane for bool {
    const ZERO: bool = false;
    const ONE: bool = true;
    #[inline(always)]
    fn mux(s: bool, hi: bool, lo: bool) -> bool { if s { hi } else { lo } }
}
impl Lane for u64 {
    const ZERO: u64 = 0;
    const ONE: u64 = !0;
    #[inline(always)]
    fn mux(s: u64, hi: u64, lo: u64) -> u64 { (s & hi) | (!s & lo) }
}

/// `inputs.get_bit(k)`: two-word helper (`FheUintHelper::get_bit`: data[k / 32].get_bit(k % 32), data = [a, b])
/// or the single prepared word of `identity` (`FheUintPrepared::get_bit`: assert k < 32)
#[inline(always)]
fn input_bit<L: Lane>(one_word: bool, a: &[L; 32], b: &[L; 32], k: usize) -> L {
    if one_word {
        assert!(k < 32, "bit index {k} out of bounds, len=32");
        a[k]
    } else {
        let (lo, hi) = (k % 32, k / 32);
        match hi {
            0 => a[lo],
            1 => b[lo],
            _ => panic!("index out of bounds: the len is 2 but the index is {hi}"),
        }
    }
}

/// mirror of `eval_level`
fn eval_level<L: Lane>(nodes: &[Nd], state_size: usize, one_word: bool, a: &[L; 32], b: &[L; 32], prev: &mut Vec<L>, next: &mut Vec<L>) -> L {
    assert!(nodes.len() % state_size == 0);
    // level = 2 * state_size zeroed slots, level[1] = 1; prev = level[..state_size], next = level[state_size..]
    prev.clear();
    prev.resize(state_size, L::ZERO);
    next.clear();
    next.resize(state_size, L::ZERO);
    if state_size == 1 { next[0] = L::ONE } else { prev[1] = L::ONE }

    let (all_but_last, last) = nodes.split_at(nodes.len() - state_size);

    for nodes_lvl in all_but_last.chunks_exact(state_size) {
        for (j, node) in nodes_lvl.iter().enumerate() {
            match node {
                Nd::Cmux(in_idx, hi_idx, lo_idx) => {
                    let hi = prev[*hi_idx];
                    let lo = prev[*lo_idx];
                    let s = input_bit(one_word, a, b, *in_idx);
                    next[j] = L::mux(s, hi, lo);
                }
                Nd::Copy => next[j] = prev[j],
                Nd::None => {}
            }
        }
        std::mem::swap(prev, next);
    }

    match &last[0] {
        Nd::Cmux(in_idx, hi_idx, lo_idx) => {
            let hi = prev[*hi_idx];
            let lo = prev[*lo_idx];
            let s = input_bit(one_word, a, b, *in_idx);
            L::mux(s, hi, lo)
        }
        _ => panic!("invalid last node, should be CMUX"),
    }
}

/// mirror of `execute_bdd_circuit_multi_thread(threads = 1)` on the T::BITS = 32 output slots
fn eval_word<L: Lane>(t: &Table, one_word: bool, a: &[L; 32], b: &[L; 32]) -> [L; 32] {
    let mut out = [L::ZERO; 32];
    // out[..circuit.output_size()].chunks_mut(chunk_size) with chunk_size = output_size.div_ceil(1)
    assert!(t.output_size <= 32, "range end index {} out of range for slice of length 32", t.output_size);
    assert!(t.output_size != 0, "chunk size must be non-zero");
    let mut prev: Vec<L> = Vec::new();
    let mut next: Vec<L> = Vec::new();
    for (i, out_i) in out.iter_mut().enumerate().take(t.output_size) {
        let (nodes, state_size) = &t.circuits[i];
        if *state_size == 0 {
            *out_i = L::ZERO;
        } else {
            *out_i = eval_level(nodes, *state_size, one_word, a, b, &mut prev, &mut next);
        }
    }
    // slots beyond output_size are zeroed
    out
}

fn eval_u32(t: &Table, one_word: bool, a: u32, b: u32) -> u32 {
    let mut ab = [false; 32];
    let mut bb = [false; 32];
    for i in 0..32 {
        ab[i] = (a >> i) & 1 == 1;
        bb[i] = (b >> i) & 1 == 1;
    }
    let o = eval_word::<bool>(t, one_word, &ab, &bb);
    (0..32).fold(0u32, |w, i| w | ((o[i] as u32) << i))
}

/// up to 64 pairs at once, one pair per bit position of the u64 lanes
fn eval_batch(t: &Table, one_word: bool, pairs: &[(u32, u32)]) -> Vec<u32> {
    assert!(pairs.len() <= 64);
    let mut ap = [0u64; 32];
    let mut bp = [0u64; 32];
    for (lane, (a, b)) in pairs.iter().enumerate() {
        for i in 0..32 {
            ap[i] |= (((a >> i) & 1) as u64) << lane;
            bp[i] |= (((b >> i) & 1) as u64) << lane;
        }
    }
    let o = eval_word::<u64>(t, one_word, &ap, &bp);
    (0..pairs.len()).map(|lane| (0..32).fold(0u32, |w, i| w | ((((o[i] >> lane) & 1) as u32) << i))).collect()
}

fn native(op: usize, a: u32, b: u32) -> u32 {
    match op {
        1 => a.wrapping_add(b),
        2 => a.wrapping_sub(b),
        3 => a << (b & 31),
        4 => a >> (b & 31),
        5 => ((a as i32) >> (b & 31)) as u32,
        6 => ((a as i32) < (b as i32)) as u32,
        7 => (a < b) as u32,
        8 => a & b,
        9 => a | b,
        10 => a ^ b,
        11 => a,
        _ => panic!("c13: unknown op {op}"),
    }
}

// ------------------------------------------------------------------------------------------------------------
// input distribution
// ------------------------------------------------------------------------------------------------------------

const CORE: [u32; 9] = [0, 1, 2, 3, 0x7fff_ffff, 0x8000_0000, 0x8000_0001, 0xffff_fffe, 0xffff_ffff];

fn dict(rng: &mut Rng) -> u32 {
    let c = rng.below(4);
    if c == 0 {
        rng.pick(&CORE)
    } else {
        let k = rng.below(32) as u32;
        match c {
            1 => 1u32 << k,
            2 => (1u32 << k).wrapping_sub(1),
            _ => !(1u32 << k),
        }
    }
}

fn draw_pair(rng: &mut Rng) -> (u32, u32) {
    match rng.below(4) {
        0 => (rng.next() as u32, rng.next() as u32),
        1 => (dict(rng), dict(rng)),
        2 => (rng.next() as u32, rng.below(64) as u32),
        _ => {
            let a = if rng.below(2) == 0 { rng.next() as u32 } else { dict(rng) };
            let d = rng.range(-2, 2) as i32;
            (a, a.wrapping_add(d as u32))
        }
    }
}

/// boundary dictionary crossed with itself and with the shift amounts 0..=33, 63, 64
fn structured_pairs(tier: &str) -> Vec<(u32, u32)> {
    let mut shifts: Vec<u32> = (0..=33).collect();
    shifts.extend([63, 64]);
    let mut out = Vec::new();
    for a in CORE {
        for b in CORE { out.push((a, b)); }
    }
    for a in CORE {
        for s in &shifts { out.push((a, *s)); }
    }
    if tier == "thorough" {
        let mut ext: Vec<u32> = Vec::new();
        for k in 0..32u32 {
            ext.extend([1u32 << k, (1u32 << k).wrapping_sub(1), !(1u32 << k)]);
        }
        for a in &ext {
            for s in &shifts { out.push((*a, *s)); }
        }
        for k in 0..32u32 {
            for v in [1u32 << k, (1u32 << k).wrapping_sub(1), !(1u32 << k)] {
                out.extend([(v, v), (v, !v), (v, v.wrapping_neg())]);
            }
        }
    }
    out
}

// ------------------------------------------------------------------------------------------------------------
// records
// ------------------------------------------------------------------------------------------------------------

fn enc(n: &Nd) -> i128 {
    match n {
        Nd::None => 0,
        Nd::Copy => 1,
        Nd::Cmux(v, hi, lo) => 2 + *v as i128 + 65536 * (*hi as i128) + 4294967296 * (*lo as i128),
    }
}

fn run(r: &Rec) -> Vec<Vec<i128>> {
    let code = r.code;
    let op = (code % 100) as usize;
    match code {
        13201..=13211 => {
            let t = table(op);
            let mut out = vec![vec![t.input_size as i128, t.output_size as i128]];
            for (nodes, st) in &t.circuits {
                let mut v = Vec::with_capacity(nodes.len() + 1);
                v.push(*st as i128);
                v.extend(nodes.iter().map(enc));
                out.push(v);
            }
            out
        }
        13001..=13011 => {
            let t = table(op);
            let (al, bl) = (&r.vs[0], &r.vs[1]);
            assert_eq!(al.len(), bl.len(), "c13: a/b lists differ in length");
            let words = al.iter().zip(bl.iter()).map(|(a, b)| eval_u32(t, op == OP_IDENTITY, *a as u32, *b as u32) as i128).collect();
            vec![words]
        }
        13301..=13310 => {
            // one real homomorphic evaluation of the COMPILED circuit (key generation, encryption, circuit
            // bootstrapping, eval_level with the real cmux, decryption) through the crate's public test suite:
            // test_bdd_<op> asserts decrypt(op(enc a, enc b)) == word_op(a, b) on one random pair and panics otherwise.
            // Ties the Cmux(hi, lo) orientation and the input-bit numbering of the model to the real evaluator.
            use poulpy_bin_fhe::bdd_arithmetic::tests::test_suite as ts;
            let ctx = fhe_ctx();
            match op {
                1 => ts::test_bdd_add(ctx),
                2 => ts::test_bdd_sub(ctx),
                3 => ts::test_bdd_sll(ctx),
                4 => ts::test_bdd_srl(ctx),
                5 => ts::test_bdd_sra(ctx),
                6 => ts::test_bdd_slt(ctx),
                7 => ts::test_bdd_sltu(ctx),
                8 => ts::test_bdd_and(ctx),
                9 => ts::test_bdd_or(ctx),
                _ => ts::test_bdd_xor(ctx),
            }
            vec![vec![1]]
        }
        13101..=13111 => {
            let t = table(op);
            let n = r.ps[0] as u64;
            let mut rng = Rng::new(r.ps[1] as u64);
            let mut mism: i128 = 0;
            let mut first: Option<(u32, u32, u32, u32)> = None;
            let mut done = 0u64;
            let mut pairs: Vec<(u32, u32)> = Vec::with_capacity(64);
            while done < n {
                let m = (n - done).min(64) as usize;
                pairs.clear();
                for _ in 0..m { pairs.push(draw_pair(&mut rng)); }
                let got = eval_batch(t, op == OP_IDENTITY, &pairs);
                for (i, (a, b)) in pairs.iter().enumerate() {
                    let want = native(op, *a, *b);
                    if got[i] != want {
                        mism += 1;
                        if first.is_none() { first = Some((*a, *b, got[i], want)); }
                    }
                }
                done += m as u64;
            }
            let (fa, fb, fg, fw) = first.unwrap_or((0, 0, 0, 0));
            vec![vec![mism, fa as i128, fb as i128, fg as i128, fw as i128]]
        }
        _ => panic!("c13: unknown code {code}"),
    }
}

fn fhe_ctx() -> &'static poulpy_bin_fhe::bdd_arithmetic::tests::test_suite::TestContext<poulpy_bin_fhe::blind_rotation::CGGI, BE> {
    static CTX: OnceLock<poulpy_bin_fhe::bdd_arithmetic::tests::test_suite::TestContext<poulpy_bin_fhe::blind_rotation::CGGI, BE>> = OnceLock::new();
    CTX.get_or_init(poulpy_bin_fhe::bdd_arithmetic::tests::test_suite::TestContext::<poulpy_bin_fhe::blind_rotation::CGGI, BE>::new)
}

pub fn exec(r: &Rec) -> Out {
    let r2 = r.clone();
    guard(move || run(&r2))
}

pub fn generate(tier: &str, seed: u64) -> Vec<Rec> {
    let thorough = tier == "thorough";
    let mut rng = Rng::new(seed);
    let mut out = Vec::new();
    const PAIRS: usize = 40;
    let n_eval = if thorough { 250 } else { 60 };
    let structured = structured_pairs(tier);
    for op in 1..=11i64 {
        let mut it = structured.iter();
        for _ in 0..n_eval {
            let mut al = Vec::with_capacity(PAIRS);
            let mut bl = Vec::with_capacity(PAIRS);
            for _ in 0..PAIRS {
                let (a, b) = match it.next() {
                    Some(p) => *p,
                    None => draw_pair(&mut rng),
                };
                al.push(a as i128);
                bl.push(b as i128);
            }
            out.push(Rec::new(13000 + op, vec![], vec![al, bl]));
        }
        let bulks: &[i128] = if thorough { &[2_000_000; 5] } else { &[1_000_000] };
        for n in bulks {
            let sub_seed = rng.next();
            out.push(Rec::new(13100 + op, vec![*n, sub_seed as i128], vec![]));
        }
    }
    for op in 1..=10i64 {
        out.push(Rec::new(13300 + op, vec![], vec![]));
    }
    // table dumps last: a failing eval record (concrete a, b) is reported before a failing table record
    for op in 1..=11i64 {
        out.push(Rec::new(13200 + op, vec![], vec![]));
    }
    out
}

fn main() { poulpy_verif_harness::run_main(generate, exec) }
