//! C20: thread count and scheduling never change results.
//!
//! Nothing of the partition / index / window arithmetic is re-implemented here: every record is produced by
//! calling the real multi-threaded entry points (`execute_bdd_circuit_multi_thread`,
//! `fhe_uint_prepare_custom_multi_thread`, `Scratch::split_mut`) and *observing* them:
//!   20001  which circuit index is requested by which OS thread (a logging `GetBitCircuitInfo`, state_size = 0 => no work)
//!   20002  which item's result lands in which output slot (one real Cmux per item at a small ring degree)
//!   20003  multi-threaded partial preparation at the test parameter set vs the single-threaded per-bit reference
//!   20004  multi-threaded circuit evaluation (add/sub/sll/... wrappers) vs single-threaded, raw limbs
//!   20005  one shared Module + prepared keys + read-only ciphertexts used by N threads with private scratch vs alone
//!   20006  addresses of the windows returned by the real `Scratch::split_mut`
//!   20007  the documented scratch sizing (threads * per-thread tmp_bytes, nothing added): does split_mut panic?
//!   20013  one module + prepared key shared (sequentially / concurrently) by workloads with DIFFERENT per-call parameters
//!          (log_domain, extension factor, output layout, mode) vs each workload alone on a freshly built identical key
//!
//! Behind the cargo feature `c20hook` (needs the yield hook `work/proposed_hooks/c20_yield.diff` in /repo:
//! `poulpy_hal::verif::{set_yield_hook, yield_point}`, compiled with `--cfg poulpy_verif`) the harness installs a
//! process-global callback at the yield points of the two spawned closures and either LOGS the
//! `(site, thread_idx, item)` events of an otherwise undisturbed run, or FORCES a schedule: a turn-based scheduler lets
//! exactly one worker run at a time and decides, each time every live worker is blocked at its next yield point, who
//! goes next (policy number + random stream carried by the record).  No timeouts: the scheduler waits for the
//! `SPAWNED` announcement of the spawning thread and counts `DONE` announcements (a drop guard in the closure, so a
//! panicking worker announces too).
//!   20008  log only: execute_bdd_circuit_multi_thread (no work), events grouped by thread_idx
//!   20009  log only: fhe_uint_prepare_custom_multi_thread at the test parameter set
//!   20010  forced schedule: one real Cmux per item at a small ring degree; events in grant order, slots, bytes vs single-threaded
//!   20011  forced schedule: (partial) preparation at the test parameter set vs the single-threaded per-bit reference
//!   20012  forced schedule: circuit wrappers (add/sub/...) at the test parameter set vs single-threaded raw limbs
use poulpy_bin_fhe::bdd_arithmetic::tests::test_suite::TestContext;
use poulpy_bin_fhe::bdd_arithmetic::{
    Add, And, BitSize, ExecuteBDDCircuit, FheUint, FheUintPrepare, FheUintPrepared, GetBitCircuitInfo, GetGGSWBit, GetGGSWBitMut,
    Node, Or, Sll, Slt, Sltu, Sra, Srl, Sub, Xor,
};
use poulpy_bin_fhe::blind_rotation::CGGI;
use poulpy_core::layouts::{
    Base2K, Degree, Dnum, Dsize, GGSW, GGSWLayout, GGSWPrepared, GGSWPreparedFactory, GGSWPreparedToRef, GLWE, GLWELayout, Rank,
    TorusPrecision,
};
use poulpy_core::EncryptionLayout;
use poulpy_hal::api::{ModuleNew, ScratchAvailable, ScratchFromBytes, ScratchOwnedAlloc, ScratchOwnedBorrow};
use poulpy_hal::layouts::{DataView, DeviceBuf, FillUniform, Module, Scratch, ScratchOwned, ZnxView, ZnxViewMut};
use poulpy_hal::source::Source;
use poulpy_verif_harness::rec::*;
use std::collections::HashMap;
use std::sync::{LazyLock, Mutex};
use std::thread::{self, ThreadId};

const GARBAGE: i64 = 0x5a5a_5a5a_5a5a_5a5b;

fn seed32(tag: u8, s: u64) -> [u8; 32] {
    let mut r = Rng::new(s ^ ((tag as u64) << 56));
    r.bytes32()
}
fn aligned_buf(len: usize) -> (Vec<u8>, usize) {
    // a byte buffer and the offset of its first 64-aligned byte
    let v = vec![0u8; len + 128];
    let off = v.as_ptr().align_offset(64);
    (v, off)
}

/// a circuit that logs which thread asks for which output index
struct LogCircuit {
    items: usize,
    inputs: usize,
    state: usize,
    nodes: Vec<Vec<Node>>,
    main: ThreadId,
    log: Mutex<Vec<(ThreadId, usize)>>,
}
impl GetBitCircuitInfo for LogCircuit {
    fn input_size(&self) -> usize { self.inputs }
    fn output_size(&self) -> usize { self.items }
    fn get_circuit(&self, bit: usize) -> (&[Node], usize) {
        let id = thread::current().id();
        if id != self.main { self.log.lock().unwrap().push((id, bit)); }
        (&self.nodes[bit], self.state)
    }
}
/// the one-output circuit "item i alone"
struct OneCircuit<'a> { inner: &'a LogCircuit, item: usize }
impl<'a> GetBitCircuitInfo for OneCircuit<'a> {
    fn input_size(&self) -> usize { self.inner.inputs }
    fn output_size(&self) -> usize { 1 }
    fn get_circuit(&self, _bit: usize) -> (&[Node], usize) { (&self.inner.nodes[self.item], self.inner.state) }
}

/// thread groups of the log, in the order of their first index: (starts, lens, all indices)
fn groups(log: &[(ThreadId, usize)]) -> (Vec<i128>, Vec<i128>, Vec<i128>) {
    let mut order: Vec<ThreadId> = Vec::new();
    let mut m: HashMap<ThreadId, Vec<usize>> = HashMap::new();
    for (id, b) in log {
        if !m.contains_key(id) { order.push(*id); }
        m.entry(*id).or_default().push(*b);
    }
    let mut gs: Vec<Vec<usize>> = order.iter().map(|id| m[id].clone()).collect();
    gs.sort_by_key(|g| g[0]);
    (
        gs.iter().map(|g| g[0] as i128).collect(),
        gs.iter().map(|g| g.len() as i128).collect(),
        gs.iter().flatten().map(|x| *x as i128).collect(),
    )
}

/// the yield-hook side: event log and turn-based scheduler
#[cfg(feature = "c20hook")]
mod sched {
    use poulpy_hal::verif::{set_yield_hook, YIELD_DONE, YIELD_SPAWNED};
    use std::collections::{BTreeMap, BTreeSet};
    use std::sync::{Arc, Condvar, Mutex, MutexGuard};

    #[derive(Default)]
    pub struct St {
        /// item events: log-only = arrival order, forced = grant order
        pub log: Vec<(usize, usize)>,
        /// DONE announcements (thread_idx), in arrival order
        pub done: Vec<usize>,
        /// SPAWNED announcement of the spawning thread
        pub spawned: Option<usize>,
        /// events of a site nobody asked for
        pub foreign: usize,
        waiting: BTreeMap<usize, usize>,
        finished: BTreeSet<usize>,
        running: Option<usize>,
        granted: Option<usize>,
        last: Option<usize>,
        k: usize,
    }
    pub struct Sched {
        st: Mutex<St>,
        cv: Condvar,
        site: u32,
        /// None = log only
        policy: Option<i128>,
        rs: Vec<i128>,
    }

    /// who goes next: `live` = the workers blocked at a yield point, ascending (the same function as `pick` of
    /// coq/Model/C20Threads.v — this is the stimulus, not the thing under test)
    pub fn pick(policy: i128, n: usize, live: &[usize], last: Option<usize>, k: usize, r: i128) -> usize {
        let (lo, hi) = (live[0], live[live.len() - 1]);
        let rnd = |q: i128| live[q.rem_euclid(live.len() as i128) as usize];
        match policy {
            0 => lo,
            1 => hi,
            2 => last.and_then(|x| live.iter().copied().find(|t| *t > x)).unwrap_or(lo),
            3 => match last { None => hi, Some(x) => live.iter().rev().copied().find(|t| *t < x).unwrap_or(hi) },
            4 => if live.contains(&(n.wrapping_sub(1))) { n - 1 } else { lo },
            5 => rnd(r),
            6 => if k % 2 == 0 { hi } else { lo },
            7 => match last {
                Some(x) if live.contains(&x) && r.rem_euclid(4) != 0 => x,
                _ => rnd(r.div_euclid(4)),
            },
            _ => lo,
        }
    }

    impl Sched {
        fn lock(&self) -> MutexGuard<'_, St> { self.st.lock().unwrap_or_else(|e| e.into_inner()) }

        fn dispatch(&self, s: &mut St) {
            if s.running.is_some() || s.granted.is_some() { return; }
            let Some(n) = s.spawned else { return };
            if s.waiting.len() + s.finished.len() < n || s.waiting.is_empty() { return; }
            let live: Vec<usize> = s.waiting.keys().copied().collect();
            let r = self.rs.get(s.k).copied().unwrap_or(0);
            let t = pick(self.policy.unwrap(), n, &live, s.last, s.k, r);
            s.k += 1;
            s.last = Some(t);
            s.granted = Some(t);
            self.cv.notify_all();
        }

        fn event(&self, site: u32, t: usize, item: usize) {
            let mut s = self.lock();
            if site & 0xff != self.site { s.foreign += 1; return; }
            let forcing = self.policy.is_some();
            if site & YIELD_SPAWNED != 0 {
                s.spawned = Some(t);
                if forcing { self.dispatch(&mut s); }
            } else if site & YIELD_DONE != 0 {
                s.done.push(t);
                if forcing {
                    if s.running == Some(t) { s.running = None; }
                    s.waiting.remove(&t);
                    s.finished.insert(t);
                    self.dispatch(&mut s);
                }
            } else if !forcing {
                s.log.push((t, item));
            } else {
                if s.running == Some(t) { s.running = None; }
                s.waiting.insert(t, item);
                self.dispatch(&mut s);
                while s.granted != Some(t) { s = self.cv.wait(s).unwrap_or_else(|e| e.into_inner()); }
                s.granted = None;
                s.waiting.remove(&t);
                s.running = Some(t);
                s.log.push((t, item));
            }
        }
    }

    struct Uninstall;
    impl Drop for Uninstall { fn drop(&mut self) { set_yield_hook(None); } }

    /// run `f` with the hook installed for `site`; the hook is removed afterwards, also when `f` panics
    pub fn with_hook<R>(site: u32, policy: Option<i128>, rs: &[i128], f: impl FnOnce() -> R) -> (R, St) {
        let sc = Arc::new(Sched { st: Mutex::new(St::default()), cv: Condvar::new(), site, policy, rs: rs.to_vec() });
        let sc2 = sc.clone();
        set_yield_hook(Some(Box::new(move |s, t, i| sc2.event(s, t, i))));
        let un = Uninstall;
        let r = f();
        drop(un);
        let st = std::mem::take(&mut *sc.lock());
        (r, st)
    }

    impl St {
        /// log-only view: thread ids ascending, items per thread, all items (thread order, then arrival order)
        pub fn grouped(&self) -> (Vec<i128>, Vec<i128>, Vec<i128>) {
            let mut m: BTreeMap<usize, Vec<usize>> = BTreeMap::new();
            for (t, i) in &self.log { m.entry(*t).or_default().push(*i); }
            (
                m.keys().map(|t| *t as i128).collect(),
                m.values().map(|v| v.len() as i128).collect(),
                m.values().flatten().map(|i| *i as i128).collect(),
            )
        }
        /// forced view: thread of event k, item of event k
        pub fn granted(&self) -> (Vec<i128>, Vec<i128>) {
            (self.log.iter().map(|e| e.0 as i128).collect(), self.log.iter().map(|e| e.1 as i128).collect())
        }
        pub fn spawned(&self) -> i128 { self.spawned.map(|x| x as i128).unwrap_or(-1) }
        /// 1 iff every thread that reported an item announced DONE exactly once, nobody else did, no foreign events
        pub fn done_ok(&self) -> i128 {
            let a: BTreeSet<usize> = self.log.iter().map(|e| e.0).collect();
            let b: BTreeSet<usize> = self.done.iter().copied().collect();
            (a == b && b.len() == self.done.len() && self.foreign == 0) as i128
        }
    }
}

macro_rules! backend_impl {
    ($m:ident, $BE:ty) => {
        mod $m {
            use super::*;
            type BE = $BE;

            struct Inputs { bits: Vec<GGSWPrepared<DeviceBuf<BE>, BE>> }
            impl GetGGSWBit<BE> for Inputs {
                fn get_bit(&self, bit: usize) -> GGSWPrepared<&[u8], BE> { self.bits[bit].to_ref() }
            }
            impl BitSize for Inputs { fn bit_size(&self) -> usize { self.bits.len() } }

            static CTX: LazyLock<TestContext<CGGI, BE>> = LazyLock::new(TestContext::<CGGI, BE>::new);
            type Prep = FheUintPrepared<DeviceBuf<BE>, u32, BE>;
            static PREP_REF: LazyLock<Mutex<HashMap<u64, std::sync::Arc<Vec<Vec<u8>>>>>> = LazyLock::new(|| Mutex::new(HashMap::new()));
            static EVAL_REF: LazyLock<Mutex<HashMap<(i128, u64, u64), std::sync::Arc<Vec<u8>>>>> = LazyLock::new(|| Mutex::new(HashMap::new()));
            static OPERANDS: LazyLock<Mutex<HashMap<(u64, u64), std::sync::Arc<(Prep, Prep)>>>> = LazyLock::new(|| Mutex::new(HashMap::new()));

            fn small_layouts(n: u32) -> (GLWELayout, GGSWLayout) {
                (
                    GLWELayout { n: Degree(n), base2k: Base2K(13), k: TorusPrecision(26), rank: Rank(1) },
                    GGSWLayout { n: Degree(n), base2k: Base2K(13), k: TorusPrecision(39), rank: Rank(1), dnum: Dnum(2), dsize: Dsize(1) },
                )
            }
            fn glwe_bytes(g: &GLWE<Vec<u8>>) -> Vec<u8> { g.data().raw().iter().flat_map(|x| x.to_le_bytes()).collect() }
            fn prep_bit_bytes<G: GetGGSWBit<BE>>(p: &G, i: usize) -> Vec<u8> {
                let b = p.get_bit(i);
                let d: &[u8] = b.data().data();
                d.to_vec()
            }

            /// 20001 / 20002: ps = [be, n, items, threads, extra, seed]
            pub fn chunks(r: &Rec, real_work: bool) -> Vec<Vec<i128>> {
                let (n, items, threads, extra, seed) = (r.ps[1] as u32, r.ps[2] as usize, r.ps[3] as usize, r.ps[4] as usize, r.ps[5] as u64);
                let module: Module<BE> = Module::<BE>::new(n as u64);
                let (glwe_l, ggsw_l) = small_layouts(n);
                let mut src = Source::new(seed32(1, seed));
                let nbits = if real_work { items.max(1) } else { 1 };
                let mut scratch_p: ScratchOwned<BE> = ScratchOwned::alloc(module.ggsw_prepare_tmp_bytes(&ggsw_l) + 64);
                let mut inputs = Inputs { bits: Vec::new() };
                for _ in 0..nbits {
                    let mut g: GGSW<Vec<u8>> = GGSW::alloc_from_infos(&ggsw_l);
                    g.fill_uniform(13, &mut src);
                    let mut p = module.ggsw_prepared_alloc_from_infos(&ggsw_l);
                    module.ggsw_prepare(&mut p, &g, scratch_p.borrow());
                    inputs.bits.push(p);
                }
                let circ = LogCircuit {
                    items,
                    inputs: nbits,
                    state: if real_work { 2 } else { 0 },
                    nodes: (0..items.max(1)).map(|j| if real_work { vec![Node::Cmux(j, 1, 0), Node::None] } else { vec![] }).collect(),
                    main: thread::current().id(),
                    log: Mutex::new(Vec::new()),
                };
                let per = module.execute_bdd_circuit_tmp_bytes(&glwe_l, circ.state, &ggsw_l);
                let mut scratch: ScratchOwned<BE> = ScratchOwned::alloc(threads.max(1) * (per + 64) + 64);
                let mut out: Vec<GLWE<Vec<u8>>> = (0..items + extra).map(|_| GLWE::alloc_from_infos(&glwe_l)).collect();
                for o in out.iter_mut() { o.data_mut().raw_mut().iter_mut().for_each(|x| *x = GARBAGE); }
                module.execute_bdd_circuit_multi_thread(threads, &mut out, &inputs, &circ, scratch.borrow());
                let log = circ.log.lock().unwrap().clone();
                let (starts, lens, all) = groups(&log);
                if !real_work {
                    let status: Vec<i128> = out.iter().map(|o| if o.data().raw().iter().all(|x| *x == 0) { 0 } else { 1 }).collect();
                    return vec![starts, lens, all, status];
                }
                // item i alone, single thread, fresh scratch
                let mut refs: Vec<Vec<u8>> = Vec::new();
                for i in 0..items {
                    let one = OneCircuit { inner: &circ, item: i };
                    let mut o1: Vec<GLWE<Vec<u8>>> = vec![GLWE::alloc_from_infos(&glwe_l)];
                    let mut s1: ScratchOwned<BE> = ScratchOwned::alloc(per + 128);
                    module.execute_bdd_circuit(&mut o1, &inputs, &one, s1.borrow());
                    refs.push(glwe_bytes(&o1[0]));
                }
                let distinct = (0..items).all(|i| (0..i).all(|j| refs[i] != refs[j]));
                let slot: Vec<i128> = out.iter().map(|o| {
                    let b = glwe_bytes(o);
                    if let Some(i) = refs.iter().position(|x| *x == b) { i as i128 }
                    else if b.iter().all(|x| *x == 0) { -1 } else { -2 }
                }).collect();
                vec![starts, lens, all, slot, vec![distinct as i128]]
            }

            fn ciphertext(vseed: u64) -> (u32, FheUint<Vec<u8>, u32>) {
                let ctx = &*CTX;
                let glwe_infos = ctx.glwe_infos();
                let enc = EncryptionLayout::new_from_default_sigma(glwe_infos).unwrap();
                let value = Rng::new(vseed).next() as u32;
                let mut c: FheUint<Vec<u8>, u32> = FheUint::alloc_from_infos(&glwe_infos);
                let mut scratch: ScratchOwned<BE> = ScratchOwned::alloc(1 << 22);
                c.encrypt_sk(&ctx.module, value, &ctx.sk_glwe, &enc, &mut Source::new(seed32(2, vseed)), &mut Source::new(seed32(3, vseed)), scratch.borrow());
                (value, c)
            }
            fn prep_tmp(c: &FheUint<Vec<u8>, u32>) -> usize {
                let ctx = &*CTX;
                let p: Prep = FheUintPrepared::alloc_from_infos(&ctx.module, &ctx.ggsw_infos());
                ctx.module.fhe_uint_prepare_tmp_bytes(7, 1, &p, c, &ctx.bdd_key)
            }
            /// single-threaded full preparation: the per-bit reference
            fn prep_ref(vseed: u64) -> std::sync::Arc<Vec<Vec<u8>>> {
                if let Some(x) = PREP_REF.lock().unwrap().get(&vseed) { return x.clone(); }
                let ctx = &*CTX;
                let (_, c) = ciphertext(vseed);
                let mut p: Prep = FheUintPrepared::alloc_from_infos(&ctx.module, &ctx.ggsw_infos());
                let mut scratch: ScratchOwned<BE> = ScratchOwned::alloc(prep_tmp(&c) + 128);
                p.prepare(&ctx.module, &c, &ctx.bdd_key, scratch.borrow());
                let v = std::sync::Arc::new((0..32).map(|i| prep_bit_bytes(&p, i)).collect::<Vec<_>>());
                PREP_REF.lock().unwrap().insert(vseed, v.clone());
                v
            }
            fn garbage_prep(p: &mut Prep, seed: u64) {
                let ctx = &*CTX;
                let l = ctx.ggsw_infos();
                let mut src = Source::new(seed32(4, seed));
                let mut g: GGSW<Vec<u8>> = GGSW::alloc_from_infos(&l);
                g.fill_uniform(13, &mut src);
                let mut scratch: ScratchOwned<BE> = ScratchOwned::alloc(ctx.module.ggsw_prepare_tmp_bytes(&l) + 64);
                for i in 0..32 {
                    let mut b = GetGGSWBitMut::<u32, BE>::get_bit(p, i);
                    ctx.module.ggsw_prepare(&mut b, &g, scratch.borrow());
                }
            }

            /// 20003: ps = [be, threads, start, count, vseed]
            pub fn prepare(r: &Rec) -> Vec<Vec<i128>> {
                let (threads, start, count, vseed) = (r.ps[1] as usize, r.ps[2] as usize, r.ps[3] as usize, r.ps[4] as u64);
                let ctx = &*CTX;
                let refs = prep_ref(vseed);
                let distinct = (0..32).all(|i| (0..i).all(|j| refs[i] != refs[j]) && refs[i].iter().any(|x| *x != 0));
                let (_, c) = ciphertext(vseed);
                let mut p: Prep = FheUintPrepared::alloc_from_infos(&ctx.module, &ctx.ggsw_infos());
                garbage_prep(&mut p, vseed);
                let per = prep_tmp(&c);
                let mut scratch: ScratchOwned<BE> = ScratchOwned::alloc(threads.max(1) * (per + 64) + 64);
                scratch.data.as_mut().iter_mut().for_each(|x| *x = 0xa5);
                p.prepare_custom_multi_thread(threads, &ctx.module, &c, start, count, &ctx.bdd_key, scratch.borrow());
                let bits: Vec<Vec<u8>> = (0..32).map(|i| prep_bit_bytes(&p, i)).collect();
                let status: Vec<i128> = (0..32).map(|i| {
                    if bits[i] == refs[i] { 1 } else if bits[i].iter().all(|x| *x == 0) { 0 }
                    else if let Some(j) = refs.iter().position(|x| *x == bits[i]) { 100 + j as i128 } else { -1 }
                }).collect();
                vec![status, vec![distinct as i128]]
            }

            fn operands(a: u64, b: u64) -> std::sync::Arc<(Prep, Prep)> {
                if let Some(x) = OPERANDS.lock().unwrap().get(&(a, b)) { return x.clone(); }
                let ctx = &*CTX;
                let l = ctx.ggsw_infos();
                let enc = EncryptionLayout::new_from_default_sigma(l).unwrap();
                let mut scratch: ScratchOwned<BE> = ScratchOwned::alloc(1 << 22);
                let mut mk = |s: u64| {
                    let mut p: Prep = FheUintPrepared::alloc_from_infos(&ctx.module, &l);
                    // shift amounts must stay small for the shift circuits: keep the raw value, circuits mask themselves
                    p.encrypt_sk(&ctx.module, Rng::new(s).next() as u32, &ctx.sk_glwe, &enc, &mut Source::new(seed32(5, s)), &mut Source::new(seed32(6, s)), scratch.borrow());
                    p
                };
                let v = std::sync::Arc::new((mk(a), mk(b)));
                OPERANDS.lock().unwrap().insert((a, b), v.clone());
                v
            }

            macro_rules! dispatch_op {
                ($op:expr, $res:expr, $threads:expr, $a:expr, $b:expr, $extra:expr) => {{
                    let ctx = &*CTX;
                    let (gl, gg) = (ctx.glwe_infos(), ctx.ggsw_infos());
                    macro_rules! go { ($single:ident, $multi:ident, $tmp:ident) => {{
                        let bytes = $res.$tmp(&ctx.module, $threads.max(1), &gl, &gg, &ctx.bdd_key) + $extra;
                        let mut scratch: ScratchOwned<BE> = ScratchOwned::alloc(bytes);
                        scratch.data.as_mut().iter_mut().for_each(|x| *x = 0xa5);
                        if $threads == 0 { $res.$single(&ctx.module, $a, $b, &ctx.bdd_key, scratch.borrow()) }
                        else { $res.$multi($threads, &ctx.module, $a, $b, &ctx.bdd_key, scratch.borrow()) }
                    }}; }
                    match $op {
                        0 => go!(add, add_multi_thread, add_multi_thread_tmp_bytes),
                        1 => go!(sub, sub_multi_thread, sub_multi_thread_tmp_bytes),
                        2 => go!(sll, sll_multi_thread, sll_multi_thread_tmp_bytes),
                        3 => go!(sra, sra_multi_thread, sra_multi_thread_tmp_bytes),
                        4 => go!(srl, srl_multi_thread, srl_multi_thread_tmp_bytes),
                        5 => go!(slt, slt_multi_thread, slt_multi_thread_tmp_bytes),
                        6 => go!(sltu, sltu_multi_thread, sltu_multi_thread_tmp_bytes),
                        7 => go!(or, or_multi_thread, or_multi_thread_tmp_bytes),
                        8 => go!(and, and_multi_thread, and_multi_thread_tmp_bytes),
                        9 => go!(xor, xor_multi_thread, xor_multi_thread_tmp_bytes),
                        _ => panic!("bad op"),
                    }
                }};
            }

            /// threads = 0 means "the single-threaded entry point"
            fn eval_bytes(op: i128, threads: usize, a: &Prep, b: &Prep) -> Vec<u8> {
                let ctx = &*CTX;
                let mut res: FheUint<Vec<u8>, u32> = FheUint::alloc_from_infos(&ctx.glwe_infos());
                // slack: every window may lose up to 63 bytes to re-alignment
                let extra = 64 * (threads + 2);
                dispatch_op!(op, res, threads, a, b, extra);
                glwe_bytes_ref(&res)
            }

            /// 20004: ps = [be, op, threads, aseed, bseed]
            pub fn eval(r: &Rec) -> Vec<Vec<i128>> {
                let (op, threads, sa, sb) = (r.ps[1], r.ps[2] as usize, r.ps[3] as u64, r.ps[4] as u64);
                let ops = operands(sa, sb);
                let key = (op, sa, sb);
                let cached = EVAL_REF.lock().unwrap().get(&key).cloned();
                let reference = match cached {
                    Some(x) => x,
                    None => {
                        let v = std::sync::Arc::new(eval_bytes(op, 0, &ops.0, &ops.1));
                        EVAL_REF.lock().unwrap().insert(key, v.clone());
                        v
                    }
                };
                let got = eval_bytes(op, threads, &ops.0, &ops.1);
                let nonzero = reference.iter().any(|x| *x != 0);
                vec![vec![(got == *reference) as i128, nonzero as i128]]
            }

            /// one independent job on the shared module / keys / read-only operands, private scratch everywhere:
            /// encrypt, evaluate one op single-threaded, another op multi-threaded (nested threads), prepare 3 bits with 2 threads
            fn job(k: usize, seed: u64, ops: &(Prep, Prep)) -> Vec<u8> {
                let ctx = &*CTX;
                let s = seed.wrapping_mul(1000).wrapping_add(k as u64);
                let (_, c) = ciphertext(s);
                let mut out: Vec<u8> = glwe_bytes_ref(&c);
                out.extend(eval_bytes((k % 10) as i128, 0, &ops.0, &ops.1));
                out.extend(eval_bytes(((k + 3) % 10) as i128, 2 + k % 5, &ops.0, &ops.1));
                let mut p: Prep = FheUintPrepared::alloc_from_infos(&ctx.module, &ctx.ggsw_infos());
                let mut scratch: ScratchOwned<BE> = ScratchOwned::alloc(2 * (prep_tmp(&c) + 64) + 64);
                p.prepare_custom_multi_thread(2, &ctx.module, &c, k % 30, 3, &ctx.bdd_key, scratch.borrow());
                for i in 0..32 { out.extend(prep_bit_bytes(&p, i)); }
                out
            }
            fn glwe_bytes_ref(c: &FheUint<Vec<u8>, u32>) -> Vec<u8> {
                use poulpy_core::layouts::GLWEToRef;
                c.to_ref().data().raw().iter().flat_map(|x| x.to_le_bytes()).collect()
            }

            /// 20005: ps = [be, nthreads, seed]
            pub fn shared(r: &Rec) -> Vec<Vec<i128>> {
                let (nt, seed) = (r.ps[1] as usize, r.ps[2] as u64);
                let ops = operands(seed, seed + 1);
                let _ = &*CTX;
                let conc: Vec<Vec<u8>> = thread::scope(|sc| {
                    let hs: Vec<_> = (0..nt).map(|k| { let ops = &*ops; sc.spawn(move || job(k, seed, ops)) }).collect();
                    hs.into_iter().map(|h| h.join().unwrap()).collect()
                });
                let alone: Vec<Vec<u8>> = (0..nt).map(|k| job(k, seed, &ops)).collect();
                let eq: Vec<i128> = (0..nt).map(|k| (conc[k] == alone[k]) as i128).collect();
                vec![eq]
            }

            // ---- 20013: one prepared key shared by workloads with DIFFERENT per-call parameters ----
            type Ctx = TestContext<CGGI, BE>;
            static MIX_SOLO: LazyLock<Mutex<HashMap<(usize, u64), std::sync::Arc<Vec<u8>>>>> = LazyLock::new(|| Mutex::new(HashMap::new()));

            fn ct_on(ctx: &Ctx, vseed: u64) -> FheUint<Vec<u8>, u32> {
                let glwe_infos = ctx.glwe_infos();
                let enc = EncryptionLayout::new_from_default_sigma(glwe_infos).unwrap();
                let value = Rng::new(vseed).next() as u32;
                let mut c: FheUint<Vec<u8>, u32> = FheUint::alloc_from_infos(&glwe_infos);
                let mut scratch: ScratchOwned<BE> = ScratchOwned::alloc(1 << 22);
                c.encrypt_sk(&ctx.module, value, &ctx.sk_glwe, &enc, &mut Source::new(seed32(2, vseed)), &mut Source::new(seed32(3, vseed)), scratch.borrow());
                c
            }
            /// (mode exponent?, log_domain, extension_factor, output GGSW layout) of the circuit-bootstrapping workloads
            fn cbt_params(ctx: &Ctx, w: usize) -> (bool, usize, usize, GGSWLayout) {
                let std = ctx.ggsw_infos();
                let alt_dnum = GGSWLayout { dnum: Dnum(3), ..std };
                let alt_b2k = GGSWLayout { base2k: Base2K(10), k: TorusPrecision(30), dnum: Dnum(2), ..std };
                match w {
                    1 => (false, 2, 1, std),       // digits over a 2-bit domain
                    2 => (false, 1, 1, alt_dnum),  // other number of rows
                    3 => (false, 1, 1, alt_b2k),   // other radix
                    4 => (true, 1, 1, std),        // exponent mode, 1-bit domain
                    5 => (true, 2, 1, std),        // exponent mode, 2-bit domain
                    6 => (false, 1, 2, std),       // extension factor 2
                    7 => (false, 3, 1, std),       // 3-bit domain
                    8 => (true, 1, 1, alt_dnum),   // exponent mode, other rows
                    9 => (false, 1, 1, std),       // the parameters integer preparation uses, called directly
                    _ => panic!("bad workload"),
                }
            }
            /// one workload on the given context (module + prepared key), own scratch, own outputs -> output bytes
            fn workload(ctx: &Ctx, w: usize, seed: u64) -> Vec<u8> {
                let module = &ctx.module;
                let c = ct_on(ctx, seed);
                let mut scratch: ScratchOwned<BE> = ScratchOwned::alloc(1 << 24);
                let mut out: Vec<u8> = Vec::new();
                match w {
                    0 | 10 => {
                        // integer preparation: constant mode, log_domain = 1, extension_factor = 1, TEST_GGSW layout
                        let mut p: Prep = FheUintPrepared::alloc_from_infos(module, &ctx.ggsw_infos());
                        if w == 0 { p.prepare_custom_multi_thread(3, module, &c, 0, 32, &ctx.bdd_key, scratch.borrow()); }
                        else { p.prepare_custom_multi_thread(2, module, &c, 5, 9, &ctx.bdd_key, scratch.borrow()); }
                        for i in 0..32 { out.extend(prep_bit_bytes(&p, i)); }
                    }
                    _ => {
                        use poulpy_bin_fhe::bdd_arithmetic::BDDKeyHelper;
                        use poulpy_core::layouts::LWE;
                        let (exp, log_domain, ext, layout) = cbt_params(ctx, w);
                        let (cbt, ks_glwe, ks_lwe) = ctx.bdd_key.get_cbt_key();
                        for bit in [0usize, 1, 7, 18, 31] {
                            let mut lwe: LWE<Vec<u8>> = LWE::alloc_from_infos(&c);
                            c.get_bit_lwe(module, bit, &mut lwe, ks_glwe, ks_lwe, scratch.borrow());
                            let mut ggsw: GGSW<Vec<u8>> = GGSW::alloc_from_infos(&layout);
                            if exp { cbt.execute_to_exponent(module, 1, &mut ggsw, &lwe, log_domain, ext, scratch.borrow()); }
                            else { cbt.execute_to_constant(module, &mut ggsw, &lwe, log_domain, ext, scratch.borrow()); }
                            { use poulpy_hal::layouts::WriterTo; ggsw.write_to(&mut out).unwrap(); }
                        }
                    }
                }
                out
            }
            /// the workload alone on a freshly built, identical (same seeds) module + key
            fn solo(w: usize, seed: u64) -> std::sync::Arc<Vec<u8>> {
                if let Some(x) = MIX_SOLO.lock().unwrap().get(&(w, seed)) { return x.clone(); }
                let ctx = Ctx::new();
                let v = std::sync::Arc::new(workload(&ctx, w, seed));
                MIX_SOLO.lock().unwrap().insert((w, seed), v.clone());
                v
            }
            /// 20013: ps = [be, mode, seed, w_1, ..., w_k]; mode 0: one thread runs w_1..w_k in this order on ONE fresh shared
            /// module + prepared key; mode 1: k threads behind a barrier, thread i runs w_i; mode 2: like 1, every thread runs
            /// its workload twice (the second result is reported).  Output: per workload 1 iff bit-identical to its solo run.
            pub fn mixed(r: &Rec) -> Vec<Vec<i128>> {
                let (mode, seed) = (r.ps[1], r.ps[2] as u64);
                let ws: Vec<usize> = r.ps[3..].iter().map(|x| *x as usize).collect();
                let solos: Vec<std::sync::Arc<Vec<u8>>> = ws.iter().map(|w| solo(*w, seed)).collect();
                let shared = Ctx::new();
                let got: Vec<Vec<u8>> = if mode == 0 {
                    ws.iter().map(|w| workload(&shared, *w, seed)).collect()
                } else {
                    let barrier = std::sync::Barrier::new(ws.len());
                    thread::scope(|sc| {
                        let hs: Vec<_> = ws.iter().map(|w| { let (sh, b, w) = (&shared, &barrier, *w); sc.spawn(move || {
                            b.wait();
                            let first = workload(sh, w, seed);
                            if mode == 2 { workload(sh, w, seed) } else { first }
                        }) }).collect();
                        hs.into_iter().map(|h| h.join().unwrap()).collect()
                    })
                };
                let nontrivial = solos.iter().all(|x| x.iter().any(|b| *b != 0))
                    && (0..ws.len()).all(|i| (0..i).all(|j| ws[i] == ws[j] || solos[i] != solos[j]));
                vec![(0..ws.len()).map(|i| (got[i] == *solos[i]) as i128).collect(), vec![nontrivial as i128]]
            }

            /// 20006: ps = [be, off, arena_len, n, len]
            pub fn split(r: &Rec) -> Vec<Vec<i128>> {
                let (off, alen, n, len) = (r.ps[1] as usize, r.ps[2] as usize, r.ps[3] as usize, r.ps[4] as usize);
                let (mut buf, a0) = aligned_buf(alen + 64);
                let origin = buf.as_ptr() as usize + a0;
                let arena: &mut [u8] = &mut buf[a0 + off..a0 + off + alen];
                let scratch: &mut Scratch<BE> = Scratch::<BE>::from_bytes(arena);
                let avail = scratch.available();
                let (ws, rest) = scratch.split_mut(n, len);
                let starts: Vec<i128> = ws.iter().map(|w| (w.data.as_ptr() as usize - origin) as i128).collect();
                let lens: Vec<i128> = ws.iter().map(|w| w.data.len() as i128).collect();
                vec![starts, lens, vec![(rest.data.as_ptr() as usize - origin) as i128, rest.data.len() as i128], vec![avail as i128]]
            }

            /// 20007: ps = [be, kind, threads, per_thread] — the documented scratch sizing, nothing added:
            ///   kind 0: circuit evaluation, 64-aligned arena of exactly threads*per_thread bytes
            ///   kind 1: preparation,        64-aligned arena of exactly threads*per_thread bytes
            ///   kind 2: preparation,        ScratchOwned::alloc(threads*per_thread)  (rounds the total up to 64)
            pub fn exact(r: &Rec) -> Vec<Vec<i128>> {
                let (kind, threads, per) = (r.ps[1], r.ps[2] as usize, r.ps[3] as usize);
                let ctx = &*CTX;
                let (_, c) = ciphertext(7);
                let need = per_thread(kind);
                assert_eq!(per, need, "per-thread size changed");
                let total = if kind == 2 { (threads * need).next_multiple_of(64) } else { threads * need };
                let (mut buf, a0) = aligned_buf(total);
                let arena: &mut [u8] = &mut buf[a0..a0 + total];
                let scratch: &mut Scratch<BE> = Scratch::<BE>::from_bytes(arena);
                match kind {
                    1 | 2 => {
                        let mut p: Prep = FheUintPrepared::alloc_from_infos(&ctx.module, &ctx.ggsw_infos());
                        p.prepare_custom_multi_thread(threads, &ctx.module, &c, 0, threads, &ctx.bdd_key, scratch);
                    }
                    _ => {
                        let ops = operands(1, 2);
                        let circ = LogCircuit { items: threads, inputs: 32, state: 2,
                            nodes: (0..threads).map(|j| vec![Node::Cmux(j % 32, 1, 0), Node::None]).collect(),
                            main: thread::current().id(), log: Mutex::new(Vec::new()) };
                        let mut out: Vec<GLWE<Vec<u8>>> = (0..threads).map(|_| GLWE::alloc_from_infos(&ctx.glwe_infos())).collect();
                        ctx.module.execute_bdd_circuit_multi_thread(threads, &mut out, &ops.0, &circ, scratch);
                    }
                }
                vec![vec![1]]
            }

            /// 20008 (log only, no work) / 20010 (forced, one Cmux per item): ps = [be, n, items, threads, extra, seed(, policy)]
            #[cfg(feature = "c20hook")]
            pub fn hook_eval(r: &Rec, forced: bool) -> Vec<Vec<i128>> {
                let (n, items, threads, extra, seed) = (r.ps[1] as u32, r.ps[2] as usize, r.ps[3] as usize, r.ps[4] as usize, r.ps[5] as u64);
                let policy = if forced { Some(r.ps[6]) } else { None };
                let rs: Vec<i128> = r.vs.first().cloned().unwrap_or_default();
                let module: Module<BE> = Module::<BE>::new(n as u64);
                let (glwe_l, ggsw_l) = small_layouts(n);
                let mut src = Source::new(seed32(1, seed));
                let nbits = if forced { items.max(1) } else { 1 };
                let mut scratch_p: ScratchOwned<BE> = ScratchOwned::alloc(module.ggsw_prepare_tmp_bytes(&ggsw_l) + 64);
                let mut inputs = Inputs { bits: Vec::new() };
                for _ in 0..nbits {
                    let mut g: GGSW<Vec<u8>> = GGSW::alloc_from_infos(&ggsw_l);
                    g.fill_uniform(13, &mut src);
                    let mut p = module.ggsw_prepared_alloc_from_infos(&ggsw_l);
                    module.ggsw_prepare(&mut p, &g, scratch_p.borrow());
                    inputs.bits.push(p);
                }
                let circ = LogCircuit {
                    items,
                    inputs: nbits,
                    state: if forced { 2 } else { 0 },
                    nodes: (0..items.max(1)).map(|j| if forced { vec![Node::Cmux(j, 1, 0), Node::None] } else { vec![] }).collect(),
                    main: thread::current().id(),
                    log: Mutex::new(Vec::new()),
                };
                let per = module.execute_bdd_circuit_tmp_bytes(&glwe_l, circ.state, &ggsw_l);
                let mut scratch: ScratchOwned<BE> = ScratchOwned::alloc(threads.max(1) * (per + 64) + 64);
                scratch.data.as_mut().iter_mut().for_each(|x| *x = 0xa5);
                let mut out: Vec<GLWE<Vec<u8>>> = (0..items + extra).map(|_| GLWE::alloc_from_infos(&glwe_l)).collect();
                for o in out.iter_mut() { o.data_mut().raw_mut().iter_mut().for_each(|x| *x = GARBAGE); }
                let ((), st) = sched::with_hook(poulpy_hal::verif::YIELD_SITE_EVAL, policy, &rs, || {
                    module.execute_bdd_circuit_multi_thread(threads, &mut out, &inputs, &circ, scratch.borrow());
                });
                if !forced {
                    let (tids, lens, all) = st.grouped();
                    let status: Vec<i128> = out.iter().map(|o| if o.data().raw().iter().all(|x| *x == 0) { 0 } else { 1 }).collect();
                    return vec![tids, lens, all, status, vec![st.spawned(), st.done.len() as i128, st.done_ok()]];
                }
                // the whole circuit on the single-threaded entry point, fresh scratch (hook removed)
                let mut single: Vec<GLWE<Vec<u8>>> = (0..items + extra).map(|_| GLWE::alloc_from_infos(&glwe_l)).collect();
                let mut s1: ScratchOwned<BE> = ScratchOwned::alloc(per + 128);
                module.execute_bdd_circuit(&mut single, &inputs, &circ, s1.borrow());
                let equal = (0..items + extra).all(|i| glwe_bytes(&out[i]) == glwe_bytes(&single[i]));
                // item i alone
                let mut refs: Vec<Vec<u8>> = Vec::new();
                for i in 0..items {
                    let one = OneCircuit { inner: &circ, item: i };
                    let mut o1: Vec<GLWE<Vec<u8>>> = vec![GLWE::alloc_from_infos(&glwe_l)];
                    module.execute_bdd_circuit(&mut o1, &inputs, &one, s1.borrow());
                    refs.push(glwe_bytes(&o1[0]));
                }
                let distinct = (0..items).all(|i| (0..i).all(|j| refs[i] != refs[j]));
                let slot: Vec<i128> = out.iter().map(|o| {
                    let b = glwe_bytes(o);
                    if let Some(i) = refs.iter().position(|x| *x == b) { i as i128 }
                    else if b.iter().all(|x| *x == 0) { -1 } else { -2 }
                }).collect();
                let (ths, its) = st.granted();
                vec![ths, its, slot, vec![distinct as i128, st.spawned(), st.done.len() as i128 * st.done_ok(), equal as i128]]
            }

            /// 20009 (log only) / 20011 (forced): ps = [be, threads, start, count, vseed(, policy)]
            #[cfg(feature = "c20hook")]
            pub fn hook_prepare(r: &Rec, forced: bool) -> Vec<Vec<i128>> {
                let (threads, start, count, vseed) = (r.ps[1] as usize, r.ps[2] as usize, r.ps[3] as usize, r.ps[4] as u64);
                let policy = if forced { Some(r.ps[5]) } else { None };
                let rs: Vec<i128> = r.vs.first().cloned().unwrap_or_default();
                let ctx = &*CTX;
                let refs = prep_ref(vseed);
                let distinct = (0..32).all(|i| (0..i).all(|j| refs[i] != refs[j]) && refs[i].iter().any(|x| *x != 0));
                let (_, c) = ciphertext(vseed);
                let mut p: Prep = FheUintPrepared::alloc_from_infos(&ctx.module, &ctx.ggsw_infos());
                garbage_prep(&mut p, vseed);
                let per = prep_tmp(&c);
                let mut scratch: ScratchOwned<BE> = ScratchOwned::alloc(threads.max(1) * (per + 64) + 64);
                scratch.data.as_mut().iter_mut().for_each(|x| *x = 0xa5);
                let ((), st) = sched::with_hook(poulpy_hal::verif::YIELD_SITE_PREPARE, policy, &rs, || {
                    p.prepare_custom_multi_thread(threads, &ctx.module, &c, start, count, &ctx.bdd_key, scratch.borrow());
                });
                let bits: Vec<Vec<u8>> = (0..32).map(|i| prep_bit_bytes(&p, i)).collect();
                let status: Vec<i128> = (0..32).map(|i| {
                    if bits[i] == refs[i] { 1 } else if bits[i].iter().all(|x| *x == 0) { 0 }
                    else if let Some(j) = refs.iter().position(|x| *x == bits[i]) { 100 + j as i128 } else { -1 }
                }).collect();
                if !forced {
                    let (tids, lens, all) = st.grouped();
                    return vec![tids, lens, all, status, vec![distinct as i128, st.spawned(), st.done.len() as i128, st.done_ok()]];
                }
                let (ths, its) = st.granted();
                vec![ths, its, status, vec![distinct as i128, st.spawned(), st.done.len() as i128 * st.done_ok()]]
            }

            /// 20012 (forced): ps = [be, op, threads, aseed, bseed, policy, items]
            #[cfg(feature = "c20hook")]
            pub fn hook_op(r: &Rec) -> Vec<Vec<i128>> {
                let (op, threads, sa, sb, policy) = (r.ps[1], r.ps[2] as usize, r.ps[3] as u64, r.ps[4] as u64, r.ps[5]);
                let rs: Vec<i128> = r.vs.first().cloned().unwrap_or_default();
                let ops = operands(sa, sb);
                let key = (op, sa, sb);
                let cached = EVAL_REF.lock().unwrap().get(&key).cloned();
                let reference = match cached {
                    Some(x) => x,
                    None => {
                        let v = std::sync::Arc::new(eval_bytes(op, 0, &ops.0, &ops.1));
                        EVAL_REF.lock().unwrap().insert(key, v.clone());
                        v
                    }
                };
                let (got, st) = sched::with_hook(poulpy_hal::verif::YIELD_SITE_EVAL, Some(policy), &rs, || eval_bytes(op, threads, &ops.0, &ops.1));
                let nonzero = reference.iter().any(|x| *x != 0);
                let (ths, its) = st.granted();
                vec![ths, its, vec![(got == *reference) as i128, nonzero as i128, st.spawned(), st.done.len() as i128 * st.done_ok()]]
            }

            pub fn per_thread(kind: i128) -> usize {
                let ctx = &*CTX;
                match kind {
                    1 | 2 => prep_tmp(&ciphertext(7).1),
                    _ => ctx.module.execute_bdd_circuit_tmp_bytes(&ctx.glwe_infos(), 2, &ctx.ggsw_infos()),
                }
            }
        }
    };
}

backend_impl!(fft64_ref, poulpy_cpu_ref::FFT64Ref);
backend_impl!(fft64_avx, poulpy_cpu_avx::FFT64Avx);

macro_rules! on_be {
    ($be:expr, $f:ident ( $($a:expr),* )) => {
        match $be { 1 => fft64_ref::$f($($a),*), 2 => fft64_avx::$f($($a),*), _ => panic!("c20: backend {} not wired", $be) }
    };
}

fn kernel(r: &Rec) -> Vec<Vec<i128>> {
    let be = r.ps[0];
    match r.code {
        20001 => on_be!(be, chunks(r, false)),
        20002 => on_be!(be, chunks(r, true)),
        20003 => on_be!(be, prepare(r)),
        20004 => on_be!(be, eval(r)),
        20005 => on_be!(be, shared(r)),
        20006 => on_be!(be, split(r)),
        20007 => on_be!(be, exact(r)),
        20013 => on_be!(be, mixed(r)),
        #[cfg(feature = "c20hook")]
        20008 => on_be!(be, hook_eval(r, false)),
        #[cfg(feature = "c20hook")]
        20009 => on_be!(be, hook_prepare(r, false)),
        #[cfg(feature = "c20hook")]
        20010 => on_be!(be, hook_eval(r, true)),
        #[cfg(feature = "c20hook")]
        20011 => on_be!(be, hook_prepare(r, true)),
        #[cfg(feature = "c20hook")]
        20012 => on_be!(be, hook_op(r)),
        #[cfg(not(feature = "c20hook"))]
        20008..=20012 => panic!("c20: record kind {} needs the harness feature c20hook", r.code),
        _ => panic!("c20: unknown op {}", r.code),
    }
}

pub fn exec(r: &Rec) -> Out {
    let r2 = r.clone();
    guard(move || kernel(&r2))
}

pub const POLICIES: i128 = 8;
/// number of outputs of the circuit behind wrapper `op` (add, sub, sll, sra, srl, slt, sltu, or, and, xor)
const OP_ITEMS: [i128; 10] = [32, 32, 32, 32, 32, 1, 1, 32, 32, 32];

/// records that need the yield hook (only generated with the feature c20hook)
fn generate_hook(out: &mut Vec<Rec>, rng: &mut Rng, thorough: bool, s: i128, cores: i128) {
    let stream = |rng: &mut Rng, n: i128| -> Vec<Vec<i128>> { vec![(0..n.max(1)).map(|_| rng.below(1 << 30) as i128).collect()] };
    // 20008: log only, no work: every (items, threads) of a square + random larger ones + degenerate
    let (imax, tmax) = if thorough { (48, 52) } else { (24, 27) };
    for items in 1..=imax {
        for threads in 1..=tmax {
            out.push(Rec::new(20008, vec![1 + (items + threads) % 2, 16, items, threads, (items * 5 + threads) % 3, 0], vec![]));
        }
    }
    for _ in 0..(if thorough { 200 } else { 50 }) {
        out.push(Rec::new(20008, vec![1 + rng.below(2) as i128, 16, rng.range(1, 130) as i128, rng.range(1, 140) as i128, rng.range(0, 4) as i128, 0], vec![]));
    }
    for (items, threads) in [(0, 2), (3, 0)] { out.push(Rec::new(20008, vec![1, 16, items, threads, 1, 0], vec![])); }

    // 20010: forced schedules, one Cmux per item.  (a) every policy on a few shapes, (b) two policies (rotating) on a grid
    // with thread counts dividing / not dividing / exceeding the items, (c) random shapes with the two random policies
    let mut k = 0i128;
    let shapes_a: Vec<(i128, i128)> = vec![(7, 2), (7, 3), (12, 5), (12, 8), (32, 3), (32, 4), (32, 5), (32, 8), (33, 16), (9, 4)];
    for (items, threads) in &shapes_a {
        for pol in 0..POLICIES {
            k += 1;
            out.push(Rec::new(20010, vec![1 + k % 2, if k % 9 == 0 { 64 } else { 16 }, *items, *threads, k % 3, s + k, pol], stream(rng, *items)));
        }
    }
    let grid_i: Vec<i128> = if thorough { (1..=33).collect() } else { vec![1, 2, 3, 4, 5, 7, 8, 9, 12, 16, 17, 31, 32] };
    let grid_t: Vec<i128> = if thorough { (1..=34).chain([64, 2 * cores]).collect() } else { vec![1, 2, 3, 4, 5, 7, 8, 16, 33] };
    for items in &grid_i {
        for threads in &grid_t {
            for j in 0..2 {
                k += 1;
                out.push(Rec::new(20010, vec![1 + k % 2, 16, *items, *threads, k % 3, s + k, (k + 3 * j) % POLICIES], stream(rng, *items)));
            }
        }
    }
    for _ in 0..(if thorough { 300 } else { 60 }) {
        k += 1;
        let items = rng.range(2, 100) as i128;
        let threads = rng.range(2, 40) as i128;
        out.push(Rec::new(20010, vec![1 + k % 2, 16, items, threads, k % 3, s + k, if k % 2 == 0 { 5 } else { 7 }], stream(rng, items)));
    }
    out.push(Rec::new(20010, vec![1, 16, 0, 2, 1, s, 5], stream(rng, 1)));
    out.push(Rec::new(20010, vec![1, 16, 4, 0, 1, s, 2], stream(rng, 4)));

    // the real thing at the test parameter set
    let vseed = 11 + s;
    // 20009: log only: full word for many thread counts, a spread of partial ranges
    let mut j = 0usize;
    let tcs: Vec<i128> = vec![2, 3, 5, 8, 4, 7, 33, 6, 16, 1, 9, 31];
    for t in (1..=(if thorough { 40 } else { 12 })).chain([16, 31, 32, 33, 2 * cores]) { out.push(Rec::new(20009, vec![1 + t % 2, t, 0, 32, vseed], vec![])); }
    let parts: Vec<(i128, i128)> = if thorough {
        (0..32).flat_map(|st| (1..=(32 - st)).map(move |c| (st, c))).collect()
    } else {
        vec![(0, 1), (0, 5), (1, 30), (3, 7), (5, 13), (7, 1), (8, 8), (11, 17), (16, 16), (17, 15), (20, 3), (24, 7), (29, 3), (30, 2), (31, 1), (2, 29)]
    };
    for (st, c) in &parts {
        j += 1;
        out.push(Rec::new(20009, vec![if j % 3 == 0 { 1 } else { 2 }, tcs[j % tcs.len()], *st, *c, vseed], vec![]));
    }
    // 20011: forced schedules on (partial) preparation
    let parts_f: Vec<(i128, i128)> = if thorough {
        (0..32).step_by(3).flat_map(|st| (1..=(32 - st)).step_by(4).map(move |c| (st, c))).collect()
    } else {
        vec![(0, 32), (3, 7), (5, 13), (16, 16), (1, 30), (29, 3), (7, 2), (10, 11)]
    };
    for (st, c) in &parts_f {
        for r in 0..(if thorough { 4 } else { 3 }) {
            j += 1;
            let t = [2, 3, 5, 8, 4, 7][j % 6];
            out.push(Rec::new(20011, vec![if j % 3 == 0 { 1 } else { 2 }, t, *st, *c, vseed, (j as i128 + 3 * r) % POLICIES], stream(rng, *c)));
        }
    }
    for pol in 0..POLICIES { out.push(Rec::new(20011, vec![2, 4, 6, 14, vseed, pol], stream(rng, 14))); }
    out.push(Rec::new(20011, vec![2, 2, 30, 3, vseed, 2], stream(rng, 3)));
    out.push(Rec::new(20011, vec![2, 0, 0, 32, vseed, 2], stream(rng, 32)));
    // 20012: forced schedules on the circuit wrappers
    let mut q = 0i128;
    for op in 0..10i128 {
        for t in if thorough { vec![2, 3, 4, 5, 7, 8, 16, 33] } else { vec![2, 3, 5] } {
            q += 1;
            out.push(Rec::new(20012, vec![1 + (op + t) % 2, op, t, 21 + s, 22 + s, (q + op) % POLICIES, OP_ITEMS[op as usize]], stream(rng, 32)));
        }
    }
    for pol in 0..POLICIES { out.push(Rec::new(20012, vec![2, 0, 4, 21 + s, 22 + s, pol, 32], stream(rng, 32))); }
}

pub fn generate(tier: &str, seed: u64) -> Vec<Rec> {
    let thorough = tier == "thorough";
    let mut rng = Rng::new(seed);
    let cores = thread::available_parallelism().map(|x| x.get()).unwrap_or(8) as i128;
    let s = seed as i128;
    let mut out = Vec::new();

    // (i) cheap, high volume.  20001: which thread asks for which index — every (items, threads) of a square
    // (threads dividing, not dividing, exceeding the items), larger random ones, extra tail slots
    let (imax, tmax) = if thorough { (72, 76) } else { (40, 44) };
    for items in 1..=imax {
        for threads in 1..=tmax {
            out.push(Rec::new(20001, vec![1 + (items + threads) % 2, 16, items, threads, (items * 7 + threads) % 4, 0], vec![]));
        }
    }
    for _ in 0..(if thorough { 400 } else { 100 }) {
        let items = rng.range(1, 130) as i128;
        let threads = rng.range(1, 140) as i128;
        out.push(Rec::new(20001, vec![1 + rng.below(2) as i128, 16, items, threads, rng.range(0, 5) as i128, 0], vec![]));
    }
    // degenerate guards: items = 0 / threads = 0 must panic
    for (items, threads) in [(0, 1), (0, 3), (1, 0), (5, 0), (0, 0)] {
        out.push(Rec::new(20001, vec![1, 16, items, threads, 2, 0], vec![]));
    }
    // 20002: which item's result lands in which slot (one real Cmux per item, ring degree 16 or 64)
    let (imax, tmax) = if thorough { (33, 36) } else { (17, 19) };
    let mut k = 0i128;
    for items in 1..=imax {
        for threads in 1..=tmax {
            k += 1;
            out.push(Rec::new(20002, vec![1 + k % 2, if k % 7 == 0 { 64 } else { 16 }, items, threads, k % 3, s + k], vec![]));
        }
    }
    for (items, threads) in [(32, 3), (32, 5), (32, 8), (32, 12), (32, 31), (32, 33), (32, 64), (64, 7), (64, 9), (100, 16), (100, 33)] {
        k += 1;
        out.push(Rec::new(20002, vec![1 + k % 2, 16, items, threads, 2, s + k], vec![]));
    }
    // 20006: split_mut windows: aligned / unaligned arenas, sizes that are / are not multiples of 64, too-small arenas
    for _ in 0..(if thorough { 6000 } else { 2000 }) {
        let off = if rng.below(3) == 0 { 0 } else { rng.range(0, 63) as i128 };
        let n = rng.range(0, 9) as i128;
        let len = match rng.below(4) { 0 => 64 * rng.range(0, 6) as i128, 1 => 8 * rng.range(0, 40) as i128, _ => rng.range(0, 300) as i128 };
        let need = n * ((len + 63) / 64 * 64) + 64;
        let alen = match rng.below(6) { 0 => n * len, 1 | 2 => need, 3 => (need - rng.range(0, 140) as i128).max(0), _ => need + rng.range(0, 130) as i128 };
        out.push(Rec::new(20006, vec![1 + rng.below(2) as i128, off, alen, n, len], vec![]));
    }

    // (ii) the real thing at the test parameter set (N = 256, u32)
    let tcs: Vec<i128> = vec![1, 2, 3, 5, 8, 33, 4, 7, 6, 9, 16, 31, 32, 40, 11, 13];
    let vseed = 11 + s;
    let mut preps: Vec<(i128, i128, i128, i128, i128)> = Vec::new(); // (be, threads, start, count, vseed)
    // full preparation for every thread count 1..40 (and 2*cores), both backends alternating
    for t in 1..=40 { preps.push((1 + t % 2, t, 0, 32, vseed)); }
    preps.push((2, 2 * cores, 0, 32, vseed));
    preps.push((2, 64, 0, 32, vseed));
    // every (start, length), thread count cycling through the list (shifted by a per-run amount)
    let mut j = s as usize;
    for start in 0..32i128 {
        for count in 1..=(32 - start) {
            j += 1;
            if !thorough && (start + count) % 2 == 1 && count > 3 && start > 2 { continue; } // quick: a covering subset
            preps.push((if j % 4 == 0 { 1 } else { 2 }, tcs[j % tcs.len()], start, count, vseed));
        }
    }
    if thorough {
        for _ in 0..300 {
            let start = rng.range(0, 31) as i128;
            let count = rng.range(1, 32 - start as i64) as i128;
            preps.push((1 + rng.below(2) as i128, rng.range(1, 2 * cores as i64 + 3) as i128, start, count, vseed + 1 + rng.below(3) as i128));
        }
    }
    for (be, t, st, c, v) in preps { out.push(Rec::new(20003, vec![be, t, st, c, v], vec![])); }
    // degenerate guards of prepare: bit_count = 0, threads = 0, range past the end
    for (t, st, c) in [(2, 4, 0), (0, 0, 32), (2, 30, 3), (1, 32, 1)] { out.push(Rec::new(20003, vec![2, t, st, c, vseed], vec![])); }

    // 20004: every circuit wrapper x thread counts
    let ets: Vec<i128> = if thorough { (1..=40).chain([64, 2 * cores]).collect() } else { vec![1, 2, 3, 4, 5, 6, 7, 8, 11, 16, 31, 32, 33, 40, 2 * cores] };
    for op in 0..10i128 {
        for t in &ets {
            out.push(Rec::new(20004, vec![1 + (op + t) % 2, op, *t, 21 + s, 22 + s], vec![]));
        }
    }
    if thorough {
        for r in 0..6i128 { for op in 0..10i128 { out.push(Rec::new(20004, vec![2, op, 3 + r, 40 + s + r, 50 + s + r], vec![])); } }
    }

    // 20007: the documented scratch sizing with nothing added (the model predicts which calls panic in split_mut)
    for be in [1i128, 2] {
        for kind in [0i128, 1, 2] {
            let per = if be == 1 { fft64_ref::per_thread(kind) } else { fft64_avx::per_thread(kind) } as i128;
            for threads in [1i128, 2, 3, 4, 5] { out.push(Rec::new(20007, vec![be, kind, threads, per], vec![])); }
        }
    }

    if cfg!(feature = "c20hook") { generate_hook(&mut out, &mut rng, thorough, s, cores); }

    // 20013: ONE module + prepared BDD/CBT key shared by workloads with DIFFERENT per-call parameters (log_domain,
    // extension factor, output GGSW layout, mode), each compared bit for bit with a solo run on a freshly built identical
    // key.  Workload codes: 0/10 integer preparation (full, 3 threads / partial, 2 threads), 1..9 direct circuit
    // bootstrapping (see cbt_params).  mode 0: one thread, in the listed order; 1: one thread per workload behind a barrier;
    // 2: same, each workload twice.
    {
        let all: Vec<i128> = (0..=10).collect();
        let mut k = s;
        for a in &all {
            for b in &all {
                if a == b { continue; }
                k += 1;
                let be = 1 + k % 2;
                // sequential: every ordered pair (the first call is the one a per-key cache would freeze)
                if thorough || (a + 2 * b + s) % 3 != 0 || *a == 0 || *b == 0 { out.push(Rec::new(20013, vec![be, 0, 60 + s, *a, *b], vec![])); }
                // concurrent: every unordered pair
                if a < b { out.push(Rec::new(20013, vec![3 - be, 1, 61 + s, *a, *b], vec![])); }
            }
        }
        for (mode, ws) in [(1i128, vec![0i128, 1, 4]), (2, vec![0, 1]), (2, vec![10, 7, 2]), (1, vec![0, 1, 2, 3, 6, 7]), (1, vec![4, 5, 8]),
                           (0, vec![1, 0, 1, 0]), (0, vec![9, 0, 10]), (2, vec![3, 6, 0, 5]), (1, vec![0, 0, 1, 1]), (0, vec![5, 4, 8, 0, 7, 6])] {
            k += 1;
            let mut ps = vec![1 + k % 2, mode, 62 + s];
            ps.extend(ws);
            out.push(Rec::new(20013, ps, vec![]));
        }
        if thorough {
            for r in 0..40i128 {
                let n = rng.range(2, 5) as usize;
                let mut ps = vec![1 + r % 2, rng.range(0, 2) as i128, 70 + s + r % 3];
                for _ in 0..n { ps.push(rng.range(0, 10) as i128); }
                out.push(Rec::new(20013, ps, vec![]));
            }
        }
    }

    // 20005: shared Module + prepared keys + read-only operands, private scratch; 16 threads, then oversubscribed
    out.push(Rec::new(20005, vec![2, 16, 31 + s], vec![]));
    out.push(Rec::new(20005, vec![1, 16, 32 + s], vec![]));
    out.push(Rec::new(20005, vec![2, 2 * cores, 33 + s], vec![]));
    if thorough {
        for r in 0..6i128 { out.push(Rec::new(20005, vec![1 + r % 2, 2 * cores + r, 34 + s + r], vec![])); }
    }
    out
}

fn main() {
    poulpy_verif_harness::run_main(generate, exec)
}
