//! C07NET: scratch runner of the NTT120 butterfly-network records (opcodes 72xx, module ../c07_net.rs).
use poulpy_verif_harness::rec::*;

#[path = "../c07_net.rs"]
mod c07_net;

fn generate(tier: &str, seed: u64) -> Vec<Rec> {
    let mut rng = Rng::new(seed ^ 0x7200);
    let mut out = Vec::new();
    c07_net::generate(tier, &mut rng, &mut out);
    out
}

fn exec(r: &Rec) -> Out {
    let r = r.clone();
    guard(move || c07_net::op(&r))
}

fn main() { poulpy_verif_harness::run_main(generate, exec) }
