//! C08: digit/carry kernels, normalisation, shifts, encoding.
use poulpy_verif_harness::rec::*;
use poulpy_verif_harness::with_znx;
use poulpy_cpu_ref::reference::znx::*;
use poulpy_verif_harness::hal::*;
use poulpy_verif_harness::with_be;
use poulpy_hal::api::*;

#[path = "../c08_enc.rs"]
mod c08_enc;

/// flat-memory vector ops through the public HAL API of Module<BE>
/// ps = be n | rcols rsize rmax rcol | acols asize amax acol | extra...   vs = [res_flat, a_flat]
fn vec_op(r: &Rec) -> Vec<Vec<i128>> {
    let p = &r.ps;
    let u = |i: usize| p[i] as usize;
    let (be, n) = (p[0], u(1));
    let (rcols, rsize, rmax, rcol) = (u(2), u(3), u(4), u(5));
    let (acols, asize, amax, acol) = (u(6), u(7), u(8), u(9));
    let e = |i: usize| p[10 + i];
    let mut res = mk_vec_znx(n, rcols, rmax, rsize, &v64(&r.vs[0]));
    let a = if r.vs.len() > 1 && !(8201..=8204).contains(&r.code) { mk_vec_znx(n, acols, amax, asize, &v64(&r.vs[1])) } else { mk_vec_znx(n, 1, 1, 1, &vec![0i64; n]) };
    let code = r.code;
    if (8201..=8204).contains(&code) {
        return with_be!(be, BE, {
            use poulpy_hal::layouts::{Backend, DataViewMut};
            let m = module::<BE>(n);
            let word = std::mem::size_of::<<BE as Backend>::ScalarBig>();
            let mut big = m.vec_znx_big_alloc(acols, asize);
            {
                let d: &mut [u8] = big.data_mut().as_mut();
                for (i, x) in r.vs[1].iter().enumerate() {
                    if word == 8 { d[i * 8..i * 8 + 8].copy_from_slice(&(*x as i64).to_le_bytes()); }
                    else { d[i * 16..i * 16 + 16].copy_from_slice(&x.to_le_bytes()); }
                }
            }
            let mut sc = scratch_filled::<BE>(m.vec_znx_big_normalize_tmp_bytes() + 64, 0x2d2d2d2d2d2d2d2d);
            let s = sc.borrow();
            let (rb, ab, off) = (e(0) as usize, e(1) as usize, e(2) as i64);
            match code {
                8201 => m.vec_znx_big_normalize(&mut res, rb, off, rcol, &big, ab, acol, s),
                8202 => m.vec_znx_big_normalize_add_assign(&mut res, rb, off, rcol, &big, ab, acol, s),
                8203 => m.vec_znx_big_normalize_sub_assign(&mut res, rb, off, rcol, &big, ab, acol, s),
                _ => m.vec_znx_big_normalize_negate(&mut res, rb, off, rcol, &big, ab, acol, s),
            }
            vec![to128(&dump_vec_znx(&res))]
        });
    }
    with_be!(be, BE, {
        let m = module::<BE>(n);
        let fill = if code == 8107 { e(2) as i64 } else { 0x5a5a5a5a5a5a5a5a_u64 as i64 };
        let bytes = m.vec_znx_normalize_tmp_bytes().max(m.vec_znx_rsh_tmp_bytes()).max(m.vec_znx_lsh_tmp_bytes());
        let mut sc = scratch_filled::<BE>(bytes, fill);
        let s = sc.borrow();
        match code {
            8101 => m.vec_znx_normalize(&mut res, e(0) as usize, e(2) as i64, rcol, &a, e(1) as usize, acol, s),
            8102 => m.vec_znx_normalize_assign(e(0) as usize, &mut res, rcol, s),
            8103 => m.vec_znx_lsh_assign(e(0) as usize, e(1) as usize, &mut res, rcol, s),
            8104 => m.vec_znx_lsh(e(0) as usize, e(1) as usize, &mut res, rcol, &a, acol, s),
            8105 => m.vec_znx_lsh_add_into(e(0) as usize, e(1) as usize, &mut res, rcol, &a, acol, s),
            8106 => m.vec_znx_lsh_sub(e(0) as usize, e(1) as usize, &mut res, rcol, &a, acol, s),
            8107 => m.vec_znx_rsh_assign(e(0) as usize, e(1) as usize, &mut res, rcol, s),
            8108 => m.vec_znx_rsh(e(0) as usize, e(1) as usize, &mut res, rcol, &a, acol, s),
            8109 => m.vec_znx_rsh_add_into(e(0) as usize, e(1) as usize, &mut res, rcol, &a, acol, s),
            8110 => m.vec_znx_rsh_sub(e(0) as usize, e(1) as usize, &mut res, rcol, &a, acol, s),
            _ => panic!("c08: unknown vec op {}", code),
        }
    });
    vec![to128(&dump_vec_znx(&res))]
}


fn kernel(r: &Rec) -> Vec<Vec<i128>> {
    let p = &r.ps;
    let v: Vec<Vec<i64>> = r.vs.iter().map(|x| v64(x)).collect();
    match r.code {
        8001 => {
            let (w, b) = (p[0], p[1] as usize);
            if w == 64 { vec![r.vs[0].iter().map(|x| get_digit_i64(b, *x as i64) as i128).collect()] }
            else { vec![r.vs[0].iter().map(|x| get_digit_i128(b, *x)).collect()] }
        }
        8002 => {
            let (w, b) = (p[0], p[1] as usize);
            if w == 64 { vec![r.vs[0].iter().map(|x| { let x = *x as i64; get_carry_i64(b, x, get_digit_i64(b, x)) as i128 }).collect()] }
            else { vec![r.vs[0].iter().map(|x| get_carry_i128(b, *x, get_digit_i128(b, *x))).collect()] }
        }
        8010 => { let (be, b, l) = (p[0], p[1] as usize, p[2] as usize); let mut c = vec![0i64; v[0].len()];
            with_znx!(be, T, { T::znx_normalize_first_step_carry_only(b, l, &v[0], &mut c) }); vec![to128(&c)] }
        8011 => { let (be, b, l) = (p[0], p[1] as usize, p[2] as usize); let mut x = v[0].clone(); let mut c = vec![0i64; x.len()];
            with_znx!(be, T, { T::znx_normalize_first_step_assign(b, l, &mut x, &mut c) }); vec![to128(&x), to128(&c)] }
        8012 => { let (be, ov, b, l) = (p[0], p[1] != 0, p[2] as usize, p[3] as usize); let mut x = v[0].clone(); let mut c = vec![0i64; x.len()];
            with_znx!(be, T, { if ov { T::znx_normalize_first_step::<true>(b, l, &mut x, &v[1], &mut c) } else { T::znx_normalize_first_step::<false>(b, l, &mut x, &v[1], &mut c) } });
            vec![to128(&x), to128(&c)] }
        8013 => { let (be, b, l) = (p[0], p[1] as usize, p[2] as usize); let mut c = v[1].clone();
            with_znx!(be, T, { T::znx_normalize_middle_step_carry_only(b, l, &v[0], &mut c) }); vec![to128(&c)] }
        8014 => { let (be, b, l) = (p[0], p[1] as usize, p[2] as usize); let mut x = v[0].clone(); let mut c = v[1].clone();
            with_znx!(be, T, { T::znx_normalize_middle_step_assign(b, l, &mut x, &mut c) }); vec![to128(&x), to128(&c)] }
        8015 => { let (be, ov, b, l) = (p[0], p[1] != 0, p[2] as usize, p[3] as usize); let mut x = v[0].clone(); let mut c = v[2].clone();
            with_znx!(be, T, { if ov { T::znx_normalize_middle_step::<true>(b, l, &mut x, &v[1], &mut c) } else { T::znx_normalize_middle_step::<false>(b, l, &mut x, &v[1], &mut c) } });
            vec![to128(&x), to128(&c)] }
        8016 => { let (be, b, l) = (p[0], p[1] as usize, p[2] as usize); let mut x = v[0].clone(); let mut c = v[2].clone();
            with_znx!(be, T, { T::znx_normalize_middle_step_sub(b, l, &mut x, &v[1], &mut c) }); vec![to128(&x), to128(&c)] }
        8017 => { let (be, b, l) = (p[0], p[1] as usize, p[2] as usize); let mut x = v[0].clone(); let mut c = v[1].clone();
            with_znx!(be, T, { T::znx_normalize_final_step_assign(b, l, &mut x, &mut c) }); vec![to128(&x)] }
        8018 => { let (be, ov, b, l) = (p[0], p[1] != 0, p[2] as usize, p[3] as usize); let mut x = v[0].clone(); let mut c = v[2].clone();
            with_znx!(be, T, { if ov { T::znx_normalize_final_step::<true>(b, l, &mut x, &v[1], &mut c) } else { T::znx_normalize_final_step::<false>(b, l, &mut x, &v[1], &mut c) } });
            vec![to128(&x)] }
        8019 => { let (be, b, l) = (p[0], p[1] as usize, p[2] as usize); let mut x = v[0].clone(); let mut c = v[2].clone();
            with_znx!(be, T, { T::znx_normalize_final_step_sub(b, l, &mut x, &v[1], &mut c) }); vec![to128(&x)] }
        8020 => { let (be, b, l) = (p[0], p[1] as usize, p[2] as usize); let mut x = v[0].clone(); let mut s = v[1].clone();
            with_znx!(be, T, { T::znx_extract_digit_addmul(b, l, &mut x, &mut s) }); vec![to128(&x), to128(&s)] }
        8021 => { let (be, b) = (p[0], p[1] as usize); let mut x = v[0].clone(); let mut s = v[1].clone();
            with_znx!(be, T, { T::znx_normalize_digit(b, &mut x, &mut s) }); vec![to128(&x), to128(&s)] }
        8022 => { let (be, k) = (p[0], p[1] as i64); let mut x = vec![0i64; v[0].len()];
            with_znx!(be, T, { T::znx_mul_power_of_two(k, &mut x, &v[0]) }); vec![to128(&x)] }
        8023 => { let (be, k) = (p[0], p[1] as i64); let mut x = v[0].clone();
            with_znx!(be, T, { T::znx_mul_power_of_two_assign(k, &mut x) }); vec![to128(&x)] }
        8024 => { let (be, k) = (p[0], p[1] as i64); let mut x = v[0].clone();
            with_znx!(be, T, { T::znx_muladd_power_of_two(k, &mut x, &v[1]) }); vec![to128(&x)] }
        8101..=8299 => vec_op(r),
        8301..=8399 => c08_enc::op(r),
        _ => panic!("c08: unknown op {}", r.code),
    }
}

pub fn exec(r: &Rec) -> Out {
    let r2 = r.clone();
    guard(move || kernel(&r2))
}

fn vals(rng: &mut Rng, n: usize, bits: u32) -> Vec<i128> { (0..n).map(|_| rng.val64(bits) as i128).collect() }

pub fn generate(tier: &str, seed: u64) -> Vec<Rec> {
    let mut rng = Rng::new(seed);
    let mut out = Vec::new();
    let reps = if tier == "thorough" { 40 } else { 6 };
    // digits / carries, both widths, every radix
    for b in 1..=63i128 {
        let xs = vals(&mut rng, 24, b as u32 + 2);
        out.push(Rec::new(8001, vec![64, b], vec![xs.clone()]));
        out.push(Rec::new(8002, vec![64, b], vec![xs]));
    }
    for b in 1..=127i128 {
        let xs: Vec<i128> = (0..12).map(|i| match i { 0 => i128::MAX, 1 => i128::MIN, 2 => 0, 3 => -1, _ => rng.i128() >> rng.below(127) }).collect();
        out.push(Rec::new(8001, vec![128, b], vec![xs.clone()]));
        out.push(Rec::new(8002, vec![128, b], vec![xs]));
    }
    // step kernels on every backend, lengths covering SIMD tails
    for _ in 0..reps {
        for be in 0..=4i128 {
            for code in 8010..=8024i64 {
                let n = rng.pick(&[1usize, 2, 3, 4, 5, 7, 8, 9, 13, 16]);
                let b = rng.range(1, 62) as i128;
                let l = if b > 1 && rng.below(3) > 0 { rng.range(0, b as i64 - 1) as i128 } else { 0 };
                let bits = b as u32 + rng.below(4) as u32;
                // ZnxRef (be 0) is a helper, not a backend: its middle step ignores OVERWRITE (DESIGN §5.10)
                let ov = if be == 0 && code == 8015 { 1 } else { rng.below(2) as i128 };
                let k = rng.range(-62, 62) as i128;
                let r = match code {
                    8010 | 8011 => Rec::new(code, vec![be, b, l], vec![vals(&mut rng, n, bits)]),
                    8012 => Rec::new(code, vec![be, ov, b, l], vec![vals(&mut rng, n, bits), vals(&mut rng, n, bits)]),
                    8013 | 8014 | 8017 | 8020 => Rec::new(code, vec![be, b, l], vec![vals(&mut rng, n, bits), vals(&mut rng, n, bits)]),
                    8015 | 8018 => Rec::new(code, vec![be, ov, b, l], vec![vals(&mut rng, n, bits), vals(&mut rng, n, bits), vals(&mut rng, n, bits)]),
                    8016 | 8019 => Rec::new(code, vec![be, b, l], vec![vals(&mut rng, n, bits), vals(&mut rng, n, bits), vals(&mut rng, n, bits)]),
                    8021 => Rec::new(code, vec![be, b], vec![vals(&mut rng, n, bits), vals(&mut rng, n, bits)]),
                    8022 | 8023 => Rec::new(code, vec![be, k], vec![vals(&mut rng, n, bits)]),
                    8024 => Rec::new(code, vec![be, k], vec![vals(&mut rng, n, bits), vals(&mut rng, n, bits)]),
                    _ => unreachable!(),
                };
                out.push(r);
            }
        }
    }
    // power-of-two scaling with rounding (k < 0): exact ties and their neighbours, of both signs, in the vectorised part
    // and in the scalar tail (13 = 3 lanes of 4 + 1); a rounding rule that differs only at x = -2^(|k|-1) shows here
    for be in 0..=4i128 {
        for kp in 1..=62u32 {
            if tier != "thorough" && be != 0 && be != 2 && kp % 3 != 1 { continue; }
            let h = 1i128 << (kp - 1);
            let ties: Vec<i128> = vec![-h, h, -3 * h, 3 * h, -h + 1, -h - 1, h - 1, h + 1, -5 * h, 5 * h, 0, -1, -h];
            let ties: Vec<i128> = ties.into_iter().map(|x| x.clamp(i64::MIN as i128, i64::MAX as i128)).collect();
            for code in [8022i64, 8023, 8024] {
                let vs = if code == 8024 { vec![vals(&mut rng, ties.len(), 40), ties.clone()] } else { vec![ties.clone()] };
                out.push(Rec::new(code, vec![be, -(kp as i128)], vs));
            }
        }
    }
    gen_vec(&mut rng, tier, &mut out);
    // i128 accumulators, radix 1, a carry above 2^64 crossing more than 64 missing limbs (the i128 routine propagates
    // through min(gap, 128) zero limbs, the i64 one through min(gap, 64))
    for be in [3i128, 4] {
        for (rsz, gap, sh) in [(4usize, 68i128, 70u32), (3, 100, 100), (2, 127, 120), (5, 65, 66), (1, 130, 125)] {
            for code in [8201i64, 8202, 8203, 8204] {
                let n = 4usize;
                let off = -(rsz as i128 + gap);
                let a: Vec<i128> = (0..n).map(|i| (if i % 2 == 0 { 1i128 } else { -1 }) << (sh - i as u32)).collect();
                let res: Vec<i128> = (0..n * rsz).map(|_| rng.range(-1, 0) as i128).collect();
                out.push(Rec::new(code, vec![be, n as i128, 1, rsz as i128, rsz as i128, 0, 1, 1, 1, 0, 1, 1, off], vec![res, a]));
            }
        }
    }
    // i128 accumulators with limbs far above 2^64 (up to the documented headroom 2^126): the carry out of a middle step
    // exceeds 64 bits and must travel through several output limbs; both NTT120 backends, vectorised part and tail
    for be in [3i128, 4] {
        for (b, mag) in [(1i128, 70u32), (4, 90), (16, 100), (16, 79), (25, 120), (50, 113), (50, 125), (62, 125), (12, 64), (12, 76)] {
            for (asize, rsize) in [(1usize, 3usize), (2, 4), (3, 5), (2, 2)] {
                for off in [0i128, -b, -(2 * b + 3), 5, b] {
                    if tier != "thorough" && (off == 5 || off == b) && asize != 2 { continue; }
                    let code = 8201 + rng.below(4) as i64;
                    let n = rng.pick(&[4usize, 8, 16]);
                    let af: Vec<i128> = (0..n * asize).map(|i| {
                        let top = 1i128 << (mag - (i as u32 % 3));
                        let low = rng.i128() >> (127 - mag.min(100) + 8);
                        if i % 2 == 0 { top + low } else { -top + low }
                    }).collect();
                    let resf: Vec<i128> = limb_vals(&mut rng, n * rsize, b as i64);
                    out.push(Rec::new(code, vec![be, n as i128, 1, rsize as i128, rsize as i128, 0, 1, asize as i128, asize as i128, 0, b, b, off], vec![resf, af]));
                }
            }
        }
    }
    c08_enc::generate(tier, &mut rng, &mut out);
    out
}

/// digits of a limb vector: mostly normalised, sometimes un-normalised within headroom, sometimes extreme
fn limb_vals(rng: &mut Rng, cnt: usize, b: i64) -> Vec<i128> {
    let class = rng.below(6);
    (0..cnt).map(|_| {
        let half = 1i64 << (b - 1);
        (match class {
            0 | 1 => rng.range(-half, half - 1),
            2 => rng.pick(&[-half, half - 1, 0, -1, 1]),
            3 => { let hb = (b + 1 + rng.below(8) as i64).min(58); rng.range(-(1i64 << hb), 1i64 << hb) }
            4 => rng.pick(&[half, -half - 1, 2 * half, -2 * half, 3 * half + 1]),
            _ => rng.range(-half, half - 1),
        }) as i128
    }).collect()
}

pub fn gen_vec(rng: &mut Rng, tier: &str, out: &mut Vec<Rec>) {
    let reps = if tier == "thorough" { 12000 } else { 1500 };
    for it in 0..reps {
        let code = if it % 5 == 4 { 8201 + rng.below(4) as i64 } else { 8101 + rng.below(10) as i64 };
        let be = rng.range(1, 4) as i128;
        let n = rng.pick(&[1usize, 2, 4, 8, 16]);
        let small = it % 3 == 0;
        let rb = if small { rng.range(1, 6) } else { rng.range(1, 50) };
        let ab = if (code == 8101 || code >= 8201) && rng.below(2) == 0 { if small { rng.range(1, 6) } else { rng.range(1, 50) } } else { rb };
        let rcols = rng.range(1, 3) as usize; let acols = rng.range(1, 3) as usize;
        let rsize = rng.range(1, 5) as usize; let asize = rng.range(1, 5) as usize;
        let rmax = rsize + rng.below(2) as usize; let amax = if code >= 8201 { asize } else { asize + rng.below(2) as usize };
        let rcol = rng.below(rcols as u64) as usize; let acol = rng.below(acols as u64) as usize;
        let abits = (asize as i64) * ab;
        let resf = limb_vals(rng, n * rcols * rmax, rb);
        let mut af = limb_vals(rng, n * acols * amax, ab);
        if code >= 8201 {
            // big accumulators hold un-normalised sums: widen (i128 range for the NTT120 family)
            let sh = if be >= 3 && rng.below(3) == 0 { rng.range(20, 60) } else { rng.range(0, 8) };
            for x in af.iter_mut() { *x = (*x << sh) + (*x >> 3); if be <= 2 { *x = (*x as i64) as i128; } }
        }
        let hdr = |extra: Vec<i128>| { let mut p = vec![be, n as i128, rcols as i128, rsize as i128, rmax as i128, rcol as i128, acols as i128, asize as i128, amax as i128, acol as i128]; p.extend(extra); p };
        let kmax = ((rsize.max(asize) as i64) + 2) * rb;
        let k = rng.range(0, kmax) as i128;
        let r = match code {
            8101 | 8201..=8204 => { let off = rng.range(-(abits + 2 * ab), abits + 2 * ab) as i128; Rec::new(code, hdr(vec![rb as i128, ab as i128, off]), vec![resf, af]) }
            8102 => Rec::new(code, hdr(vec![rb as i128]), vec![resf]),
            8103 => Rec::new(code, hdr(vec![rb as i128, k]), vec![resf]),
            8107 => Rec::new(code, hdr(vec![rb as i128, k, rng.pick(&[0i64, 1, -1, 77, -12345]) as i128]), vec![resf]),
            _ => Rec::new(code, hdr(vec![rb as i128, k]), vec![resf, af]),
        };
        out.push(r);
    }
}

fn main() { poulpy_verif_harness::run_main(generate, exec) }
