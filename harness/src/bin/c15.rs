//! C15: encrypted integers — bootstrap, word operations, bit surgery — at the crate's test parameter set
//! (N = 256, rank 2, base2k 13; `bdd_arithmetic::tests::test_suite::TestContext`).
//!
//! Every record is produced by calling the public API and *decrypting*; nothing of the layout / index
//! arithmetic is re-implemented here (the model in coq/Model/C15*.v predicts the outputs).
//!
//!   15001  ps=[bits]                                  -> [bit_index(0..BITS)], [BITS, LOG_BITS, LOG_BYTES, MASK]
//!   15002  ps=[be,bits,seed]              vs=[[w]]    -> [decrypt], [N decoded coefficients]
//!   15003  ps=[be,bits,bit,seed]          vs=[[w]]    -> [N coefficients of get_bit_glwe]
//!   15004  ps=[be,bits,bit,seed]          vs=[[w]]    -> [2-bit decoding of the LWE of get_bit_lwe under sk_lwe]
//!   15005  ps=[be,bits,byte,seed]         vs=[[w]]    -> [N coefficients of get_byte]
//!   15006  ps=[be,bits,dst,src,seed]      vs=[[a,b]]  -> [decrypt], [coefficients]     splice_u8
//!   15007  ps=[be,bits,dst,src,seed]      vs=[[a,b]]  -> [decrypt], [coefficients]     splice_u16
//!   15008  ps=[be,bits,byte,seed]         vs=[[a]]    -> [decrypt], [coefficients]     sext
//!   15009  ps=[be,bits,byte,seed]         vs=[[a]]    -> [decrypt], [coefficients]     zero_byte
//!   15010  ps=[be,bits,seed]              vs=[[b_0..b_{m-1}]] -> [decrypt], [coefficients]   pack of m one-bit GLWEs
//!   15011  ps=[be,bits,seed]              vs=[[w]]    -> [FheUintPrepared::encrypt_sk -> decrypt]
//!   15012  ps=[be,bits,seed]              vs=[[w]]    -> [prepare -> decrypt], [per (row,col): word of bits observed in the debug GGSW cells]
//!   15013  ps=[be,bits,start,count,threads,seed] vs=[[w]] -> [decrypt of the partially prepared value], [1 if the GGSW of bit i is all-zero bytes]
//!   15020+op ps=[be,seed]                 vs=[[a,b]]  -> [encrypt, prepare (circuit bootstrapping), op, decrypt], [plain Rust op]
//!            op = 1 add 2 sub 3 sll 4 srl 5 sra 6 slt 7 sltu 8 and 9 or 10 xor 11 identity
//!   15040  ps=[be,seed]  vs=[[inputs], [op,x,y, op,x,y, ...]] -> [decrypted result of every step], [plain Rust]
//!   15050  ps=[be,sign,rsh,mask,lsh,via,seed] vs=[[k],[a]] -> [N coefficients of glwe_blind_rotation(a, k)]
//!   15051  ps=[be,rsh,mask,via,seed]      vs=[[k],[keys],[values]] -> [decrypt of glwe_blind_selection]
//!   15052  ps=[be,rsh,mask,via,seed]      vs=[[k],[data]] -> [all slots after retrieval], [all slots after _rev]
//!   15053  ps=[be,size,offset,via,seed]   vs=[[k],[data]] -> [decrypt of GLWEBlindRetriever::retrieve]
//!   15056  ps=[be,size,via,seed]   vs=[[kind,k,offset],[data]]* -> [result of every round of a history on ONE retriever]
//!   15054  ps=[be,bit,via,seed]           vs=[[a,b]]  -> [a', b'] after cswap by the GGSW of bit `bit` of vs[0][2]
//!   15060  ps=[be,route,msg,log_domain,seed]  -> [observed message per GGSW cell (row-major)], [row,idx,val.. of column 0]
//!   15061  ps=[be,route,msg,log_domain,log_gap_out,seed] -> same, exponent mode
//! `via` = 0: selector encrypted directly as GGSWs (FheUintPrepared::encrypt_sk); 1: packed encryption then circuit bootstrapping.
//! The measured noise (log2 of the largest decryption error, and the decision threshold) goes to `<out>.noise`.
use poulpy_bin_fhe::bdd_arithmetic::tests::test_suite::TestContext;
use poulpy_bin_fhe::bdd_arithmetic::{
    Add, And, BDDKeyHelper, Cswap, FheUint, FheUintPrepared, FheUintPreparedDebug, FromBits, GLWEBlindRetrieval,
    GLWEBlindRetriever, GLWEBlindRotation, GLWEBlindSelection, GetGGSWBit, Identity, Or, Sll, Slt, Sltu, Sra, Srl, Sub, ToBits,
    UnsignedInteger, Xor,
};
use poulpy_bin_fhe::blind_rotation::CGGI;
use poulpy_core::EncryptionLayout;
use poulpy_core::api::*;
use poulpy_core::layouts::{
    Base2K, Degree, GGSW, GGSWLayout, GLWE, GLWEInfos, GLWEPlaintext, GLWEPlaintextLayout, GLWESecretPrepared, GLWEToRef, LWE,
    LWEInfos, LWELayout, LWEPlaintext, TorusPrecision,
};
use poulpy_hal::api::{ScratchOwnedAlloc, ScratchOwnedBorrow};
use poulpy_hal::layouts::{DataView, DeviceBuf, Module, ScalarZnx, ScratchOwned, ZnxViewMut};
use poulpy_hal::source::Source;
use poulpy_verif_harness::rec::*;
use std::collections::HashMap;
use std::io::{BufRead, Write};
use std::sync::atomic::{AtomicUsize, Ordering};
use std::sync::{LazyLock, Mutex};

static NOISE: LazyLock<Mutex<Vec<String>>> = LazyLock::new(|| Mutex::new(Vec::new()));
fn note_noise(code: i64, tag: &str, err_log2: f64, thr_log2: f64) {
    NOISE.lock().unwrap().push(format!("{code} {tag} {err_log2:.3} {thr_log2:.3}"));
}

fn seed32(tag: u8, s: u64) -> [u8; 32] {
    let mut r = Rng::new(s ^ ((tag as u64) << 56));
    r.bytes32()
}

pub trait W: UnsignedInteger + ToBits + FromBits {
    fn fi(x: i128) -> Self;
    fn ti(self) -> i128;
}
macro_rules! impl_w { ($($t:ty),*) => { $( impl W for $t { fn fi(x: i128) -> Self { x as $t } fn ti(self) -> i128 { self as i128 } } )* }; }
impl_w!(u8, u16, u32, u64);

fn plain_op(op: i128, a: u32, b: u32) -> u32 {
    match op {
        1 => a.wrapping_add(b),
        2 => a.wrapping_sub(b),
        3 => a << (b & 31),
        4 => a >> (b & 31),
        5 => ((a as i32) >> (b & 31)) as u32,
        6 => ((a as i32) < (b as i32)) as u32,
        7 => (a < b) as u32,
        8 => a & b,
        9 => a | b,
        10 => a ^ b,
        11 => a,
        _ => panic!("bad op"),
    }
}

macro_rules! with_ty {
    ($bits:expr, $T:ident, $body:block) => {
        match $bits {
            8 => { type $T = u8; $body }
            16 => { type $T = u16; $body }
            32 => { type $T = u32; $body }
            64 => { type $T = u64; $body }
            _ => panic!("c15: word type u{} not wired", $bits),
        }
    };
}

macro_rules! backend_impl {
    ($m:ident, $BE:ty) => {
        mod $m {
            use super::*;
            type BE = $BE;
            type Ctx = TestContext<CGGI, BE>;
            static CTX: LazyLock<Ctx> = LazyLock::new(Ctx::new);
            pub fn warm() { let _ = &*CTX; }

            fn scr() -> ScratchOwned<BE> { ScratchOwned::alloc(1 << 22) }
            type U<T> = FheUint<Vec<u8>, T>;
            type P<T> = FheUintPrepared<DeviceBuf<BE>, T, BE>;

            fn enc<T: W>(v: T, seed: u64) -> U<T> {
                let ctx = &*CTX;
                let gi = ctx.glwe_infos();
                let e = EncryptionLayout::new_from_default_sigma(gi).unwrap();
                let mut c: U<T> = FheUint::alloc_from_infos(&gi);
                c.encrypt_sk(&ctx.module, v, &ctx.sk_glwe, &e, &mut Source::new(seed32(2, seed)), &mut Source::new(seed32(3, seed)), scr().borrow());
                c
            }
            /// the decoding of FheUint::decrypt applied to every coefficient, plus the measured error
            fn coeffs<G: GLWEToRef + GLWEInfos>(code: i64, g: &G) -> Vec<i128> {
                let ctx = &*CTX;
                let n = ctx.module.n();
                let mut s = scr();
                let pi = GLWEPlaintextLayout { n: g.n(), base2k: g.base2k(), k: 1_usize.into() };
                let mut pt: GLWEPlaintext<Vec<u8>> = GLWEPlaintext::alloc_from_infos(&pi);
                ctx.module.glwe_decrypt(g, &mut pt, &ctx.sk_glwe, s.borrow());
                let mut d = vec![0i64; n];
                pt.decode_vec_i64(&mut d, TorusPrecision(2));
                // full precision: distance of the phase from the nearest message level, threshold 2^-3
                let k = g.max_k().as_usize();
                let fi = GLWEPlaintextLayout { n: g.n(), base2k: g.base2k(), k: g.max_k() };
                let mut pf: GLWEPlaintext<Vec<u8>> = GLWEPlaintext::alloc_from_infos(&fi);
                ctx.module.glwe_decrypt(g, &mut pf, &ctx.sk_glwe, s.borrow());
                let mut x = vec![0i64; n];
                pf.decode_vec_i64(&mut x, TorusPrecision(k as u32));
                let lvl = 1i64 << (k - 2);
                let me = x.iter().map(|v| { let q = (v + lvl / 2).div_euclid(lvl); (v - q * lvl).abs() }).max().unwrap_or(0);
                note_noise(code, "glwe", ((me + 1) as f64).log2() - k as f64, -3.0);
                to128(&d)
            }
            fn dec<T: W>(c: &U<T>) -> i128 {
                let ctx = &*CTX;
                c.decrypt(&ctx.module, &ctx.sk_glwe, scr().borrow()).ti()
            }
            fn word_and_coeffs<T: W>(code: i64, c: &U<T>) -> Vec<Vec<i128>> { vec![vec![dec(c)], coeffs(code, c)] }

            fn prep_direct<T: W>(v: T, seed: u64) -> P<T> {
                let ctx = &*CTX;
                let l = ctx.ggsw_infos();
                let e = EncryptionLayout::new_from_default_sigma(l).unwrap();
                let mut p: P<T> = FheUintPrepared::alloc_from_infos(&ctx.module, &l);
                p.encrypt_sk(&ctx.module, v, &ctx.sk_glwe, &e, &mut Source::new(seed32(5, seed)), &mut Source::new(seed32(6, seed)), scr().borrow());
                p
            }
            fn prep_cbt<T: W>(c: &U<T>) -> P<T> {
                let ctx = &*CTX;
                let mut p: P<T> = FheUintPrepared::alloc_from_infos(&ctx.module, &ctx.ggsw_infos());
                p.prepare(&ctx.module, c, &ctx.bdd_key, scr().borrow());
                p
            }
            fn selector<T: W>(v: T, via: i128, seed: u64) -> P<T> {
                if via == 0 { prep_direct(v, seed) } else { prep_cbt(&enc(v, seed ^ 0x77)) }
            }
            fn dec_prep<T: W>(p: &P<T>) -> i128 {
                let ctx = &*CTX;
                p.decrypt(&ctx.module, &ctx.sk_glwe, &ctx.bdd_key, scr().borrow()).ti()
            }

            fn apply(op: i128, a: &P<u32>, b: &P<u32>) -> U<u32> {
                let ctx = &*CTX;
                let mut res: U<u32> = FheUint::alloc_from_infos(&ctx.glwe_infos());
                let mut s = scr();
                let (m, k) = (&ctx.module, &ctx.bdd_key);
                match op {
                    1 => res.add(m, a, b, k, s.borrow()),
                    2 => res.sub(m, a, b, k, s.borrow()),
                    3 => res.sll(m, a, b, k, s.borrow()),
                    4 => res.srl(m, a, b, k, s.borrow()),
                    5 => res.sra(m, a, b, k, s.borrow()),
                    6 => res.slt(m, a, b, k, s.borrow()),
                    7 => res.sltu(m, a, b, k, s.borrow()),
                    8 => res.and(m, a, b, k, s.borrow()),
                    9 => res.or(m, a, b, k, s.borrow()),
                    10 => res.xor(m, a, b, k, s.borrow()),
                    11 => res.identity(m, a, k, s.borrow()),
                    _ => panic!("bad op"),
                }
                res
            }

            fn layout_ops<T: W>(r: &Rec) -> Vec<Vec<i128>> {
                let ctx = &*CTX;
                let code = r.code;
                let ps = &r.ps;
                let seed = *ps.last().unwrap() as u64;
                let gi = ctx.glwe_infos();
                let w0 = T::fi(r.vs[0][0]);
                match code {
                    15002 => { let c = enc(w0, seed); word_and_coeffs(code, &c) }
                    15003 => {
                        let c = enc(w0, seed);
                        let mut res: GLWE<Vec<u8>> = GLWE::alloc_from_infos(&gi);
                        c.get_bit_glwe(&ctx.module, ps[3] as usize, &mut res, &ctx.bdd_key, scr().borrow());
                        vec![coeffs(code, &res)]
                    }
                    15004 => {
                        let c = enc(w0, seed);
                        let (_, ks_glwe, ks_lwe) = ctx.bdd_key.get_cbt_key();
                        let mut lwe: LWE<Vec<u8>> = LWE::alloc(Degree(ctx.module.n() as u32 - 1), gi.base2k, gi.k);
                        c.get_bit_lwe(&ctx.module, ps[3] as usize, &mut lwe, ks_glwe, ks_lwe, scr().borrow());
                        let mut pt: LWEPlaintext<Vec<u8>> = LWEPlaintext::alloc(gi.base2k, gi.k);
                        ctx.module.lwe_decrypt(&lwe, &mut pt, &ctx.sk_lwe, scr().borrow());
                        let full = pt.decode_i64(gi.k);
                        let k = gi.k.as_usize();
                        let lvl = 1i64 << (k - 2);
                        let q = (full + lvl / 2).div_euclid(lvl);
                        note_noise(code, "lwe", (((full - q * lvl).abs() + 1) as f64).log2() - k as f64, -4.0);
                        vec![vec![q.rem_euclid(4) as i128]]
                    }
                    15005 => {
                        let c = enc(w0, seed);
                        let mut res: GLWE<Vec<u8>> = GLWE::alloc_from_infos(&gi);
                        c.get_byte(&ctx.module, ps[3] as usize, &mut res, &ctx.bdd_key, scr().borrow());
                        vec![coeffs(code, &res)]
                    }
                    15006 | 15007 => {
                        let a = enc(w0, seed);
                        let b = enc(T::fi(r.vs[0][1]), seed + 1);
                        let mut c: U<T> = FheUint::alloc_from_infos(&gi);
                        if code == 15006 { c.splice_u8(&ctx.module, ps[3] as usize, ps[4] as usize, &a, &b, &ctx.bdd_key, scr().borrow()); }
                        else { c.splice_u16(&ctx.module, ps[3] as usize, ps[4] as usize, &a, &b, &ctx.bdd_key, scr().borrow()); }
                        word_and_coeffs(code, &c)
                    }
                    15008 => { let mut a = enc(w0, seed); a.sext(&ctx.module, ps[3] as usize, &ctx.bdd_key, scr().borrow()); word_and_coeffs(code, &a) }
                    15009 => { let mut a = enc(w0, seed); a.zero_byte(&ctx.module, ps[3] as usize, &ctx.bdd_key, scr().borrow()); word_and_coeffs(code, &a) }
                    15010 => {
                        // one GLWE per given bit, message in coefficient 0 (scale 2^-2), packed by FheUint::pack
                        let e = EncryptionLayout::new_from_default_sigma(gi).unwrap();
                        let mut bits: Vec<GLWE<Vec<u8>>> = Vec::new();
                        for (i, b) in r.vs[0].iter().enumerate() {
                            let mut pt: GLWEPlaintext<Vec<u8>> = GLWEPlaintext::alloc_from_infos(&GLWEPlaintextLayout { n: gi.n, base2k: gi.base2k, k: 2_usize.into() });
                            let mut d = vec![0i64; ctx.module.n()];
                            d[0] = *b as i64;
                            pt.encode_vec_i64(&d, TorusPrecision(2));
                            let mut g: GLWE<Vec<u8>> = GLWE::alloc_from_infos(&gi);
                            let s = seed.wrapping_add(31 * i as u64);
                            ctx.module.glwe_encrypt_sk(&mut g, &pt, &ctx.sk_glwe, &e, &mut Source::new(seed32(7, s)), &mut Source::new(seed32(8, s)), scr().borrow());
                            bits.push(g);
                        }
                        let mut c: U<T> = FheUint::alloc_from_infos(&gi);
                        c.pack(&ctx.module, bits, &ctx.bdd_key, scr().borrow());
                        word_and_coeffs(code, &c)
                    }
                    15011 => { let p = prep_direct(w0, seed); vec![vec![dec_prep(&p)]] }
                    15012 => {
                        let c = enc(w0, seed);
                        let p = prep_cbt(&c);
                        let l = ctx.ggsw_infos();
                        assert_eq!((ps[3] as usize, ps[4] as usize), (l.dnum.as_usize(), l.rank.as_usize()), "parameter set changed");
                        let mut dbg: FheUintPreparedDebug<Vec<u8>, T> = FheUintPreparedDebug::alloc_from_infos(&ctx.module, &l);
                        dbg.prepare(&ctx.module, &c, &ctx.bdd_key, scr().borrow());
                        let ones = T::fi(-1);
                        let zero = T::fi(0);
                        let mut cells = Vec::new();
                        let b2k = l.base2k.as_usize() as f64;
                        for row in 0..l.dnum.as_usize() {
                            for col in 0..l.rank.as_usize() + 1 {
                                let thr = -(b2k * (row as f64 + 1.0)) - 1.0;
                                let n1 = dbg.noise(&ctx.module, row, col, ones, &ctx.sk_glwe, scr().borrow());
                                let n0 = dbg.noise(&ctx.module, row, col, zero, &ctx.sk_glwe, scr().borrow());
                                let mut wv: i128 = 0;
                                let mut bad: i128 = 0;
                                let mut worst = f64::NEG_INFINITY;
                                for i in 0..T::BITS as usize {
                                    let (e1, e0) = (n1[i].max().log2(), n0[i].max().log2());
                                    if e1 < thr && e0 >= thr { wv |= 1 << i; worst = worst.max(e1); }
                                    else if e0 < thr && e1 >= thr { worst = worst.max(e0); }
                                    else { bad |= 1 << i; }
                                }
                                note_noise(code, &format!("ggsw_r{row}c{col}"), worst, thr);
                                cells.push(wv);
                                cells.push(bad);
                            }
                        }
                        vec![vec![dec_prep(&p)], cells]
                    }
                    15013 => {
                        let (start, count, threads) = (ps[3] as usize, ps[4] as usize, ps[5] as usize);
                        let c = enc(w0, seed);
                        // stale content: the complement of the word, so that a bit left unprepared shows
                        let mut p: P<T> = prep_direct(T::fi(!r.vs[0][0]), seed + 9);
                        let per = {
                            use poulpy_bin_fhe::bdd_arithmetic::FheUintPrepare;
                            ctx.module.fhe_uint_prepare_tmp_bytes(7, 1, &p, &c, &ctx.bdd_key)
                        };
                        let mut s: ScratchOwned<BE> = ScratchOwned::alloc(threads.max(1) * (per + 64) + 64);
                        p.prepare_custom_multi_thread(threads, &ctx.module, &c, start, count, &ctx.bdd_key, s.borrow());
                        let status: Vec<i128> = (0..T::BITS as usize).map(|i| {
                            let b = p.get_bit(i);
                            let d: &[u8] = b.data().data();
                            d.iter().all(|x| *x == 0) as i128
                        }).collect();
                        vec![vec![dec_prep(&p)], status]
                    }
                    _ => panic!("c15: unknown code {code}"),
                }
            }

            fn blind_ops(r: &Rec) -> Vec<Vec<i128>> {
                let ctx = &*CTX;
                let code = r.code;
                let ps = &r.ps;
                let seed = *ps.last().unwrap() as u64;
                let gi = ctx.glwe_infos();
                match code {
                    15050 => {
                        let (sign, rsh, mask, lsh, via) = (ps[2] != 0, ps[3] as usize, ps[4] as usize, ps[5] as usize, ps[6]);
                        let k = selector(r.vs[0][0] as u32, via, seed);
                        let a = enc(r.vs[1][0] as u32, seed + 1);
                        let mut res: GLWE<Vec<u8>> = GLWE::alloc_from_infos(&gi);
                        ctx.module.glwe_blind_rotation(&mut res, &a, &k, sign, rsh, mask, lsh, scr().borrow());
                        vec![coeffs(code, &res)]
                    }
                    15051 => {
                        let (rsh, mask, via) = (ps[2] as usize, ps[3] as usize, ps[4]);
                        let k = selector(r.vs[0][0] as u32, via, seed);
                        let mut vals: Vec<U<u32>> = r.vs[2].iter().enumerate().map(|(i, v)| enc(*v as u32, seed + 10 + i as u64)).collect();
                        let mut map: HashMap<usize, &mut U<u32>> = HashMap::new();
                        for (key, ct) in r.vs[1].iter().zip(vals.iter_mut()) { map.insert(*key as usize, ct); }
                        let mut res: U<u32> = FheUint::alloc_from_infos(&gi);
                        GLWEBlindSelection::<u32, BE>::glwe_blind_selection(&ctx.module, &mut res, map, &k, rsh, mask, scr().borrow());
                        note_dec(code, &res);
                        vec![vec![dec(&res)]]
                    }
                    15052 => {
                        let (rsh, mask, via) = (ps[2] as usize, ps[3] as usize, ps[4]);
                        let k = selector(r.vs[0][0] as u32, via, seed);
                        let mut data: Vec<U<u32>> = r.vs[1].iter().enumerate().map(|(i, v)| enc(*v as u32, seed + 10 + i as u64)).collect();
                        ctx.module.glwe_blind_retrieval_statefull(&mut data, &k, rsh, mask, scr().borrow());
                        let after: Vec<i128> = data.iter().map(dec).collect();
                        if let Some(d0) = data.first() { note_dec(code, d0); }
                        ctx.module.glwe_blind_retrieval_statefull_rev(&mut data, &k, rsh, mask, scr().borrow());
                        let back: Vec<i128> = data.iter().map(dec).collect();
                        vec![after, back]
                    }
                    15053 => {
                        let (size, offset, via) = (ps[2] as usize, ps[3] as usize, ps[4]);
                        let k = selector(r.vs[0][0] as u32, via, seed);
                        let data: Vec<U<u32>> = r.vs[1].iter().enumerate().map(|(i, v)| enc(*v as u32, seed + 10 + i as u64)).collect();
                        let mut ret = GLWEBlindRetriever::alloc(&gi, size);
                        let mut res: U<u32> = FheUint::alloc_from_infos(&gi);
                        ret.retrieve(&ctx.module, &mut res, &data, &k, offset, scr().borrow());
                        note_dec(code, &res);
                        vec![vec![dec(&res)]]
                    }
                    15056 => {
                        // a HISTORY on one retriever object: vs = [kind, k, offset], data, [kind, k, offset], data, ...
                        // kind 0 = retrieve, 1 = add every input then flush, 2 = add every input and abandon the round
                        let (size, via) = (ps[2] as usize, ps[3]);
                        let mut ret = GLWEBlindRetriever::alloc(&gi, size);
                        let mut outs: Vec<i128> = Vec::new();
                        for (ri, rd) in r.vs.chunks(2).enumerate() {
                            let (kind, kw, offset) = (rd[0][0], rd[0][1] as u32, rd[0][2] as usize);
                            let s = seed.wrapping_add(1000 * ri as u64);
                            let k = selector(kw, if ri == 0 { via } else { 0 }, s);
                            let data: Vec<U<u32>> = rd[1].iter().enumerate().map(|(i, v)| enc(*v as u32, s + 10 + i as u64)).collect();
                            let mut res: U<u32> = FheUint::alloc_from_infos(&gi);
                            match kind {
                                0 => { ret.retrieve(&ctx.module, &mut res, &data, &k, offset, scr().borrow()); outs.push(dec(&res)); }
                                1 => {
                                    for ct in data.iter() { ret.add(&ctx.module, ct, &k, offset, scr().borrow()); }
                                    ret.flush(&ctx.module, &mut res, &k, offset, scr().borrow());
                                    outs.push(dec(&res));
                                }
                                _ => { for ct in data.iter() { ret.add(&ctx.module, ct, &k, offset, scr().borrow()); } outs.push(-2); }
                            }
                            if kind != 2 { note_dec(code, &res); }
                        }
                        vec![outs]
                    }
                    15054 => {
                        let (bit, via) = (ps[2] as usize, ps[3]);
                        let k = selector(r.vs[0][2] as u32, via, seed);
                        let mut a = enc(r.vs[0][0] as u32, seed + 1);
                        let mut b = enc(r.vs[0][1] as u32, seed + 2);
                        ctx.module.cswap(&mut a, &mut b, &k.get_bit(bit), scr().borrow());
                        note_dec(code, &a);
                        vec![vec![dec(&a), dec(&b)]]
                    }
                    _ => panic!("c15: unknown code {code}"),
                }
            }
            fn note_dec(code: i64, c: &U<u32>) { let _ = coeffs(code, c); }

            fn word_ops(r: &Rec) -> Vec<Vec<i128>> {
                let code = r.code;
                let seed = *r.ps.last().unwrap() as u64;
                if code == 15040 {
                    let mut vals: Vec<U<u32>> = r.vs[0].iter().enumerate().map(|(i, v)| enc(*v as u32, seed + i as u64)).collect();
                    let mut plain: Vec<u32> = r.vs[0].iter().map(|v| *v as u32).collect();
                    let n_in = vals.len();
                    for st in r.vs[1].chunks(3) {
                        let (op, x, y) = (st[0], st[1] as usize, st[2] as usize);
                        // re-preparation of both operands through circuit bootstrapping
                        let (px, py) = (prep_cbt(&vals[x]), prep_cbt(&vals[y]));
                        let res = apply(op, &px, &py);
                        plain.push(plain_op(op, plain[x], plain[y]));
                        vals.push(res);
                    }
                    let outs: Vec<i128> = vals[n_in..].iter().map(dec).collect();
                    if let Some(last) = vals.last() { note_dec(code, last); }
                    return vec![outs, plain[n_in..].iter().map(|x| *x as i128).collect()];
                }
                let op = (code - 15020) as i128;
                let (a, b) = (r.vs[0][0] as u32, r.vs[0][1] as u32);
                let (ca, cb) = (enc(a, seed), enc(b, seed + 1));
                let (pa, pb) = (prep_cbt(&ca), prep_cbt(&cb));
                let res = apply(op, &pa, &pb);
                note_dec(code, &res);
                vec![vec![dec(&res)], vec![plain_op(op, a, b) as i128]]
            }

            fn cbt_ops(r: &Rec) -> Vec<Vec<i128>> {
                let ctx = &*CTX;
                let code = r.code;
                let ps = &r.ps;
                let seed = *ps.last().unwrap() as u64;
                let (route, msg, ld) = (ps[2], ps[3] as i64, ps[4] as usize);
                let expo = code == 15061;
                let log_gap_out = if expo { ps[5] as usize } else { 0 };
                let gi = ctx.glwe_infos();
                let l = ctx.ggsw_infos();
                let n = ctx.module.n();
                let (cbt, ks_glwe, ks_lwe) = ctx.bdd_key.get_cbt_key();
                let q = if expo { 6 } else { 5 };
                assert_eq!((ps[q] as usize, ps[q + 1] as usize, ps[q + 2] as usize), (l.base2k.as_usize(), l.dnum.as_usize(), l.rank.as_usize()), "parameter set changed");
                {
                    use poulpy_bin_fhe::bdd_arithmetic::BDDKeyInfos;
                    assert_eq!(ps[q + 3] as usize, ctx.bdd_key.cbt_infos().brk_layout.base2k.as_usize(), "parameter set changed (brk radix)");
                }
                let mut ggsw: GGSW<Vec<u8>> = GGSW::alloc_from_infos(&l);
                let run = |lwe: &LWE<Vec<u8>>, ggsw: &mut GGSW<Vec<u8>>| {
                    if expo { cbt.execute_to_exponent(&ctx.module, log_gap_out, ggsw, lwe, ld, 1, scr().borrow()); }
                    else { cbt.execute_to_constant(&ctx.module, ggsw, lwe, ld, 1, scr().borrow()); }
                };
                if route == 0 {
                    // the LWE that preparation itself extracts: bit 5 of a packed word whose bit 5 is `msg`
                    let w: u32 = (Rng::new(seed).next() as u32 & !(1 << 5)) | ((msg as u32 & 1) << 5);
                    let c = enc(w, seed);
                    let mut lwe: LWE<Vec<u8>> = LWE::alloc(Degree(n as u32 - 1), gi.base2k, gi.k);
                    c.get_bit_lwe(&ctx.module, 5, &mut lwe, ks_glwe, ks_lwe, scr().borrow());
                    run(&lwe, &mut ggsw);
                } else {
                    // a fresh LWE encryption of msg / 2^(log_domain+1) under the LWE secret
                    let li = LWELayout { n: ctx.sk_lwe.n(), k: TorusPrecision(22), base2k: Base2K(14) };
                    let mut pt: LWEPlaintext<Vec<u8>> = LWEPlaintext::alloc(Base2K(14), TorusPrecision(ld as u32 + 1));
                    pt.encode_i64(msg, TorusPrecision(ld as u32 + 1));
                    let e = EncryptionLayout::new_from_default_sigma(li).unwrap();
                    let mut lwe: LWE<Vec<u8>> = LWE::alloc_from_infos(&li);
                    ctx.module.lwe_encrypt_sk(&mut lwe, &pt, &ctx.sk_lwe, &e, &mut Source::new(seed32(2, seed)), &mut Source::new(seed32(3, seed)), scr().borrow());
                    run(&lwe, &mut ggsw);
                }
                observe_ggsw(code, &ctx.module, &ctx.sk_glwe, &ggsw, &l, expo, ld, log_gap_out)
            }

            /// every cell (row, col) classified by GGSW::noise against every candidate message; column 0 decrypted and decoded
            fn observe_ggsw(code: i64, module: &Module<BE>, sk: &GLWESecretPrepared<DeviceBuf<BE>, BE>, ggsw: &GGSW<Vec<u8>>,
                            l: &GGSWLayout, expo: bool, ld: usize, log_gap_out: usize) -> Vec<Vec<i128>> {
                let n = module.n();
                let b2k = l.base2k.as_usize();
                let cand = 1usize << ld;
                let mut obs = Vec::new();
                for row in 0..l.dnum.as_usize() {
                    for col in 0..l.rank.as_usize() + 1 {
                        let thr = -((b2k * (row + 1)) as f64) - 1.0;
                        let mut best = (f64::INFINITY, -1i128);
                        let mut hits = 0;
                        for j in 0..cand {
                            let mut pw: ScalarZnx<Vec<u8>> = ScalarZnx::alloc(n, 1);
                            if expo { pw.at_mut(0, 0)[(j << log_gap_out) % n] = if ((j << log_gap_out) / n) % 2 == 0 { 1 } else { -1 }; }
                            else { pw.at_mut(0, 0)[0] = j as i64; }
                            let e = ggsw.noise(module, row, col, &pw, sk, scr().borrow()).max().log2();
                            if e < thr { hits += 1; }
                            if e < best.0 { best = (e, j as i128); }
                        }
                        note_noise(code, &format!("ggsw_r{row}c{col}"), best.0, thr);
                        obs.push(if hits == 1 && best.0 < thr { best.1 } else { -1 - hits as i128 });
                    }
                }
                let mut sparse = Vec::new();
                for row in 0..l.dnum.as_usize() {
                    let cell = ggsw.at(row, 0);
                    let mut pt: GLWEPlaintext<Vec<u8>> = GLWEPlaintext::alloc_from_infos(l);
                    module.glwe_decrypt(&cell, &mut pt, sk, scr().borrow());
                    let mut d = vec![0i128; n];
                    pt.decode_vec_i128(&mut d, TorusPrecision((b2k * (row + 1)) as u32));
                    let m = 1i128 << (b2k * (row + 1));
                    for (i, v) in d.iter().enumerate() {
                        let v = v.rem_euclid(m);
                        let v = if v >= m / 2 { v - m } else { v };
                        if v != 0 { sparse.extend([row as i128, i as i128, v]); }
                    }
                }
                vec![obs, sparse]
            }

            /// 15062: circuit bootstrapping at a parameter set of its own (keys generated per record):
            /// ps = [be, logn, expo, msg, ld, lgo, res_base2k, dnum, rank, brk_base2k, seed]
            fn cbt_custom(r: &Rec) -> Vec<Vec<i128>> {
                use poulpy_bin_fhe::blind_rotation::BlindRotationKeyLayout;
                use poulpy_bin_fhe::circuit_bootstrapping::{
                    CircuitBootstrappingEncryptionInfos, CircuitBootstrappingKey, CircuitBootstrappingKeyLayout, CircuitBootstrappingKeyPrepared,
                };
                use poulpy_core::layouts::{Dnum, Dsize, GGLWEToGGSWKeyLayout, GLWEAutomorphismKeyLayout, GLWESecret, GLWESecretPreparedFactory, LWESecret, Rank};
                use poulpy_hal::api::ModuleNew;
                let ps = &r.ps;
                let seed = *ps.last().unwrap() as u64;
                let (logn, expo, msg, ld, lgo) = (ps[1] as usize, ps[2] != 0, ps[3] as i64, ps[4] as usize, ps[5] as usize);
                let (rb, dnum, rank, bb) = (ps[6] as usize, ps[7] as usize, ps[8] as usize, ps[9] as usize);
                let n = 1usize << logn;
                let module: Module<BE> = Module::<BE>::new(n as u64);
                let (n_lwe, block) = (77usize, 7usize);
                let k_res = (dnum + 1) * rb;
                let rows = |k: usize, b: usize| k.div_ceil(b);
                let (tb, ab) = (12usize, 11usize);
                let cbt_infos = CircuitBootstrappingKeyLayout {
                    brk_layout: BlindRotationKeyLayout { n_glwe: Degree(n as u32), n_lwe: Degree(n_lwe as u32), base2k: Base2K(bb as u32),
                        k: TorusPrecision(((rows(k_res, bb) + 1) * bb) as u32), dnum: Dnum(rows(k_res, bb) as u32), rank: Rank(rank as u32) },
                    atk_layout: GLWEAutomorphismKeyLayout { n: Degree(n as u32), base2k: Base2K(ab as u32),
                        k: TorusPrecision(((rows(k_res, ab) + 1) * ab) as u32), dnum: Dnum(rows(k_res, ab) as u32), rank: Rank(rank as u32), dsize: Dsize(1) },
                    tsk_layout: GGLWEToGGSWKeyLayout { n: Degree(n as u32), base2k: Base2K(tb as u32),
                        k: TorusPrecision(((rows(k_res, tb) + 1) * tb) as u32), dnum: Dnum(rows(k_res, tb) as u32), dsize: Dsize(1), rank: Rank(rank as u32) },
                };
                let l = GGSWLayout { n: Degree(n as u32), base2k: Base2K(rb as u32), k: TorusPrecision(k_res as u32), dnum: Dnum(dnum as u32), dsize: Dsize(1), rank: Rank(rank as u32) };
                let mut scratch: ScratchOwned<BE> = ScratchOwned::alloc(1 << 25);
                let mut xs = Source::new(seed32(11, seed));
                let mut sk_lwe: LWESecret<Vec<u8>> = LWESecret::alloc(Degree(n_lwe as u32));
                sk_lwe.fill_binary_block(block, &mut xs);
                let mut sk_glwe: GLWESecret<Vec<u8>> = GLWESecret::alloc(Degree(n as u32), Rank(rank as u32));
                sk_glwe.fill_ternary_prob(0.5, &mut xs);
                let mut sk_prep: GLWESecretPrepared<DeviceBuf<BE>, BE> = module.glwe_secret_prepared_alloc(Rank(rank as u32));
                module.glwe_secret_prepare(&mut sk_prep, &sk_glwe);
                let li = LWELayout { n: Degree(n_lwe as u32), k: TorusPrecision(22), base2k: Base2K(14) };
                let mut pt: LWEPlaintext<Vec<u8>> = LWEPlaintext::alloc(Base2K(14), TorusPrecision(ld as u32 + 1));
                pt.encode_i64(msg, TorusPrecision(ld as u32 + 1));
                let e = EncryptionLayout::new_from_default_sigma(li).unwrap();
                let mut lwe: LWE<Vec<u8>> = LWE::alloc_from_infos(&li);
                module.lwe_encrypt_sk(&mut lwe, &pt, &sk_lwe, &e, &mut Source::new(seed32(2, seed)), &mut Source::new(seed32(3, seed)), scratch.borrow());
                let mut key: CircuitBootstrappingKey<Vec<u8>, CGGI> = CircuitBootstrappingKey::alloc_from_infos(&cbt_infos);
                let enc = CircuitBootstrappingEncryptionInfos::from_default_sigma(&cbt_infos).unwrap();
                key.encrypt_sk(&module, &sk_lwe, &sk_glwe, &enc, &mut Source::new(seed32(12, seed)), &mut Source::new(seed32(13, seed)), scratch.borrow());
                let mut kp: CircuitBootstrappingKeyPrepared<DeviceBuf<BE>, CGGI, BE> = CircuitBootstrappingKeyPrepared::alloc_from_infos(&module, &cbt_infos);
                kp.prepare(&module, &key, scratch.borrow());
                let mut ggsw: GGSW<Vec<u8>> = GGSW::alloc_from_infos(&l);
                if expo { kp.execute_to_exponent(&module, lgo, &mut ggsw, &lwe, ld, 1, scratch.borrow()); }
                else { kp.execute_to_constant(&module, &mut ggsw, &lwe, ld, 1, scratch.borrow()); }
                observe_ggsw(r.code, &module, &sk_prep, &ggsw, &l, expo, ld, lgo)
            }

            pub fn kernel(r: &Rec) -> Vec<Vec<i128>> {
                match r.code {
                    15002..=15013 => { let bits = r.ps[2]; with_ty!(bits, T, { layout_ops::<T>(r) }) }
                    15021..=15031 | 15040 => word_ops(r),
                    15050..=15054 | 15056 => blind_ops(r),
                    15055 => {
                        // as 15053, a panic of the retriever is reported as the value -1 (so that the oracle sees it)
                        let mut r2 = r.clone();
                        r2.code = 15053;
                        match std::panic::catch_unwind(move || blind_ops(&r2)) { Ok(v) => v, Err(_) => vec![vec![-1]] }
                    }
                    15060 | 15061 => cbt_ops(r),
                    15062 => cbt_custom(r),
                    _ => panic!("c15: unknown code {}", r.code),
                }
            }
        }
    };
}

backend_impl!(fft64_ref, poulpy_cpu_ref::FFT64Ref);
backend_impl!(fft64_avx, poulpy_cpu_avx::FFT64Avx);

fn bit_index_table(bits: i128) -> Vec<Vec<i128>> {
    fn tab<T: UnsignedInteger>() -> Vec<Vec<i128>> {
        vec![
            (0..T::BITS as usize).map(|i| T::bit_index(i) as i128).collect(),
            vec![T::BITS as i128, T::LOG_BITS as i128, T::LOG_BYTES as i128, T::LOG_BYTES_MASK as i128],
        ]
    }
    match bits { 8 => tab::<u8>(), 16 => tab::<u16>(), 32 => tab::<u32>(), 64 => tab::<u64>(), 128 => tab::<u128>(), _ => panic!("bad type") }
}

fn kernel(r: &Rec) -> Vec<Vec<i128>> {
    if r.code == 15001 { return bit_index_table(r.ps[0]); }
    if r.code != 15062 { assert_eq!(r.ps[1], 8, "log_n of the test parameter set"); }
    match r.ps[0] {
        1 => fft64_ref::kernel(r),
        2 => fft64_avx::kernel(r),
        be => panic!("c15: backend {be} not wired"),
    }
}

pub fn exec(r: &Rec) -> Out {
    let r2 = r.clone();
    guard(move || kernel(&r2))
}

// ---------------------------------------------------------------------------------------------------------------
// generation

const BOUNDARY: [u32; 14] = [
    0, 1, 0x8000_0000, 0xFFFF_FFFF, 0xAAAA_AAAA, 0x5555_5555, 0x7FFF_FFFF, 0x8000_0001, 0x0000_FFFF, 0xFFFF_0000, 0x00FF_00FF,
    0x8483_8281, 0x4443_4241, 0xFFFF_FFFE,
];

fn word(rng: &mut Rng, bits: i128) -> i128 {
    let m: u128 = if bits >= 64 { u64::MAX as u128 } else { (1u128 << bits) - 1 };
    let v: u128 = match rng.below(6) {
        0 => BOUNDARY[rng.below(BOUNDARY.len() as u64) as usize] as u128 * if bits == 64 { 0x1_0000_0001 } else { 1 },
        1 => 1u128 << rng.below(bits as u64),
        2 => !(1u128 << rng.below(bits as u64)),
        _ => rng.next() as u128,
    };
    (v & m) as i128
}

pub fn generate(tier: &str, seed: u64) -> Vec<Rec> {
    let thorough = tier == "thorough";
    let mut rng = Rng::new(seed);
    let mut out: Vec<Rec> = Vec::new();
    let mut sd = move || -> i128 { (rng.next() >> 16) as i128 };
    let mut rng = Rng::new(seed ^ 0xC15);
    let be = |rng: &mut Rng| -> i128 { if rng.below(5) == 0 { 1 } else { 2 } };
    let types: [i128; 4] = [8, 16, 32, 64];

    for bits in [8i128, 16, 32, 64, 128] { out.push(Rec::new(15001, vec![bits], vec![])); }

    // layout: encrypt/decrypt, bit extraction (every bit index), byte extraction, pack
    for &bits in &types {
        let nw = if thorough { 24 } else { 8 };
        for i in 0..nw {
            let w = if i < 4 && bits == 32 { BOUNDARY[i] as i128 } else { word(&mut rng, bits) };
            out.push(Rec::new(15002, vec![be(&mut rng), 8, bits, sd()], vec![vec![w]]));
        }
        for bit in 0..bits {
            // every bit index; the word has this bit set / clear in turn
            let reps = if thorough { 4 } else if bits <= 32 { 2 } else { 1 };
            for k in 0..reps {
                let mut w = word(&mut rng, bits);
                if k % 2 == 0 { w |= 1 << bit } else { w &= !(1i128 << bit) }
                out.push(Rec::new(15003, vec![be(&mut rng), 8, bits, bit, sd()], vec![vec![w]]));
            }
            if thorough || bit % 3 == 0 || bits == 32 {
                let mut w = word(&mut rng, bits);
                if bit % 2 == 0 { w |= 1 << bit } else { w &= !(1i128 << bit) }
                out.push(Rec::new(15004, vec![2, 8, bits, bit, sd()], vec![vec![w]]));
            }
        }
        for byte in 0..bits / 8 {
            out.push(Rec::new(15005, vec![be(&mut rng), 8, bits, byte, sd()], vec![vec![word(&mut rng, bits)]]));
            out.push(Rec::new(15009, vec![be(&mut rng), 8, bits, byte, sd()], vec![vec![word(&mut rng, bits)]]));
            out.push(Rec::new(15009, vec![2, 8, bits, byte, sd()], vec![vec![(1i128 << bits) - 1]]));
            for k in 0..(if thorough { 6 } else { 2 }) {
                // sext from byte `byte`, sign bit set / clear
                let mut w = word(&mut rng, bits);
                let sb = 8 * byte + 7;
                if k % 2 == 0 { w |= 1 << sb } else { w &= !(1i128 << sb) }
                out.push(Rec::new(15008, vec![be(&mut rng), 8, bits, byte, sd()], vec![vec![w]]));
            }
        }
        if bits == 32 {
            for byte in 0..3 { for w in [0x8483_8281i128, 0x4443_4241] { out.push(Rec::new(15008, vec![2, 8, 32, byte, sd()], vec![vec![w]])); } }
        }
        // splice: every (dst, src) for u8..u32, a covering subset for u64 in quick
        let nb = bits / 8;
        for dst in 0..nb { for src in 0..nb {
            if bits == 64 && !thorough && (dst + 3 * src) % 5 != 0 { continue; }
            out.push(Rec::new(15006, vec![be(&mut rng), 8, bits, dst, src, sd()], vec![vec![word(&mut rng, bits), word(&mut rng, bits)]]));
            if bits == 32 { out.push(Rec::new(15006, vec![2, 8, 32, dst, src, sd()], vec![vec![0xFFFF_FFFF, 0xAABB_CCDD]])); }
        } }
        let nh = bits / 16;
        for dst in 0..nh { for src in 0..nh {
            for k in 0..(if thorough { 3 } else { 2 }) {
                let (a, b) = if k == 0 && bits == 32 { (0xFFFF_FFFF, 0xAABB_CCDD) } else { (word(&mut rng, bits), word(&mut rng, bits)) };
                out.push(Rec::new(15007, vec![be(&mut rng), 8, bits, dst, src, sd()], vec![vec![a, b]]));
            }
        } }
        // pack: full, short and over-long bit vectors
        for m in [bits, bits, bits / 2, 1, bits + 3] {
            let v: Vec<i128> = (0..m).map(|_| rng.below(2) as i128).collect();
            out.push(Rec::new(15010, vec![be(&mut rng), 8, bits, sd()], vec![v]));
        }
        // out-of-range indices: the asserts
        out.push(Rec::new(15006, vec![2, 8, bits, nb, 0, sd()], vec![vec![1, 2]]));
        out.push(Rec::new(15006, vec![2, 8, bits, 0, nb, sd()], vec![vec![1, 2]]));
        out.push(Rec::new(15008, vec![2, 8, bits, nb, sd()], vec![vec![1]]));
        if nh > 0 { out.push(Rec::new(15007, vec![2, 8, bits, nh, 0, sd()], vec![vec![1, 2]])); }
    }

    // preparation through circuit bootstrapping: direct GGSW encryption, full preparation with every debug cell, partial
    for &bits in &[8i128, 16, 32] {
        for _ in 0..(if thorough { 6 } else { 2 }) {
            out.push(Rec::new(15011, vec![be(&mut rng), 8, bits, sd()], vec![vec![word(&mut rng, bits)]]));
            out.push(Rec::new(15012, vec![be(&mut rng), 8, bits, 2, 2, sd()], vec![vec![word(&mut rng, bits)]]));
        }
        let tcs = [1i128, 2, 3, 5, 8];
        let mut j = 0usize;
        for start in 0..bits { for count in 1..=(bits - start) {
            j += 1;
            let edge = start == 0 || start + count == bits || count <= 2 || start % 8 == 0 && count % 8 == 0;
            if !thorough && !(edge && (bits < 32 || (start + count) % 3 != 1 || count <= 1) || j % 11 == 0) { continue; }
            let w = if j % 3 == 0 { (1i128 << bits) - 1 } else { word(&mut rng, bits) };
            out.push(Rec::new(15013, vec![if j % 7 == 0 { 1 } else { 2 }, 8, bits, start, count, tcs[j % tcs.len()], sd()], vec![vec![w]]));
        } }
        for (start, count, t) in [(3, 0, 1), (bits - 1, 2, 1), (bits, 1, 2), (0, bits, 0)] {
            out.push(Rec::new(15013, vec![2, 8, bits, start, count, t, sd()], vec![vec![1]]));
        }
    }

    // word operations: boundary x boundary (covering), shift amounts 0..63, random
    for op in 1..=11i64 {
        let mut pairs: Vec<(u32, u32)> = Vec::new();
        for (i, a) in BOUNDARY.iter().enumerate() {
            for (j, b) in BOUNDARY.iter().enumerate() {
                if thorough || (i + 2 * j + op as usize) % 7 == 0 || (i < 4 && j < 4 && (i + j + op as usize) % 2 == 0) { pairs.push((*a, *b)); }
            }
        }
        if (3..=5).contains(&op) {
            for sh in 0..64u32 {
                if thorough || sh % 3 == (op as u32) % 3 || sh == 31 || sh == 32 || sh == 63 || sh == 0 {
                    pairs.push((if sh % 2 == 0 { 0x8483_8281 } else { rng.next() as u32 }, sh));
                    if thorough { pairs.push((rng.next() as u32 | 0x8000_0000, sh | (rng.next() as u32 & !63))); }
                }
            }
        }
        for k in 0..32 { if thorough || k % 4 == (op as usize) % 4 { pairs.push((1 << k, rng.next() as u32)); pairs.push((rng.next() as u32, 1 << k)); } }
        for _ in 0..(if thorough { 400 } else { 40 }) { pairs.push((rng.next() as u32, rng.next() as u32)); }
        for (a, b) in pairs { out.push(Rec::new(15020 + op, vec![be(&mut rng), 8, sd()], vec![vec![a as i128, b as i128]])); }
    }

    // short random programs: 2-3 operations chained through re-preparation
    for _ in 0..(if thorough { 1000 } else { 100 }) {
        let n_in = 2 + rng.below(2) as usize;
        let inputs: Vec<i128> = (0..n_in).map(|_| word(&mut rng, 32)).collect();
        let steps = 2 + rng.below(2) as usize;
        let mut prog = Vec::new();
        for s in 0..steps {
            let avail = (n_in + s) as u64;
            let op = 1 + rng.below(11) as i128;
            // the previous result is always used from the second step on
            let x = if s > 0 { avail - 1 } else { rng.below(avail) };
            prog.extend([op, x as i128, rng.below(avail) as i128]);
        }
        out.push(Rec::new(15040, vec![be(&mut rng), 8, sd()], vec![inputs, prog]));
    }

    // blind rotation / selection / retrieval / swap
    for i in 0..(if thorough { 200 } else { 60 }) {
        let mask = rng.range(0, 8);
        let rsh = rng.range(0, 32 - mask);
        let lsh = rng.range(0, 8 - mask);
        let via = (i % 6 == 0) as i128;
        out.push(Rec::new(15050, vec![be(&mut rng), 8, rng.below(2) as i128, rsh as i128, mask as i128, lsh as i128, via, sd()],
            vec![vec![word(&mut rng, 32)], vec![word(&mut rng, 32)]]));
    }
    for i in 0..(if thorough { 150 } else { 48 }) {
        let mask = rng.range(0, 4);
        let rsh = rng.range(0, 32 - mask);
        let slots = 1usize << mask;
        let mut keys = Vec::new();
        let mut vals = Vec::new();
        for k in 0..slots + 2 { if rng.below(4) != 0 { keys.push(k as i128); vals.push(word(&mut rng, 32)); } }
        let idx = rng.below(slots as u64) as i128;
        let kw = (word(&mut rng, 32) & !(((1i128 << mask) - 1) << rsh)) | (idx << rsh);
        out.push(Rec::new(15051, vec![be(&mut rng), 8, rsh as i128, mask as i128, (i % 6 == 0) as i128, sd()], vec![vec![kw], keys, vals]));
    }
    for i in 0..(if thorough { 120 } else { 36 }) {
        let len = rng.range(1, if thorough { 25 } else { 11 }) as usize;
        let mask = (usize::BITS - (len - 1).leading_zeros()) as i64 + rng.range(0, 1);
        let rsh = rng.range(0, 32 - mask);
        let idx = if i % 5 == 4 { rng.below(1u64 << mask) } else { rng.below(len as u64) } as i128;
        let kw = (word(&mut rng, 32) & !(((1i128 << mask) - 1) << rsh)) | (idx << rsh);
        let data: Vec<i128> = (0..len).map(|_| word(&mut rng, 32)).collect();
        out.push(Rec::new(15052, vec![be(&mut rng), 8, rsh as i128, mask as i128, (i % 6 == 0) as i128, sd()], vec![vec![kw], data.clone()]));
        let size = len + rng.below(3) as usize;
        let bits = (u32::BITS - (size.max(2) as u32 - 1).leading_zeros()) as i64;
        let off = rng.range(0, 32 - bits);
        let idx = if i % 5 == 4 { rng.below(1u64 << bits) } else { rng.below(len as u64) } as i128;
        let kw = (word(&mut rng, 32) & !(((1i128 << bits) - 1) << off)) | (idx << off);
        out.push(Rec::new(15053, vec![be(&mut rng), 8, size.max(2) as i128, off as i128, (i % 6 == 1) as i128, sd()], vec![vec![kw], data]));
    }
    for i in 0..(if thorough { 64 } else { 16 }) {
        let bit = rng.below(32) as i128;
        out.push(Rec::new(15054, vec![be(&mut rng), 8, bit, (i % 4 == 0) as i128, sd()], vec![vec![word(&mut rng, 32), word(&mut rng, 32), word(&mut rng, 32)]]));
    }

    // circuit bootstrapping: both bit values, both routes, constant and exponent mode, every GGSW cell
    for rep in 0..(if thorough { 16 } else { 3 }) {
        for route in [0i128, 1] { for msg in [0i128, 1] {
            out.push(Rec::new(15060, vec![if rep == 0 { 1 } else { 2 }, 8, route, msg, 1, 13, 2, 2, 12, sd()], vec![]));
            for lgo in [0i128, 1, 3, 7] {
                if !thorough && rep > 0 && lgo % 2 == 1 { continue; }
                out.push(Rec::new(15061, vec![2, 8, route, msg, 1, lgo, 13, 2, 2, 12, sd()], vec![]));
            }
        } }
        for msg in 0..4i128 {
            out.push(Rec::new(15060, vec![2, 8, 1, msg, 2, 13, 2, 2, 12, sd()], vec![]));
            out.push(Rec::new(15061, vec![2, 8, 1, msg, 2, [6i128, 0, 2, 4, 1, 5][rep % 6], 13, 2, 2, 12, sd()], vec![]));
        }
    }
    // the streaming retriever allocated for a single input (a panic is reported as the value -1)
    for i in 0..(if thorough { 6 } else { 3 }) {
        out.push(Rec::new(15055, vec![2, 8, 1, rng.range(0, 31) as i128, (i % 2) as i128, sd()], vec![vec![word(&mut rng, 32)], vec![word(&mut rng, 32)]]));
        out.push(Rec::new(15055, vec![2, 8, 2, rng.range(0, 31) as i128, 0, sd()], vec![vec![word(&mut rng, 32)], vec![word(&mut rng, 32)]]));
    }
    // retriever HISTORIES: one GLWEBlindRetriever object through several rounds with varying input counts
    // (1, 2, 3, half, half + 1, full capacity, allocated size) and indices; every capacity class of alloc
    for (hi, size) in [8usize, 25, 2, 1, 16, 5, 8, 25, 3, 32].into_iter().enumerate() {
        if !thorough && hi >= 7 { break; }
        let nb = (u32::BITS - (size.max(1) as u32 - 1).leading_zeros()).max(1) as usize;
        let cap = 1usize << nb;
        let mut counts: Vec<usize> = vec![1, 2, 3, cap / 2, cap / 2 + 1, cap, size, cap / 2, 1, size, 3, cap];
        for c in counts.iter_mut() { *c = (*c).clamp(1, cap); }
        let nrounds = if thorough { 12 } else { 9 };
        let mut vs: Vec<Vec<i128>> = Vec::new();
        let mut j = hi;
        let mut prev_kind = 0i128;
        for ri in 0..nrounds {
            j = j.wrapping_mul(7).wrapping_add(3 + ri);
            let len = counts[(ri + hi) % counts.len()];
            // an abandoned round (adds only) is always followed by a retrieve, which resets
            let kind: i128 = if prev_kind == 2 { 0 } else if ri + 1 < nrounds && j % 7 == 0 && len < cap { 2 } else { (j % 2) as i128 };
            prev_kind = kind;
            let off = rng.range(0, 32 - nb as i64);
            let idx = rng.below(len as u64) as i128;
            let kw = (word(&mut rng, 32) & !(((1i128 << nb) - 1) << off)) | (idx << off);
            vs.push(vec![kind, kw, off as i128]);
            vs.push((0..len).map(|_| word(&mut rng, 32)).collect());
        }
        out.push(Rec::new(15056, vec![be(&mut rng), 8, size as i128, (hi % 3 == 0) as i128, sd()], vs));
    }
    // circuit bootstrapping at parameter sets of its own: the test set again, then gadgets whose lookup-table
    // coefficients reach the top of i64 (ps = [be, logn, expo, msg, ld, lgo, res_base2k, dnum, rank, brk_base2k, seed])
    for msg in [0i128, 1] {
        out.push(Rec::new(15062, vec![2, 8, 0, msg, 1, 0, 13, 2, 2, 13, sd()], vec![]));
        out.push(Rec::new(15062, vec![2, 8, 0, msg, 1, 0, 21, 4, 1, 14, sd()], vec![]));   // 1 << 63
        out.push(Rec::new(15062, vec![2, 8, 0, msg, 1, 0, 20, 4, 1, 14, sd()], vec![]));   // 2^60 * scale 2^4
        out.push(Rec::new(15062, vec![2, 8, 0, msg, 1, 0, 20, 3, 1, 15, sd()], vec![]));   // 2^40: no overflow
        out.push(Rec::new(15062, vec![2, 8, 1, msg, 1, 0, 21, 4, 1, 14, sd()], vec![]));   // rejected by the assert
        out.push(Rec::new(15062, vec![2, 8, 1, msg, 1, 2, 20, 3, 1, 15, sd()], vec![]));
    }
    for msg in (if thorough { vec![0i128, 3, 7, 8, 12, 15] } else { vec![7i128, 8] }) {
        out.push(Rec::new(15062, vec![2, 10, 0, msg, 4, 0, 30, 3, 1, 15, sd()], vec![]));  // j * 2^60
    }
    out
}

fn run_all(recs: &[Rec]) -> Vec<Out> {
    // independent cases on all cores (the keys are built once, then shared read-only)
    fft64_avx::warm();
    fft64_ref::warm();
    let nthreads = std::thread::available_parallelism().map(|x| x.get()).unwrap_or(8).min(32);
    let next = AtomicUsize::new(0);
    let outs: Vec<Mutex<Option<Out>>> = recs.iter().map(|_| Mutex::new(None)).collect();
    std::thread::scope(|sc| {
        for _ in 0..nthreads {
            sc.spawn(|| loop {
                let i = next.fetch_add(1, Ordering::SeqCst);
                if i >= recs.len() { break; }
                let o = exec(&recs[i]);
                *outs[i].lock().unwrap() = Some(o);
            });
        }
    });
    outs.into_iter().map(|m| m.into_inner().unwrap().unwrap()).collect()
}

fn main() {
    std::panic::set_hook(Box::new(|_| {}));
    let args: Vec<String> = std::env::args().collect();
    let mode = args.get(1).map(|s| s.as_str()).unwrap_or("");
    let (recs, outp): (Vec<Rec>, String) = match mode {
        "gen" => (generate(&args[2], args[3].parse().unwrap()), args[4].clone()),
        "exec" => {
            let inp = std::io::BufReader::new(std::fs::File::open(&args[2]).unwrap());
            (inp.lines().filter_map(|l| Rec::parse(&l.unwrap())).collect(), args[3].clone())
        }
        _ => { eprintln!("usage: c15 gen <tier> <seed> <out> | exec <in> <out>"); std::process::exit(2); }
    };
    let t0 = std::time::Instant::now();
    let outs = run_all(&recs);
    let mut f = std::io::BufWriter::new(std::fs::File::create(&outp).unwrap());
    for (r, o) in recs.iter().zip(outs.iter()) { writeln!(f, "{}", r.line(o)).unwrap(); }
    let mut nf = std::io::BufWriter::new(std::fs::File::create(format!("{outp}.noise")).unwrap());
    for l in NOISE.lock().unwrap().iter() { writeln!(nf, "{l}").unwrap(); }
    eprintln!("harness c15: {} records in {:.1}s", recs.len(), t0.elapsed().as_secs_f64());
}
