//! scratch binary for the encoding clause of C08 (opcodes 8301..): the ops live in src/c08_enc.rs and are
//! meant to be dispatched from bin/c08.rs; this binary runs them alone (`python3 tools/check.py C08ENC`).
use poulpy_verif_harness::rec::*;
#[path = "../c08_enc.rs"]
mod c08_enc;

fn exec(r: &Rec) -> Out {
    let r2 = r.clone();
    guard(move || c08_enc::op(&r2))
}

fn generate(tier: &str, seed: u64) -> Vec<Rec> {
    let mut rng = Rng::new(seed);
    let mut out = Vec::new();
    c08_enc::generate(tier, &mut rng, &mut out);
    out
}

fn main() { poulpy_verif_harness::run_main(generate, exec) }
