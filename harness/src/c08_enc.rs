//! C08, integer encoding: the public `encode_*` / `decode_*` methods of `VecZnx` and `div_round_*`
//! (poulpy-hal/src/layouts/encoding.rs) on flat buffers.
//!
//! header (same as the 81xx records):  ps = dbg n | cols size max col | 0 0 0 0 | base2k k x
//!   8301  vs=[buf, data]   encode_vec_i64  then decode_vec_i64  at the same k   -> [buf', decoded]
//!   8302  vs=[buf, data]   encode_vec_i128 then decode_vec_i128                 -> [buf', decoded]
//!   8303  vs=[buf, [v]]    encode_coeff_i64(idx = x) then decode_coeff_i64      -> [buf', [decoded]]
//!   8304  vs=[buf, data0]  decode_vec_i64 into a buffer of data0.len() words    -> [data']
//!   8305  vs=[buf, data0]  decode_vec_i128                                      -> [data']
//!   8306  vs=[buf]         decode_coeff_i64(idx = x)                            -> [[v]]
//!   8307  vs=[buf]         decode_vec_float: per coefficient the exact integer value * 2^(size*base2k) as
//!                          sign-carrying 64-bit magnitude words (panics if the FBig is not such an integer)
//! (`div_round_i64/i128` live in a private module and are reachable only through the decoders: arbitrary last limbs
//!  of 8304..8306 exercise them with every divisor 2^rem)
use poulpy_verif_harness::hal::*;
use poulpy_verif_harness::rec::*;

const DBG: i128 = cfg!(debug_assertions) as i128;

/// exact integer (hex, optional leading '-') -> `w` sign-carrying magnitude words, least significant first
fn hex_words(h: &str, w: usize) -> Vec<i128> {
    let (neg, d) = if let Some(r) = h.strip_prefix('-') { (true, r) } else { (false, h) };
    let d = d.trim_start_matches("0x");
    let mut out = Vec::with_capacity(w);
    let mut end = d.len();
    for _ in 0..w {
        let start = end.saturating_sub(16);
        let chunk = &d[start..end];
        let v = if chunk.is_empty() { 0 } else { u64::from_str_radix(chunk, 16).expect("hex") as i128 };
        out.push(if neg { -v } else { v });
        end = start;
    }
    assert!(d[..end].chars().all(|c| c == '0'), "value does not fit the word count");
    out
}

pub fn op(r: &Rec) -> Vec<Vec<i128>> {
    let p = &r.ps;
    let u = |i: usize| p[i] as usize;
    let (n, cols, size, max, col) = (u(1), u(2), u(3), u(4), u(5));
    let (b, k) = (u(10), u(11));
    let x = if p.len() > 12 { u(12) } else { 0 };
    let mut a = mk_vec_znx(n, cols, max, size, &v64(&r.vs[0]));
    match r.code {
        8301 => {
            let data = v64(&r.vs[1]);
            a.encode_vec_i64(b, col, k, &data);
            let mut d = vec![0i64; n];
            a.decode_vec_i64(b, col, k, &mut d);
            vec![to128(&dump_vec_znx(&a)), to128(&d)]
        }
        8302 => {
            a.encode_vec_i128(b, col, k, &r.vs[1]);
            let mut d = vec![0i128; n];
            a.decode_vec_i128(b, col, k, &mut d);
            vec![to128(&dump_vec_znx(&a)), d]
        }
        8303 => {
            a.encode_coeff_i64(b, col, k, x, r.vs[1][0] as i64);
            let d = a.decode_coeff_i64(b, col, k, x);
            vec![to128(&dump_vec_znx(&a)), vec![d as i128]]
        }
        8304 => {
            let mut d = v64(&r.vs[1]);
            a.decode_vec_i64(b, col, k, &mut d);
            vec![to128(&d)]
        }
        8305 => {
            let mut d = r.vs[1].clone();
            a.decode_vec_i128(b, col, k, &mut d);
            vec![d]
        }
        8306 => vec![vec![a.decode_coeff_i64(b, col, k, x) as i128]],
        8307 => {
            let mut data: Vec<_> = (0..n).map(|_| Default::default()).collect();
            a.decode_vec_float(b, col, data.as_mut_slice());
            let total = (size * b) as isize;
            let words = (size * b + 64) / 64 + 1;
            data.iter().map(|y| {
                // exact conversion: value = significand * 2^exponent (radix-2 FBig), scaled by 2^(size*base2k)
                let rep = y.repr();
                let sig = rep.significand().clone();
                let e = rep.exponent() + total;
                let nint = if e >= 0 { sig << (e as usize) } else {
                    let t = (-e) as usize;
                    let q = sig.clone() >> t;
                    if (q.clone() << t) != sig { panic!("decode_vec_float: result is not a multiple of 2^-(size*base2k)") }
                    q
                };
                hex_words(&format!("{:x}", nint), words)
            }).collect()
        }
        _ => panic!("c08_enc: unknown op {}", r.code),
    }
}

/// arbitrary words: boundary dictionary / small / bounded / full range
fn garbage(rng: &mut Rng, cnt: usize, b: usize) -> Vec<i128> { (0..cnt).map(|_| rng.val64((b as u32 + 2).min(62)) as i128).collect() }

/// the value classes of the property at precision k for a w-bit integer type, clipped to the type
fn candidates(rng: &mut Rng, k: usize, w: u32) -> Vec<i128> {
    let tmax: i128 = if w == 64 { i64::MAX as i128 } else { i128::MAX };
    let tmin: i128 = if w == 64 { i64::MIN as i128 } else { i128::MIN };
    let clip = |v: i128| v.clamp(tmin, tmax);
    let mut c: Vec<i128> = vec![0, 1, -1];
    for e in [k as i64 - 2, k as i64 - 1] {
        if e < 0 { continue; }
        if e <= w as i64 - 2 {
            let p = 1i128 << e;
            c.extend([p, -p, p - 1, -(p - 1), clip(p + 1), clip(-p - 1)]);
        } else {
            c.extend([tmax, tmin, tmax - 1, tmin + 1]);
        }
    }
    let rnd_bits = |rng: &mut Rng, bits: i64| -> i128 {
        // uniform in [-2^bits, 2^bits), clipped
        if bits <= 0 { return 0; }
        let bits = bits.min(w as i64 - 1) as u32;
        if bits >= 127 { return rng.i128(); }
        let m = (1u128 << (bits + 1)) - 1;
        let x = (rng.i128() as u128 & m) as i128 - (1i128 << bits);
        clip(x)
    };
    for _ in 0..3 { c.push(rnd_bits(rng, k as i64 - 2)); }      // |v| < 2^(k-2)
    for _ in 0..2 { c.push(rnd_bits(rng, k as i64 - 1)); }      // the full precision
    c.push(rnd_bits(rng, w as i64 - 1));                        // the full type
    c.push(rnd_bits(rng, k as i64 + 3));                        // beyond the precision
    // top of the type: where `x - digit` wraps
    c.extend([tmax, tmin, tmax - rng.below(1 << 20) as i128, tmin + rng.below(1 << 20) as i128]);
    if w == 128 {
        // beyond i64
        c.push(clip((rng.i64() as i128) << rng.range(1, 63)));
        c.push((i64::MAX as i128) + 1 + rng.below(1000) as i128);
        c.push((i64::MIN as i128) - 1 - rng.below(1000) as i128);
    }
    c
}

fn hdr(n: usize, cols: usize, size: usize, max: usize, col: usize, b: usize, k: usize, x: i128) -> Vec<i128> {
    vec![DBG, n as i128, cols as i128, size as i128, max as i128, col as i128, 0, 0, 0, 0, b as i128, k as i128, x]
}

/// precisions to visit for (b, size): all of 1..=size*b (thorough) or a covering subset (k < b, multiples of b +-1, size*b)
fn ks(rng: &mut Rng, tier: &str, b: usize, size: usize) -> Vec<usize> {
    let top = size * b;
    if tier == "thorough" { return (1..=top).collect(); }
    let mut s: Vec<usize> = vec![1, 2, b - 1, b, b + 1, top - 1, top];
    for m in 1..=size { s.extend([m * b - 1, m * b, m * b + 1]); }
    for _ in 0..2 { s.push(rng.range(1, top as i64) as usize); }
    s.retain(|k| *k >= 1 && *k <= top);
    s.sort(); s.dedup();
    s
}

struct Shape { n: usize, cols: usize, size: usize, max: usize, col: usize }
fn shape(rng: &mut Rng, n: usize, size: usize) -> Shape {
    let cols = rng.range(1, 3) as usize;
    Shape { n, cols, size, max: size + rng.below(2) as usize, col: rng.below(cols as u64) as usize }
}

/// a column holding a clean encoding (balanced digits, last limb a multiple of 2^krem) inside garbage
fn clean_buf(rng: &mut Rng, s: &Shape, b: usize, k: usize) -> Vec<i128> {
    let mut buf = garbage(rng, s.n * s.cols * s.max, b);
    let sz = k.div_ceil(b);
    let krem = (b - k % b) % b;
    let half = 1i64 << (b - 1);
    for j in 0..s.size {
        for i in 0..s.n {
            let mut d = match rng.below(4) { 0 => rng.pick(&[-half, half - 1, 0, -1]), _ => rng.range(-half, half - 1) };
            if j + 1 == sz { d = (d >> krem) << krem; }
            buf[s.n * (j * s.cols + s.col) + i] = d as i128;
        }
    }
    buf
}

pub fn generate(tier: &str, rng: &mut Rng, out: &mut Vec<Rec>) {
    let bs: [usize; 8] = [2, 3, 7, 12, 17, 31, 50, 62];
    for &b in bs.iter() {
        for size in 1..=4usize {
            for k in ks(rng, tier, b, size) {
                // vector forms: all value classes in one record (n = 32 holds every candidate)
                for (code, w) in [(8301i64, 64u32), (8302, 128)] {
                    let mut vals = candidates(rng, k, w);
                    let n = 32usize;
                    while vals.len() < n { let i = rng.below(vals.len() as u64) as usize; let v = vals[i]; vals.push(v); }
                    vals.truncate(n);
                    let s = shape(rng, n, size);
                    let buf = garbage(rng, s.n * s.cols * s.max, b);
                    out.push(Rec::new(code, hdr(s.n, s.cols, s.size, s.max, s.col, b, k, 0), vec![buf, vals]));
                }
                // coefficient form at every index of a small ring
                let n = rng.pick(&[1usize, 2, 4, 8]);
                let cand = candidates(rng, k, 64);
                for idx in 0..n {
                    let s = shape(rng, n, size);
                    let buf = garbage(rng, s.n * s.cols * s.max, b);
                    let v = cand[rng.below(cand.len() as u64) as usize];
                    out.push(Rec::new(8303, hdr(s.n, s.cols, s.size, s.max, s.col, b, k, idx as i128), vec![buf, vec![v]]));
                }
                // decoders alone: garbage limbs and clean encodings
                let sel = if tier == "thorough" { 1 } else { 3 };
                if rng.below(sel) == 0 {
                    for code in [8304i64, 8305, 8306] {
                        let n = rng.pick(&[1usize, 3, 8]);
                        let s = shape(rng, n, size);
                        let buf = if rng.below(2) == 0 { clean_buf(rng, &s, b, k) } else { garbage(rng, s.n * s.cols * s.max, b) };
                        let idx = rng.below(n as u64) as i128;
                        let data0 = garbage(rng, n, 40);
                        let vs = if code == 8306 { vec![buf] } else { vec![buf, data0] };
                        out.push(Rec::new(code, hdr(s.n, s.cols, s.size, s.max, s.col, b, k, idx), vs));
                    }
                }
            }
            // arbitrary-precision decoding: garbage, normalised and extreme limbs
            for class in 0..3 {
                let n = rng.pick(&[1usize, 4, 8]);
                let s = shape(rng, n, size);
                let buf = match class {
                    0 => garbage(rng, s.n * s.cols * s.max, b),
                    1 => clean_buf(rng, &s, b, size * b),
                    _ => (0..s.n * s.cols * s.max).map(|_| rng.pick(&[i64::MAX, i64::MIN, -1, 1, 0]) as i128).collect(),
                };
                out.push(Rec::new(8307, hdr(s.n, s.cols, s.size, s.max, s.col, b, 0, 0), vec![buf]));
            }
        }
    }
    // other radices (every b in 1..=62 once), precision and shape at random
    for b in 1..=62usize {
        let size = rng.range(1, 4) as usize;
        let k = rng.range(1, (size * b) as i64) as usize;
        for (code, w) in [(8301i64, 64u32), (8302, 128)] {
            let mut vals = candidates(rng, k, w);
            vals.truncate(32);
            let s = shape(rng, vals.len(), size);
            let buf = garbage(rng, s.n * s.cols * s.max, b);
            out.push(Rec::new(code, hdr(s.n, s.cols, s.size, s.max, s.col, b, k, 0), vec![buf, vals]));
        }
    }
    // rejected calls: precision beyond the limbs, k = 0, column out of range, wrong data length, index out of range
    for _ in 0..(if tier == "thorough" { 40 } else { 8 }) {
        let b = rng.pick(&bs);
        let size = rng.range(1, 3) as usize;
        let n = 4usize;
        let s = shape(rng, n, size);
        let words = s.n * s.cols * s.max;
        let kk = rng.range(1, (size * b) as i64) as usize;
        let over = size * b + rng.range(1, b as i64) as usize;
        for code in [8301i64, 8302, 8303] {
            let data = |rng: &mut Rng, len: usize| -> Vec<i128> { (0..len).map(|_| rng.range(-5, 5) as i128).collect() };
            let dn = if code == 8303 { 1 } else { n };
            out.push(Rec::new(code, hdr(n, s.cols, s.size, s.max, s.col, b, over, 0), vec![garbage(rng, words, b), data(rng, dn)]));
            out.push(Rec::new(code, hdr(n, s.cols, s.size, s.max, s.col, b, 0, 0), vec![garbage(rng, words, b), data(rng, dn)]));
            out.push(Rec::new(code, hdr(n, s.cols, s.size, s.max, s.cols, b, kk, 0), vec![garbage(rng, words, b), data(rng, dn)]));
            if code == 8303 {
                out.push(Rec::new(code, hdr(n, s.cols, s.size, s.max, s.col, b, kk, n as i128), vec![garbage(rng, words, b), data(rng, 1)]));
            } else {
                out.push(Rec::new(code, hdr(n, s.cols, s.size, s.max, s.col, b, kk, 0), vec![garbage(rng, words, b), data(rng, n - 1)]));
                out.push(Rec::new(code, hdr(n, s.cols, s.size, s.max, s.col, b, kk, 0), vec![garbage(rng, words, b), data(rng, n + 1)]));
            }
        }
        for code in [8304i64, 8305] {
            for dlen in [n - 1, n + 2] {
                if code == 8305 && DBG == 1 && dlen < n { continue; }
                out.push(Rec::new(code, hdr(n, s.cols, s.size, s.max, s.col, b, kk, 0), vec![garbage(rng, words, b), garbage(rng, dlen, 30)]));
            }
            out.push(Rec::new(code, hdr(n, s.cols, s.size, s.max, s.col, b, over, 0), vec![garbage(rng, words, b), garbage(rng, n, 30)]));
            out.push(Rec::new(code, hdr(n, s.cols, s.size, s.max, s.col, b, 0, 0), vec![garbage(rng, words, b), garbage(rng, n, 30)]));
        }
        out.push(Rec::new(8306, hdr(n, s.cols, s.size, s.max, s.col, b, over, 0), vec![garbage(rng, words, b)]));
        out.push(Rec::new(8306, hdr(n, s.cols, s.size, s.max, s.col, b, kk, n as i128), vec![garbage(rng, words, b)]));
    }
}
