//! backend selector: 0 = ZnxRef (bare kernels), 1 = FFT64Ref, 2 = FFT64Avx, 3 = NTT120Ref, 4 = NTT120Avx
pub use poulpy_cpu_avx::{FFT64Avx, NTT120Avx};
pub use poulpy_cpu_ref::{FFT64Ref, NTT120Ref};
pub use poulpy_cpu_ref::reference::znx::ZnxRef;

#[macro_export]
macro_rules! with_znx {
    ($be:expr, $T:ident, $body:block) => {
        match $be {
            0 => { type $T = $crate::be::ZnxRef; $body }
            1 => { type $T = $crate::be::FFT64Ref; $body }
            2 => { type $T = $crate::be::FFT64Avx; $body }
            3 => { type $T = $crate::be::NTT120Ref; $body }
            4 => { type $T = $crate::be::NTT120Avx; $body }
            _ => panic!("bad backend"),
        }
    };
}

#[macro_export]
macro_rules! with_be {
    ($be:expr, $T:ident, $body:block) => {
        match $be {
            1 => { type $T = $crate::be::FFT64Ref; $body }
            2 => { type $T = $crate::be::FFT64Avx; $body }
            3 => { type $T = $crate::be::NTT120Ref; $body }
            4 => { type $T = $crate::be::NTT120Avx; $body }
            _ => panic!("bad backend"),
        }
    };
}
