//! helpers shared by the flat-memory harnesses: build a VecZnx with a given capacity / active size from flat
//! words, dump the whole capacity back, scratch pre-filled with a known word.
use poulpy_hal::api::{ModuleNew, ScratchOwnedAlloc, ScratchOwnedBorrow};
use poulpy_hal::layouts::{Backend, DataViewMut, DataView, Module, Scratch, ScratchOwned, VecZnx};

pub fn words_to_bytes(w: &[i64]) -> Vec<u8> {
    let mut b = Vec::with_capacity(w.len() * 8);
    for x in w { b.extend_from_slice(&x.to_le_bytes()); }
    b
}
pub fn bytes_to_words(b: &[u8]) -> Vec<i64> {
    b.chunks_exact(8).map(|c| i64::from_le_bytes(c.try_into().unwrap())).collect()
}

/// VecZnx with capacity `max` limbs, active `size`, whole capacity initialised from `flat` (n*cols*max words)
pub fn mk_vec_znx(n: usize, cols: usize, max: usize, size: usize, flat: &[i64]) -> VecZnx<Vec<u8>> {
    assert_eq!(flat.len(), n * cols * max);
    let mut v = VecZnx::alloc(n, cols, max);
    let bytes = words_to_bytes(flat);
    let d: &mut Vec<u8> = v.data_mut();
    assert!(d.len() >= bytes.len());
    d[..bytes.len()].copy_from_slice(&bytes);
    v.set_size(size);
    v
}

/// every word of the capacity (also limbs beyond the active size)
pub fn dump_vec_znx(v: &VecZnx<Vec<u8>>) -> Vec<i64> {
    use poulpy_hal::layouts::ZnxInfos;
    let words = v.n() * v.cols() * v.max_size();
    bytes_to_words(&v.data()[..words * 8])
}

pub fn module<BE: Backend>(n: usize) -> Module<BE> where Module<BE>: ModuleNew<BE> { Module::<BE>::new(n as u64) }

/// scratch of `bytes` bytes, every i64 word set to `fill`
pub fn scratch_filled<BE: Backend>(bytes: usize, fill: i64) -> ScratchOwned<BE>
where ScratchOwned<BE>: ScratchOwnedAlloc<BE> + ScratchOwnedBorrow<BE> {
    let mut s = ScratchOwned::<BE>::alloc(bytes.max(64));
    {
        let sc: &mut Scratch<BE> = s.borrow();
        let pat = fill.to_le_bytes();
        for (i, b) in sc.data.iter_mut().enumerate() { *b = pat[i % 8]; }
    }
    s
}

/// ScalarZnx from n*cols words
pub fn mk_scalar_znx(n: usize, cols: usize, flat: &[i64]) -> poulpy_hal::layouts::ScalarZnx<Vec<u8>> {
    assert_eq!(flat.len(), n * cols);
    let mut v = poulpy_hal::layouts::ScalarZnx::alloc(n, cols);
    let bytes = words_to_bytes(flat);
    let d: &mut Vec<u8> = v.data_mut();
    d[..bytes.len()].copy_from_slice(&bytes);
    v
}
