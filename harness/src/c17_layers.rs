//! C17, scheme layers (opcodes 100..): a handful of CKKS and binary-FHE operations run with their SCRATCH inside a
//! canary arena.  The ciphertext types of these layers can only be created owned from outside their crates
//! (`CKKSCiphertext::from_inner` is pub(crate), `FheUint` / `FheUintPrepared` allocate themselves), so the operands are
//! owned, 64-byte aligned buffers; what is carved is the scratch window:
//!   * its length is the SMALLEST multiple of 64 bytes with which the operation completes (found by bisection: every
//!     shorter window is rejected by a panic of the arena), at an address shifted by 8*hp1 bytes from a 64-byte boundary;
//!   * guard zones before and behind it are compared after the call (canaries), the accessor hook's counter is read,
//!     and the output bytes are compared for two different garbage fills of the window and of the destination.
//!
//!   100 ckks_add_into   101 ckks_mul_into (tensor key)   102 ckks_rescale_into
//!   110 FheUintPrepared::prepare (circuit bootstrapping, CGGI blind rotation inside)   111 FheUint::add (BDD circuit)
//!   112 glwe_blind_rotation
use poulpy_bin_fhe::bdd_arithmetic::tests::test_suite::TestContext;
use poulpy_bin_fhe::bdd_arithmetic::{Add, FheUint, FheUintPrepared, GLWEBlindRotation};
use poulpy_bin_fhe::blind_rotation::CGGI;
use poulpy_ckks::{
    CKKSMeta,
    encoding::Encoder,
    layouts::{CKKSCiphertext, CKKSPlaintextConversion, CKKSPlaintextVecRnx, CKKSPlaintextVecZnx},
    leveled::api::{CKKSAddOps, CKKSAllOpsTmpBytes, CKKSEncrypt, CKKSMulOps, CKKSRescaleOps},
};
use poulpy_core::{
    DEFAULT_BOUND_XE, DEFAULT_SIGMA_XE, EncryptionLayout,
    api::*,
    layouts::{
        GLWE, GLWELayout, GLWESecret, GLWESecretPreparedFactory, GLWETensorKey, GLWETensorKeyLayout, GLWETensorKeyPrepared,
        GLWETensorKeyPreparedFactory, GLWEToRef, Rank, prepared::GLWESecretPrepared,
    },
};
use poulpy_hal::{
    api::{ModuleNew, ScratchFromBytes, ScratchOwnedAlloc, ScratchOwnedBorrow},
    layouts::{Backend, DataView, DeviceBuf, Module, NoiseInfos, Scratch, ScratchOwned},
    source::Source,
};
use poulpy_verif_harness::rec::*;
use std::panic::{AssertUnwindSafe, catch_unwind};

pub const GUARD: usize = 4096;
pub struct LObs { pub status: i128, pub canary_ok: bool, pub viol: i128, pub digest: Vec<u8>, pub hdr: Vec<i128> }

fn garbage(buf: &mut [u8], g: &mut Rng) {
    for c in buf.chunks_mut(8) { let v = g.next().to_le_bytes(); let l = c.len(); c.copy_from_slice(&v[..l]); }
}

/// run `f` with a scratch window of `win` bytes that starts `shift` bytes after a 64-byte boundary inside a
/// garbage-filled allocation; returns (output or panic message, guard zones untouched)
pub fn in_arena<BE: Backend, F>(win: usize, shift: usize, fill: u64, f: F) -> (Result<Vec<u8>, String>, bool)
where
    Scratch<BE>: ScratchFromBytes<BE>,
    F: FnOnce(&mut Scratch<BE>) -> Vec<u8>,
{
    let total = GUARD + shift + win + GUARD + 64;
    let mut arena: Vec<u8> = poulpy_hal::alloc_aligned::<u8>(total);
    assert!(arena.as_ptr() as usize % 64 == 0);
    let mut g = Rng::new(fill);
    garbage(&mut arena, &mut g);
    let before = arena.clone();
    let (lo, hi) = (GUARD + shift, GUARD + shift + win);
    let r = {
        let w: &mut [u8] = &mut arena[lo..hi];
        let sc: &mut Scratch<BE> = Scratch::<BE>::from_bytes(w);
        catch_unwind(AssertUnwindSafe(|| f(sc))).map_err(panic_class)
    };
    let ok = arena[..lo] == before[..lo] && arena[hi..] == before[hi..];
    (r, ok)
}

/// smallest multiple of 64 (up to `max`) for which `works` holds, assuming monotonicity (C12: max_serves_all)
pub fn min_window(max: usize, mut works: impl FnMut(usize) -> bool) -> Option<usize> {
    if works(0) { return Some(0); }
    let mut hi = 64usize;
    while !works(hi) { hi *= 2; if hi > max { return None; } }
    let mut lo = hi / 2; // fails (or 0 < 64 boundary)
    if hi == 64 { return Some(64); }
    while hi - lo > 64 { let mid = ((lo + hi) / 2) / 64 * 64; if works(mid) { hi = mid } else { lo = mid } }
    Some(hi)
}

fn fill_dst(buf: &mut [u8], fill: u64) { let mut g = Rng::new(fill ^ 0xD57); garbage(buf, &mut g); }

macro_rules! ckks_impl {
    ($m:ident, $BE:ty) => {
        pub mod $m {
            use super::*;
            type BE = $BE;
            type Ct = CKKSCiphertext<Vec<u8>>;
            pub const LOGN: usize = 5;
            pub const BASE2K: usize = 19;
            pub const SIZE: usize = 8;
            pub struct Ctx { module: Module<BE>, tsk: GLWETensorKeyPrepared<DeviceBuf<BE>, BE>, x: Ct, y: Ct }
            thread_local! { static CTX: Ctx = Ctx::new(); }
            impl Ctx {
                fn new() -> Self {
                    let n = 1usize << LOGN;
                    let module = Module::<BE>::new(n as u64);
                    let kmax = SIZE * BASE2K;
                    let kbig = kmax + 2 * BASE2K;
                    let glwe = GLWELayout { n: n.into(), base2k: BASE2K.into(), k: kbig.into(), rank: Rank(1) };
                    let glwe_infos = EncryptionLayout::new_from_default_sigma(glwe).unwrap();
                    let kk = kbig + BASE2K;
                    let dnum = kk.div_ceil(BASE2K);
                    let tsk_infos = EncryptionLayout::new_from_default_sigma(GLWETensorKeyLayout {
                        n: n.into(), base2k: BASE2K.into(), k: kk.into(), rank: Rank(1), dsize: 1u32.into(), dnum: (dnum as u32).into(),
                    }).unwrap();
                    let (mut xa, mut xe, mut xs) = (Source::new([1u8; 32]), Source::new([2u8; 32]), Source::new([0u8; 32]));
                    let mut sk_raw = GLWESecret::alloc_from_infos(&glwe_infos);
                    sk_raw.fill_ternary_hw(n / 2, &mut xs);
                    let mut sk: GLWESecretPrepared<DeviceBuf<BE>, BE> = module.glwe_secret_prepared_alloc_from_infos(&glwe_infos);
                    module.glwe_secret_prepare(&mut sk, &sk_raw);
                    let prec = CKKSMeta { log_delta: 53, log_budget: 74 };
                    let bytes = module.ckks_all_ops_tmp_bytes(&glwe_infos, &tsk_infos, &prec);
                    let mut scratch = ScratchOwned::<BE>::alloc(2 * bytes + (1 << 20));
                    let mut tsk = GLWETensorKey::alloc_from_infos(&tsk_infos);
                    module.glwe_tensor_key_encrypt_sk(&mut tsk, &sk_raw, &tsk_infos, &mut xa, &mut xe, scratch.borrow());
                    let mut tsk_p = module.alloc_tensor_key_prepared_from_infos(&tsk_infos);
                    module.prepare_tensor_key(&mut tsk_p, &tsk, scratch.borrow());
                    let encoder = Encoder::<f64>::new(n / 2).unwrap();
                    let mut enc = |seed: u64| -> Ct {
                        let mut g = Rng::new(seed);
                        let re: Vec<f64> = (0..n / 2).map(|_| (g.range(-1000, 1000) as f64) / 1000.0).collect();
                        let im: Vec<f64> = (0..n / 2).map(|_| (g.range(-1000, 1000) as f64) / 1000.0).collect();
                        let mut rnx = CKKSPlaintextVecRnx::<f64>::alloc(n).unwrap();
                        encoder.encode_reim(&mut rnx, &re, &im).unwrap();
                        let mut znx = CKKSPlaintextVecZnx::alloc(n.into(), BASE2K.into(), CKKSMeta { log_delta: 30, log_budget: 10 });
                        rnx.to_znx(&mut znx).unwrap();
                        let mut ct: Ct = CKKSCiphertext::alloc(n.into(), (kmax as u32).into(), BASE2K.into());
                        let noise = NoiseInfos::new(kmax, DEFAULT_SIGMA_XE, DEFAULT_BOUND_XE).unwrap();
                        module.ckks_encrypt_sk(&mut ct, &znx, &sk, &noise, &mut Source::new([seed as u8; 32]), &mut Source::new([seed as u8 + 1; 32]), scratch.borrow()).unwrap();
                        ct
                    };
                    let (x, y) = (enc(11), enc(23));
                    Ctx { module, tsk: tsk_p, x, y }
                }
            }
            pub fn shape(dst_size: usize) -> (usize, usize, usize) { (1 << LOGN, 2, dst_size) }
            /// (result of the call as Ok/Err flag in the first output byte, then the destination's bytes)
            pub fn run(opc: i64, dst_size: usize, win: usize, shift: usize, fill: u64) -> (Result<Vec<u8>, String>, bool, Vec<i128>) {
                CTX.with(|cx| {
                    let n = 1usize << LOGN;
                    let mut dst: Ct = CKKSCiphertext::alloc(n.into(), ((dst_size * BASE2K) as u32).into(), BASE2K.into());
                    {
                        use poulpy_core::layouts::GLWEToMut;
                        let mut m = dst.to_mut(); let d: &mut [u8] = m.data_mut().data; fill_dst(d, fill);
                    }
                    let (r, ok) = in_arena::<BE, _>(win, shift, fill, |sc| {
                        let res = match opc {
                            100 => cx.module.ckks_add_into(&mut dst, &cx.x, &cx.y, sc),
                            101 => cx.module.ckks_mul_into(&mut dst, &cx.x, &cx.y, &cx.tsk, sc),
                            _ => cx.module.ckks_rescale_into(&mut dst, BASE2K, &cx.x, sc),
                        };
                        let mut out = vec![res.is_ok() as u8];
                        out.extend_from_slice(dst.to_ref().data().data);
                        out
                    });
                    let v = dst.to_ref();
                    let d = v.data();
                    use poulpy_hal::layouts::ZnxInfos;
                    let hdr = vec![d.n() as i128, d.cols() as i128, d.size() as i128, d.max_size() as i128, d.data.len() as i128, 8];
                    (r, ok, hdr)
                })
            }
        }
    };
}
ckks_impl!(ckks1, poulpy_cpu_ref::FFT64Ref);
ckks_impl!(ckks2, poulpy_cpu_avx::FFT64Avx);
ckks_impl!(ckks3, poulpy_cpu_ref::NTT120Ref);
ckks_impl!(ckks4, poulpy_cpu_avx::NTT120Avx);

macro_rules! bdd_impl {
    ($m:ident, $BE:ty) => {
        pub mod $m {
            use super::*;
            type BE = $BE;
            type U = FheUint<Vec<u8>, u32>;
            type P = FheUintPrepared<DeviceBuf<BE>, u32, BE>;
            pub struct Ctx { t: TestContext<CGGI, BE>, a: U, b: U, ap: P, bp: P }
            thread_local! { static CTX: Ctx = Ctx::new(); }
            fn s32(tag: u8, s: u64) -> [u8; 32] { let mut r = [tag; 32]; r[..8].copy_from_slice(&s.to_le_bytes()); r }
            impl Ctx {
                fn new() -> Self {
                    let t: TestContext<CGGI, BE> = TestContext::new();
                    let gi = t.glwe_infos();
                    let e = EncryptionLayout::new_from_default_sigma(gi).unwrap();
                    let mut sc: ScratchOwned<BE> = ScratchOwned::alloc(1 << 22);
                    let mut enc = |v: u32, seed: u64| -> U {
                        let mut c: U = FheUint::alloc_from_infos(&gi);
                        c.encrypt_sk(&t.module, v, &t.sk_glwe, &e, &mut Source::new(s32(2, seed)), &mut Source::new(s32(3, seed)), sc.borrow());
                        c
                    };
                    let (a, b) = (enc(0x1234_5678, 1), enc(0x0fed_cba9, 2));
                    let mut prep = |c: &U| -> P {
                        let mut p: P = FheUintPrepared::alloc_from_infos(&t.module, &t.ggsw_infos());
                        p.prepare(&t.module, c, &t.bdd_key, sc.borrow());
                        p
                    };
                    let (ap, bp) = (prep(&a), prep(&b));
                    Ctx { t, a, b, ap, bp }
                }
            }
            pub fn run(opc: i64, win: usize, shift: usize, fill: u64) -> (Result<Vec<u8>, String>, bool, Vec<i128>) {
                CTX.with(|cx| {
                    let t = &cx.t;
                    let gi = t.glwe_infos();
                    use poulpy_hal::layouts::ZnxInfos;
                    let hdr_of = |g: &GLWE<&[u8]>| -> Vec<i128> { let d = g.data(); vec![d.n() as i128, d.cols() as i128, d.size() as i128, d.max_size() as i128, d.data.len() as i128, 8] };
                    match opc {
                        110 => {
                            let mut p: P = FheUintPrepared::alloc_from_infos(&t.module, &t.ggsw_infos());
                            let (r, ok) = in_arena::<BE, _>(win, shift, fill, |sc| {
                                p.prepare(&t.module, &cx.a, &t.bdd_key, sc);
                                let mut out = Vec::new();
                                for i in 0..32 { use poulpy_bin_fhe::bdd_arithmetic::GetGGSWBit; let b = p.get_bit(i); let d: &[u8] = b.data().data(); out.extend_from_slice(d); }
                                out
                            });
                            (r, ok, hdr_of(&cx.a.to_ref()))
                        }
                        111 => {
                            let mut res: U = FheUint::alloc_from_infos(&gi);
                            { use poulpy_core::layouts::GLWEToMut; let mut m = res.to_mut(); let d: &mut [u8] = m.data_mut().data; fill_dst(d, fill); }
                            let (r, ok) = in_arena::<BE, _>(win, shift, fill, |sc| {
                                res.add(&t.module, &cx.ap, &cx.bp, &t.bdd_key, sc);
                                res.to_ref().data().data.to_vec()
                            });
                            let h = hdr_of(&res.to_ref());
                            (r, ok, h)
                        }
                        _ => {
                            let mut res: GLWE<Vec<u8>> = GLWE::alloc_from_infos(&gi);
                            { let d: &mut Vec<u8> = &mut res.data_mut().data; fill_dst(d, fill); }
                            let (r, ok) = in_arena::<BE, _>(win, shift, fill, |sc| {
                                t.module.glwe_blind_rotation(&mut res, &cx.b, &cx.ap, false, 0, 5, 0, sc);
                                res.data().data.clone()
                            });
                            let h = hdr_of(&res.to_ref());
                            (r, ok, h)
                        }
                    }
                })
            }
        }
    };
}
bdd_impl!(bdd1, poulpy_cpu_ref::FFT64Ref);
bdd_impl!(bdd2, poulpy_cpu_avx::FFT64Avx);

/// nominal (n, cols, size) of the observed destination, for the record header
pub fn nominal(opc: i64, dst_size: usize) -> (usize, usize, usize) {
    if opc < 110 { ckks1::shape(dst_size) } else { (256, 3, 2) }
}

pub fn run(be: i128, opc: i64, dst_size: usize, win: usize, shift: usize, fill: u64) -> (Result<Vec<u8>, String>, bool, Vec<i128>) {
    if opc < 110 {
        match be { 1 => ckks1::run(opc, dst_size, win, shift, fill), 2 => ckks2::run(opc, dst_size, win, shift, fill),
                   3 => ckks3::run(opc, dst_size, win, shift, fill), _ => ckks4::run(opc, dst_size, win, shift, fill) }
    } else {
        match be { 1 => bdd1::run(opc, win, shift, fill), _ => bdd2::run(opc, win, shift, fill) }
    }
}
