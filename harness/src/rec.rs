//! Record format shared by every property module.
//!
//! One record per line:  `code#p1 p2 ...#v1_1 v1_2 ...;v2_1 ...#o1_1 ...;o2_1 ...`
//! numbers are signed hex without prefix (`-1f`), outputs may be the single word `PANIC:<class>`.
use std::fmt::Write as _;

#[derive(Clone, Debug)]
pub struct Rec {
    pub code: i64,
    pub ps: Vec<i128>,
    pub vs: Vec<Vec<i128>>,
}

pub type Out = Result<Vec<Vec<i128>>, String>;

pub fn hex(x: i128) -> String {
    if x < 0 {
        if x == i128::MIN { "-80000000000000000000000000000000".to_string() } else { format!("-{:x}", -x) }
    } else {
        format!("{:x}", x)
    }
}

pub fn unhex(s: &str) -> i128 {
    let (neg, d) = if let Some(r) = s.strip_prefix('-') { (true, r) } else { (false, s) };
    let v = u128::from_str_radix(d, 16).expect("bad hex");
    if neg { (v as i128).wrapping_neg() } else { v as i128 }
}

fn vec_s(v: &[i128]) -> String {
    let mut s = String::new();
    for (i, x) in v.iter().enumerate() {
        if i > 0 { s.push(' '); }
        s.push_str(&hex(*x));
    }
    s
}

fn vecs_s(vs: &[Vec<i128>]) -> String {
    let mut s = String::new();
    for (i, v) in vs.iter().enumerate() {
        if i > 0 { s.push(';'); }
        s.push_str(&vec_s(v));
    }
    s
}

impl Rec {
    pub fn new(code: i64, ps: Vec<i128>, vs: Vec<Vec<i128>>) -> Self { Rec { code, ps, vs } }
    pub fn line(&self, out: &Out) -> String {
        let mut s = String::new();
        write!(s, "{}#{}#{}#", self.code, vec_s(&self.ps), vecs_s(&self.vs)).unwrap();
        match out {
            Ok(o) => s.push_str(&vecs_s(o)),
            Err(m) => { s.push_str("PANIC:"); s.push_str(&m.replace(['#', ';', '\n'], " ")); }
        }
        s
    }
    pub fn parse(line: &str) -> Option<Rec> {
        let mut it = line.split('#');
        let code: i64 = it.next()?.trim().parse().ok()?;
        let ps = it.next()?.split_whitespace().map(unhex).collect();
        let vs_s = it.next()?;
        let vs = if vs_s.trim().is_empty() { vec![] } else {
            vs_s.split(';').map(|v| v.split_whitespace().map(unhex).collect()).collect()
        };
        Some(Rec { code, ps, vs })
    }
}

/// SplitMix64: every random choice of the harness derives from one state.
#[derive(Clone)]
pub struct Rng(pub u64);
impl Rng {
    pub fn new(seed: u64) -> Self { Rng(seed ^ 0x9E37_79B9_7F4A_7C15) }
    pub fn next(&mut self) -> u64 {
        self.0 = self.0.wrapping_add(0x9E37_79B9_7F4A_7C15);
        let mut z = self.0;
        z = (z ^ (z >> 30)).wrapping_mul(0xBF58_476D_1CE4_E5B9);
        z = (z ^ (z >> 27)).wrapping_mul(0x94D0_49BB_1331_11EB);
        z ^ (z >> 31)
    }
    pub fn below(&mut self, n: u64) -> u64 { if n == 0 { 0 } else { self.next() % n } }
    pub fn range(&mut self, lo: i64, hi: i64) -> i64 { lo + self.below((hi - lo + 1) as u64) as i64 }
    pub fn i64(&mut self) -> i64 { self.next() as i64 }
    pub fn i128(&mut self) -> i128 { ((self.next() as u128) << 64 | self.next() as u128) as i128 }
    pub fn pick<T: Copy>(&mut self, xs: &[T]) -> T { xs[self.below(xs.len() as u64) as usize] }
    /// i64 from a mixture of classes: boundary dictionary, small, bounded by `bits`, full range
    pub fn val64(&mut self, bits: u32) -> i64 {
        match self.below(8) {
            0 => self.pick(&[0, 1, -1, i64::MAX, i64::MIN, i64::MAX - 1, i64::MIN + 1, 1 << 62, -(1 << 62), (1 << 62) - 1]),
            1 => { let s = self.below(63) as u32; let v = 1i64 << s; self.pick(&[v, -v, v - 1, -v + 1, v.wrapping_add(1), (-v).wrapping_sub(1)]) }
            2 => self.i64(),
            3 => self.range(-4, 4),
            _ => { let b = bits.clamp(1, 63); let m = (1i64 << b) - 1; (self.i64() & m) - (1i64 << (b - 1)) }
        }
    }
    pub fn bytes32(&mut self) -> [u8; 32] {
        let mut b = [0u8; 32];
        for c in b.chunks_mut(8) { c.copy_from_slice(&self.next().to_le_bytes()); }
        b
    }
}

pub fn panic_class(p: Box<dyn std::any::Any + Send>) -> String {
    let m = if let Some(s) = p.downcast_ref::<&str>() { s.to_string() }
        else if let Some(s) = p.downcast_ref::<String>() { s.clone() } else { "unknown".to_string() };
    m.chars().take(120).collect()
}

/// run an implementation call, turning a panic into an output value
pub fn guard<F: FnOnce() -> Vec<Vec<i128>> + std::panic::UnwindSafe>(f: F) -> Out {
    std::panic::catch_unwind(f).map_err(panic_class)
}

pub fn v64(v: &[i128]) -> Vec<i64> { v.iter().map(|x| *x as i64).collect() }
pub fn to128(v: &[i64]) -> Vec<i128> { v.iter().map(|x| *x as i128).collect() }
