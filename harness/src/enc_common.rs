//! Shared by the C01 / C06 / C19 harnesses (included with `#[path]`).
//!
//! The trick for a bit-exact tie with the model: the real encryption is run with seeds chosen by the harness, and the
//! harness REGENERATES what the library drew:
//!   * mask  : the raw u64 words of `Source::new(seed_xa)` (the model applies the digit map and the consumption order),
//!   * error : replay of the library's own sampler (`vec_znx_add_normal`) on a zero buffer with `Source::new(seed_xe)`,
//!             one call per encrypted cell, in the library's order (a call consumes a data-dependent number of words),
//!   * secret / ephemeral secret : replay of the library's own `ScalarZnx::fill_*` with the same seed.
#![allow(dead_code)]
use poulpy_core::layouts::*;
use poulpy_hal::api::*;
use poulpy_hal::layouts::*;
use poulpy_hal::source::Source;
use poulpy_verif_harness::rec::*;
use std::sync::atomic::{AtomicU64, Ordering};

pub fn seed_words(s: &[u8; 32]) -> Vec<i128> {
    s.chunks(8).map(|c| u64::from_le_bytes(c.try_into().unwrap()) as i128).collect()
}
pub fn words_seed(w: &[i128]) -> [u8; 32] {
    let mut s = [0u8; 32];
    for (i, c) in s.chunks_mut(8).enumerate() { c.copy_from_slice(&(w[i] as u64).to_le_bytes()); }
    s
}
pub fn flip_seed(s: &[u8; 32]) -> [u8; 32] { let mut t = *s; t[7] ^= 0x10; t }

/// the first `cnt` raw u64 words of the ChaCha8 stream of `seed`
pub fn raw_u64(seed: &[u8; 32], cnt: usize) -> Vec<i128> {
    let mut s = Source::new(*seed);
    (0..cnt).map(|_| s.next_i64() as u64 as i128).collect()
}

/// secret distributions: 0 TernaryProb(param/16) 1 TernaryFixed(param) 2 BinaryProb(param/16) 3 BinaryFixed(param)
/// 4 BinaryBlock(param) 5 ZERO
pub fn fill_scalar_col(z: &mut ScalarZnx<Vec<u8>>, col: usize, kind: i128, param: i128, src: &mut Source) {
    match kind {
        0 => z.fill_ternary_prob(col, param as f64 / 16.0, src),
        1 => z.fill_ternary_hw(col, param as usize, src),
        2 => z.fill_binary_prob(col, param as f64 / 16.0, src),
        3 => z.fill_binary_hw(col, param as usize, src),
        4 => z.fill_binary_block(col, param as usize, src),
        _ => {}
    }
}
pub fn fill_glwe_secret(sk: &mut GLWESecret<Vec<u8>>, kind: i128, param: i128, src: &mut Source) {
    match kind {
        0 => sk.fill_ternary_prob(param as f64 / 16.0, src),
        1 => sk.fill_ternary_hw(param as usize, src),
        2 => sk.fill_binary_prob(param as f64 / 16.0, src),
        3 => sk.fill_binary_hw(param as usize, src),
        4 => sk.fill_binary_block(param as usize, src),
        _ => sk.fill_zero(),
    }
}
pub fn fill_lwe_secret(sk: &mut LWESecret<Vec<u8>>, kind: i128, param: i128, src: &mut Source) {
    match kind {
        0 => sk.fill_ternary_prob(param as f64 / 16.0, src),
        1 => sk.fill_ternary_hw(param as usize, src),
        2 => sk.fill_binary_prob(param as f64 / 16.0, src),
        3 => sk.fill_binary_hw(param as usize, src),
        4 => sk.fill_binary_block(param as usize, src),
        _ => sk.fill_zero(),
    }
}
/// GLWE secret of the library + the replayed clear coefficients (rank*n words, column-major)
pub fn glwe_secret(n: usize, rank: usize, kind: i128, param: i128, seed: &[u8; 32]) -> (GLWESecret<Vec<u8>>, Vec<i64>) {
    let mut sk = GLWESecret::alloc(Degree(n as u32), Rank(rank as u32));
    fill_glwe_secret(&mut sk, kind, param, &mut Source::new(*seed));
    let mut z = ScalarZnx::alloc(n, rank.max(1));
    let mut src = Source::new(*seed);
    for i in 0..rank { fill_scalar_col(&mut z, i, kind, param, &mut src); }
    let mut flat = Vec::with_capacity(rank * n);
    for i in 0..rank { flat.extend_from_slice(z.at(i, 0)); }
    (sk, flat)
}
/// one polynomial drawn like the ephemeral secret of public-key encryption
pub fn replay_scalar(n: usize, kind: i128, param: i128, src: &mut Source) -> Vec<i64> {
    let mut z = ScalarZnx::alloc(n, 1);
    fill_scalar_col(&mut z, 0, kind, param, src);
    z.at(0, 0).to_vec()
}

/// limb-major words of one column
pub fn col_words<D: DataRef>(v: &VecZnx<D>, col: usize) -> Vec<i128> {
    let mut out = Vec::with_capacity(v.n() * v.size());
    for j in 0..v.size() { out.extend(v.at(col, j).iter().map(|x| *x as i128)); }
    out
}
pub fn all_cols<D: DataRef>(v: &VecZnx<D>) -> Vec<i128> {
    let mut out = Vec::new();
    for c in 0..v.cols() { out.extend(col_words(v, c)); }
    out
}
pub fn set_col(v: &mut VecZnx<Vec<u8>>, col: usize, words: &[i128]) {
    let n = v.n();
    for j in 0..v.size() { for (d, s) in v.at_mut(col, j).iter_mut().zip(&words[j * n..(j + 1) * n]) { *d = *s as i64; } }
}

/// one call of the library's sampler on a zero column of `size` limbs: the n rounded samples it added.  They are read from
/// the (single) limb the library wrote, wherever that is: the model places them on the limb the specification names.
pub fn replay_error<BE: Backend>(module: &Module<BE>, n: usize, b: usize, size: usize, noise: NoiseInfos, src: &mut Source) -> Vec<i64>
where Module<BE>: VecZnxAddNormal {
    let (limb, _) = noise.target_limb_and_scale(b);
    let mut z: VecZnx<Vec<u8>> = VecZnx::alloc(n, 1, size.max(limb + 1));
    module.vec_znx_add_normal(b, &mut z, 0, noise, src);
    let written: Vec<usize> = (0..z.size()).filter(|j| z.at(0, *j).iter().any(|x| *x != 0)).collect();
    assert!(written.len() <= 1, "sampler wrote on several limbs");
    z.at(0, *written.first().unwrap_or(&limb)).to_vec()
}

pub fn ceil_bound(noise: NoiseInfos, b: usize) -> (usize, i128, i128) {
    let (limb, scale) = noise.target_limb_and_scale(b);
    (limb, scale.log2().round() as i128, (noise.bound * scale).ceil() as i128)
}

/// message classes: 0 uniform digits, 1 extreme digits, 2 zero, 3 only the last limb, 4 small values on every limb
pub fn message(rng: &mut Rng, n: usize, size: usize, b: usize, class: u64) -> Vec<i128> {
    let half = 1i128 << (b - 1);
    (0..n * size).map(|i| match class {
        0 => ((rng.next() as u128 & ((1u128 << b) - 1)) as i128) - half,
        1 => match rng.below(4) { 0 => -half, 1 => half - 1, 2 => -half + (half > 1) as i128, _ => 0 },
        2 => 0,
        3 => if i / n == size - 1 { ((rng.next() as u128 & ((1u128 << b) - 1)) as i128) - half } else { 0 },
        _ => (rng.range(-3, 3) as i128).clamp(-half, half - 1),
    }).collect()
}

/// serialised bytes of any object of the library
pub fn ser<T: WriterTo>(x: &T) -> Vec<u8> { let mut v = Vec::new(); x.write_to(&mut v).unwrap(); v }
/// the i64 words of a serialised VecZnx / MatZnx payload that ends the byte string (`words` of them)
pub fn tail_words(bytes: &[u8], words: usize) -> Vec<i128> {
    let start = bytes.len() - 8 * words;
    bytes[start..].chunks_exact(8).map(|c| i64::from_le_bytes(c.try_into().unwrap()) as i128).collect()
}

/// Every scratch arena handed to the library is pre-filled with garbage derived from FILL (0 = leave it zeroed): a routine that
/// reads scratch it did not write (e.g. an accumulator it forgot to zero) then produces output that differs from the model and
/// between the two fills of `two_fills`.
pub static FILL: AtomicU64 = AtomicU64::new(0x5EED_0001);
pub fn garbage_scratch<BE: Backend>(bytes: usize) -> ScratchOwned<BE>
where ScratchOwned<BE>: ScratchOwnedAlloc<BE> + ScratchOwnedBorrow<BE> {
    let mut s = ScratchOwned::<BE>::alloc(bytes.max(64));
    let f = FILL.load(Ordering::Relaxed);
    if f != 0 {
        let mut g = Rng::new(f);
        let sc: &mut Scratch<BE> = s.borrow();
        // odd fill: full-range words; even fill: small signed words (|x| < 2^16), which stay meaningful as i64 limbs / secrets even
        // where full-range garbage would overflow a float conversion into a harmless zero
        let small = f & 1 == 0;
        for c in sc.data.chunks_mut(8) {
            let w = g.next();
            let v = (if small { ((w % (1 << 17)) as i64 - (1 << 16)) as u64 } else { w }).to_le_bytes();
            let l = c.len(); c.copy_from_slice(&v[..l]);
        }
    }
    s
}
/// run the case under two different garbage fills of every scratch arena; the outputs must not depend on the fill
pub fn two_fills<F: Fn() -> Vec<Vec<i128>>>(f: F) -> Vec<Vec<i128>> {
    FILL.store(0x5EED_0001, Ordering::Relaxed);
    let a = f();
    FILL.store(0xC0FF_EE77_1234_5678, Ordering::Relaxed);
    let b = f();
    FILL.store(0x5EED_0001, Ordering::Relaxed);
    assert!(a == b, "output depends on the prior contents of the scratch arena");
    a
}
