//! poulpy verification harness: generator + executor.
//!   harness gen  <prop> <tier> <seed> <out_file>     generate inputs, run the implementation, write records
//!   harness exec <prop> <in_file> <out_file>         re-run the implementation on the inputs of recorded lines
mod rec;
mod be;
mod c08;

use rec::{Out, Rec};
use std::io::{BufRead, Write};

fn exec(prop: &str, r: &Rec) -> Out {
    match prop {
        "c08" => c08::exec(r),
        _ => Err(format!("unknown property {prop}")),
    }
}

fn gen_recs(prop: &str, tier: &str, seed: u64) -> Vec<Rec> {
    match prop {
        "c08" => c08::generate(tier, seed),
        _ => panic!("unknown property {prop}"),
    }
}

fn main() {
    std::panic::set_hook(Box::new(|_| {}));
    let args: Vec<String> = std::env::args().collect();
    let mode = args.get(1).map(|s| s.as_str()).unwrap_or("");
    match mode {
        "gen" => {
            let prop = &args[2];
            let tier = &args[3];
            let seed: u64 = args[4].parse().unwrap();
            let mut f = std::io::BufWriter::new(std::fs::File::create(&args[5]).unwrap());
            let recs = gen_recs(prop, tier, seed);
            for r in &recs {
                let o = exec(prop, r);
                writeln!(f, "{}", r.line(&o)).unwrap();
            }
            eprintln!("harness: {} records for {}", recs.len(), prop);
        }
        "exec" => {
            let prop = &args[2];
            let inp = std::io::BufReader::new(std::fs::File::open(&args[3]).unwrap());
            let mut f = std::io::BufWriter::new(std::fs::File::create(&args[4]).unwrap());
            for line in inp.lines() {
                let line = line.unwrap();
                if let Some(r) = Rec::parse(&line) {
                    let o = exec(prop, &r);
                    writeln!(f, "{}", r.line(&o)).unwrap();
                }
            }
        }
        _ => {
            eprintln!("usage: harness gen <prop> <tier> <seed> <out> | exec <prop> <in> <out>");
            std::process::exit(2);
        }
    }
}
