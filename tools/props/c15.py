"""C15 — encrypted integers: bootstrap, word operations and bit surgery match u32."""
import importlib, json, os, sys
from pathlib import Path

PROPS_VO = "Props/C15.vo"
EXTRA_VO = ["Model/C15Run.vo"]
PROFILES = ["release"]
RULE = ("harness c15 at the crate's test parameter set (TestContext: N=256, rank 2, base2k 13, GGSW dnum 2), FFT64 ref and AVX, "
        "independent cases on all cores: 15001 bit_index tables of u8..u128; 15002-15010 encrypt/decrypt, get_bit (EVERY bit "
        "index, bit set and clear), get_bit_lwe, get_byte, zero_byte, splice_u8 (every (dst,src); u64: covering subset), "
        "splice_u16, sext (sign set/clear), pack (full/short/over-long) for u8/u16/u32/u64 — the decrypted word AND all N "
        "decoded coefficients are compared; 15011-15013 direct GGSW encryption, full preparation with every debug GGSW cell "
        "(row, col) read back, partial preparation over a covering subset of (start, length) x thread counts with stale "
        "content; 15021-15031 all eleven word operations on boundary x boundary words, shift amounts 0..63, single bits, "
        "random (encrypt -> prepare through circuit bootstrapping -> op -> decrypt, and the plain Rust result); 15040 random "
        "programs of 2-3 operations chained through re-preparation; 15050-15054 blind rotation / selection / retrieval (+rev) "
        "/ streaming retriever (15055: allocated for 1 and 2 inputs, a panic reported as a value; 15056: HISTORIES on one retriever "
        "object — retrieve / add+flush / abandoned rounds with 1, 2, 3, half, half+1, full-capacity input counts, every capacity "
        "class of alloc) / cswap with directly encrypted "
        "and circuit-bootstrapped selectors; 15062 circuit bootstrapping with keys generated per record at gadgets whose "
        "lookup-table coefficients reach the top of i64; 15060/15061 circuit "
        "bootstrapping of every message in constant and exponent mode (both branches of post_process), every GGSW cell "
        "classified by GGSW::noise against every candidate message and column 0 decrypted and decoded. "
        "Records whose API call panics (asserts on out-of-range indices, bit_count = 0, threads = 0) are predicted as "
        "rejected by the model.  distinct = distinct (op, parameters, inputs) lines")
ASSUMPTIONS = [
    "ciphertexts are modelled by their ideal plaintexts; noise is a side condition of the theorems (predicates quiet*), "
    "measured by the harness (coverage.noise_margin) and not proved",
    "cmux_selects (C04), key-switch / sample-extract / trace / pack / rotate (C02, C03), decryption (C01), blind rotation "
    "(C14) and GGLWE->GGSW expansion (C04) enter C15_word_op_correct / C15_circuit_bootstrap_cells as named hypotheses",
    "C15_circuit_bootstrap_cells is conditional on cbt_rows_ok (the ideal rows decode to the message), which is PROVED for all "
    "parameter sets the code's asserts accept, both modes (C15_cbt_rows_ok_full)",
    "cmux_selects is discharged at phase level (C15_heval_refines_eval_stale_phase over C04's phase equation, "
    "C15_cmux_phase_from_C04): what remains is the bound BE on one cmux's error polynomial and quiet_c of every intermediate",
    "glwe_blind_retrieval_statefull_rev: model + correspondence only",
    "release-mode integer semantics",
]
TRUSTED = [
    "tools/gen_c15.py (textual translator of UnsignedInteger's constants and bit_index -> Gen/C15_gen.v); cross-checked on "
    "every run against T::bit_index / T::BITS / LOG_BITS / LOG_BYTES / LOG_BYTES_MASK read through the public trait (15001)",
    "GGSW::noise / glwe_decrypt of poulpy-core used as the observation of GGSW cells and plaintext coefficients",
]

VERIF = Path(__file__).resolve().parent.parent.parent


def translate(ctx):
    sys.path.insert(0, str(VERIF / "tools"))
    g = importlib.import_module("gen_c15")
    info = g.main()
    if os.environ.get("VERIF_C15_REPO"):
        ctx.notes.append("VERIF_C15_REPO set: constants read from " + info["source"] + " (self-test mode)")
    if os.environ.get("VERIF_C15_HARNESS_BIN"):
        ctx.notes.append("VERIF_C15_HARNESS_BIN set: records produced by " + os.environ["VERIF_C15_HARNESS_BIN"] + " (self-test mode)")
    return info


def _unhex(s):
    return -int(s[1:], 16) if s.startswith("-") else int(s, 16)


def _bitlen(x):
    return 0 if x <= 0 else x.bit_length()


def classify(record):
    """key of the known-finding class of a failing record, else None.  All three C15 classes found so far are repaired in /repo
    (b689fc8 trace level of post_process, a84e8a5 LUT coefficient overflow assert, 38e6b0c retriever alloc size 1)."""
    return None


def _harness_bin():
    hb = os.environ.get("VERIF_C15_HARNESS_BIN")
    return Path(hb) if hb else VERIF / "harness" / "target" / "release" / "c15"


def search(ctx, diffs):
    """proof / correspondence broke without an oracle failure in the main run: widen (other seeds, then thorough)"""
    import check as C
    drv = VERIF / "ocaml" / "gen" / "c15" / "drv"
    known = [k["key"] for k in C.load_known() if k["property"] == "C15" and k.get("status") == "known"]
    for tier, seed in [("quick", ctx.seed + 1), ("quick", ctx.seed + 2), ("thorough", ctx.seed + 3)]:
        if not drv.exists():
            return None
        try:
            recs = ctx.harness_gen(_harness_bin(), tier, seed, tag=f"_search_{tier}_{seed}")
            lines = recs.read_text().splitlines()
            for (n, c, o, extra) in ctx.drive(drv, recs):
                if o == 0 and classify(lines[n - 1]) not in known:
                    return {"property": "C15", "kind": "oracle-failure (widened search)", "tier": tier, "seed": seed,
                            "records": [lines[n - 1].rsplit("#", 1)[0] + "#"], "observed": lines[n - 1],
                            "what": "the property statement, evaluated on the implementation's output, is false on this input"}
        except Exception as e:  # noqa
            ctx.notes.append(f"search {tier}/{seed}: {e}")
    return None


def extra(ctx, ofails, notes):
    """supporting evidence: the measured noise (log2 of the largest decryption error) against the decision threshold"""
    out = {}
    f = ctx.work / "records_release.txt.noise"
    if not f.exists():
        return out
    agg = {}
    for line in f.read_text().splitlines():
        p = line.split()
        if len(p) != 4:
            continue
        key = f"{p[0]}:{p[1]}"
        try:
            err, thr = float(p[2]), float(p[3])
        except ValueError:
            continue
        if err != err or err in (float("inf"), float("-inf")):
            continue
        a = agg.setdefault(key, {"n": 0, "worst_err_log2": -1e9, "threshold_log2": thr})
        a["n"] += 1
        a["worst_err_log2"] = max(a["worst_err_log2"], err)
    for k, a in agg.items():
        a["margin_bits"] = round(a["threshold_log2"] - a["worst_err_log2"], 2)
        a["worst_err_log2"] = round(a["worst_err_log2"], 2)
    out["noise_margin"] = dict(sorted(agg.items()))
    glwe = [a["margin_bits"] for k, a in agg.items() if k.endswith(":glwe")]
    if glwe:
        notes.append(f"smallest measured margin of a decrypted FheUint coefficient: {min(glwe)} bits below the 2^-3 decision "
                     f"threshold (over {sum(a['n'] for k, a in agg.items() if k.endswith(':glwe'))} decryptions, programs included)")
    return out


def check(prop, tier, seed, replay):
    """generic pipeline; VERIF_C15_HARNESS_BIN substitutes a harness built against a mutated copy of /repo (self-tests)"""
    import check as C
    cfg = sys.modules[__name__]
    hb = os.environ.get("VERIF_C15_HARNESS_BIN")
    if hb:
        C.build_harness = lambda prop, profile="release": (Path(hb), "")
    return C.generic_check(prop, tier, seed, cfg, replay)
