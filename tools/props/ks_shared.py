"""helpers shared by tools/props/c03.py and c04.py (record parsing, panic scan, noise statistics)"""
from pathlib import Path


def hx(x):
    return -int(x[1:], 16) if x.startswith("-") else int(x, 16)


def parse(record):
    code, ps, vs, outs = record.split("#", 3)
    ps = [hx(t) for t in ps.split()]
    return int(code), ps, vs, outs


def flags_of(vs):
    last = vs.rsplit(";", 1)[-1]
    return [hx(t) for t in last.split()]


def scan(ctx, ofails, notes, stat_code):
    """every implementation panic on an admitted input is a failure of the property (the driver only reports it as n/a);
    gather the supporting noise statistics of the records of code `stat_code`"""
    panics, stats, xbe = 0, [], {0: 0, 1: 0, 2: 0}
    for f in sorted(Path(ctx.work).glob("records_*.txt")):
        if "replay_in" in f.name:
            continue
        prof = f.stem.split("_", 1)[1]
        for line in f.read_text().splitlines():
            try:
                code, ps, vs, outs = parse(line)
            except Exception:
                continue
            if outs.startswith("PANIC"):
                panics += 1
                ofails.append({"profile": prof, "record": line})
                continue
            if ps[2] > 0 and code not in (3042, 3050, 3090, 4020):   # these have no flag vector
                fl = flags_of(vs)
                if len(fl) >= 2 and fl[1] in xbe:
                    xbe[fl[1]] += 1
                if code == stat_code and len(fl) >= 5 and fl[4] == 1:
                    stats.append((fl[2] - fl[3]) / 1000.0)
    ev = {"implementation_panics": panics,
          "cross_backend_identity": {"identical": xbe[1], "different": xbe[0], "outside_common_domain": xbe[2]}}
    if stats:
        ev["noise_vs_library_formula_bits"] = {"records": len(stats), "max": max(stats), "min": min(stats), "mean": sum(stats) / len(stats),
                                               "margin_bits": 2.0, "above_margin": sum(1 for s in stats if s > 2.0)}
        if any(s > 2.0 for s in stats):
            notes.append("supporting evidence: measured noise exceeds the library formula by more than the margin on some records")
    return ev
