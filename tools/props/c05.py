"""C05 — ciphertext multiplication (tensor, relinearise, plain, constant) scales right; HAL bivariate convolution."""
import subprocess
from pathlib import Path

PROPS_VO = "Props/C05.vo"
EXTRA_VO = ["Model/C05Oracle.vo"]
PROFILES = ["release"]
RULE = ("harness c05, three streams.  (1) HAL convolution 5001..5004: cnv_prepare_left/right/self(mask) + cnv_apply_dft / "
        "cnv_pairwise_apply_dft(i == j, i != j) / cnv_by_const_apply on FFT64Ref/Avx, NTT120Ref/Avx, N = 8..32, operand and prepared "
        "sizes 1..5, destination sizes below/at/above a+b, offsets 0..a+b+2, masks, 1..2 destination columns with known prior content, "
        "inputs inside the backend's magnitude domain; the whole destination is observed after idft and must equal the exact model bit for bit; "
        "two garbage fills (flag).  (2) keyless core level 5101..5107: glwe_tensor_apply/_add_assign/_square, glwe_mul_plain(_assign), "
        "glwe_mul_const(_assign) on ciphertext columns filled with balanced digits (random / extreme / alternating / sparse), rank 1..3, "
        "a_k != b_k incl. k mod base2k != 0 (mask path), result precision below/at/above the full product, cross-radix results, "
        "cnv_offset 0..(a+b+1)*base2k-1; output limbs must equal the model bit for bit and satisfy the phase identity for a synthetic secret; "
        "5108 glwe_tensor_relinearize on random tensor and tensor-key limbs (key dumped before preparation, dsize 1..3, dnum below/at/above the "
        "tensor's digits, key radix equal to / different from the tensor's and the result's) reproduced bit for bit by the gadget model of C03. "
        "(3) real keys 5201..5203 (extra phase): encrypt, multiply, decrypt the tensor with (1, s, s(x)s), relinearise with tensor keys of "
        "dsize 1..3 and radix equal to / different from the tensor's, decrypt with s; exact phases recomputed by the oracle; explicit envelopes. "
        "distinct = distinct (op, params, inputs) lines")
ASSUMPTIONS = [
    "inputs inside the backend's magnitude domain (FFT64: 4 * terms * n * 2^(2(b-1)) < 2^50); the exactness of the f64 FFT / NTT120 butterflies "
    "enters through the bit-exact correspondence (C07), the theorems are over exact products",
    "n >= 8 (the FFT64 convolution kernels process blocks of 8 coefficients; for n < 8 they compute nothing), sizes >= 1",
    "normalize_value_ok / nrm_no_overflow / nrm_shape (one unit of the result's last limb per big-normalisation) are named Section hypotheses of the "
    "general core-level theorems; they are discharged from C08's normalize_inter_value for the FFT64 family with equal radices "
    "(C05_tensor_phase_fft64, C05_mul_plain_phase_fft64) and for the NTT120 family with equal radices from C08Wide (C05_tensor_phase_ntt120, ..); for cross-radix results they remain hypotheses",
    "relinearisation: modelled bit for bit on C03's gadget product (Model/C05Relin.v); its phase theorems take C03's key-row hypothesis "
    "key_rows_ok (`keyswitch_phase`) and, in C05_relinearize_phase, the per-column normalize_value_ok (discharged for FFT64 in C05_relinearize_phase_full); "
    "theorems for tensor radix = key radix (the cross-radix pre-normalisation is correspondence-checked only)",
    "operations run with exactly their declared *_tmp_bytes of scratch (garbage-filled); cnv_offset <= (a.size + b.size + 1) * base2k - 1 "
    "(beyond, `a.size() + b.size() - cnv_offset_hi` underflows: debug builds panic)",
    "level 2: the relinearised ciphertext is reproduced bit for bit from the dumped tensor key AND judged by the oracle's envelope (gadget bound with B = 20 >= 6 sigma)",
]
TRUSTED = ["secret key coefficients are obtained by replaying ScalarZnx::fill_ternary_prob on a copy with the same seed (GLWESecret has no public accessor)"]

K_RESCOL = "fft64.cnv_apply_dft.res_col_ignored"
K_RELIN_RADIX = "relinearize.res_radix_decides_conversion"
K_DSIZE3 = "gglwe_product.dsize_ge3.stale_limb"


def _hex(x):
    return -int(x[1:], 16) if x.startswith("-") else int(x, 16)


def _l2_bits(record):
    """which sub-checks of the level-2 oracle fail: re-judge the record under the virtual opcodes 53xy (x = 1,2,3 for 5201,5202,5203; y = bit)"""
    from check import OCAML
    drv = OCAML / "gen" / "c05" / "drv"
    code, rest = record.split("#", 1)
    base = {"5201": 5310, "5202": 5320, "5203": 5330}[code]
    lines = "".join(f"{base + i}#{rest}\n" for i in range(8))
    tmp = Path("/verif/work/c05/l2_bits.txt")
    tmp.parent.mkdir(parents=True, exist_ok=True)
    tmp.write_text(lines)
    out = subprocess.run([str(drv), str(tmp)], stdout=subprocess.PIPE, text=True, timeout=600).stdout
    bits = set()
    for l in out.splitlines():
        t = l.split()
        if len(t) >= 3 and t[2] == "0":
            bits.add(int(t[0]) - 1)
    return bits


def classify(record):
    """no class of C05 is known-and-open: the three classes found while building the check were repaired in /repo
    (fft64.cnv_apply_dft.res_col_ignored 2ac1856, relinearize.res_radix_decides_conversion 5107ea7,
    gglwe_product.dsize_ge3.stale_limb c0a89d7), so every oracle failure is a violation.  `_l2_bits(record)` tells which
    sub-check of a level-2 record fails (0 keyless bit-exactness, 1 tensor/product phase, 2 decrypt of it, 3 relinearised phase,
    4 decrypt of it, 5/6 scratch independence, 7 relinearisation bit-exact on the dumped key)."""
    return None


def search(ctx, diffs):
    """the proof or the correspondence broke: look for an input on which the property statement itself fails (three more seeds of
    every stream); a failure of a known class does not count"""
    from check import HARNESS, OCAML
    binp = HARNESS / "target" / "release" / "c05"
    drv = OCAML / "gen" / "c05" / "drv"
    cand = [d["record"] for d in diffs[:50]]
    for s in range(1, 4):
        for tier in ("quick", "l2-quick"):
            recs = ctx.harness_gen(binp, tier, ctx.seed + 1000 * s, tag=f"_search_{tier}_{s}")
            lines = recs.read_text().splitlines()
            for (n, c, o, _) in ctx.drive(drv, recs):
                if o == 0 and classify(lines[n - 1]) is None:
                    cand.insert(0, lines[n - 1])
                    return {"property": "C05", "kind": "oracle-failure-found-by-search", "records": [lines[n - 1].rsplit("#", 1)[0] + "#"],
                            "observed": lines[n - 1][:2000], "note": "found while widening the search after a broken proof / correspondence"}
    return None


def extra(ctx, ofails, notes):
    """level 2: real keys; the correspondence column of the driver is not used here (the key-dependent outputs are judged by the oracle,
    which also re-runs the model on the keyless part and compares bit for bit)"""
    from check import HARNESS, OCAML
    binp = HARNESS / "target" / "release" / "c05"
    drv = OCAML / "gen" / "c05" / "drv"
    recs = ctx.harness_gen(binp, "l2-" + ctx.tier, ctx.seed, tag="_l2")
    lines = recs.read_text().splitlines()
    verdicts = ctx.drive(drv, recs)
    cov = {"l2_records": 0, "l2_oracle_holds": 0, "l2_oracle_fails": 0, "l2_panics": 0, "l2_by_op": {}}
    for (n, c, o, _) in verdicts:
        line = lines[n - 1]
        code = line.split("#", 1)[0]
        cov["l2_records"] += 1
        cov["l2_by_op"][code] = cov["l2_by_op"].get(code, 0) + 1
        if line.split("#")[3].startswith("PANIC"):
            cov["l2_panics"] += 1
            ofails.append({"profile": "release", "record": line})
        elif o == 1:
            cov["l2_oracle_holds"] += 1
        else:
            cov["l2_oracle_fails"] += 1
            ofails.append({"profile": "release", "record": line})
            if cov["l2_oracle_fails"] <= 3:
                try:
                    notes.append("level-2 record %d fails sub-checks %s" % (n, sorted(_l2_bits(line))))
                except Exception:
                    pass
    notes.append("level 2 (real keys): %d records, oracle holds %d, fails %d, panics %d" %
                 (cov["l2_records"], cov["l2_oracle_holds"], cov["l2_oracle_fails"], cov["l2_panics"]))
    return {"level2": cov}
