"""C02 — noise-free GLWE/GGSW operations commute with the decryption phase."""
import subprocess
from pathlib import Path

PROPS_VO = "Props/C02.vo"
PROFILES = ["release"]
RULE = ("harness c02: the public GLWE/GGSW operation traits of poulpy-core (add/sub/negate/copy/rotate/mul_xp_minus_one/"
        "rsh/lsh/lsh_add/lsh_sub/normalize incl. cross radix/maybe_cross_normalize_to_{ref,mut}, every _assign form, "
        "ggsw_rotate(_assign)) on FFT64Ref/FFT64Avx/NTT120Ref/NTT120Avx, N in {8,16,32}, ranks 0..3 incl. rank-0 operands mixed with "
        "ciphertexts and a.rank < res.rank, independent limb counts 1..5 for res/a/b, rotation k over Z (negative, >= 2N, i64 extremes), "
        "shifts 0..(size+2)*base2k, radix pairs 1..50 x 1..50, scratch exactly at / 8 bytes below / above the documented tmp_bytes, "
        "~6% calls that violate a documented assertion (the model must predict the panic), random straight-line programs of length <= 12 "
        "over four registers; every column holds random limb data (normalised / un-normalised within headroom / boundary digits), "
        "a random ternary secret per record; the model predicts the whole result ciphertext limb for limb; the oracle recomputes the exact "
        "phases (Z[X]/(X^N+1), unbounded integers) of operands and of the implementation's result and checks the property statement; "
        "a panic on a call that satisfies every documented assertion is a failure; distinct = distinct (op, params, inputs)")
ASSUMPTIONS = [
    "release-mode (wrapping) integer semantics; generated digits stay below 2^57 so that no 64-bit wrap occurs in the exact operations "
    "(the theorems carry the no-wrap hypothesis explicitly)",
    "C02_phase_shift / C02_phase_normalize (same radix) are unconditional: `column_value_ok` is discharged with C08's rsh_assign_value, "
    "lsh_assign_value, lsh_value, lsh_sub_value, normalize_inter_value, normalize_assign_value (Proofs/C02Discharge.v imports "
    "Proofs/C08{Chain,Value,Normalize,ShiftValue}.v); glwe_normalize between different radices keeps the hypothesis "
    "(C02_phase_normalize_any_radix_from_column_value) and is covered by the oracle on every record",
    "operands of one call share base2k wherever the function asserts it; glwe_copy / glwe_rotate / glwe_mul_xp_minus_one do not assert it "
    "and are exercised with equal radices only (limb-wise statement); glwe_negate is also exercised with different radices (value statement)",
]
TRUSTED = ["Model/Ring.v, Model/Limbs.v, Model/Flat.v, Model/DftAbs.v (pmul) as validated by C07/C08/C09's own correspondence checks"]

# fixed in /repo: glwe_sub_negate_assign.rank0_operand (efc2285), glwe_lsh.rank_mismatch_panic (4e31282)
KEY_NEG = "glwe_negate.base2k_dead_store"


def _hx(s):
    return int(s, 16)


def _fields(record):
    f = record.split("#")
    code = int(f[0])
    ps = [_hx(x) for x in f[1].split()]
    out = f[3] if len(f) > 3 else ""
    return code, ps, out


def admissible(code, ps):
    """does the call satisfy every assertion the function documents / states (independently of the model)?"""
    if not (2001 <= code <= 2019):
        return None
    opc = code - 2000
    n, scr = ps[1], ps[2]
    rb, rr = ps[4], ps[5]
    ab, ar = ps[7], ps[8]
    bb, br = ps[10], ps[11]
    if opc in (1, 3):
        if not (ab == bb == rb):
            return False
        if ar == 0:
            return rr == br
        if br == 0:
            return rr == ar
        return rr == ar == br
    if opc == 2:
        return rb == ab and ar <= rr
    if opc in (4, 5):
        return rb == ab and (ar == rr or ar == 0)
    if opc in (6, 11):
        return ar == rr
    if opc == 7:
        return True
    if opc in (8, 9):
        return ar == rr or ar == 0
    if opc in (10, 12):
        return scr >= 8 * n
    if opc in (13, 14):
        return scr >= 16 * n
    if opc in (15, 16, 17):
        return scr >= 16 * n and rb == ab and ar <= rr
    if opc == 18:
        return ar == rr and scr >= 24 * n
    if opc == 19:
        return scr >= 24 * n
    return None


def classify(record):
    code, ps, out = _fields(record)
    if code == 2006 and ps[4] != ps[7] and not out.startswith("PANIC"):
        return KEY_NEG
    return None


def extra(ctx, ofails, notes):
    """a panic on an admissible call is a failure of the property ("holds for operands of different ranks ... every in-place variant")"""
    n_adm = n_pan = n_bad = 0
    inadm_ok = 0
    for prof in PROFILES:
        f = ctx.work / f"records_{prof}.txt"
        for tag in ("_replay_" + prof,):
            g = ctx.work / f"records{tag}.txt"
            if g.exists() and (not f.exists() or g.stat().st_mtime > f.stat().st_mtime):
                f = g
        if not f.exists():
            continue
        for line in f.read_text().splitlines():
            code, ps, out = _fields(line)
            adm = admissible(code, ps)
            if adm is None:
                continue
            pan = out.startswith("PANIC")
            if adm:
                n_adm += 1
                if pan:
                    n_pan += 1
                    ofails.append({"profile": prof, "record": line})
            else:
                if pan:
                    inadm_ok += 1
                else:
                    n_bad += 1
                    notes.append("call violating a documented assertion was accepted: " + line[:200])
    notes.append(f"admissible single calls: {n_adm}, of which panicked: {n_pan}; inadmissible calls rejected: {inadm_ok}, accepted: {n_bad}")
    return {"admissible_calls": n_adm, "admissible_panics": n_pan, "inadmissible_rejected": inadm_ok}


def search(ctx, diffs):
    """proof or correspondence broken: widen the generator (more seeds) and look for an input on which the property statement,
    evaluated on the implementation's output, fails outside the known classes"""
    import sys
    sys.path.insert(0, str(Path(__file__).resolve().parent.parent))
    import check as C
    known = {k["key"] for k in C.load_known() if k["property"] == "C02" and k.get("status") == "known"}
    binp = C.HARNESS / "target" / "release" / "c02"
    drv = C.OCAML / "gen" / "c02" / "drv"
    if not binp.exists() or not drv.exists():
        return None
    cand = []
    # the disagreeing records first
    if diffs:
        inp = ctx.work / "search_in.txt"
        inp.write_text("\n".join(d["record"].rsplit("#", 1)[0] + "#" for d in diffs) + "\n")
        cand.append(ctx.harness_exec(binp, inp, tag="_search0"))
    for seed in range(101, 104):
        cand.append(ctx.harness_gen(binp, "quick", seed, tag=f"_search{seed}"))
    for recs in cand:
        lines = recs.read_text().splitlines()
        for (n, c, o, extra_) in ctx.drive(drv, recs):
            line = lines[n - 1]
            code, ps, out = _fields(line)
            bad = (o == 0) or (out.startswith("PANIC") and admissible(code, ps))
            if bad and classify(line) not in known:
                return {"property": "C02", "kind": "search", "what": "property statement false on the implementation's output (found by the widened search)",
                        "records": [line.rsplit("#", 1)[0] + "#"], "observed": line,
                        "replay_cmd": "python3 tools/check.py C02 --replay <this file>"}
    return None
