"""C03 — key-switching family preserves the plaintext within the predicted noise."""
from props import ks_shared as K

PROPS_VO = "Props/C03.vo"
EXTRA_VO = ["Model/C03Run.vo"]
PROFILES = ["release"]
RULE = ("harness c03: real secrets, keys and ciphertexts built with the library at N in {8,16,32} on FFT64Ref/Avx (radices 5..19) and "
        "NTT120Ref/Avx (radices 5..45); every public entry point of the key-switching family: glwe/gglwe/lwe key-switch (in/out of place), "
        "the 8 automorphism variants over every Galois element of (Z/2NZ)* for N <= 32, automorphism of automorphism keys, trace from every "
        "start level, packing of slot subsets (N <= 16, every log_gap_out), lwe_from_glwe at every index, glwe_from_lwe, sample extraction, "
        "a grid of gadget shapes on one encrypted message; the GGSW family with the tensor key of the public generator (ggsw_from_gglwe, ggsw_expand_row, ggsw_keyswitch(_assign), ggsw_automorphism(_assign): every (row, column) cell, rank 3 in every second round) and the rows of the tensor key itself (3091); ranks 1..3 in and out, dsize 1..4 with a_size not a multiple of dsize, dnum "
        "smaller/equal/larger than needed, three-way radix mismatch, inputs with uniform / extreme / alternating / sparse digits, binary and "
        "ternary secrets.  Level L1 (3001/3002): output limbs recomputed bit for bit by the extracted model from the input limbs and the key "
        "dumped before preparation.  Level L2 (all): exact phases under the exact secrets (read through decryption), expected image, "
        "deterministic envelope; each operation run twice from two garbage fills of its scratch space; re-run on the three other backends "
        "inside the common magnitude domain (radices <= 17) and compared byte for byte; key rows of freshly encrypted keys (3090).  "
        "distinct = distinct (op, params, inputs) lines")
ASSUMPTIONS = [
    "proof over exact products: DFT-domain objects denote exact integer polynomials (C07's bit-exact correspondence; the f64 FFT bound is not proved); "
    "harness radices keep FFT64 inside its exact magnitude domain",
    "key-row lemma (row r of a key encrypts s_in 2^-((r+1) dsize b) under s_out with |e| <= 20 * 2^-k) is a named Section hypothesis of the phase theorems; "
    "it is checked on every freshly generated key by the oracle (code 3090), not proved for the key-encryption routine",
    "per-column normalisation value facts are taken from C08 (hypothesis normalize_value_ok where used)",
    "every operation runs in exactly its declared tmp_bytes; glwe_pack inputs are no larger than the result (the size query is sized for the result layout and larger inputs are rejected at entry)",
    "GLWEPacker is exercised with log_batch = 0 only; LWE key-switch, packing and the packer are checked at level L2 only",
]
TRUSTED = ["secret coefficients are read through glwe_decrypt of a crafted ciphertext (GLWESecret has no public accessor)",
           "measured-noise statistics use the library's own glwe_noise and a transcription of var_noise_gglwe_product_v2 (supporting evidence only)"]


def classify(record):
    # no open finding class: glwe_packer.combine.cross_radix was repaired in /repo (a58cce6)
    return None


def extra(ctx, ofails, notes):
    return K.scan(ctx, ofails, notes, 3001)
