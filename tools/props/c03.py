"""C03 — key-switching family preserves the plaintext within the predicted noise."""
PROPS_VO = "Props/C03.vo"
EXTRA_VO = ["Model/C03Run.vo"]
PROFILES = ["release"]
RULE = ("harness c03: real keys and ciphertexts built with the library at N in {8,16,32}; every record carries the exact secrets "
        "(read through decryption), the input limbs and the key as dumped before preparation")
ASSUMPTIONS = []
def classify(record):
    return None
