"""C06 — fresh ciphertexts carry the configured randomness: full noise, uniform mask."""
PROPS_VO = "Props/C06.vo"
PROFILES = ["release"]
RULE = ("harness c06: (a) GLWE / LWE secret-key encryption under controlled changes of plaintext, secret seed, error seed, mask seed "
        "(byte comparison of mask columns and body; the model encrypts the five input tuples itself), (b) standard GGLWE / switching / "
        "automorphism / tensor / GGLWE->GGSW / LWE switching / GLWE->LWE / LWE->GLWE keys, GGSW and the entries of a CGGI blind-rotation key: every cell reproduced by the model from (plaintext, secret, raw mask stream, "
        "replayed errors; mask stream and errors of the WHOLE object are given, the model derives each entry's share) and error_is_full checked by "
        "the oracle with the exact phase; masks of all cells of all entries pairwise distinct; compressed composite objects: stored seeds predicted from "
        "the root seed through a seed->stream table (one- and two-level derivation) and pairwise distinct, (c) statistics over >= 2^14 coefficients per layout "
        "(two-sided variance band, chi-square on mask digits) as support, (d) scheme-layer entry points that take both sources: CKKS ckks_encrypt_sk, "
        "binary-FHE FheUint::encrypt_sk (mask predicted from the MASK seed's stream; flags under a changed plaintext / error seed / mask seed), and "
        "generation of the composite binary-FHE keys (CircuitBootstrappingKey, BDDKey with and without GLWE bridge): the mask of every cell of every "
        "sub-key predicted from its share of the one mask stream in encryption order (bridge, GLWE->LWE key, automorphism keys by Galois element, "
        "blind-rotation key, GGLWE->GGSW key), masks pairwise distinct, same flags")
ASSUMPTIONS = ["release-mode (wrapping) integer semantics", "DFT-domain products exact inside the backend's magnitude domain (C07)",
               "statistics: the acceptance bands treat the rounded samples as Gaussian with variance in [V(1-2^-16), V(1+2^-16)+1/6] "
               "(sigma >= 3.2, bound = 6 sigma); they are support for the tie, not proof"]
TRUSTED = ["ChaCha8 and rand_distr::Normal are outside the model: their statistical quality is measured, not proved"]
def classify(record):
    return None
