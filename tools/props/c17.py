"""C17 - safe API calls never access memory outside the buffers they were given."""
import os, shutil, subprocess, sys, time
from pathlib import Path

VERIF = Path(__file__).resolve().parent.parent.parent
sys.path.insert(0, str(VERIF / "tools"))

PROPS_VO = "Props/C17.vo"
EXTRA_VO = ["Model/C17Run.vo"]
PROFILES = ["release"]
RULE = ("harness c17: one record = a HISTORY applied to one operand (fresh view / set_size below capacity / reallocate_limbs / "
        "write_to+read_from with spare writer capacity / header-corrupted stream / grown to max_size / carved out of an unaligned "
        "scratch window by take_* / view at an 8-byte shifted address / from_data on a short buffer / set_size beyond capacity / REJECTED read_from of a self-consistent stream describing a larger "
        "object (each dimension bumped in turn; VecZnx, ScalarZnx, MatZnx, carved GLWE operands, GGLWE and GGSW keys) after which the "
        "receiver - header as its accessors report it after the Err - is used) followed by ONE observed "
        "operation of the HAL families (vec_znx ring ops, normalise/shift, big ops, dft/idft incl. the in-place consume, svp, vmp, the convolution layer: cnv_prepare_left/right/self, cnv_apply_dft, "
        "cnv_pairwise_apply_dft with a_size, b_size in 1..5 independently, result sizes 1..7, offsets 0..a+b, cnv_by_const_apply; the prepared "
        "operands are exact-size from_data views so that a read past them lands in the two-fill guard zone) "
        "on 4 backends, n from 1 where the family admits it, 1..3 columns, sizes 1,2,3,5, exact-size scratch window; every operand "
        "and the scratch live in one allocation between guard zones, run twice from two garbage fills; outputs = "
        "[status, canaries intact, hook violations, digests equal] + the subject's header as the accessors report it; the model "
        "predicts header and status from the layout model; the oracle requires Inv of the observed header, intact canaries, no "
        "hook violation, equal digests.  Scheme layers (opcodes 100..112): CKKS add / mul / rescale on 4 backends and FheUint prepare (circuit "
        "bootstrapping) / add circuit / glwe_blind_rotation on the FFT64 backends with owned operands and the scratch window carved "
        "in the arena at the smallest accepted length (bisection) and a shifted start.  Hazard stream (isolated processes, oracle only): small-n zones, operands of another "
        "ring degree, ill-formed subjects actually used.  distinct = distinct (backend, op, n, history, shapes)")
ASSUMPTIONS = [
    "what is proved is the LOGIC of addressing (index arithmetic of the layouts, arena, reference loops, compaction order); "
    "intrinsic bodies, assembly, allocator layout and uninitialised memory are observed only through canaries / two-fill digests / "
    "the accessor hook / sanitizers (support tools, never the verdict)",
    "usize arithmetic of the accessors does not overflow for headers satisfying Inv with |data| < 2^63 (the model is over Z); "
    "the wrapping product in read_from IS modelled",
    "release profile: debug_assert!s and overflow checks are compiled out",
    "the accessor hook (work/proposed_hooks/c17_bounds.diff) is optional: without the cargo feature `c17hook` the violation "
    "count is reported as 0",
]
TRUSTED = [
    "guard zones of 4096 bytes around every operand: an out-of-bounds access further away than that is not seen by the canaries",
]

# zone 17001 (FFT64Avx DFT-domain kernels at n < 8) is retired: repaired by fd67345, those shapes are in the main stream now
ZONE_KEY = {17002: "fft64.vmp.n_lt_8.noop", 17003: "ntt120.vmp.n1.noop", 17004: "ring_degree_mismatch.unchecked"}
# history 9 = from_data on a short buffer: every layout validates since 2067fe8 / 122d562 (a panic is the expected outcome);
# histories 3..6 (read_from) are repaired by 206cd69.  No history leaves an ill-formed object any more: no known class.
HIST_KEY = {}


def _parse(record):
    f = record.strip().split("#")
    code = int(f[0])
    ps = [int(x, 16) for x in f[1].split()]
    outs = f[3] if len(f) > 3 else ""
    o = None
    if outs and not outs.startswith(("PANIC", "CRASH")):
        o = [[int(x, 16) for x in v.split()] for v in outs.split(";")]
    return code, ps, o, outs


def classify(record):
    """known-finding class of a failing record: the ZONE of the hazard stream, or the history that left the subject ill-formed"""
    try:
        code, ps, o, outs = _parse(record)
    except Exception:
        return None
    hist = ps[3]
    if code in ZONE_KEY:
        return ZONE_KEY[code]
    if code == 17005:
        return HIST_KEY.get(hist)
    if code == 17000 and o and o[0] and o[0][0] == 3 and o[0][1] == 1 and o[0][2] == 0:
        # the safe-API history produced an object that violates Inv; nothing was run
        return HIST_KEY.get(hist)
    return None


def _bin():
    import check
    return check.HARNESS / "target" / "release" / "c17"


def _isolated(ctx, lines, tag):
    """run every record in its own process (a hazard record may crash the process); returns output lines"""
    binp = _bin()
    one_in, one_out = ctx.work / f"one_in{tag}.txt", ctx.work / f"one_out{tag}.txt"
    res = []
    for l in lines:
        one_in.write_text(l + "\n")
        if one_out.exists():
            one_out.unlink()
        try:
            p = subprocess.run([str(binp), "exec", str(one_in), str(one_out)], stdout=subprocess.PIPE, stderr=subprocess.STDOUT, timeout=120)
            rc = p.returncode
        except subprocess.TimeoutExpired:
            rc = "timeout"
        if rc == 0 and one_out.exists() and one_out.read_text().strip():
            res.append(one_out.read_text().strip())
        else:
            res.append(l.rsplit("#", 1)[0] + f"#CRASH:{rc}")
    return res


def _hazard(ctx, ofails, notes):
    import check
    binp = _bin()
    lst = ctx.work / "hazard_in.txt"
    rc, log = check.run([str(binp), "list", ctx.tier if ctx.tier in ("quick", "thorough") else "quick", str(ctx.seed), str(lst), "hazard"])
    if rc != 0:
        raise RuntimeError("c17 list hazard failed:\n" + log[-2000:])
    lines = [l for l in lst.read_text().splitlines() if l.strip()]
    outs = _isolated(ctx, lines, "_hz")
    ran = [l for l in outs if "#CRASH:" not in l]
    recs = ctx.work / "records_hazard.txt"
    recs.write_text("\n".join(ran) + "\n")
    drv = check.build_driver("C17")
    verdicts = ctx.drive(drv, recs)
    st = {}
    for l in outs:
        if "#CRASH:" in l:
            z = int(l.split("#", 1)[0])
            d = st.setdefault(z, {"records": 0, "holds": 0, "fails": 0, "crash": 0, "canary": 0, "digest": 0, "rejected": 0, "hook": 0})
            d["records"] += 1; d["crash"] += 1; d["fails"] += 1
            ofails.append({"profile": "release", "record": l})
    for (n, c, o, _x) in verdicts:
        l = ran[n - 1]
        code, ps, out, raw = _parse(l)
        d = st.setdefault(code, {"records": 0, "holds": 0, "fails": 0, "crash": 0, "canary": 0, "digest": 0, "rejected": 0, "hook": 0})
        d["records"] += 1
        if out is None:
            d["rejected"] += 1               # a defined panic during input preparation
            continue
        if out[0][0] in (1, 2):
            d["rejected"] += 1
        if o == 1:
            d["holds"] += 1
        elif o == 0:
            d["fails"] += 1
            if out[0][1] == 0: d["canary"] += 1
            if out[0][0] == 0 and out[0][3] == 0: d["digest"] += 1
            if out[0][2] != 0: d["hook"] += 1
            ofails.append({"profile": "release", "record": l})
    names = {17002: "FFT64 vmp n<8", 17003: "NTT120 vmp n=1", 17004: "other ring degree",
             }
    for z in sorted(st):
        notes.append(f"hazard zone {names.get(z, z)}: {st[z]}")
    return {"hazard_stream": {names.get(z, str(z)): st[z] for z in sorted(st)}}


# ---------------------------------------------------------------------------------------------------------------
# support tools (thorough tier): results are notes, never the verdict

def _scratch_harness(ctx, name):
    """copy of the harness crate (own target dir) so that a sanitizer build never disturbs the main one"""
    d = ctx.work / name
    d.mkdir(parents=True, exist_ok=True)
    for f in ["Cargo.toml", "Cargo.lock", "rust-toolchain.toml"]:
        shutil.copy(VERIF / "harness" / f, d / f)
    if (d / "src").exists():
        shutil.rmtree(d / "src")
    shutil.copytree(VERIF / "harness" / "src", d / "src")
    if (VERIF / "harness" / ".cargo").exists():
        shutil.copytree(VERIF / "harness" / ".cargo", d / ".cargo", dirs_exist_ok=True)
    return d


def _support(ctx, notes):
    """AddressSanitizer / valgrind memcheck / Miri.  In these runs (C17_SEPARATE=1) every operand region and the scratch
    window is its own exact-size heap allocation, so that the tools' redzones sit directly behind each of them."""
    import check
    env = dict(check.ENV)
    out = {}
    sample = ctx.work / "support_in.txt"
    rc, log = check.run([str(_bin()), "list", "quick", str(ctx.seed), str(sample)])
    main_all = [l for l in sample.read_text().splitlines() if l.strip()]
    hz = ctx.work / "hazard_in.txt"
    hz_lines = [l for l in hz.read_text().splitlines() if l.strip()] if hz.exists() else []

    def classes(stderr):
        return [x.split("AddressSanitizer:")[1].split(" on ")[0].strip() for x in stderr.splitlines() if "ERROR: AddressSanitizer" in x]

    # 1. AddressSanitizer (the runtime ships with the pinned nightly)
    try:
        d = _scratch_harness(ctx, "asan")
        env_a = dict(env, RUSTFLAGS="-Zsanitizer=address --cfg poulpy_verif -C target-feature=+avx2,+fma",
                     ASAN_OPTIONS="detect_leaks=0:halt_on_error=1", C17_SEPARATE="1")
        t0 = time.time()
        rc, log = check.run(["cargo", "build", "--offline", "--release", "--features", "avx", "--bin", "c17", "--target", "x86_64-unknown-linux-gnu"],
                            cwd=d, env=env_a, timeout=1500)
        if rc != 0:
            notes.append("asan: build failed: " + " ".join(log.split())[-300:])
            out["asan"] = "build failed"
        else:
            b = d / "target" / "x86_64-unknown-linux-gnu" / "release" / "c17"
            rep = {"build_s": round(time.time() - t0, 1)}
            (ctx.work / "asan_in.txt").write_text("\n".join(main_all) + "\n")
            p = subprocess.run([str(b), "exec", str(ctx.work / "asan_in.txt"), str(ctx.work / "asan_out.txt")], env=env_a,
                               stdout=subprocess.PIPE, stderr=subprocess.STDOUT, text=True, errors="replace", timeout=1200)
            rep["main_stream"] = {"records": len(main_all), "rc": p.returncode, "reports": classes(p.stdout)[:3]}
            hrep = {}
            first = None
            for l in hz_lines:
                (ctx.work / "asan_in1.txt").write_text(l + "\n")
                p = subprocess.run([str(b), "exec", str(ctx.work / "asan_in1.txt"), str(ctx.work / "asan_out1.txt")], env=env_a,
                                   stdout=subprocess.PIPE, stderr=subprocess.STDOUT, text=True, errors="replace", timeout=300)
                z = l.split("#", 1)[0]
                c = classes(p.stdout)
                k = c[0] if c else ("clean" if p.returncode == 0 else f"rc={p.returncode}")
                hrep.setdefault(z, {}).setdefault(k, 0)
                hrep[z][k] += 1
                if c and first is None:
                    fr = [x.strip() for x in p.stdout.splitlines() if x.strip().startswith(("#0", "#1", "READ", "WRITE"))]
                    first = {"record": l.rsplit("#", 2)[0][:160], "log": " | ".join(fr[:3])[:500]}
            rep["hazard_stream"] = hrep
            rep["first_report"] = first
            notes.append(f"asan (each operand its own exact-size allocation): {rep}")
            out["asan"] = rep
    except Exception as e:
        notes.append("asan: skipped: " + str(e)[:300])
    # 2. valgrind memcheck on the release binary; non-input bytes left UNINITIALISED so that a result that depends on them
    #    is flagged when the two digests are compared
    try:
        if shutil.which("valgrind"):
            env_v = dict(env, C17_SEPARATE="1", C17_UNINIT="1")
            rep = {}
            for kind, ls in (("main", main_all[::5][:400]), ("hazard", hz_lines[::2][:150])):
                (ctx.work / "vg_in.txt").write_text("\n".join(ls) + "\n")
                p = subprocess.run(["valgrind", "--error-exitcode=0", "-q", str(_bin()), "exec", str(ctx.work / "vg_in.txt"), str(ctx.work / "vg_out.txt")],
                                   env=env_v, stdout=subprocess.PIPE, stderr=subprocess.STDOUT, text=True, errors="replace", timeout=1500)
                errs = [x.split("== ", 1)[1] for x in p.stdout.splitlines() if x.startswith("==") and ("Invalid" in x or "uninitialised" in x)]
                rep[kind] = {"records": len(ls), "rc": p.returncode, "distinct_errors": sorted(set(errs))[:4]}
            notes.append(f"valgrind memcheck (non-input bytes uninitialised): {rep}")
            out["valgrind"] = rep
        else:
            notes.append("valgrind: not installed")
    except Exception as e:
        notes.append("valgrind: skipped: " + str(e)[:300])
    # 3. Miri (only on the unpinned nightly) on the reference backends at tiny n
    try:
        d = _scratch_harness(ctx, "miri")
        (d / "rust-toolchain.toml").unlink(missing_ok=True)
        (d / ".cargo").mkdir(exist_ok=True)
        (d / ".cargo" / "config.toml").write_text("[net]\noffline = true\n[env]\nCFLAGS = \"-std=gnu17\"\n")
        env_m = dict(env, RUSTFLAGS="--cfg poulpy_verif -C target-feature=+avx2,+fma", MIRIFLAGS="-Zmiri-disable-isolation -Zmiri-ignore-leaks")
        env_m.pop("RUSTUP_TOOLCHAIN", None)
        def sel(l):
            ps = [int(x, 16) for x in l.split("#")[1].split()]
            return ps[0] in (1, 3) and ps[2] in (2, 4) and ps[1] < 50 and ps[3] in (0, 1, 7, 8)
        ls = [l for l in main_all if sel(l)][:12]
        (ctx.work / "miri_in.txt").write_text("\n".join(ls) + "\n")
        cmd = ["cargo", "+nightly", "miri", "run", "--offline", "--features", "avx", "--bin", "c17", "--", "exec",
               str(ctx.work / "miri_in.txt"), str(ctx.work / "miri_out.txt")]
        # (i) as the library is: the first owned buffer that is dropped is the documented allocator layout mismatch
        p0 = subprocess.run(cmd, cwd=d, env=env_m, stdout=subprocess.PIPE, stderr=subprocess.STDOUT, text=True, errors="replace", timeout=2400)
        ub0 = [x.strip() for x in p0.stdout.splitlines() if x.startswith("error: Undefined Behavior")]
        # (ii) harness Miri mode: the arena is allocated by the harness and leaked, so that Miri gets past that report
        p = subprocess.run(cmd, cwd=d, env=dict(env_m, C17_MIRI="1"), stdout=subprocess.PIPE, stderr=subprocess.STDOUT, text=True, errors="replace", timeout=2400)
        ub = [x.strip() for x in p.stdout.splitlines() if x.startswith("error")]
        done = len([x for x in (ctx.work / "miri_out.txt").read_text().splitlines() if x.strip()]) if (ctx.work / "miri_out.txt").exists() else 0
        notes.append(f"miri (+nightly, reference backends, n in {{2,4}}, vec_znx / big families): as is: " +
                     (ub0[0][:220] if ub0 else f"rc={p0.returncode}, no UB reported") +
                     f"; harness-allocated arena: {done}/{len(ls)} records completed, rc={p.returncode}, " +
                     ("first error: " + ub[0][:300] if ub else "no error reported"))
        out["miri"] = {"as_is": ub0[:1], "arena_mode": {"records": len(ls), "completed": done, "rc": p.returncode, "errors": ub[:2]}}
    except Exception as e:
        notes.append("miri: skipped: " + str(e)[:300])
    return out


def extra(ctx, ofails, notes):
    cov = _hazard(ctx, ofails, notes)
    if ctx.tier == "thorough" or os.environ.get("C17_SUPPORT"):
        cov["support_tools"] = _support(ctx, notes)
    return cov


def search(ctx, diffs):
    """proof or correspondence broke: look, over more seeds of the thorough main stream, for an input on which the property
    statement itself fails and that is not a known class"""
    import check
    known = {k["key"] for k in check.load_known() if k["property"] == "C17"}
    drv = check.build_driver("C17")
    found = []
    for seed in range(ctx.seed + 1, ctx.seed + 6):
        try:
            recs = ctx.harness_gen(_bin(), "thorough", seed, tag="_search")
        except Exception as e:
            ctx.notes.append("search: " + str(e)[:300])
            continue
        lines = recs.read_text().splitlines()
        for (n, c, o, _x) in ctx.drive(drv, recs):
            if o == 0:
                key = classify(lines[n - 1])
                if key not in known:
                    found.append((key, lines[n - 1]))
        if found:
            break
    if not found:
        return None
    found.sort(key=lambda kl: (len(kl[1]), kl[1]))
    key, line = found[0]
    return {"property": "C17", "kind": "search-found", "class": key,
            "what": "a canary was overwritten / the accessor hook fired / the output depends on garbage bytes / a safe history left an ill-formed object",
            "records": [line.rsplit("#", 1)[0] + "#"], "observed": line, "other_failures": len(found) - 1,
            "replay_cmd": "python3 tools/check.py C17 --replay <this file>"}


def check(prop, tier, seed, replay=None):
    """entry point used by tools/check.py: a memory fault in the implementation can kill the harness process outright
    (the main stream runs in one process); the stream is therefore first run once on its own, and when the process dies
    every record is re-run in an isolated process to name the crashing input - that record is the replay."""
    import check as C, json, time as _t
    mod = sys.modules[__name__]
    if replay:
        return C.generic_check(prop, tier, seed, mod, replay)
    binp, blog = C.build_harness(prop, "release")
    if binp is None:
        return C.generic_check(prop, tier, seed, mod, replay)     # reported there
    ctx = C.Ctx(prop, tier, seed)
    probe = ctx.work / "probe.txt"
    t0 = _t.time()
    rc, log = C.run([str(binp), "gen", tier, str(seed), str(probe)], timeout=3000)
    if rc == 0:
        return C.generic_check(prop, tier, seed, mod, replay)
    lst = ctx.work / "probe_in.txt"
    C.run([str(binp), "list", tier, str(seed), str(lst)])
    lines = [l for l in lst.read_text().splitlines() if l.strip()]
    outs = _isolated(ctx, lines, "_probe")
    crashed = [l for l in outs if "#CRASH:" in l]
    first = crashed[0] if crashed else None
    payload = {"property": prop, "kind": "oracle-failure", "class": None,
               "what": "the harness process was killed while running this input (memory fault inside the implementation): "
                       "an access left the buffers it was given",
               "records": [first.rsplit("#", 1)[0] + "#"] if first else [], "observed": first, "profile": "release",
               "harness_exit": rc, "crashing_records": len(crashed),
               "replay_cmd": f"python3 tools/check.py {prop} --replay <this file>"}
    rp = C.write_replay(prop, "crash", payload)
    print(f"VIOLATION property={prop} replay={rp}" + ("" if first else " no-failing-input-found"))
    C.write_evidence(prop, {"property_id": prop, "tier": tier, "seed": seed, "level": "proof",
                            "coverage": {"notes": [f"main stream killed the harness (exit {rc}); {len(crashed)} of {len(lines)} records crash in isolation"],
                                         "evaluations": len(lines)},
                            "assumptions": ASSUMPTIONS, "wall_s": round(_t.time() - t0, 1), "violations": 1})
    print(f"{prop}: harness crashed; crashing records={len(crashed)} exit=1")
    return 1
