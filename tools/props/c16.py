"""C16 — CKKS evaluator tracks values and precision metadata through any program."""
import os
from pathlib import Path

PROPS_VO = "Props/C16.vo"
EXTRA_VO = ["Model/C16Oracle.vo"]      # the oracle is extracted but is not a dependency of Props/C16.vo
PROFILES = ["release", "debug"]     # debug = overflow checks on: usize under/overflow panics instead of wrapping
RULE = ("harness c16: straight-line CKKS programs generated while being executed on FFT64Ref and NTT120Ref "
        "(n = 128/256, base2k 19/16 and 52/45), 6 registers of unequal limb counts, operands of unequal "
        "log_delta/log_budget, smaller destinations, in-place forms, rotations with/without keys, near-limit constants; "
        "one record = one program, one output row (status, log_delta, log_budget, limbs) per step; "
        "distinct = distinct (params, program) lines.  Value stream (extra phase): the same kind of programs with a shadow "
        "complex evaluation, max slot error * 2^log_delta per step compared with the envelope of Model/C16Oracle.v; "
        "encode->decode identity for the f64 encoder for 2..4096 slots")
ASSUMPTIONS = [
    "metadata fields and caller scalars below 2^63 (theorem hypothesis `wf`); the overflow probes of the harness show what happens above",
    "admissible calls: ciphertexts with at least one limb; ckks_encrypt_sk with 1 <= noise k and ceil(k/base2k) <= limbs of the destination "
    "(poulpy-core asserts it); plaintext/ciphertext base2k equal in products; to_znx_at_k with k >= 1",
    "value tracking is checked (measured against an explicit worst-case envelope), not proved; the f64 rounding of encode/decode is outside every theorem",
    "f128 plaintexts and the AVX backends are not exercised (f128 is a dev-dependency of poulpy-ckks; CKKSImpl for the AVX backends needs poulpy-ckks/enable-avx, "
    "which the shared harness manifest does not enable)",
    "add_many / mul_many / dot_product composites are not modelled",
]
TRUSTED = ["shadow complex evaluation and decrypt/decode path of harness/src/bin/c16.rs (f64)"]

HUGE = 1 << 63
UNARY_INTO_POLLUTERS = {14, 16, 18, 20, 22, 24, 26, 28, 30, 54, 56, 58, 60}
PRODUCT_OPS = {32, 33, 34, 35, 36, 37, 38, 39, 44, 45, 46, 49, 50, 51}
CONST_ADD_OPS = set(range(22, 30))


def _hex(x):
    return -int(x[1:], 16) if x.startswith("-") else int(x, 16)


def _uses(op, d, a, b):
    """registers read by the step (the destination is read by the in-place forms)"""
    into1 = {14, 16, 18, 20, 22, 24, 26, 28, 30, 34, 36, 38, 40, 42, 54, 56, 58, 60, 62, 67}
    acc1 = {45, 46, 47, 48, 50, 51, 52, 53}
    if op in (1, 2):
        return set()
    if op in (10, 12, 32):
        return {a, b}
    if op in (44, 49):
        return {d, a, b}
    if op in (11, 13, 33) or op in acc1:
        return {d, a}
    if op in into1:
        return {a}
    if op == 64:
        return {d, b}
    return {d}


def classify(record):
    """key of the known-finding class that explains *every* offending row of the record, else None.
    offending row = panic (99) or Ok with log_delta + log_budget > limbs * base2k."""
    try:
        code, ps, vs, outs = record.split("#")
        if int(code) not in (16001, 16002) or outs.startswith("PANIC"):
            return None
        B = _hex(ps.split()[2])
        steps = [[_hex(x) for x in s.split()] for s in vs.split(";")]
        rows = [[_hex(x) for x in r.split()] for r in outs.split(";")]
    except Exception:
        return None
    tainted = set()       # registers whose metadata is inconsistent (or whose content derives from such a register)
    keys = []
    meta = {}             # register -> (log_delta, log_budget) as last reported
    for s, r in zip(steps, rows):
        op, d, a, b = s[0], s[1], s[2], s[3]
        st, ld, lb, size = r[0], r[1], r[2], r[3]
        used = _uses(op, d, a, b)
        # ct x ct product of operands with "mixed" metadata (one has the larger log_delta, the other the larger log_budget)
        if st == 0 and op in (32, 33, 44, 49):
            x, y = (meta.get(d), meta.get(a)) if op == 33 else (meta.get(a), meta.get(b))
            if x and y and (x[0] - y[0]) * (x[1] - y[1]) < 0:
                keys.append("C16:mul_ct.mixed_meta_wrong_scale")
                tainted.add(d)
        if st != 99:
            meta[d] = (ld, lb)
            if op == 64 and len(r) >= 7:
                meta[b] = (r[4], r[5])
        huge = any(x >= HUGE for x in s[4:])
        exceeds = st != 99 and (ld + lb > size * B or ld >= HUGE or lb >= HUGE)
        if op == 64 and st == 0 and len(r) >= 7 and r[4] + r[5] > r[6] * B:
            exceeds = True
        if st == 99:
            if huge and op in (54, 56, 68):
                keys.append("C16:usize_overflow.huge_scalar")
            elif used & tainted:
                keys.append("C16:error_path.stale_meta")
            elif op in CONST_ADD_OPS:
                keys.append("C16:add_const.digits_beyond_dst")
            elif op in (36, 37, 45, 50) and s[9] != B:
                keys.append("C16:mul_pt.base2k_mismatch_panics")
            elif op in PRODUCT_OPS:
                keys.append("C16:mul.noncompact_operand_panics")
            else:
                return None
            break
        if st == 0 and huge and op in (54, 56, 68):
            keys.append("C16:usize_overflow.huge_scalar")
            tainted.add(d)
            continue
        if st != 0:
            if exceeds:
                # a failed call left the destination with metadata it cannot hold
                if d in tainted or op in UNARY_INTO_POLLUTERS or op == 2 or (used & tainted):
                    tainted.add(d)
                else:
                    return None
            continue
        if exceeds:
            if used & tainted:
                keys.append("C16:error_path.stale_meta")
            elif op == 62:
                keys.append("C16:rescale_into.smaller_dst")
            else:
                return None
            tainted.add(d)
        else:
            if used & tainted and op not in (1, 2):
                tainted.add(d)      # value derives from garbage; metadata happens to fit
            else:
                tainted.discard(d)
        if op == 64 and len(r) >= 7 and r[4] + r[5] > r[6] * B:
            tainted.add(b)
    if int(code) == 16002 and not keys and tainted:
        keys.append("C16:error_path.stale_meta")
    return keys[0] if keys else None


def extra(ctx, ofails, notes):
    """value stream: shadow complex evaluation against the envelope oracle, and encode->decode identity (oracle only)"""
    from check import HARNESS, OCAML
    binp = HARNESS / "target" / "release" / "c16"
    drv = OCAML / "gen" / "c16" / "drv"
    recs = ctx.harness_gen(binp, "value:" + ctx.tier, ctx.seed, tag="_value")
    lines = recs.read_text().splitlines()
    verdicts = ctx.drive(drv, recs)
    cov = {"value_records": 0, "value_oracle_holds": 0, "value_oracle_fails": 0, "encdec_records": 0,
           "value_steps_measured": 0, "max_err_scaled_by_op": {}}
    for (n, c, o, _) in verdicts:
        line = lines[n - 1]
        code = line.split("#", 1)[0]
        if code == "16003":
            cov["encdec_records"] += 1
        else:
            cov["value_records"] += 1
        if o == 1:
            cov["value_oracle_holds"] += 1
        elif o == 0:
            cov["value_oracle_fails"] += 1
            ofails.append({"profile": "release", "record": line})
        if code == "16002" and not line.split("#")[3].startswith("PANIC"):
            _, _, vs, outs = line.split("#")
            for s, r in zip(vs.split(";"), outs.split(";")):
                op = str(_hex(s.split()[0]))
                rr = [_hex(x) for x in r.split()]
                if len(rr) >= 6 and rr[4] >= 0:
                    cov["value_steps_measured"] += 1
                    m = cov["max_err_scaled_by_op"]
                    m[op] = max(m.get(op, 0), rr[4])
    notes.append("value stream: %d programs, %d measured steps, %d encode/decode records; oracle fails %d" %
                 (cov["value_records"], cov["value_steps_measured"], cov["encdec_records"], cov["value_oracle_fails"]))
    return {"value_tracking": cov}
